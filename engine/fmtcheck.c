/* fmtcheck.c - independent HDF4 format reader (descriptor level).  See fmtcheck.h.
 * Written from the format description: file = magic 0E 03 13 01, then a chain of DD blocks
 * [int16 ndds][int32 next][ndds x (uint16 tag, uint16 ref, int32 offset, int32 length)], big-endian. */
#include "fmtcheck.h"
#include <stdarg.h>
#include <stdio.h>
#include <stdlib.h>
#include <string.h>

void
fc_error(fc_file *f, const char *fmt, ...)
{
    if (f->nerr < 8) {
        va_list ap;
        va_start(ap, fmt);
        vsnprintf(f->err[f->nerr], sizeof f->err[0], fmt, ap);
        va_end(ap);
    }
    f->nerr++;
}

static uint16_t
be16(const uint8_t *p)
{
    return (uint16_t)((p[0] << 8) | p[1]);
}
static int32_t
be32(const uint8_t *p)
{
    return (int32_t)(((uint32_t)p[0] << 24) | ((uint32_t)p[1] << 16) | ((uint32_t)p[2] << 8) | p[3]);
}

void
fc_free(fc_file *f)
{
    free(f->dd);
    free(f->blk);
    f->dd  = NULL;
    f->blk = NULL;
}

static int
cmp_off(const void *a, const void *b)
{
    const fc_dd *x = *(const fc_dd *const *)a, *y = *(const fc_dd *const *)b;
    if (x->off != y->off)
        return x->off < y->off ? -1 : 1;
    return 0;
}

static int
cmp_u32(const void *a, const void *b)
{
    uint32_t x = *(const uint32_t *)a, y = *(const uint32_t *)b;
    return x < y ? -1 : x > y;
}

int
fc_parse(fc_file *f, const uint8_t *b, long size)
{
    void *keep = (void *)f->ext_open;
    memset(f, 0, sizeof *f);
    f->ext_open = (uint8_t * (*)(const char *, long *)) keep;
    f->b        = b;
    f->size     = size;
    if (size < 4 || b[0] != 0x0e || b[1] != 0x03 || b[2] != 0x13 || b[3] != 0x01) {
        fc_error(f, "bad magic number");
        return f->nerr;
    }
    long pos    = 4;
    int  capdd  = 64, capblk = 8;
    f->dd       = malloc((size_t)capdd * sizeof(fc_dd));
    f->blk      = malloc((size_t)capblk * sizeof(fc_block));
    while (pos != 0) {
        if (pos < 4 || pos + 6 > size) {
            fc_error(f, "DD block header at %ld outside file (size %ld)", pos, size);
            return f->nerr;
        }
        for (int i = 0; i < f->nblk; i++)
            if (f->blk[i].off == pos) {
                fc_error(f, "DD block chain is cyclic at offset %ld", pos);
                return f->nerr;
            }
        int  ndds = (int16_t)be16(b + pos);
        long next = be32(b + pos + 2);
        if (ndds <= 0) {
            fc_error(f, "DD block at %ld has ndds=%d", pos, ndds);
            return f->nerr;
        }
        if (pos + 6 + (long)ndds * 12 > size) {
            fc_error(f, "DD block at %ld (ndds=%d) extends beyond file size %ld", pos, ndds, size);
            return f->nerr;
        }
        if (next < 0) {
            fc_error(f, "DD block at %ld has negative next offset %ld", pos, next);
            return f->nerr;
        }
        if (f->nblk == capblk) {
            capblk *= 2;
            f->blk = realloc(f->blk, (size_t)capblk * sizeof(fc_block));
        }
        f->blk[f->nblk].off  = pos;
        f->blk[f->nblk].ndds = ndds;
        f->blk[f->nblk].next = next;
        for (int i = 0; i < ndds; i++) {
            const uint8_t *p   = b + pos + 6 + (long)i * 12;
            uint16_t       tag = be16(p), ref = be16(p + 2);
            int32_t        off = be32(p + 4), len = be32(p + 8);
            if (tag == FC_TAG_NULL) {
                f->nfree++;
                continue;
            }
            if (f->ndd == capdd) {
                capdd *= 2;
                f->dd = realloc(f->dd, (size_t)capdd * sizeof(fc_dd));
            }
            fc_dd *d = &f->dd[f->ndd++];
            d->tag   = tag;
            d->ref   = ref;
            d->off   = off;
            d->len   = len;
            d->ddpos = pos + 6 + (long)i * 12;
            d->block = f->nblk;
        }
        f->nblk++;
        pos = next;
    }
    /* per-descriptor checks */
    for (int i = 0; i < f->ndd; i++) {
        fc_dd *d = &f->dd[i];
        if (d->tag == 0)
            fc_error(f, "descriptor %d has tag 0", i);
        if (d->ref == 0 && d->tag != FC_TAG_NULL)
            fc_error(f, "descriptor (tag %u) has ref 0", d->tag);
        if (d->off == -1 && d->len == -1)
            continue; /* defined, no data yet */
        if (d->off < 0 || d->len < 0)
            fc_error(f, "descriptor (%u,%u) has negative offset/length %d/%d", d->tag, d->ref, d->off, d->len);
        else if ((long)d->off + (long)d->len > size)
            fc_error(f, "descriptor (%u,%u) offset %d + length %d beyond file size %ld", d->tag, d->ref, d->off,
                     d->len, size);
        else if (d->len > 0 && d->off < 4)
            fc_error(f, "descriptor (%u,%u) overlaps the magic number", d->tag, d->ref);
    }
    /* duplicates of (base tag, ref) */
    {
        uint32_t *keys = malloc((size_t)(f->ndd ? f->ndd : 1) * sizeof(uint32_t));
        for (int i = 0; i < f->ndd; i++)
            keys[i] = ((uint32_t)fc_base(f->dd[i].tag) << 16) | f->dd[i].ref;
        qsort(keys, (size_t)f->ndd, sizeof *keys, cmp_u32);
        for (int i = 1; i < f->ndd; i++)
            if (keys[i] == keys[i - 1])
                fc_error(f, "duplicate tag/ref (%u,%u)", keys[i] >> 16, keys[i] & 0xffff);
        free(keys);
    }
    /* overlap: live data extents vs DD blocks and vs each other (identical extents = deliberate alias) */
    {
        int           n   = 0;
        const fc_dd **v   = malloc((size_t)(f->ndd ? f->ndd : 1) * sizeof *v);
        for (int i = 0; i < f->ndd; i++)
            if (f->dd[i].len > 0 && f->dd[i].off >= 0 && (long)f->dd[i].off + f->dd[i].len <= size)
                v[n++] = &f->dd[i];
        qsort(v, (size_t)n, sizeof *v, cmp_off);
        long prev_end = -1;
        const fc_dd *prev = NULL;
        for (int i = 0; i < n; i++) {
            if (prev && v[i]->off < prev_end) {
                if (v[i]->off != prev->off) /* same start = deliberate alias (Hdupdd, possibly truncated) */
                    fc_error(f, "elements (%u,%u)@%d+%d and (%u,%u)@%d+%d overlap", prev->tag, prev->ref, prev->off,
                             prev->len, v[i]->tag, v[i]->ref, v[i]->off, v[i]->len);
            }
            if ((long)v[i]->off + v[i]->len > prev_end) {
                prev_end = (long)v[i]->off + v[i]->len;
                prev     = v[i];
            }
            for (int k = 0; k < f->nblk; k++) {
                long bo = f->blk[k].off, be = bo + 6 + 12L * f->blk[k].ndds;
                if (v[i]->off < be && (long)v[i]->off + v[i]->len > bo)
                    fc_error(f, "element (%u,%u)@%d+%d overlaps DD block at %ld", v[i]->tag, v[i]->ref, v[i]->off,
                             v[i]->len, bo);
            }
        }
        free(v);
        for (int a = 0; a < f->nblk; a++)
            for (int c = a + 1; c < f->nblk; c++) {
                long ao = f->blk[a].off, ae = ao + 6 + 12L * f->blk[a].ndds;
                long co = f->blk[c].off, ce = co + 6 + 12L * f->blk[c].ndds;
                if (ao < ce && co < ae)
                    fc_error(f, "DD blocks at %ld and %ld overlap", ao, co);
            }
    }
    return f->nerr;
}

const fc_dd *
fc_find(const fc_file *f, uint16_t basetag, uint16_t ref)
{
    for (int i = 0; i < f->ndd; i++)
        if (fc_base(f->dd[i].tag) == basetag && f->dd[i].ref == ref)
            return &f->dd[i];
    return NULL;
}

const fc_dd *
fc_find_exact(const fc_file *f, uint16_t tag, uint16_t ref)
{
    for (int i = 0; i < f->ndd; i++)
        if (f->dd[i].tag == tag && f->dd[i].ref == ref)
            return &f->dd[i];
    return NULL;
}

/* ===================================================================== special elements */
/* Description records, as published in the format description:
 *   linked  : int16 1, int32 length, int32 block_length, int32 number_blocks, uint16 link_ref
 *             block table (tag 20, link_ref): uint16 next_table_ref, number_blocks x uint16 block_ref (0 = never written)
 *   external: int16 2, int32 length, int32 offset, int32 name_length, name
 *   compress: int16 3, uint16 version, int32 length, uint16 comp_ref, uint16 model, uint16 coder, coder parameters
 *   chunked : int16 5, int32 header_len, uint8 version, int32 flag, int32 elem_tot_len, int32 chunk_size, int32 nt_size,
 *             uint16 tbl_tag, uint16 tbl_ref, uint16 sp_tag, uint16 sp_ref, int32 ndims, ndims x (int32 flag, dim_len, chunk_len),
 *             int32 fill_len, fill bytes, [int16 comp special tag, int32 header len, uint16 model, uint16 coder, parameters] */
int
fc_special_info(fc_file *f, const fc_dd *d, fc_special *s)
{
    memset(s, 0, sizeof *s);
    if (!fc_is_special(d->tag))
        return 0;
    if (d->len < 2 || d->off < 0 || (long)d->off + d->len > f->size)
        return -1;
    const uint8_t *p = f->b + d->off, *end = p + d->len;
    s->special       = (int16_t)be16(p);
    p += 2;
    switch (s->special) {
        case FC_SPECIAL_LINKED:
            if (end - p < 14)
                return -1;
            s->logical_len = be32(p);
            s->blk_len     = be32(p + 4);
            s->num_blk     = be32(p + 8);
            s->link_ref    = be16(p + 12);
            return 0;
        case FC_SPECIAL_EXT: {
            if (end - p < 12)
                return -1;
            s->logical_len = be32(p);
            s->ext_off     = be32(p + 4);
            long nl        = be32(p + 8);
            if (nl < 0 || nl > (long)sizeof s->ext_name - 1 || end - (p + 12) < nl)
                return -1;
            memcpy(s->ext_name, p + 12, (size_t)nl);
            s->ext_name[nl] = 0;
            return 0;
        }
        case FC_SPECIAL_COMP: {
            if (end - p < 12)
                return -1;
            s->logical_len = be32(p + 2);
            s->comp_ref    = be16(p + 6);
            s->model_type  = be16(p + 8);
            s->coder_type  = be16(p + 10);
            p += 12;
            int np = 0;
            if (s->coder_type == 2) { /* nbit: nt, sign_ext, fill_one, start_bit, bit_len */
                if (end - p < 16)
                    return -1;
                s->coder_params[0] = be32(p);
                s->coder_params[1] = be16(p + 4);
                s->coder_params[2] = be16(p + 6);
                s->coder_params[3] = be32(p + 8);
                s->coder_params[4] = be32(p + 12);
                np                 = 5;
            }
            else if (s->coder_type == 3) { /* skipping huffman */
                if (end - p < 8)
                    return -1;
                s->coder_params[0] = be32(p);
                s->coder_params[1] = be32(p + 4);
            }
            else if (s->coder_type == 4) { /* deflate */
                if (end - p < 2)
                    return -1;
                s->coder_params[0] = be16(p);
            }
            (void)np;
            return 0;
        }
        case FC_SPECIAL_CHUNKED: {
            if (end - p < 4 + 1 + 4 + 4 + 4 + 4 + 2 + 2 + 2 + 2 + 4)
                return -1;
            long hlen = be32(p);
            p += 4;
            const uint8_t *hend = p + hlen;
            if (hlen < 0 || hend > end)
                return -1;
            p += 1; /* version */
            s->chunk_flag  = be32(p) & 0xff;
            s->logical_len = be32(p + 4);
            s->chunk_size  = be32(p + 8);
            s->nt_size     = be32(p + 12);
            s->chk_tbl_tag = be16(p + 16);
            s->chk_tbl_ref = be16(p + 18);
            s->ndims       = be32(p + 24);
            p += 28;
            if (s->ndims < 1 || s->ndims > 32 || end - p < 12L * s->ndims + 4)
                return -1;
            for (int i = 0; i < s->ndims; i++) {
                s->dim_len[i]   = be32(p + 4);
                s->chunk_len[i] = be32(p + 8);
                p += 12;
            }
            s->fill_len = be32(p);
            p += 4;
            if (s->fill_len < 0 || s->fill_len > (long)sizeof s->fill || end - p < s->fill_len)
                return -1;
            memcpy(s->fill, p, (size_t)s->fill_len);
            p += s->fill_len;
            s->logical_len *= s->nt_size;
            if (s->chunk_flag & 1) { /* compressed chunks: int16 sp tag, int32 len, comp header (version, len, ref, model, coder...) */
                if (end - p < 6 + 4)
                    return -1;
                p += 6; /* the header that follows is (uint16 model, uint16 coder, coder parameters) */
                s->model_type    = be16(p);
                s->coder_type    = be16(p + 2);
                s->chk_comp_type = s->coder_type;
            }
            return 0;
        }
        default:
            return 0; /* other special kinds are not decoded */
    }
}

static const fc_dd *
first_block_dd(fc_file *f, const fc_special *s, uint16_t *firstref)
{
    const fc_dd *t = fc_find_exact(f, FC_TAG_LINKED, s->link_ref);
    if (!t || t->len < 2 + 2 * s->num_blk || t->off < 0)
        return NULL;
    *firstref = be16(f->b + t->off + 2);
    return *firstref ? fc_find_exact(f, FC_TAG_LINKED, *firstref) : NULL;
}

uint8_t *
fc_stored_bytes(fc_file *f, const fc_dd *d, long *len, fc_extent *ext, int maxext, int *next)
{
    fc_special s;
    int        ne = 0;
    if (next)
        *next = 0;
    if (!fc_is_special(d->tag)) {
        if (d->len < 0 || d->off < 0)
            return NULL;
        uint8_t *b = malloc((size_t)(d->len > 0 ? d->len : 1));
        memcpy(b, f->b + d->off, (size_t)d->len);
        *len = d->len;
        if (ext && maxext > 0) {
            ext[0].off = d->off, ext[0].len = d->len, ext[0].external = 0;
            ne = 1;
        }
        if (next)
            *next = ne;
        return b;
    }
    if (fc_special_info(f, d, &s) != 0) {
        fc_error(f, "(%u,%u): malformed description record", d->tag, d->ref);
        return NULL;
    }
    if (s.special == FC_SPECIAL_LINKED) {
        if (s.logical_len < 0 || s.blk_len <= 0 || s.num_blk <= 0) {
            fc_error(f, "(%u,%u): linked-block header fields out of range (len %ld blk %ld n %d)", d->tag, d->ref, s.logical_len, s.blk_len, s.num_blk);
            return NULL;
        }
        uint8_t *b = calloc(1, (size_t)(s.logical_len > 0 ? s.logical_len : 1));
        long     pos = 0;
        uint16_t tref = s.link_ref;
        int      first = 1, tables = 0;
        while (pos < s.logical_len) {
            if (tref == 0)
                break; /* rest never written: zeros */
            const fc_dd *t = fc_find_exact(f, FC_TAG_LINKED, tref);
            if (!t || t->off < 0 || t->len < 2 + 2 * s.num_blk) {
                fc_error(f, "(%u,%u): block table (20,%u) missing or too short", d->tag, d->ref, tref);
                free(b);
                return NULL;
            }
            if (++tables > 100000) {
                fc_error(f, "(%u,%u): block table chain does not end", d->tag, d->ref);
                free(b);
                return NULL;
            }
            const uint8_t *tp = f->b + t->off;
            for (int i = 0; i < s.num_blk && pos < s.logical_len; i++) {
                uint16_t bref = be16(tp + 2 + 2 * i);
                long     blen = s.blk_len;
                const fc_dd *bd = bref ? fc_find_exact(f, FC_TAG_LINKED, bref) : NULL;
                if (bref && !bd) {
                    fc_error(f, "(%u,%u): block (20,%u) referenced by table (20,%u) does not exist", d->tag, d->ref, bref, tref);
                    free(b);
                    return NULL;
                }
                if (first) {
                    /* the first block keeps the length the element had when it became linked */
                    if (bd)
                        blen = bd->len;
                    first = 0;
                }
                long take = blen < s.logical_len - pos ? blen : s.logical_len - pos;
                if (bd && bd->off >= 0) {
                    long have = bd->len < take ? bd->len : take;
                    memcpy(b + pos, f->b + bd->off, (size_t)have);
                    if (ext && ne < maxext) {
                        ext[ne].off = bd->off, ext[ne].len = bd->len, ext[ne].external = 0;
                        ne++;
                    }
                }
                pos += take;
            }
            tref = be16(tp);
        }
        s.first_len = 0;
        *len        = s.logical_len;
        if (next)
            *next = ne;
        return b;
    }
    if (s.special == FC_SPECIAL_EXT) {
        long     esz = 0;
        uint8_t *eb  = f->ext_open ? f->ext_open(s.ext_name, &esz) : NULL;
        if (!eb) {
            fc_error(f, "(%u,%u): external file '%s' not found", d->tag, d->ref, s.ext_name);
            return NULL;
        }
        if (s.ext_off < 0 || s.logical_len < 0 || s.ext_off + s.logical_len > esz) {
            fc_error(f, "(%u,%u): external file '%s' has %ld bytes, element needs offset %ld + length %ld", d->tag, d->ref, s.ext_name, esz, s.ext_off,
                     s.logical_len);
            free(eb);
            return NULL;
        }
        uint8_t *b = malloc((size_t)(s.logical_len > 0 ? s.logical_len : 1));
        memcpy(b, eb + s.ext_off, (size_t)s.logical_len);
        free(eb);
        *len = s.logical_len;
        if (ext && maxext > 0) {
            ext[0].off = s.ext_off, ext[0].len = s.logical_len, ext[0].external = 1;
            ne = 1;
        }
        if (next)
            *next = ne;
        return b;
    }
    if (s.special == FC_SPECIAL_COMP) {
        const fc_dd *cd = fc_find(f, FC_TAG_COMPRESSED, (uint16_t)s.comp_ref);
        if (!cd) {
            fc_error(f, "(%u,%u): compressed data element (40,%d) does not exist", d->tag, d->ref, s.comp_ref);
            return NULL;
        }
        return fc_stored_bytes(f, cd, len, ext, maxext, next);
    }
    return NULL;
}

/* ---- independent decoders ---- */
static uint8_t *
rle_decode(const uint8_t *in, long n, long outlen)
{
    /* run-length scheme of the format: control byte c; c & 0x80 -> run of (c & 0x7f) + 3 copies of the next byte,
       else (c + 1) literal bytes follow */
    uint8_t *o = malloc((size_t)(outlen > 0 ? outlen : 1));
    long     ip = 0, op = 0;
    while (op < outlen && ip < n) {
        int c = in[ip++];
        if (c & 0x80) {
            int cnt = (c & 0x7f) + 3;
            if (ip >= n) {
                free(o);
                return NULL;
            }
            uint8_t v = in[ip++];
            for (int i = 0; i < cnt && op < outlen; i++)
                o[op++] = v;
        }
        else {
            int cnt = c + 1;
            for (int i = 0; i < cnt && op < outlen; i++) {
                if (ip >= n) {
                    free(o);
                    return NULL;
                }
                o[op++] = in[ip++];
            }
        }
    }
    if (op < outlen) {
        free(o);
        return NULL;
    }
    return o;
}

#include <zlib.h>
static uint8_t *
deflate_decode(const uint8_t *in, long n, long outlen)
{
    uint8_t *o = malloc((size_t)(outlen > 0 ? outlen : 1));
    z_stream z;
    memset(&z, 0, sizeof z);
    if (inflateInit(&z) != Z_OK) {
        free(o);
        return NULL;
    }
    z.next_in   = (Bytef *)in;
    z.avail_in  = (uInt)n;
    z.next_out  = o;
    z.avail_out = (uInt)outlen;
    int rc      = inflate(&z, Z_FINISH);
    long got    = (long)z.total_out;
    inflateEnd(&z);
    if ((rc != Z_STREAM_END && rc != Z_OK && rc != Z_BUF_ERROR) || got < outlen) {
        free(o);
        return NULL;
    }
    return o;
}

static uint8_t *
nbit_decode(const uint8_t *in, long n, long outlen, const int *prm)
{
    /* prm: nt, sign_ext, fill_one, start_bit, bit_len; values are stored MSB first, bit_len bits each, packed */
    int size = (prm[0] & 0xfff) == 20 || (prm[0] & 0xfff) == 21 || (prm[0] & 0xfff) == 3 || (prm[0] & 0xfff) == 4 ? 1
               : (prm[0] & 0xfff) == 22 || (prm[0] & 0xfff) == 23                                                  ? 2
               : (prm[0] & 0xfff) == 24 || (prm[0] & 0xfff) == 25 || (prm[0] & 0xfff) == 5                          ? 4
                                                                                                                    : 0;
    if (!size || outlen % size)
        return NULL;
    int  start = prm[3], blen = prm[4], bits = size * 8, lo = start - blen + 1;
    long nvals = outlen / size;
    if (blen < 1 || start >= bits || lo < 0 || (nvals * blen + 7) / 8 > n)
        return NULL;
    uint8_t *o   = malloc((size_t)(outlen > 0 ? outlen : 1));
    long     bp  = 0;
    uint32_t all = bits >= 32 ? 0xffffffffu : ((1u << bits) - 1u);
    for (long v = 0; v < nvals; v++) {
        uint32_t field = 0;
        for (int i = 0; i < blen; i++, bp++)
            field = (field << 1) | ((in[bp >> 3] >> (7 - (bp & 7))) & 1u);
        uint32_t fm   = (blen >= 32 ? 0xffffffffu : ((1u << blen) - 1u)) << lo;
        uint32_t low  = lo > 0 ? ((1u << lo) - 1u) : 0;
        uint32_t high = all & ~(fm | low);
        uint32_t r    = (field << lo) & fm;
        if (prm[2])
            r |= low;
        if (prm[1]) {
            if ((field >> (blen - 1)) & 1u)
                r |= high;
        }
        else if (prm[2])
            r |= high;
        for (int b = 0; b < size; b++)
            o[v * size + b] = (uint8_t)(r >> (8 * (size - 1 - b)));
    }
    return o;
}

uint8_t *
fc_logical_bytes(fc_file *f, const fc_dd *d, long *len, int *unsupported)
{
    fc_special s;
    if (unsupported)
        *unsupported = 0;
    if (!fc_is_special(d->tag))
        return fc_stored_bytes(f, d, len, NULL, 0, NULL);
    if (fc_special_info(f, d, &s) != 0) {
        fc_error(f, "(%u,%u): malformed description record", d->tag, d->ref);
        return NULL;
    }
    if (s.special == FC_SPECIAL_LINKED || s.special == FC_SPECIAL_EXT)
        return fc_stored_bytes(f, d, len, NULL, 0, NULL);
    if (s.special == FC_SPECIAL_COMP) {
        long     clen = 0;
        uint8_t *c    = fc_stored_bytes(f, d, &clen, NULL, 0, NULL);
        if (!c)
            return NULL;
        uint8_t *o = NULL;
        switch (s.coder_type) {
            case 0: /* none */
                if (clen >= s.logical_len) {
                    o = malloc((size_t)(s.logical_len > 0 ? s.logical_len : 1));
                    memcpy(o, c, (size_t)s.logical_len);
                }
                break;
            case 1: o = rle_decode(c, clen, s.logical_len); break;
            case 2: o = nbit_decode(c, clen, s.logical_len, s.coder_params); break;
            case 4: o = deflate_decode(c, clen, s.logical_len); break;
            default:
                if (unsupported)
                    *unsupported = 1;
                free(c);
                return NULL;
        }
        free(c);
        if (!o)
            fc_error(f, "(%u,%u): compressed stream (coder %d, %ld bytes) does not decode to the recorded length %ld", d->tag, d->ref, s.coder_type, clen,
                     s.logical_len);
        *len = s.logical_len;
        return o;
    }
    if (unsupported)
        *unsupported = 1;
    return NULL;
}

/* ====================================================================== object level (Vdata header, Vgroup, chunked) */
/* VH record: int16 interlace, int32 nvert, uint16 ivsize, int16 nfields, nfields x int16 type, x uint16 isize, x uint16 off,
 *            x uint16 order, nfields x (int16 len, name), int16 len + name, int16 len + class, uint16 extag, exref,
 *            int16 version, int16 more, [version 4: uint32 flags, if bit0: int32 nattrs, nattrs x (int32 findex, uint16 tag, ref)],
 *            int16 version, int16 more, one spare byte */
int
fc_vdata_header(fc_file *f, const fc_dd *d, fc_vh *h)
{
    memset(h, 0, sizeof *h);
    if (d->off < 0 || d->len < 10 || (long)d->off + d->len > f->size)
        return -1;
    const uint8_t *p = f->b + d->off, *end = p + d->len;
#define NEED(n)                                                                                                                      \
    if (end - p < (n))                                                                                                               \
    return -1
    NEED(10);
    h->interlace = (int16_t)be16(p);
    h->nvert     = be32(p + 2);
    h->ivsize    = be16(p + 6);
    h->nfields   = (int16_t)be16(p + 8);
    p += 10;
    if (h->nfields < 0 || h->nfields > FC_MAXFIELDS)
        return -1;
    NEED(8L * h->nfields);
    for (int i = 0; i < h->nfields; i++) {
        h->type[i]  = (int16_t)be16(p + 2 * i);
        h->isize[i] = be16(p + 2 * (h->nfields + i));
        h->off[i]   = be16(p + 2 * (2 * h->nfields + i));
        h->order[i] = be16(p + 2 * (3 * h->nfields + i));
    }
    p += 8L * h->nfields;
    for (int i = 0; i < h->nfields; i++) {
        NEED(2);
        int l = (int16_t)be16(p);
        p += 2;
        if (l < 0 || l > 128)
            return -1;
        NEED(l);
        memcpy(h->fname[i], p, (size_t)l);
        h->fname[i][l] = 0;
        p += l;
    }
    for (int k = 0; k < 2; k++) {
        NEED(2);
        int l = (int16_t)be16(p);
        p += 2;
        if (l < 0 || l > 64)
            return -1;
        NEED(l);
        memcpy(k ? h->cls : h->name, p, (size_t)l);
        (k ? h->cls : h->name)[l] = 0;
        p += l;
    }
    NEED(8);
    h->extag   = be16(p);
    h->exref   = be16(p + 2);
    h->version = (int16_t)be16(p + 4);
    p += 8;
    if (h->version == 4) {
        NEED(4);
        uint32_t flags = (uint32_t)be32(p);
        p += 4;
        if (flags & 1) {
            NEED(4);
            h->nattrs = be32(p);
            p += 4;
            if (h->nattrs < 0 || h->nattrs > FC_MAXATTRS)
                return -1;
            NEED(8L * h->nattrs);
            for (int i = 0; i < h->nattrs; i++) {
                h->afindex[i] = be32(p);
                h->atag[i]    = be16(p + 4);
                h->aref[i]    = be16(p + 6);
                p += 8;
            }
        }
    }
    return 0;
#undef NEED
}

/* VG record: uint16 nvelt, nvelt x uint16 tag, nvelt x uint16 ref, uint16 len + name, uint16 len + class, uint16 extag, exref,
 *            [version 4: uint32 flags, if bit0: int32 nattrs, nattrs x (uint16 tag, ref)], uint16 version, uint16 more, spare byte */
int
fc_vgroup(fc_file *f, const fc_dd *d, fc_vg *g)
{
    memset(g, 0, sizeof *g);
    if (d->off < 0 || d->len < 2 || (long)d->off + d->len > f->size)
        return -1;
    const uint8_t *p = f->b + d->off, *end = p + d->len;
    g->nvelt         = be16(p);
    p += 2;
    if (end - p < 4L * g->nvelt + 4)
        return -1;
    g->tag = malloc(2 * (size_t)(g->nvelt + 1));
    g->ref = malloc(2 * (size_t)(g->nvelt + 1));
    for (int i = 0; i < g->nvelt; i++) {
        g->tag[i] = be16(p + 2 * i);
        g->ref[i] = be16(p + 2 * (g->nvelt + i));
    }
    p += 4L * g->nvelt;
    for (int k = 0; k < 2; k++) {
        if (end - p < 2)
            goto bad;
        long l = be16(p);
        p += 2;
        if (end - p < l)
            goto bad;
        char *s = malloc((size_t)l + 1);
        memcpy(s, p, (size_t)l);
        s[l] = 0;
        if (k)
            g->cls = s;
        else
            g->name = s;
        p += l;
    }
    if (end - p < 4 + 4)
        goto bad;
    p += 4; /* extag, exref */
    /* the version sits in the last five bytes */
    g->version = be16(end - 5);
    if (g->version == 4 && end - p >= 4 + 5) {
        uint32_t flags = (uint32_t)be32(p);
        p += 4;
        if (flags & 1) {
            if (end - p < 4)
                goto bad;
            g->nattrs = be32(p);
            p += 4;
            if (g->nattrs < 0 || g->nattrs > FC_MAXATTRS || end - p < 4L * g->nattrs + 5)
                goto bad;
            for (int i = 0; i < g->nattrs; i++) {
                g->atag[i] = be16(p);
                g->aref[i] = be16(p + 2);
                p += 4;
            }
        }
    }
    return 0;
bad:
    fc_vg_free(g);
    return -1;
}
void
fc_vg_free(fc_vg *g)
{
    free(g->tag);
    free(g->ref);
    free(g->name);
    free(g->cls);
    memset(g, 0, sizeof *g);
}

/* chunked element: the chunk table is a Vdata (tbl_tag = VH) with fields origin[ndims] int32, chk_tag uint16, chk_ref uint16 */
uint8_t *
fc_chunked_logical(fc_file *f, const fc_dd *d, long *len, int *unsupported, fc_extent *ext, int maxext, int *next)
{
    fc_special s;
    if (unsupported)
        *unsupported = 0;
    if (next)
        *next = 0;
    if (fc_special_info(f, d, &s) != 0 || s.special != FC_SPECIAL_CHUNKED) {
        fc_error(f, "(%u,%u): malformed chunked description record", d->tag, d->ref);
        return NULL;
    }
    long total = s.nt_size, nchunks = 1, cbytes = s.nt_size;
    long nck[32];
    for (int i = 0; i < s.ndims; i++) {
        if (s.dim_len[i] <= 0 || s.chunk_len[i] <= 0) {
            fc_error(f, "(%u,%u): chunked dimension %d has length %ld chunk length %ld", d->tag, d->ref, i, s.dim_len[i], s.chunk_len[i]);
            return NULL;
        }
        total *= s.dim_len[i];
        nck[i] = (s.dim_len[i] + s.chunk_len[i] - 1) / s.chunk_len[i];
        nchunks *= nck[i];
        cbytes *= s.chunk_len[i];
    }
    if (cbytes != s.chunk_size * s.nt_size && cbytes != s.chunk_size) {
        fc_error(f, "(%u,%u): chunk size field %ld does not match chunk lengths (%ld bytes)", d->tag, d->ref, s.chunk_size, cbytes);
        return NULL;
    }
    if (total > (1L << 28))
        return NULL;
    const fc_dd *th = fc_find_exact(f, FC_TAG_VH, s.chk_tbl_ref);
    fc_vh        h;
    if (!th || fc_vdata_header(f, th, &h) != 0) {
        fc_error(f, "(%u,%u): chunk table vdata (1962,%u) missing or malformed", d->tag, d->ref, s.chk_tbl_ref);
        return NULL;
    }
    if (h.nfields != 3 || h.order[0] != s.ndims || h.ivsize != 4 * s.ndims + 4) {
        fc_error(f, "(%u,%u): chunk table vdata has %d fields, record size %d for %d dimensions", d->tag, d->ref, h.nfields, h.ivsize, s.ndims);
        return NULL;
    }
    uint8_t *out = malloc((size_t)(total > 0 ? total : 1));
    /* fill value everywhere first */
    for (long i = 0; i < total; i++)
        out[i] = s.fill_len > 0 ? s.fill[i % s.fill_len] : 0;
    long         tlen = 0;
    const fc_dd *td   = fc_find(f, FC_TAG_VS, s.chk_tbl_ref);
    uint8_t     *tb   = NULL;
    if (h.nvert > 0) {
        int uns = 0;
        tb      = td ? fc_logical_bytes(f, td, &tlen, &uns) : NULL;
        if (!tb || tlen < h.nvert * h.ivsize) {
            fc_error(f, "(%u,%u): chunk table data (1963,%u) missing or shorter than %ld records", d->tag, d->ref, s.chk_tbl_ref, h.nvert);
            free(tb);
            free(out);
            return NULL;
        }
    }
    int ne = 0;
    for (long r = 0; r < h.nvert; r++) {
        const uint8_t *rec = tb + r * h.ivsize;
        long           org[32];
        for (int i = 0; i < s.ndims; i++) {
            org[i] = be32(rec + 4 * i);
            if (org[i] < 0 || org[i] >= nck[i]) {
                fc_error(f, "(%u,%u): chunk record %ld has origin %ld outside 0..%ld in dimension %d", d->tag, d->ref, r, org[i], nck[i] - 1, i);
                free(tb);
                free(out);
                return NULL;
            }
        }
        uint16_t ctag = be16(rec + 4 * s.ndims), cref = be16(rec + 4 * s.ndims + 2);
        const fc_dd *cd = fc_find(f, fc_base(ctag), cref);
        if (!cd) {
            fc_error(f, "(%u,%u): chunk (%u,%u) listed in the chunk table does not exist", d->tag, d->ref, ctag, cref);
            free(tb);
            free(out);
            return NULL;
        }
        long     cl  = 0;
        int      uns = 0;
        uint8_t *cb  = fc_logical_bytes(f, cd, &cl, &uns);
        if (!cb) {
            if (uns && unsupported)
                *unsupported = 1;
            free(tb);
            free(out);
            return NULL;
        }
        if (cl != cbytes) {
            fc_error(f, "(%u,%u): chunk (%u,%u) holds %ld bytes, chunk size is %ld", d->tag, d->ref, ctag, cref, cl, cbytes);
            free(cb);
            free(tb);
            free(out);
            return NULL;
        }
        if (ext && ne < maxext) {
            fc_extent e1[4];
            int       n1 = 0;
            long      sl = 0;
            uint8_t  *sb = fc_stored_bytes(f, cd, &sl, e1, 4, &n1);
            free(sb);
            if (n1 > 0)
                ext[ne++] = e1[0];
        }
        /* scatter the chunk into the array (row-major, last dimension fastest), dropping the ghost area */
        long idx[32] = {0};
        for (;;) {
            long apos = 0, cpos = 0, inside = 1;
            for (int i = 0; i < s.ndims; i++) {
                long a = org[i] * s.chunk_len[i] + idx[i];
                if (a >= s.dim_len[i])
                    inside = 0;
                apos = apos * s.dim_len[i] + a;
                cpos = cpos * s.chunk_len[i] + idx[i];
            }
            if (inside)
                memcpy(out + apos * s.nt_size, cb + cpos * s.nt_size, (size_t)s.nt_size);
            int k = s.ndims - 1;
            while (k >= 0 && ++idx[k] == s.chunk_len[k])
                idx[k--] = 0;
            if (k < 0)
                break;
        }
        free(cb);
    }
    free(tb);
    if (next)
        *next = ne;
    *len = total;
    return out;
}

int
fc_check_objects(fc_file *f)
{
    int before = f->nerr;
    for (int i = 0; i < f->ndd; i++) {
        const fc_dd *d = &f->dd[i];
        if (d->off < 0)
            continue;
        if (fc_is_special(d->tag)) {
            fc_special s;
            if (fc_special_info(f, d, &s) != 0) {
                fc_error(f, "(%u,%u): malformed special-element description record", d->tag, d->ref);
                continue;
            }
            long     l   = 0;
            int      uns = 0;
            uint8_t *b   = s.special == FC_SPECIAL_CHUNKED ? fc_chunked_logical(f, d, &l, &uns, NULL, 0, NULL) : fc_logical_bytes(f, d, &l, &uns);
            free(b);
            continue;
        }
        if (d->tag == FC_TAG_VH) {
            fc_vh h;
            if (fc_vdata_header(f, d, &h) != 0) {
                fc_error(f, "(1962,%u): malformed Vdata header", d->ref);
                continue;
            }
            long sum = 0;
            for (int k = 0; k < h.nfields; k++) {
                if (h.off[k] != sum)
                    fc_error(f, "(1962,%u): field %d offset %d, expected %ld", d->ref, k, h.off[k], sum);
                sum += h.isize[k];
            }
            if (sum != h.ivsize)
                fc_error(f, "(1962,%u): record size %d but fields add up to %ld", d->ref, h.ivsize, sum);
            const fc_dd *vs = fc_find(f, FC_TAG_VS, d->ref);
            if (h.nvert > 0) {
                if (!vs)
                    fc_error(f, "(1962,%u): %ld records but no data element (1963,%u)", d->ref, h.nvert, d->ref);
                else {
                    long     l   = 0;
                    int      uns = 0;
                    uint8_t *b   = fc_logical_bytes(f, vs, &l, &uns);
                    if (b && l < h.nvert * (long)h.ivsize)
                        fc_error(f, "(1962,%u): %ld records of %d bytes but data element holds %ld bytes", d->ref, h.nvert, h.ivsize, l);
                    free(b);
                }
            }
            for (int k = 0; k < h.nattrs; k++)
                if (!fc_find(f, fc_base(h.atag[k]), h.aref[k]))
                    fc_error(f, "(1962,%u): attribute %d refers to (%u,%u) which does not exist", d->ref, k, h.atag[k], h.aref[k]);
        }
        if (d->tag == FC_TAG_VG) {
            fc_vg g;
            if (fc_vgroup(f, d, &g) != 0) {
                fc_error(f, "(1965,%u): malformed Vgroup record", d->ref);
                continue;
            }
            for (int k = 0; k < g.nvelt; k++)
                if ((g.tag[k] == FC_TAG_VG || g.tag[k] == FC_TAG_VH) && !fc_find(f, g.tag[k], g.ref[k]))
                    fc_error(f, "(1965,%u) '%s': member %d refers to (%u,%u) which does not exist", d->ref, g.name, k, g.tag[k], g.ref[k]);
            for (int k = 0; k < g.nattrs; k++)
                if (!fc_find(f, fc_base(g.atag[k]), g.aref[k]))
                    fc_error(f, "(1965,%u): attribute %d refers to (%u,%u) which does not exist", d->ref, k, g.atag[k], g.aref[k]);
            fc_vg_free(&g);
        }
    }
    return f->nerr - before;
}
