/* fmtcheck.c - independent HDF4 format reader (descriptor level).  See fmtcheck.h.
 * Written from the format description: file = magic 0E 03 13 01, then a chain of DD blocks
 * [int16 ndds][int32 next][ndds x (uint16 tag, uint16 ref, int32 offset, int32 length)], big-endian. */
#include "fmtcheck.h"
#include <stdarg.h>
#include <stdio.h>
#include <stdlib.h>
#include <string.h>

void
fc_error(fc_file *f, const char *fmt, ...)
{
    if (f->nerr < 8) {
        va_list ap;
        va_start(ap, fmt);
        vsnprintf(f->err[f->nerr], sizeof f->err[0], fmt, ap);
        va_end(ap);
    }
    f->nerr++;
}

static uint16_t
be16(const uint8_t *p)
{
    return (uint16_t)((p[0] << 8) | p[1]);
}
static int32_t
be32(const uint8_t *p)
{
    return (int32_t)(((uint32_t)p[0] << 24) | ((uint32_t)p[1] << 16) | ((uint32_t)p[2] << 8) | p[3]);
}

void
fc_free(fc_file *f)
{
    free(f->dd);
    free(f->blk);
    f->dd  = NULL;
    f->blk = NULL;
}

static int
cmp_off(const void *a, const void *b)
{
    const fc_dd *x = *(const fc_dd *const *)a, *y = *(const fc_dd *const *)b;
    if (x->off != y->off)
        return x->off < y->off ? -1 : 1;
    return 0;
}

static int
cmp_u32(const void *a, const void *b)
{
    uint32_t x = *(const uint32_t *)a, y = *(const uint32_t *)b;
    return x < y ? -1 : x > y;
}

int
fc_parse(fc_file *f, const uint8_t *b, long size)
{
    void *keep = (void *)f->ext_open;
    memset(f, 0, sizeof *f);
    f->ext_open = (uint8_t * (*)(const char *, long *)) keep;
    f->b        = b;
    f->size     = size;
    if (size < 4 || b[0] != 0x0e || b[1] != 0x03 || b[2] != 0x13 || b[3] != 0x01) {
        fc_error(f, "bad magic number");
        return f->nerr;
    }
    long pos    = 4;
    int  capdd  = 64, capblk = 8;
    f->dd       = malloc((size_t)capdd * sizeof(fc_dd));
    f->blk      = malloc((size_t)capblk * sizeof(fc_block));
    while (pos != 0) {
        if (pos < 4 || pos + 6 > size) {
            fc_error(f, "DD block header at %ld outside file (size %ld)", pos, size);
            return f->nerr;
        }
        for (int i = 0; i < f->nblk; i++)
            if (f->blk[i].off == pos) {
                fc_error(f, "DD block chain is cyclic at offset %ld", pos);
                return f->nerr;
            }
        int  ndds = (int16_t)be16(b + pos);
        long next = be32(b + pos + 2);
        if (ndds <= 0) {
            fc_error(f, "DD block at %ld has ndds=%d", pos, ndds);
            return f->nerr;
        }
        if (pos + 6 + (long)ndds * 12 > size) {
            fc_error(f, "DD block at %ld (ndds=%d) extends beyond file size %ld", pos, ndds, size);
            return f->nerr;
        }
        if (next < 0) {
            fc_error(f, "DD block at %ld has negative next offset %ld", pos, next);
            return f->nerr;
        }
        if (f->nblk == capblk) {
            capblk *= 2;
            f->blk = realloc(f->blk, (size_t)capblk * sizeof(fc_block));
        }
        f->blk[f->nblk].off  = pos;
        f->blk[f->nblk].ndds = ndds;
        f->blk[f->nblk].next = next;
        for (int i = 0; i < ndds; i++) {
            const uint8_t *p   = b + pos + 6 + (long)i * 12;
            uint16_t       tag = be16(p), ref = be16(p + 2);
            int32_t        off = be32(p + 4), len = be32(p + 8);
            if (tag == FC_TAG_NULL) {
                f->nfree++;
                continue;
            }
            if (f->ndd == capdd) {
                capdd *= 2;
                f->dd = realloc(f->dd, (size_t)capdd * sizeof(fc_dd));
            }
            fc_dd *d = &f->dd[f->ndd++];
            d->tag   = tag;
            d->ref   = ref;
            d->off   = off;
            d->len   = len;
            d->ddpos = pos + 6 + (long)i * 12;
            d->block = f->nblk;
        }
        f->nblk++;
        pos = next;
    }
    /* per-descriptor checks */
    for (int i = 0; i < f->ndd; i++) {
        fc_dd *d = &f->dd[i];
        if (d->tag == 0)
            fc_error(f, "descriptor %d has tag 0", i);
        if (d->ref == 0 && d->tag != FC_TAG_NULL)
            fc_error(f, "descriptor (tag %u) has ref 0", d->tag);
        if (d->off == -1 && d->len == -1)
            continue; /* defined, no data yet */
        if (d->off < 0 || d->len < 0)
            fc_error(f, "descriptor (%u,%u) has negative offset/length %d/%d", d->tag, d->ref, d->off, d->len);
        else if ((long)d->off + (long)d->len > size)
            fc_error(f, "descriptor (%u,%u) offset %d + length %d beyond file size %ld", d->tag, d->ref, d->off,
                     d->len, size);
        else if (d->len > 0 && d->off < 4)
            fc_error(f, "descriptor (%u,%u) overlaps the magic number", d->tag, d->ref);
    }
    /* duplicates of (base tag, ref) */
    {
        uint32_t *keys = malloc((size_t)(f->ndd ? f->ndd : 1) * sizeof(uint32_t));
        for (int i = 0; i < f->ndd; i++)
            keys[i] = ((uint32_t)fc_base(f->dd[i].tag) << 16) | f->dd[i].ref;
        qsort(keys, (size_t)f->ndd, sizeof *keys, cmp_u32);
        for (int i = 1; i < f->ndd; i++)
            if (keys[i] == keys[i - 1])
                fc_error(f, "duplicate tag/ref (%u,%u)", keys[i] >> 16, keys[i] & 0xffff);
        free(keys);
    }
    /* overlap: live data extents vs DD blocks and vs each other (identical extents = deliberate alias) */
    {
        int           n   = 0;
        const fc_dd **v   = malloc((size_t)(f->ndd ? f->ndd : 1) * sizeof *v);
        for (int i = 0; i < f->ndd; i++)
            if (f->dd[i].len > 0 && f->dd[i].off >= 0 && (long)f->dd[i].off + f->dd[i].len <= size)
                v[n++] = &f->dd[i];
        qsort(v, (size_t)n, sizeof *v, cmp_off);
        long prev_end = -1;
        const fc_dd *prev = NULL;
        for (int i = 0; i < n; i++) {
            if (prev && v[i]->off < prev_end) {
                if (v[i]->off != prev->off) /* same start = deliberate alias (Hdupdd, possibly truncated) */
                    fc_error(f, "elements (%u,%u)@%d+%d and (%u,%u)@%d+%d overlap", prev->tag, prev->ref, prev->off,
                             prev->len, v[i]->tag, v[i]->ref, v[i]->off, v[i]->len);
            }
            if ((long)v[i]->off + v[i]->len > prev_end) {
                prev_end = (long)v[i]->off + v[i]->len;
                prev     = v[i];
            }
            for (int k = 0; k < f->nblk; k++) {
                long bo = f->blk[k].off, be = bo + 6 + 12L * f->blk[k].ndds;
                if (v[i]->off < be && (long)v[i]->off + v[i]->len > bo)
                    fc_error(f, "element (%u,%u)@%d+%d overlaps DD block at %ld", v[i]->tag, v[i]->ref, v[i]->off,
                             v[i]->len, bo);
            }
        }
        free(v);
        for (int a = 0; a < f->nblk; a++)
            for (int c = a + 1; c < f->nblk; c++) {
                long ao = f->blk[a].off, ae = ao + 6 + 12L * f->blk[a].ndds;
                long co = f->blk[c].off, ce = co + 6 + 12L * f->blk[c].ndds;
                if (ao < ce && co < ae)
                    fc_error(f, "DD blocks at %ld and %ld overlap", ao, co);
            }
    }
    return f->nerr;
}

const fc_dd *
fc_find(const fc_file *f, uint16_t basetag, uint16_t ref)
{
    for (int i = 0; i < f->ndd; i++)
        if (fc_base(f->dd[i].tag) == basetag && f->dd[i].ref == ref)
            return &f->dd[i];
    return NULL;
}

const fc_dd *
fc_find_exact(const fc_file *f, uint16_t tag, uint16_t ref)
{
    for (int i = 0; i < f->ndd; i++)
        if (f->dd[i].tag == tag && f->dd[i].ref == ref)
            return &f->dd[i];
    return NULL;
}
