/* fmtcheck.h - independent reader/validator of the published HDF4 file format.
 * Uses no HDF4 header, macro or decoder. */
#ifndef FMTCHECK_H
#define FMTCHECK_H
#include <stdint.h>
#include <stddef.h>

typedef struct {
    uint16_t tag, ref;
    int32_t  off, len;
    long     ddpos; /* file offset of the 12-byte descriptor */
    int      block; /* index of the DD block it lives in */
} fc_dd;

typedef struct {
    long off;   /* file offset of the block header */
    int  ndds;
    long next;
} fc_block;

typedef struct {
    const uint8_t *b;
    long           size;
    fc_dd         *dd;   /* all non-NULL descriptors, in file order */
    int            ndd;
    fc_block      *blk;
    int            nblk;
    int            nfree; /* NULL descriptors */
    char           err[8][240];
    int            nerr;
    /* resolver for external files: returns malloc'd bytes or NULL */
    uint8_t *(*ext_open)(const char *name, long *size);
} fc_file;

#define FC_TAG_NULL 1
#define FC_TAG_LINKED 20
#define FC_TAG_VERSION 30
#define FC_TAG_COMPRESSED 40
#define FC_TAG_CHUNK 61
#define FC_TAG_VH 1962
#define FC_TAG_VS 1963
#define FC_TAG_VG 1965

#define FC_SPECIAL_LINKED 1
#define FC_SPECIAL_EXT 2
#define FC_SPECIAL_COMP 3
#define FC_SPECIAL_VLINKED 4
#define FC_SPECIAL_CHUNKED 5
#define FC_SPECIAL_BUFFERED 6
#define FC_SPECIAL_COMPRAS 7

/* parse + structural validation of the descriptor level. Returns number of errors. */
int  fc_parse(fc_file *f, const uint8_t *bytes, long size);
void fc_free(fc_file *f);
void fc_error(fc_file *f, const char *fmt, ...) __attribute__((format(printf, 2, 3)));

static inline int
fc_is_special(uint16_t tag)
{
    return (tag & 0x8000) == 0 && (tag & 0x4000) != 0;
}
static inline uint16_t
fc_base(uint16_t tag)
{
    return (tag & 0x8000) ? tag : (uint16_t)(tag & ~0x4000);
}
const fc_dd *fc_find(const fc_file *f, uint16_t basetag, uint16_t ref);
const fc_dd *fc_find_exact(const fc_file *f, uint16_t tag, uint16_t ref);

/* validate every special element, Vdata header and Vgroup record (deep structural checks) */
int fc_check_objects(fc_file *f);

/* a located piece of an element's stored bytes */
typedef struct {
    long off, len;    /* in the main file unless ext != NULL */
    int  external;
} fc_extent;

/* Stored (possibly still encoded) byte stream of an element: follows linked blocks / external.
 * For compressed elements this yields the *compressed* stream of the comp_ref element.
 * Returns malloc'd buffer (caller frees) and sets *len; NULL on error. extents optional. */
uint8_t *fc_stored_bytes(fc_file *f, const fc_dd *d, long *len, fc_extent *ext, int maxext, int *next);

/* Logical (decoded) bytes of an element: linked/external followed, NONE/RLE/NBIT/DEFLATE decoded.
 * Returns NULL (with *unsupported=1) for coders without an independent decoder (skphuff, szip, jpeg)
 * and for chunked elements use fc_chunked_* below. */
uint8_t *fc_logical_bytes(fc_file *f, const fc_dd *d, long *len, int *unsupported);

typedef struct {
    int      special;       /* FC_SPECIAL_* or 0 */
    long     logical_len;   /* element length as recorded in the description record */
    /* linked */
    long     first_len, blk_len;
    int      num_blk;
    uint16_t link_ref;
    /* compressed */
    int      comp_ref, model_type, coder_type;
    int      coder_params[8];
    /* external */
    long     ext_off;
    char     ext_name[1100];
    /* chunked */
    int      ndims;
    long     chunk_size, nt_size;
    uint16_t chk_tbl_tag, chk_tbl_ref;
    long     dim_len[32], chunk_len[32];
    int      chunk_flag;    /* low byte of flag: 0 none, 1 comp, ... */
    int      chk_comp_type;
    long     fill_len;
    uint8_t  fill[64];
} fc_special;

/* decode the description record of a special element; returns 0 on success */
int fc_special_info(fc_file *f, const fc_dd *d, fc_special *s);

#define FC_MAXFIELDS 256
#define FC_MAXATTRS 64
typedef struct {
    int      interlace, ivsize, nfields, version, nattrs;
    long     nvert;
    int      type[FC_MAXFIELDS], isize[FC_MAXFIELDS], off[FC_MAXFIELDS], order[FC_MAXFIELDS];
    char     fname[FC_MAXFIELDS][129];
    char     name[65], cls[65];
    uint16_t extag, exref;
    long     afindex[FC_MAXATTRS];
    uint16_t atag[FC_MAXATTRS], aref[FC_MAXATTRS];
} fc_vh;
int fc_vdata_header(fc_file *f, const fc_dd *d, fc_vh *h);

typedef struct {
    int       nvelt, version, nattrs;
    uint16_t *tag, *ref;
    char     *name, *cls;
    uint16_t  atag[FC_MAXATTRS], aref[FC_MAXATTRS];
} fc_vg;
int  fc_vgroup(fc_file *f, const fc_dd *d, fc_vg *g);
void fc_vg_free(fc_vg *g);

/* logical bytes of a chunked element (row-major array, fill value where no chunk exists); extents = one per stored chunk,
 * in chunk-table order */
uint8_t *fc_chunked_logical(fc_file *f, const fc_dd *d, long *len, int *unsupported, fc_extent *ext, int maxext, int *next);

#endif
