/* main.c - h4mc <property> <quick|thorough|replay> [replay-file] [--out dir] */
#include "mc.h"
#include <stdio.h>
#include <stdlib.h>
#include <string.h>

typedef int (*harness_main)(const char *tier, const char *replay);
#define H(x) int x##_main(const char *tier, const char *replay);
#include "harness_list.h"
#undef H
static struct {
    const char  *id;
    harness_main fn;
} table[] = {
#define H(x) {#x, x##_main},
#include "harness_list.h"
#undef H
};

int
main(int argc, char **argv)
{
    if (argc < 3) {
        fprintf(stderr, "usage: h4mc <id> <quick|thorough|replay> [file] [--out dir]\n");
        return 2;
    }
    const char *id = argv[1], *tier = argv[2], *replay = NULL, *out = NULL;
    for (int i = 3; i < argc; i++) {
        if (strcmp(argv[i], "--out") == 0 && i + 1 < argc)
            out = argv[++i];
        else
            replay = argv[i];
    }
    char outdir[256];
    if (!out) {
        snprintf(outdir, sizeof outdir, "/verif/build/run/%s.%s", id, tier);
        out = outdir;
    }
    for (size_t i = 0; i < sizeof table / sizeof table[0]; i++)
        if (strcasecmp(table[i].id, id) == 0) {
            if (strcmp(tier, "replay") == 0) {
                mc_verbose   = 1;
                mc_replaying = 1;
            }
            mc_init(table[i].id, tier, out);
            int rc = table[i].fn(tier, replay);
            int fr = mc_finish();
            return rc ? rc : fr;
        }
    fprintf(stderr, "unknown harness %s\n", id);
    return 2;
}
