/* mc.c - explorer, counters, reporting.  See mc.h. */
#define _GNU_SOURCE
#include "mc.h"
#include "vfs.h"
#include <errno.h>
#include <fcntl.h>
#include <signal.h>
#include <stdarg.h>
#include <stdio.h>
#include <stdlib.h>
#include <string.h>
#include <sys/mman.h>
#include <sys/stat.h>
#include <sys/time.h>
#include <sys/wait.h>
#include <time.h>
#include <unistd.h>

#define NCOUNTERS 512
#define NSIGS 256
#define NOUTCOMES (1 << 16)
#define NROUNDS 32
#define NODE_TIMEOUT_S 60
#define EXIT_HARNESS 99

typedef struct {
    char name[56];
    long val;
} counter_t;
typedef struct {
    char sig[200];
    long count;
} vsig_t;
typedef struct {
    char   label[64];
    long   states, transitions, traces;
    int    complete;
    double wall;
} round_t;

typedef struct {
    uint64_t key;
    int32_t  depth; /* largest remaining depth this state was expanded with (+1), 0 = empty */
    int32_t  dev;   /* smallest deviation count it was reached with */
} vis_t;

typedef struct {
    counter_t counters[NCOUNTERS];
    vsig_t     sigs[NSIGS];
    uint64_t  outcomes[NOUTCOMES];
    long      noutcomes;
    round_t   rounds[NROUNDS];
    int       nrounds;
    long      states, transitions, traces, pruned;
    long      cases, case_failures;
    int       slots;
    int       deadline_hit;
    int       harness_errors;
    long      nsamples;
    long      nviol_records;
    int       maxdepth_seen;
    long      vis_used;
    char      rule[1500];
    int       asan_pids[4096]; /* ring of pids whose death ASan has already explained */
    long      asan_npids;
} shared_t;

static shared_t *S;
static vis_t    *VIS;
static size_t    VIS_N = (size_t)1 << 24;

static char   g_prop[16], g_tier[16], g_outdir[256];
static double g_t0, g_deadline;
static int    g_viol_fd = -1, g_sample_fd = -1;
static int    g_cfg[32], g_ncfg;
static char   g_cfgdesc[256];
static char   g_case[512];
static mc_op  g_trace[MC_MAXDEPTH];
static int    g_tracelen;
static const mc_harness *g_h;
static int    g_asan_seen;
static int    g_nworkers = 16;
static int    g_seed;
int           mc_verbose;
int           mc_replaying;
static char   g_curop[256];
static char   g_context[64];
static void   scratch_sync(void);

static double
now(void)
{
    struct timespec ts;
    clock_gettime(CLOCK_MONOTONIC, &ts);
    return (double)ts.tv_sec + (double)ts.tv_nsec * 1e-9;
}

uint64_t
mc_hash(uint64_t h, const void *p, size_t n)
{
    const uint8_t *c = p;
    for (size_t i = 0; i < n; i++) {
        h ^= c[i];
        h *= 1099511628211ULL;
    }
    return h;
}

int
mc_nworkers(void)
{
    return g_nworkers;
}
int
mc_seed(void)
{
    return g_seed;
}
const char *
mc_tier(void)
{
    return g_tier;
}
int
mc_is_thorough(void)
{
    return strcmp(g_tier, "thorough") == 0;
}

/* -------------------------------------------------------------- ASan hooks */
void __asan_set_error_report_callback(void (*cb)(const char *)) __attribute__((weak));

const char *
__asan_default_options(void)
{
    return "halt_on_error=0:detect_leaks=0:allocator_may_return_null=1:detect_stack_use_after_return=0:"
           "print_summary=0:abort_on_error=0:max_malloc_fill_size=0:malloc_context_size=2:quarantine_size_mb=2:"
           "allow_user_segv_handler=0:handle_abort=0:print_legend=0";
}

static void
json_escape(const char *s, char *out, size_t n)
{
    size_t o = 0;
    for (; *s && o + 8 < n; s++) {
        unsigned char c = (unsigned char)*s;
        if (c == '"' || c == '\\') {
            out[o++] = '\\';
            out[o++] = (char)c;
        }
        else if (c == '\n') {
            out[o++] = '\\';
            out[o++] = 'n';
        }
        else if (c < 0x20 || c >= 0x7f)
            o += (size_t)snprintf(out + o, n - o, "\\u%04x", c);
        else
            out[o++] = (char)c;
    }
    out[o] = 0;
}

static void write_violation(const char *sig, const char *detail);

static void
asan_cb(const char *report)
{
    /* error type: "ERROR: AddressSanitizer: <type> " */
    char        type[64] = "unknown", func[96] = "?";
    const char *p        = strstr(report, "AddressSanitizer: ");
    if (p) {
        p += strlen("AddressSanitizer: ");
        size_t i = 0;
        while (p[i] && p[i] != ' ' && p[i] != '\n' && i + 1 < sizeof type) {
            type[i] = p[i];
            i++;
        }
        type[i] = 0;
    }
    /* first frame whose path lies in the HDF4 sources */
    const char *q = report;
    while ((q = strstr(q, " in ")) != NULL) {
        q += 4;
        const char *eol = strchr(q, '\n');
        const char *sp  = strchr(q, ' ');
        if (!eol)
            eol = q + strlen(q);
        if (sp && sp < eol) {
            char path[256];
            size_t n = (size_t)(eol - sp - 1);
            if (n >= sizeof path)
                n = sizeof path - 1;
            memcpy(path, sp + 1, n);
            path[n] = 0;
            if (strstr(path, "/hdf/src/") || strstr(path, "/mfhdf/")) {
                size_t m = (size_t)(sp - q);
                if (m >= sizeof func)
                    m = sizeof func - 1;
                memcpy(func, q, m);
                func[m] = 0;
                break;
            }
        }
        q = eol;
    }
    g_asan_seen++;
    char sig[200], detail[1500];
    if (g_context[0])
        snprintf(sig, sizeof sig, "asan:%s:%s@%s", type, func, g_context);
    else
        snprintf(sig, sizeof sig, "asan:%s:%s", type, func);
    /* keep the head of the report as detail */
    size_t n = strlen(report);
    if (n > 1200)
        n = 1200;
    memcpy(detail, report, n);
    detail[n] = 0;
    if (S) {
        long slot = __sync_fetch_and_add(&S->asan_npids, 1);
        S->asan_pids[slot % 4096] = (int)getpid();
        write_violation(sig, detail);
    }
}

static int
asan_explained(pid_t pid)
{
    long n = S->asan_npids > 4096 ? 4096 : S->asan_npids;
    for (long i = 0; i < n; i++)
        if (S->asan_pids[i] == (int)pid)
            return 1;
    return 0;
}

int
mc_asan_seen(void)
{
    return g_asan_seen;
}

/* -------------------------------------------------------------- init */
void
mc_init(const char *prop, const char *tier, const char *outdir)
{
    snprintf(g_prop, sizeof g_prop, "%s", prop);
    snprintf(g_tier, sizeof g_tier, "%s", tier);
    snprintf(g_outdir, sizeof g_outdir, "%s", outdir);
    mkdir(outdir, 0777);
    S = mmap(NULL, sizeof *S, PROT_READ | PROT_WRITE, MAP_SHARED | MAP_ANONYMOUS, -1, 0);
    const char *e = getenv("VERIF_VIS_BITS");
    if (e)
        VIS_N = (size_t)1 << atoi(e);
    VIS = mmap(NULL, VIS_N * sizeof *VIS, PROT_READ | PROT_WRITE, MAP_SHARED | MAP_ANONYMOUS | MAP_NORESERVE, -1, 0);
    if (S == MAP_FAILED || VIS == MAP_FAILED) {
        fprintf(stderr, "mc_init: mmap failed\n");
        exit(EXIT_HARNESS);
    }
    e = getenv("VERIF_WORKERS");
    if (e && atoi(e) > 0)
        g_nworkers = atoi(e);
    e = getenv("VERIF_SEED");
    g_seed   = e ? atoi(e) : 0;
    S->slots = g_nworkers + g_nworkers / 2;
    g_t0     = now();
    e        = getenv("VERIF_DEADLINE_S");
    g_deadline = g_t0 + (e ? atof(e) : (mc_is_thorough() ? 900.0 : 240.0));
    char path[320];
    snprintf(path, sizeof path, "%s/violations.jsonl", outdir);
    g_viol_fd = open(path, O_WRONLY | O_CREAT | O_TRUNC | O_APPEND, 0666);
    snprintf(path, sizeof path, "%s/samples.jsonl", outdir);
    g_sample_fd = open(path, O_WRONLY | O_CREAT | O_TRUNC | O_APPEND, 0666);
    snprintf(path, sizeof path, "%s/stats.json", outdir);
    unlink(path);
    if (__asan_set_error_report_callback)
        __asan_set_error_report_callback(asan_cb);
    setvbuf(stdout, NULL, _IOLBF, 0);
}

void
mc_set_config(const int *cfg, int n, const char *fmt, ...)
{
    g_ncfg = n > 32 ? 32 : n;
    memcpy(g_cfg, cfg, (size_t)g_ncfg * sizeof(int));
    va_list ap;
    va_start(ap, fmt);
    vsnprintf(g_cfgdesc, sizeof g_cfgdesc, fmt, ap);
    va_end(ap);
    scratch_sync();
}

void
mc_set_case(const char *fmt, ...)
{
    va_list ap;
    va_start(ap, fmt);
    vsnprintf(g_case, sizeof g_case, fmt, ap);
    va_end(ap);
    scratch_sync();
}

int
mc_deadline_hit(void)
{
    if (S->deadline_hit)
        return 1;
    if (now() > g_deadline) {
        S->deadline_hit = 1;
        return 1;
    }
    return 0;
}

/* -------------------------------------------------------------- counters */
void
mc_count(const char *name, long n)
{
    uint64_t h = mc_hash(MC_H0, name, strlen(name));
    for (int i = 0; i < NCOUNTERS; i++) {
        counter_t *c = &S->counters[(h + (uint64_t)i) % NCOUNTERS];
        if (c->name[0] == 0) {
            /* claim: racy but benign - use a CAS on the first 8 bytes */
            uint64_t first = 0;
            char     tmp[56] = {0};
            strncpy(tmp, name, sizeof tmp - 1);
            uint64_t want;
            memcpy(&want, tmp, 8);
            if (__sync_bool_compare_and_swap((uint64_t *)c->name, first, want)) {
                memcpy(c->name + 8, tmp + 8, sizeof tmp - 8);
                __sync_fetch_and_add(&c->val, n);
                return;
            }
        }
        /* spin briefly until the rest of a freshly claimed name is visible */
        if (strncmp(c->name, name, sizeof c->name - 1) == 0) {
            __sync_fetch_and_add(&c->val, n);
            return;
        }
        if (strncmp(c->name, name, 8) == 0 && strlen(name) >= 8) {
            for (int spin = 0; spin < 1000; spin++)
                if (strncmp(c->name, name, sizeof c->name - 1) == 0) {
                    __sync_fetch_and_add(&c->val, n);
                    return;
                }
        }
    }
}

long
mc_get(const char *name)
{
    for (int i = 0; i < NCOUNTERS; i++)
        if (strncmp(S->counters[i].name, name, sizeof S->counters[i].name - 1) == 0)
            return S->counters[i].val;
    return 0;
}

void
mc_outcome(uint64_t h)
{
    if (h == 0)
        h = 1;
    for (size_t i = 0; i < NOUTCOMES; i++) {
        uint64_t *slot = &S->outcomes[(h + i) % NOUTCOMES];
        uint64_t  cur  = *slot;
        if (cur == h)
            return;
        if (cur == 0) {
            if (__sync_bool_compare_and_swap(slot, 0, h)) {
                __sync_fetch_and_add(&S->noutcomes, 1);
                return;
            }
            if (*slot == h)
                return;
        }
    }
}

/* -------------------------------------------------------------- reporting */
static void
fmt_op_default(const mc_op *op, char *buf, size_t n)
{
    snprintf(buf, n, "op%d(%d,%d,%d,%d,%d,%d)", op->code, op->a[0], op->a[1], op->a[2], op->a[3], op->a[4], op->a[5]);
}

void
mc_current_trace(char *buf, size_t n)
{
    size_t o = 0;
    buf[0]   = 0;
    for (int i = 0; i < g_tracelen && o + 80 < n; i++) {
        char ob[160];
        if (g_h && g_h->fmt_op)
            g_h->fmt_op(&g_trace[i], ob, sizeof ob);
        else
            fmt_op_default(&g_trace[i], ob, sizeof ob);
        o += (size_t)snprintf(buf + o, n - o, "%s%s", i ? "; " : "", ob);
    }
}

static size_t
emit_trace_json(char *buf, size_t n)
{
    size_t o = 0;
    o += (size_t)snprintf(buf + o, n - o, "\"config\":[");
    for (int i = 0; i < g_ncfg; i++)
        o += (size_t)snprintf(buf + o, n - o, "%s%d", i ? "," : "", g_cfg[i]);
    char esc[1100];
    json_escape(g_cfgdesc, esc, sizeof esc);
    o += (size_t)snprintf(buf + o, n - o, "],\"config_desc\":\"%s\",\"ops\":[", esc);
    for (int i = 0; i < g_tracelen && o + 120 < n; i++) {
        o += (size_t)snprintf(buf + o, n - o, "%s[%d", i ? "," : "", g_trace[i].code);
        for (int k = 0; k < MC_OPARGS; k++)
            o += (size_t)snprintf(buf + o, n - o, ",%d", g_trace[i].a[k]);
        o += (size_t)snprintf(buf + o, n - o, "]");
    }
    o += (size_t)snprintf(buf + o, n - o, "],\"ops_desc\":[");
    for (int i = 0; i < g_tracelen && o + 240 < n; i++) {
        char ob[160], oe[400];
        if (g_h && g_h->fmt_op)
            g_h->fmt_op(&g_trace[i], ob, sizeof ob);
        else
            fmt_op_default(&g_trace[i], ob, sizeof ob);
        json_escape(ob, oe, sizeof oe);
        o += (size_t)snprintf(buf + o, n - o, "%s\"%s\"", i ? "," : "", oe);
    }
    json_escape(g_case, esc, sizeof esc);
    o += (size_t)snprintf(buf + o, n - o, "],\"case\":\"%s\"", esc);
    return o;
}

static void
write_violation(const char *sig, const char *detail)
{
    /* dedupe per signature: first 3 records are written, all are counted */
    long     cnt = 0;
    uint64_t h   = mc_hash(MC_H0, sig, strlen(sig));
    for (int i = 0; i < NSIGS; i++) {
        vsig_t *s = &S->sigs[(h + (uint64_t)i) % NSIGS];
        if (s->sig[0] == 0) {
            char tmp[200] = {0};
            strncpy(tmp, sig, sizeof tmp - 1);
            uint64_t want;
            memcpy(&want, tmp, 8);
            if (__sync_bool_compare_and_swap((uint64_t *)s->sig, 0, want)) {
                memcpy(s->sig + 8, tmp + 8, sizeof tmp - 8);
                cnt = __sync_add_and_fetch(&s->count, 1);
                break;
            }
        }
        for (int spin = 0; spin < 1000 && strncmp(s->sig, sig, 8) == 0 && strncmp(s->sig, sig, sizeof s->sig - 1) != 0; spin++)
            ;
        if (strncmp(s->sig, sig, sizeof s->sig - 1) == 0) {
            cnt = __sync_add_and_fetch(&s->count, 1);
            break;
        }
    }
    if (mc_verbose) {
        extern void HEprint(FILE *, int) __attribute__((weak));
        printf("  !! VIOLATION sig=%s :: %s\n", sig, detail);
        if (HEprint) {
            printf("  HDF error stack at this point:\n");
            fflush(stdout);
            HEprint(stdout, 0);
        }
    }
    if (cnt > 3 || g_viol_fd < 0)
        return;
    static char buf[16384];
    char        e1[400], e2[4000];
    json_escape(sig, e1, sizeof e1);
    json_escape(detail, e2, sizeof e2);
    size_t o = 0;
    o += (size_t)snprintf(buf + o, sizeof buf - o, "{\"prop\":\"%s\",\"sig\":\"%s\",\"detail\":\"%s\",", g_prop, e1, e2);
    o += emit_trace_json(buf + o, sizeof buf - o);
    o += (size_t)snprintf(buf + o, sizeof buf - o, "}\n");
    if (write(g_viol_fd, buf, o) < 0) {
    }
    __sync_fetch_and_add(&S->nviol_records, 1);
}

void
mc_violation(const char *sig, const char *fmt, ...)
{
    char    detail[1500];
    va_list ap;
    va_start(ap, fmt);
    vsnprintf(detail, sizeof detail, fmt, ap);
    va_end(ap);
    write_violation(sig, detail);
}

void
mc_harness_error(const char *fmt, ...)
{
    char    detail[1000];
    va_list ap;
    va_start(ap, fmt);
    vsnprintf(detail, sizeof detail, fmt, ap);
    va_end(ap);
    char tr[2000];
    mc_current_trace(tr, sizeof tr);
    fprintf(stderr, "HARNESS-ERROR %s: %s [cfg %s] [case %s] [trace %s]\n", g_prop, detail, g_cfgdesc, g_case, tr);
    if (S)
        __sync_fetch_and_add(&S->harness_errors, 1);
}

void
mc_set_context(const char *ctx)
{
    snprintf(g_context, sizeof g_context, "%s", ctx ? ctx : "");
}

void
mc_rule(const char *fmt, ...)
{
    va_list ap;
    va_start(ap, fmt);
    vsnprintf(S->rule, sizeof S->rule, fmt, ap);
    va_end(ap);
}

void
mc_sample(const char *fmt, ...)
{
    if (!S || S->nsamples >= 12)
        return;
    if (__sync_fetch_and_add(&S->nsamples, 1) >= 12)
        return;
    char    s[1500], e[3200], buf[3400];
    va_list ap;
    va_start(ap, fmt);
    vsnprintf(s, sizeof s, fmt, ap);
    va_end(ap);
    json_escape(s, e, sizeof e);
    int n = snprintf(buf, sizeof buf, "\"%s\"\n", e);
    if (write(g_sample_fd, buf, (size_t)n) < 0) {
    }
}

/* -------------------------------------------------------------- visited set */
/* returns 1 if the state must be expanded (first visit, or visited only with less remaining depth /
 * more deviations used) */
static int
vis_claim(uint64_t key, int depth_left, int dev_used, int *is_new)
{
    if (key == 0)
        key = 0x9e3779b97f4a7c15ULL;
    *is_new = 0;
    for (size_t i = 0; i < VIS_N; i++) {
        vis_t *v = &VIS[(key + i) & (VIS_N - 1)];
        uint64_t cur = v->key;
        if (cur == 0) {
            if (__sync_bool_compare_and_swap(&v->key, 0, key)) {
                v->depth = depth_left + 1;
                v->dev   = dev_used;
                *is_new  = 1;
                __sync_fetch_and_add(&S->vis_used, 1);
                return 1;
            }
            cur = v->key;
        }
        if (cur == key) {
            /* racy read-modify-write is acceptable: worst case a state is expanded twice */
            int expand = 0;
            if (v->depth < depth_left + 1) {
                v->depth = depth_left + 1;
                expand   = 1;
            }
            if (v->dev > dev_used) {
                v->dev = dev_used;
                expand = 1;
            }
            return expand;
        }
    }
    return 1;
}

static void
vis_clear(void)
{
    madvise(VIS, VIS_N * sizeof *VIS, MADV_DONTNEED);
    /* MAP_SHARED|MAP_ANONYMOUS: DONTNEED does not zero shared pages reliably -> remap */
    munmap(VIS, VIS_N * sizeof *VIS);
    VIS = mmap(NULL, VIS_N * sizeof *VIS, PROT_READ | PROT_WRITE, MAP_SHARED | MAP_ANONYMOUS | MAP_NORESERVE, -1, 0);
    S->vis_used = 0;
}

/* -------------------------------------------------------------- rounds */
static long r_states0, r_trans0, r_traces0;
static double r_t0;
void
mc_round_begin(const char *label)
{
    vis_clear();
    r_states0 = S->states;
    r_trans0  = S->transitions;
    r_traces0 = S->traces;
    r_t0      = now();
    if (S->nrounds < NROUNDS)
        snprintf(S->rounds[S->nrounds].label, sizeof S->rounds[0].label, "%s", label);
}
void
mc_round_end(void)
{
    if (S->nrounds >= NROUNDS)
        return;
    round_t *r     = &S->rounds[S->nrounds++];
    r->states      = S->states - r_states0;
    r->transitions = S->transitions - r_trans0;
    r->traces      = S->traces - r_traces0;
    r->complete    = !S->deadline_hit;
    r->wall        = now() - r_t0;
}

/* -------------------------------------------------------------- explorer */
static int g_devbound;

static const char *
signame(int s)
{
    switch (s) {
        case SIGSEGV: return "SIGSEGV";
        case SIGBUS: return "SIGBUS";
        case SIGABRT: return "SIGABRT";
        case SIGFPE: return "SIGFPE";
        case SIGALRM: return "TIMEOUT";
        case SIGILL: return "SIGILL";
        case SIGKILL: return "SIGKILL";
        default: return "SIGNAL";
    }
}

static void explore_node(int depth_left, int dev_used);

typedef struct {
    pid_t pid;
    int   async;
    mc_op op;
} kid_t;

static void
reap(kid_t *k)
{
    int status = 0;
    while (waitpid(k->pid, &status, 0) < 0 && errno == EINTR)
        ;
    int bad = 0;
    char why[64] = "";
    if (WIFSIGNALED(status)) {
        bad = 1;
        snprintf(why, sizeof why, "%s", signame(WTERMSIG(status)));
    }
    else if (WIFEXITED(status) && WEXITSTATUS(status) == EXIT_HARNESS) {
        /* already counted */
    }
    else if (WIFEXITED(status) && WEXITSTATUS(status) != 0) {
        bad = 1;
        snprintf(why, sizeof why, "exit%d", WEXITSTATUS(status));
    }
    if (bad && k->async)
        __sync_fetch_and_add(&S->slots, 1); /* the child died before it could give its slot back */
    if (bad && WIFEXITED(status) && asan_explained(k->pid))
        bad = 0; /* ASan already reported the fatal error with a specific signature */
    if (bad) {
        /* attribute to the op that the child was executing (its own op or its terminal probe) */
        g_trace[g_tracelen++] = k->op;
        char ob[160], sig[200];
        if (g_h->fmt_op)
            g_h->fmt_op(&k->op, ob, sizeof ob);
        else
            fmt_op_default(&k->op, ob, sizeof ob);
        /* strip arguments for the signature */
        char *paren = strchr(ob, '(');
        if (paren)
            *paren = 0;
        snprintf(sig, sizeof sig, "crash:%s:%s", why, ob);
        mc_violation(sig, "child process died (%s) while executing the last op of the trace or its terminal probe", why);
        g_tracelen--;
    }
}

static int g_async_self;
static void
child_exit(void)
{
    if (g_async_self)
        __sync_fetch_and_add(&S->slots, 1);
    _exit(0);
}

static void
child_body(const mc_op *op, int depth_left, int dev_used)
{
    g_trace[g_tracelen++] = *op;
    if (g_tracelen > S->maxdepth_seen)
        S->maxdepth_seen = g_tracelen;
    alarm(NODE_TIMEOUT_S);
    int asan0 = g_asan_seen;
    long uac0 = vfs_use_after_close;
    int  stop = g_h->apply(op);
    __sync_fetch_and_add(&S->transitions, 1);
    if (vfs_use_after_close != uac0) {
        mc_violation("vfs:use-after-close", "%s", vfs_last_event);
        stop = 1;
    }
    if (g_asan_seen != asan0)
        stop = 1;
    alarm(0);
    if (!stop) {
        uint64_t key   = g_h->key();
        int      isnew = 0;
        int      expand = vis_claim(key, depth_left, dev_used, &isnew);
        if (isnew)
            __sync_fetch_and_add(&S->states, 1);
        if (!expand) {
            __sync_fetch_and_add(&S->pruned, 1);
            __sync_fetch_and_add(&S->traces, 1);
            child_exit();
        }
        if (depth_left > 0 && !mc_deadline_hit())
            explore_node(depth_left, dev_used);
        else {
            __sync_fetch_and_add(&S->traces, 1);
            if (S->nsamples < 2 || (S->nsamples < 12 && key % 211 == 0)) {
                char tr[1400];
                mc_current_trace(tr, sizeof tr);
                mc_sample("[%s] %s", g_cfgdesc, tr);
            }
        }
        if (g_h->terminal) {
            alarm(NODE_TIMEOUT_S);
            asan0 = g_asan_seen;
            uac0  = vfs_use_after_close;
            g_h->terminal();
            if (vfs_use_after_close != uac0)
                mc_violation("vfs:use-after-close:terminal", "%s", vfs_last_event);
            alarm(0);
        }
    }
    else
        __sync_fetch_and_add(&S->traces, 1);
    child_exit();
}

static void
explore_node(int depth_left, int dev_used)
{
    mc_op ops[256];
    int   n = g_h->enum_ops(ops, 256);
    kid_t kids[256];
    int   nk = 0;
    int   any = 0;
    for (int i = 0; i < n; i++) {
        int cost = g_h->dev_cost ? g_h->dev_cost(&ops[i]) : 0;
        if (dev_used + cost > g_devbound)
            continue;
        if (mc_deadline_hit())
            break;
        any = 1;
        int async = 0;
        if (S->slots > 0) {
            if (__sync_fetch_and_sub(&S->slots, 1) > 0)
                async = 1;
            else
                __sync_fetch_and_add(&S->slots, 1);
        }
        fflush(NULL);
        pid_t pid = fork();
        if (pid < 0) {
            if (async)
                __sync_fetch_and_add(&S->slots, 1);
            mc_harness_error("fork failed: %s", strerror(errno));
            break;
        }
        if (pid == 0) {
            g_async_self = async;
            child_body(&ops[i], depth_left - 1, dev_used + cost);
        }
        kids[nk].pid   = pid;
        kids[nk].async = async;
        kids[nk].op    = ops[i];
        if (!async)
            reap(&kids[nk]);
        else
            nk++;
    }
    for (int i = 0; i < nk; i++)
        reap(&kids[i]);
    if (!any)
        __sync_fetch_and_add(&S->traces, 1);
}

void
mc_explore(const mc_harness *h, int depth, int devbound)
{
    g_h        = h;
    g_devbound = devbound;
    g_tracelen = 0;
    /* the root state itself */
    int      isnew;
    uint64_t key = h->key();
    if (vis_claim(key, depth, 0, &isnew) && isnew)
        __sync_fetch_and_add(&S->states, 1);
    explore_node(depth, 0);
}

void
mc_replay_ops(const mc_harness *h, const mc_op *ops, int nops)
{
    g_h        = h;
    g_tracelen = 0;
    for (int i = 0; i < nops; i++) {
        g_trace[g_tracelen++] = ops[i];
        char ob[200];
        if (h->fmt_op)
            h->fmt_op(&ops[i], ob, sizeof ob);
        else
            fmt_op_default(&ops[i], ob, sizeof ob);
        if (mc_verbose)
            printf("step %d: %s\n", i + 1, ob);
        int stop = h->apply(&ops[i]);
        if (stop && mc_verbose)
            printf("  (branch stops here: apply returned %d)\n", stop);
        if (stop)
            return;
    }
    if (h->terminal) {
        if (mc_verbose)
            printf("terminal probe\n");
        h->terminal();
    }
}

/* -------------------------------------------------------------- roots */
static pid_t g_roots[64];
static int   g_nroots;

static void
wait_one_root(void)
{
    int   status;
    pid_t p = wait(&status);
    if (p < 0)
        return;
    for (int i = 0; i < g_nroots; i++)
        if (g_roots[i] == p) {
            g_roots[i] = g_roots[--g_nroots];
            if (WIFSIGNALED(status) || (WIFEXITED(status) && WEXITSTATUS(status) != 0 && WEXITSTATUS(status) != EXIT_HARNESS)) {
                mc_violation("crash:root", "configuration root process died: status=0x%x (prologue or bookkeeping crashed)", status);
            }
            return;
        }
}

void
mc_spawn_root(void (*fn)(void *), void *arg, int par)
{
    if (par < 1)
        par = 1;
    while (g_nroots >= par || g_nroots >= 64)
        wait_one_root();
    fflush(NULL);
    pid_t p = fork();
    if (p == 0) {
        g_nroots = 0;
        fn(arg);
        _exit(0);
    }
    if (p > 0)
        g_roots[g_nroots++] = p;
    else
        mc_harness_error("fork failed for root");
}

void
mc_wait_roots(void)
{
    while (g_nroots > 0)
        wait_one_root();
}

/* -------------------------------------------------------------- case enumeration */
typedef struct {
    int  cfg[32];
    int  ncfg;
    char cfgdesc[256];
    char kase[512];
} scratch_t;
static scratch_t *g_scratch; /* this worker's slot in shared memory: lets the parent describe a dead child */

static void
scratch_sync(void)
{
    if (!g_scratch)
        return;
    memcpy(g_scratch->cfg, g_cfg, sizeof g_cfg);
    g_scratch->ncfg = g_ncfg;
    memcpy(g_scratch->cfgdesc, g_cfgdesc, sizeof g_cfgdesc);
    memcpy(g_scratch->kase, g_case, sizeof g_case);
}

static pid_t g_last_child;
static int
run_child(long a, long b, void (*run)(long, void *), void *ctx, int timeout_s, int *status_out)
{
    fflush(NULL);
    pid_t c = fork();
    if (c == 0) {
        alarm((unsigned)timeout_s);
        for (long i = a; i < b; i++) {
            g_case[0]  = 0;
            g_tracelen = 0;
            run(i, ctx);
            scratch_sync();
        }
        _exit(0);
    }
    int status = 0;
    while (waitpid(c, &status, 0) < 0 && errno == EINTR)
        ;
    *status_out  = status;
    g_last_child = c;
    return WIFSIGNALED(status) || (WIFEXITED(status) && WEXITSTATUS(status) != 0 && WEXITSTATUS(status) != EXIT_HARNESS);
}

void
mc_foreach(long n, void (*run)(long idx, void *ctx), void *ctx, int batch, int timeout_s)
{
    static long      *next;
    static scratch_t *scr;
    if (!next) {
        next = mmap(NULL, 4096, PROT_READ | PROT_WRITE, MAP_SHARED | MAP_ANONYMOUS, -1, 0);
        scr  = mmap(NULL, 128 * sizeof(scratch_t), PROT_READ | PROT_WRITE, MAP_SHARED | MAP_ANONYMOUS, -1, 0);
    }
    *next = 0;
    if (batch < 1)
        batch = 1;
    if (timeout_s < 1)
        timeout_s = 60;
    int   W = g_nworkers;
    pid_t wp[128];
    if (W > 128)
        W = 128;
    fflush(NULL);
    for (int w = 0; w < W; w++) {
        pid_t p = fork();
        if (p == 0) {
            g_scratch = &scr[w];
            for (;;) {
                if (mc_deadline_hit())
                    _exit(0);
                long lo = __sync_fetch_and_add(next, batch);
                if (lo >= n)
                    _exit(0);
                long hi = lo + batch > n ? n : lo + batch;
                int  status;
                if (!run_child(lo, hi, run, ctx, timeout_s, &status)) {
                    __sync_fetch_and_add(&S->cases, hi - lo);
                    continue;
                }
                /* abnormal death somewhere in the batch: one case per pristine child, longer limit */
                for (long i = lo; i < hi; i++) {
                    memset(g_scratch, 0, sizeof *g_scratch);
                    int bad = run_child(i, i + 1, run, ctx, timeout_s * 4, &status);
                    __sync_fetch_and_add(&S->cases, 1);
                    if (!bad)
                        continue;
                    if (WIFEXITED(status) && asan_explained(g_last_child))
                        continue; /* ASan already reported the fatal error with a specific signature */
                    /* the child publishes its config when it calls mc_set_config/mc_set_case */
                    memcpy(g_cfg, g_scratch->cfg, sizeof g_cfg);
                    g_ncfg = g_scratch->ncfg;
                    memcpy(g_cfgdesc, g_scratch->cfgdesc, sizeof g_cfgdesc);
                    memcpy(g_case, g_scratch->kase, sizeof g_case);
                    if (g_ncfg == 0) {
                        g_cfg[0] = (int)i;
                        g_ncfg   = 1;
                    }
                    char sig[120];
                    snprintf(sig, sizeof sig, "crash:%s", WIFSIGNALED(status) ? signame(WTERMSIG(status)) : "exit");
                    mc_violation(sig, "case %ld: child died, status=0x%x", i, status);
                    __sync_fetch_and_add(&S->case_failures, 1);
                }
            }
        }
        wp[w] = p;
    }
    for (int w = 0; w < W; w++) {
        int status;
        while (waitpid(wp[w], &status, 0) < 0 && errno == EINTR)
            ;
        if (WIFSIGNALED(status) || (WIFEXITED(status) && WEXITSTATUS(status) != 0))
            mc_harness_error("foreach worker died: status=0x%x", status);
    }
}

/* -------------------------------------------------------------- replay file */
static char *
skipws(char *p)
{
    while (*p == ' ' || *p == ',' || *p == '\n' || *p == '\r' || *p == '\t')
        p++;
    return p;
}

int
mc_load_replay(const char *path, int *cfg, int *ncfg, mc_op *ops, int *nops, int maxops)
{
    FILE *fp = fopen(path, "rb");
    if (!fp)
        return -1;
    static char buf[1 << 18];
    size_t      n = fread(buf, 1, sizeof buf - 1, fp);
    buf[n]        = 0;
    fclose(fp);
    *ncfg = 0;
    *nops = 0;
    char *p = strstr(buf, "\"config\"");
    if (p && (p = strchr(p, '['))) {
        p = skipws(p + 1);
        while (*p && *p != ']' && *ncfg < 32) {
            char *e;
            long  v = strtol(p, &e, 10);
            if (e == p)
                return -1;
            cfg[(*ncfg)++] = (int)v;
            p              = skipws(e);
        }
    }
    p = strstr(buf, "\"ops\"");
    if (p && (p = strchr(p, '['))) {
        p = skipws(p + 1);
        while (*p == '[') {
            p = skipws(p + 1);
            mc_op op;
            memset(&op, 0, sizeof op);
            int k = 0;
            while (*p && *p != ']') {
                char *e;
                long  v = strtol(p, &e, 10);
                if (e == p)
                    return -1;
                if (k == 0)
                    op.code = (int)v;
                else if (k <= MC_OPARGS)
                    op.a[k - 1] = (int)v;
                k++;
                p = skipws(e);
            }
            if (*p == ']')
                p = skipws(p + 1);
            if (*nops < maxops)
                ops[(*nops)++] = op;
        }
    }
    return 0;
}

/* -------------------------------------------------------------- finish */
int
mc_finish(void)
{
    char path[320];
    snprintf(path, sizeof path, "%s/stats.json", g_outdir);
    FILE *fp = fopen(path, "wb");
    if (!fp)
        return EXIT_HARNESS;
    fprintf(fp, "{\"prop\":\"%s\",\"tier\":\"%s\",\"seed\":%d,\"wall_s\":%.3f,\n", g_prop, g_tier, g_seed, now() - g_t0);
    fprintf(fp, " \"states\":%ld,\"transitions\":%ld,\"traces\":%ld,\"pruned\":%ld,\"cases\":%ld,\"case_failures\":%ld,\n",
            S->states, S->transitions, S->traces, S->pruned, S->cases, S->case_failures);
    fprintf(fp, " \"distinct_outcomes\":%ld,\"deadline_hit\":%d,\"harness_errors\":%d,\"max_depth\":%d,\"workers\":%d,\n",
            S->noutcomes, S->deadline_hit, S->harness_errors, S->maxdepth_seen, g_nworkers);
    {
        char er[3200];
        json_escape(S->rule, er, sizeof er);
        fprintf(fp, " \"rule_text\":\"%s\",\n", er);
    }
    fprintf(fp, " \"rounds\":[");
    for (int i = 0; i < S->nrounds; i++) {
        round_t *r = &S->rounds[i];
        fprintf(fp, "%s{\"label\":\"%s\",\"states\":%ld,\"transitions\":%ld,\"traces\":%ld,\"complete\":%s,\"wall_s\":%.2f}",
                i ? "," : "", r->label, r->states, r->transitions, r->traces, r->complete ? "true" : "false", r->wall);
    }
    fprintf(fp, "],\n \"counters\":{");
    int first = 1;
    for (int i = 0; i < NCOUNTERS; i++)
        if (S->counters[i].name[0]) {
            fprintf(fp, "%s\"%s\":%ld", first ? "" : ",", S->counters[i].name, S->counters[i].val);
            first = 0;
        }
    fprintf(fp, "},\n \"signatures\":{");
    first = 1;
    for (int i = 0; i < NSIGS; i++)
        if (S->sigs[i].sig[0]) {
            char e[420];
            json_escape(S->sigs[i].sig, e, sizeof e);
            fprintf(fp, "%s\"%s\":%ld", first ? "" : ",", e, S->sigs[i].count);
            first = 0;
        }
    fprintf(fp, "}}\n");
    fclose(fp);
    if (S->harness_errors)
        return EXIT_HARNESS;
    return 0;
}
