/* mc.h - bounded-exhaustive explorer over the real library (fork-snapshot DFS + case enumeration). */
#ifndef MC_H
#define MC_H
#include <stddef.h>
#include <stdint.h>

#define MC_MAXDEPTH 24
#define MC_OPARGS 6

typedef struct {
    int code;
    int a[MC_OPARGS];
} mc_op;

typedef struct mc_harness {
    /* list the operations enabled in the current (process-local) state */
    int (*enum_ops)(mc_op *out, int max);
    /* apply to implementation + reference model and compare; 0 = continue below this node,
     * nonzero = do not expand (a violation was reported or the model can no longer follow) */
    int (*apply)(const mc_op *op);
    /* canonical key of the current state */
    uint64_t (*key)(void);
    /* runs last in every first-visited node; the process exits afterwards */
    void (*terminal)(void);
    void (*fmt_op)(const mc_op *op, char *buf, size_t n);
    /* environment-deviation cost of an op (0 for ordinary operations) */
    int (*dev_cost)(const mc_op *op);
} mc_harness;

extern int mc_verbose; /* replay mode: print every step */
extern int mc_replaying;

void mc_init(const char *prop, const char *tier, const char *outdir);
void mc_set_config(const int *cfg, int n, const char *fmt, ...);
void mc_set_case(const char *fmt, ...);

/* explore from the current process state; returns after the whole subtree is done */
void mc_explore(const mc_harness *h, int depth, int devbound);
/* replay a fixed op list in this process (no forking) */
void mc_replay_ops(const mc_harness *h, const mc_op *ops, int nops);

/* rounds (iterative deepening bookkeeping) */
void mc_round_begin(const char *label);
void mc_round_end(void);

/* run fn(arg) in a forked child (config root); returns immediately, at most `par` at once */
void mc_spawn_root(void (*fn)(void *), void *arg, int par);
void mc_wait_roots(void);

/* case-enumeration mode: run(idx) for idx in [0,n) on a pool of workers, each case in its own fork */
void mc_foreach(long n, void (*run)(long idx, void *ctx), void *ctx, int batch, int timeout_s);

void mc_violation(const char *sig, const char *fmt, ...) __attribute__((format(printf, 2, 3)));
void mc_harness_error(const char *fmt, ...) __attribute__((format(printf, 1, 2)));
void mc_count(const char *name, long n);
long mc_get(const char *name);
void mc_sample(const char *fmt, ...) __attribute__((format(printf, 1, 2)));
void mc_rule(const char *fmt, ...) __attribute__((format(printf, 1, 2))); /* how cases are enumerated (evidence) */
void mc_set_context(const char *ctx); /* appended to sanitizer signatures: names the situation being probed */
void mc_outcome(uint64_t h); /* record a distinct observed outcome (hash) */
int  mc_deadline_hit(void);
int  mc_asan_seen(void);     /* number of ASan reports in this process so far */
void mc_current_trace(char *buf, size_t n);
int  mc_finish(void);        /* writes stats.json; returns process exit code */
int  mc_nworkers(void);
int  mc_seed(void);
const char *mc_tier(void);
int  mc_is_thorough(void);

/* replay file parsing: fills cfg/ops; returns 0 on success */
int mc_load_replay(const char *path, int *cfg, int *ncfg, mc_op *ops, int *nops, int maxops);

/* tiny hashing helpers for state keys */
uint64_t mc_hash(uint64_t h, const void *p, size_t n);
#define MC_H0 1469598103934665603ULL
static inline uint64_t
mc_hash_i(uint64_t h, long v)
{
    return mc_hash(h, &v, sizeof v);
}

#endif
