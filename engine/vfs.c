/* vfs.c - in-memory stdio behind -Wl,--wrap.  See vfs.h. */
#define _GNU_SOURCE
#include "vfs.h"
#include <errno.h>
#include <stdlib.h>
#include <string.h>
#include <sys/stat.h>

FILE  *__real_fopen(const char *, const char *);
int    __real_fclose(FILE *);
size_t __real_fread(void *, size_t, size_t, FILE *);
size_t __real_fwrite(const void *, size_t, size_t, FILE *);
int    __real_fseek(FILE *, long, int);
long   __real_ftell(FILE *);
int    __real_fflush(FILE *);
int    __real_stat(const char *, struct stat *);
int    __real_remove(const char *);
int    __real_rename(const char *, const char *);

const char *vfs_kind_name[VK_NKINDS] = {"fopen", "fclose", "fread", "fwrite", "fseek", "ftell", "fflush"};

typedef struct vstream {
    uint32_t magic;
    int      open;
    vfile   *f;
    long     pos;
    int      can_read, can_write;
    int      last; /* 0 none/positioned, 1 read, 2 write */
    int      eof;
} vstream;

#define VS_MAGIC 0x56465331u
#define VS_SLOTS 8192
static vstream streams[VS_SLOTS];
static int     next_slot = 0;

static vfile files[VFS_MAXFILES];

vfs_fault_t vfs_fault = {-1, 0, 0, 0, 0, -1, -1, 0};
long        vfs_ncalls;
long        vfs_calls_by_kind[VK_NKINDS];
vfs_logent *vfs_log;
long        vfs_nlog;
static long vfs_caplog;
int         vfs_log_on;
long        vfs_api_seq;
unsigned char *vfs_kind_trace;
long           vfs_kind_trace_n, vfs_kind_trace_cap;
static int     kind_trace_on;
long        vfs_use_after_close;
long        vfs_contract_breach;
char        vfs_last_event[160];

static int
is_vpath(const char *p)
{
    return p && strncmp(p, VFS_PREFIX, strlen(VFS_PREFIX)) == 0;
}

int
vfs_is_vfile(const FILE *fp)
{
    const char *c = (const char *)fp;
    return c >= (const char *)streams && c < (const char *)(streams + VS_SLOTS);
}

static vstream *
as_vs(FILE *fp)
{
    return (vstream *)fp;
}

/* ------------------------------------------------------------------ files */
vfile *
vfs_lookup(const char *path)
{
    for (int i = 0; i < VFS_MAXFILES; i++)
        if (files[i].exists && strcmp(files[i].name, path) == 0)
            return &files[i];
    return NULL;
}
vfile *
vfs_file(int idx)
{
    return (idx >= 0 && idx < VFS_MAXFILES && files[idx].exists) ? &files[idx] : NULL;
}
int
vfs_index(const vfile *f)
{
    return (int)(f - files);
}

static void
free_pages(vfile *f)
{
    for (size_t i = 0; i < f->npages; i++)
        free(f->pages[i]);
    free(f->pages);
    f->pages  = NULL;
    f->npages = 0;
    f->size   = 0;
}

void
vfs_truncate(vfile *f, long size)
{
    if (size <= 0) {
        free_pages(f);
        return;
    }
    if (size < f->size) {
        size_t keep = (size_t)((size + VFS_PAGE - 1) / VFS_PAGE);
        for (size_t i = keep; i < f->npages; i++) {
            free(f->pages[i]);
            f->pages[i] = NULL;
        }
        /* zero tail of the last kept page so a later extension reads zeros */
        size_t lastpg = (size_t)((size - 1) / VFS_PAGE);
        if (lastpg < f->npages && f->pages[lastpg]) {
            size_t inpg = (size_t)(size - (long)lastpg * VFS_PAGE);
            memset(f->pages[lastpg] + inpg, 0, VFS_PAGE - inpg);
        }
    }
    f->size = size;
}

vfile *
vfs_create(const char *path)
{
    vfile *f = vfs_lookup(path);
    if (f) {
        free_pages(f);
        return f;
    }
    if (strlen(path) >= sizeof files[0].name) {
        errno = ENAMETOOLONG;
        return NULL;
    }
    for (int i = 0; i < VFS_MAXFILES; i++)
        if (!files[i].exists) {
            f = &files[i];
            memset(f, 0, sizeof *f);
            strncpy(f->name, path, sizeof f->name - 1);
            f->exists = 1;
            return f;
        }
    return NULL;
}

void
vfs_remove_file(const char *path)
{
    vfile *f = vfs_lookup(path);
    if (f) {
        free_pages(f);
        f->exists = 0;
    }
}

static void
ensure_pages(vfile *f, size_t npages)
{
    if (npages > f->npages) {
        size_t cap = npages;
        f->pages   = realloc(f->pages, cap * sizeof(uint8_t *));
        memset(f->pages + f->npages, 0, (cap - f->npages) * sizeof(uint8_t *));
        f->npages = cap;
    }
}

void
vfs_write_at(vfile *f, long off, const void *buf, long n)
{
    const uint8_t *src = buf;
    if (n <= 0)
        return;
    ensure_pages(f, (size_t)((off + n + VFS_PAGE - 1) / VFS_PAGE));
    long o = off, left = n;
    while (left > 0) {
        size_t pg   = (size_t)(o / VFS_PAGE);
        size_t inpg = (size_t)(o % VFS_PAGE);
        size_t take = VFS_PAGE - inpg;
        if ((long)take > left)
            take = (size_t)left;
        if (!f->pages[pg])
            f->pages[pg] = calloc(1, VFS_PAGE);
        memcpy(f->pages[pg] + inpg, src, take);
        src += take;
        o += (long)take;
        left -= (long)take;
    }
    if (off + n > f->size)
        f->size = off + n;
}

long
vfs_read_at(const vfile *f, long off, void *buf, long n)
{
    uint8_t *dst = buf;
    if (off >= f->size || n <= 0)
        return 0;
    if (off + n > f->size)
        n = f->size - off;
    long o = off, left = n;
    while (left > 0) {
        size_t pg   = (size_t)(o / VFS_PAGE);
        size_t inpg = (size_t)(o % VFS_PAGE);
        size_t take = VFS_PAGE - inpg;
        if ((long)take > left)
            take = (size_t)left;
        if (pg < f->npages && f->pages[pg])
            memcpy(dst, f->pages[pg] + inpg, take);
        else
            memset(dst, 0, take);
        dst += take;
        o += (long)take;
        left -= (long)take;
    }
    return n;
}

uint8_t *
vfs_dup_bytes(const vfile *f, long *size)
{
    uint8_t *b = malloc((size_t)(f->size > 0 ? f->size : 1));
    vfs_read_at(f, 0, b, f->size);
    if (size)
        *size = f->size;
    return b;
}

long
vfs_size(const char *path)
{
    vfile *f = vfs_lookup(path);
    return f ? f->size : -1;
}

static uint64_t
fnv(uint64_t h, const void *p, size_t n)
{
    const uint8_t *c = p;
    for (size_t i = 0; i < n; i++) {
        h ^= c[i];
        h *= 1099511628211ULL;
    }
    return h;
}

uint64_t
vfs_hash_file(const vfile *f)
{
    uint64_t h = 1469598103934665603ULL;
    h          = fnv(h, &f->size, sizeof f->size);
    long left  = f->size;
    for (size_t pg = 0; left > 0; pg++) {
        size_t         take = left > VFS_PAGE ? VFS_PAGE : (size_t)left;
        const uint8_t *p    = (pg < f->npages) ? f->pages[pg] : NULL;
        int            zero = 1;
        if (p)
            for (size_t i = 0; i < take; i++)
                if (p[i]) {
                    zero = 0;
                    break;
                }
        /* a hole and an explicit all-zero page hash alike */
        if (zero)
            h = fnv(h, "Z", 1);
        else
            h = fnv(h, p, take);
        left -= (long)take;
    }
    return h;
}

uint64_t
vfs_hash_all(void)
{
    /* order by name so the hash does not depend on slot allocation order */
    int idx[VFS_MAXFILES], n = 0;
    for (int i = 0; i < VFS_MAXFILES; i++)
        if (files[i].exists)
            idx[n++] = i;
    for (int i = 1; i < n; i++)
        for (int j = i; j > 0 && strcmp(files[idx[j - 1]].name, files[idx[j]].name) > 0; j--) {
            int t      = idx[j];
            idx[j]     = idx[j - 1];
            idx[j - 1] = t;
        }
    uint64_t h = 1469598103934665603ULL;
    for (int i = 0; i < n; i++) {
        uint64_t fh = vfs_hash_file(&files[idx[i]]);
        h           = fnv(h, files[idx[i]].name, strlen(files[idx[i]].name));
        h           = fnv(h, &fh, sizeof fh);
    }
    return h;
}

int
vfs_copy(const char *from, const char *to)
{
    vfile *a = vfs_lookup(from);
    if (!a)
        return -1;
    vfile *b = vfs_create(to);
    if (!b)
        return -1;
    ensure_pages(b, a->npages);
    for (size_t i = 0; i < a->npages; i++)
        if (a->pages[i]) {
            b->pages[i] = malloc(VFS_PAGE);
            memcpy(b->pages[i], a->pages[i], VFS_PAGE);
        }
    b->size = a->size;
    return 0;
}

int
vfs_export(const char *vpath, const char *realpath)
{
    vfile *f = vfs_lookup(vpath);
    if (!f)
        return -1;
    FILE *fp = __real_fopen(realpath, "wb");
    if (!fp)
        return -1;
    long     n;
    uint8_t *b = vfs_dup_bytes(f, &n);
    __real_fwrite(b, 1, (size_t)n, fp);
    free(b);
    __real_fclose(fp);
    return 0;
}

int
vfs_import(const char *realpath, const char *vpath)
{
    FILE *fp = __real_fopen(realpath, "rb");
    if (!fp)
        return -1;
    vfile *f = vfs_create(vpath);
    if (!f) {
        __real_fclose(fp);
        return -1;
    }
    uint8_t buf[65536];
    size_t  n;
    long    off = 0;
    while ((n = __real_fread(buf, 1, sizeof buf, fp)) > 0) {
        vfs_write_at(f, off, buf, (long)n);
        off += (long)n;
    }
    __real_fclose(fp);
    return 0;
}

int
vfs_open_streams(void)
{
    int n = 0;
    for (int i = 0; i < VS_SLOTS; i++)
        if (streams[i].magic == VS_MAGIC && streams[i].open)
            n++;
    return n;
}

/* ------------------------------------------------------------------ log */
void
vfs_log_reset(void)
{
    for (long i = 0; i < vfs_nlog; i++)
        free(vfs_log[i].data);
    vfs_nlog = 0;
}
void
vfs_log_start(void)
{
    vfs_log_reset();
    vfs_log_on = 1;
}
void
vfs_log_stop(void)
{
    vfs_log_on = 0;
}
static void
log_add(vfile *f, int kind, long off, const void *data, long len)
{
    if (!vfs_log_on)
        return;
    if (vfs_nlog == vfs_caplog) {
        vfs_caplog = vfs_caplog ? vfs_caplog * 2 : 256;
        vfs_log    = realloc(vfs_log, (size_t)vfs_caplog * sizeof *vfs_log);
    }
    vfs_logent *e = &vfs_log[vfs_nlog++];
    e->file       = vfs_index(f);
    e->kind       = kind;
    e->off        = off;
    e->len        = len;
    e->apiseq     = vfs_api_seq;
    e->data       = NULL;
    if (len > 0 && data) {
        e->data = malloc((size_t)len);
        memcpy(e->data, data, (size_t)len);
    }
}

/* ------------------------------------------------------------------ faults */
void
vfs_fault_set(long at, int variant, int sticky, unsigned mask)
{
    vfs_fault.at         = at;
    vfs_fault.variant    = variant;
    vfs_fault.sticky     = sticky;
    vfs_fault.mask       = mask;
    vfs_fault.fired      = 0;
    vfs_fault.first_kind = -1;
    vfs_fault.at2        = -1;
    vfs_fault.fired2     = 0;
    vfs_ncalls           = 0;
}
void
vfs_fault_set2(long at2)
{
    vfs_fault.at2    = at2;
    vfs_fault.fired2 = 0;
}
void
vfs_fault_clear(void)
{
    vfs_fault.at = -1;
    vfs_fault.fired = 0;
    vfs_fault.at2 = -1;
    vfs_fault.fired2 = 0;
}

void
vfs_kind_trace_start(void)
{
    kind_trace_on    = 1;
    vfs_kind_trace_n = 0;
}

/* debugging aid for replays: VFS_TRACE=1 prints where an injected failure lands */
extern void __sanitizer_print_stack_trace(void);
static void
fault_trace(long k, int kind)
{
    static int on = -1;
    if (on < 0)
        on = getenv("VFS_TRACE") != NULL;
    if (on) {
        fprintf(stderr, "[vfs] injected failure at call #%ld (%s)\n", k, vfs_kind_name[kind]);
        __sanitizer_print_stack_trace();
    }
}

/* returns nonzero if this call must fail */
static int
fault_tick(int kind)
{
    vfs_calls_by_kind[kind]++;
    if (vfs_fault.mask && !(vfs_fault.mask & (1u << kind)))
        return 0;
    long k = vfs_ncalls++;
    if (kind_trace_on) {
        if (vfs_kind_trace_n == vfs_kind_trace_cap) {
            vfs_kind_trace_cap = vfs_kind_trace_cap ? vfs_kind_trace_cap * 2 : 1024;
            vfs_kind_trace     = realloc(vfs_kind_trace, (size_t)vfs_kind_trace_cap);
        }
        vfs_kind_trace[vfs_kind_trace_n++] = (unsigned char)kind;
    }
    if (vfs_fault.at < 0)
        return 0;
    if (k == vfs_fault.at || (vfs_fault.sticky && k > vfs_fault.at)) {
        if (vfs_fault.fired == 0)
            vfs_fault.first_kind = kind;
        vfs_fault.fired++;
        fault_trace(k, kind);
        return 1;
    }
    if (k == vfs_fault.at2) {
        vfs_fault.fired2++;
        fault_trace(k, kind);
        return 2;
    }
    return 0;
}

/* ------------------------------------------------------------------ stdio */
static int
dead(vstream *s, const char *what)
{
    if (s->magic != VS_MAGIC || !s->open) {
        vfs_use_after_close++;
        snprintf(vfs_last_event, sizeof vfs_last_event, "%s on closed/invalid stream (slot %d)", what,
                 (int)(s - streams));
        return 1;
    }
    return 0;
}

FILE *
__wrap_fopen(const char *path, const char *mode)
{
    if (!is_vpath(path))
        return __real_fopen(path, mode);
    if (fault_tick(VK_FOPEN)) {
        errno = vfs_fault.variant ? EMFILE : EIO;
        return NULL;
    }
    int rd = 0, wr = 0, trunc = 0;
    if (mode[0] == 'r') {
        rd = 1;
        wr = strchr(mode, '+') != NULL;
    }
    else if (mode[0] == 'w') {
        wr = 1;
        trunc = 1;
        rd = strchr(mode, '+') != NULL;
    }
    else {
        errno = EINVAL;
        return NULL;
    }
    vfile *f = vfs_lookup(path);
    if (!trunc && !f) {
        errno = ENOENT;
        return NULL;
    }
    if (trunc) {
        int existed = f != NULL;
        f = vfs_create(path);
        if (!f) {
            errno = ENOSPC;
            return NULL;
        }
        f->ntrunc++;
        log_add(f, existed ? 1 : 2, 0, NULL, 0);
    }
    /* find a slot; round robin so closed slots stay recognisable as long as possible */
    for (int tries = 0; tries < VS_SLOTS; tries++) {
        vstream *s = &streams[next_slot];
        next_slot  = (next_slot + 1) % VS_SLOTS;
        if (s->magic == VS_MAGIC && s->open)
            continue;
        s->magic     = VS_MAGIC;
        s->open      = 1;
        s->f         = f;
        s->pos       = 0;
        s->can_read  = rd;
        s->can_write = wr;
        s->last      = 0;
        s->eof       = 0;
        return (FILE *)s;
    }
    errno = EMFILE;
    return NULL;
}

int
__wrap_fclose(FILE *fp)
{
    if (!vfs_is_vfile(fp))
        return __real_fclose(fp);
    vstream *s = as_vs(fp);
    if (dead(s, "fclose"))
        return EOF;
    int fail = fault_tick(VK_FCLOSE);
    s->open  = 0; /* like libc: the stream is gone even if close reports an error */
    if (fail) {
        errno = EIO;
        return EOF;
    }
    return 0;
}

size_t
__wrap_fread(void *buf, size_t sz, size_t n, FILE *fp)
{
    if (!vfs_is_vfile(fp))
        return __real_fread(buf, sz, n, fp);
    vstream *s = as_vs(fp);
    if (dead(s, "fread"))
        return 0;
    size_t want = sz * n;
    int ft = fault_tick(VK_FREAD);
    if (ft) {
        errno = EIO;
        if (ft == 1 && vfs_fault.variant == 1 && want > 1 && sz == 1) {
            long got = vfs_read_at(s->f, s->pos, buf, (long)(want / 2));
            s->pos += got;
            return (size_t)got;
        }
        return 0;
    }
    if (!s->can_read) {
        errno = EBADF;
        return 0;
    }
    if (s->last == 2) {
        vfs_contract_breach++;
        snprintf(vfs_last_event, sizeof vfs_last_event, "fread directly after fwrite without fseek/fflush");
    }
    if (want == 0)
        return 0;
    long got = vfs_read_at(s->f, s->pos, buf, (long)want);
    s->pos += got;
    s->last = 1;
    if ((size_t)got < want)
        s->eof = 1;
    return sz ? (size_t)got / sz : 0;
}

size_t
__wrap_fwrite(const void *buf, size_t sz, size_t n, FILE *fp)
{
    if (!vfs_is_vfile(fp))
        return __real_fwrite(buf, sz, n, fp);
    vstream *s = as_vs(fp);
    if (dead(s, "fwrite"))
        return 0;
    size_t want = sz * n;
    int ft = fault_tick(VK_FWRITE);
    if (ft) {
        errno = (ft == 1 && vfs_fault.variant == 1) ? ENOSPC : EIO;
        if (ft == 1 && vfs_fault.variant == 1 && want > 1 && sz == 1 && s->can_write) {
            long half = (long)(want / 2);
            log_add(s->f, 0, s->pos, buf, half);
            vfs_write_at(s->f, s->pos, buf, half);
            s->f->nwrites++;
            s->pos += half;
            return (size_t)half;
        }
        return 0;
    }
    if (!s->can_write) {
        s->f->ro_writes++;
        errno = EBADF;
        return 0;
    }
    if (s->last == 1 && !s->eof) {
        vfs_contract_breach++;
        snprintf(vfs_last_event, sizeof vfs_last_event, "fwrite directly after fread without fseek");
    }
    if (want == 0)
        return 0;
    if (s->pos + (long)want < 0 || s->pos > 0x7fffffffL * 2) {
        errno = EFBIG;
        return 0;
    }
    log_add(s->f, 0, s->pos, buf, (long)want);
    vfs_write_at(s->f, s->pos, buf, (long)want);
    s->f->nwrites++;
    s->pos += (long)want;
    s->last = 2;
    return sz ? want / sz : 0;
}

int
__wrap_fseek(FILE *fp, long off, int whence)
{
    if (!vfs_is_vfile(fp))
        return __real_fseek(fp, off, whence);
    vstream *s = as_vs(fp);
    if (dead(s, "fseek"))
        return -1;
    if (fault_tick(VK_FSEEK)) {
        errno = EIO;
        return -1;
    }
    long base = whence == SEEK_SET ? 0 : whence == SEEK_CUR ? s->pos : whence == SEEK_END ? s->f->size : -1;
    if (base < 0 || base + off < 0) {
        errno = EINVAL;
        return -1;
    }
    s->pos  = base + off;
    s->last = 0;
    s->eof  = 0;
    return 0;
}

long
__wrap_ftell(FILE *fp)
{
    if (!vfs_is_vfile(fp))
        return __real_ftell(fp);
    vstream *s = as_vs(fp);
    if (dead(s, "ftell"))
        return -1;
    if (fault_tick(VK_FTELL)) {
        errno = EIO;
        return -1;
    }
    return s->pos;
}

int
__wrap_fflush(FILE *fp)
{
    if (fp == NULL || !vfs_is_vfile(fp))
        return __real_fflush(fp);
    vstream *s = as_vs(fp);
    if (dead(s, "fflush"))
        return EOF;
    if (fault_tick(VK_FFLUSH)) {
        errno = EIO;
        return EOF;
    }
    if (s->last == 2)
        s->last = 0;
    return 0;
}

int
__wrap_stat(const char *path, struct stat *st)
{
    if (!is_vpath(path))
        return __real_stat(path, st);
    vfile *f = vfs_lookup(path);
    if (!f) {
        errno = ENOENT;
        return -1;
    }
    memset(st, 0, sizeof *st);
    st->st_size = f->size;
    st->st_mode = S_IFREG | 0644;
    return 0;
}

int
__wrap_remove(const char *path)
{
    if (!is_vpath(path))
        return __real_remove(path);
    if (!vfs_lookup(path)) {
        errno = ENOENT;
        return -1;
    }
    vfs_remove_file(path);
    return 0;
}

int
__wrap_rename(const char *a, const char *b)
{
    if (!is_vpath(a) || !is_vpath(b))
        return __real_rename(a, b);
    vfile *f = vfs_lookup(a);
    if (!f) {
        errno = ENOENT;
        return -1;
    }
    vfs_remove_file(b);
    strncpy(f->name, b, sizeof f->name - 1);
    return 0;
}

/* flat view of a (possibly huge, sparse) file: holes cost no memory (MAP_NORESERVE, untouched pages stay unmapped) */
#include <sys/mman.h>
#include <sys/syscall.h>
#include <unistd.h>
/* raw syscalls: the sanitizer's mmap interceptor would clear 1/8 of the size in shadow memory for every call */
uint8_t *
vfs_map_flat(const vfile *f, long *size)
{
    *size      = f->size;
    size_t len = ((size_t)f->size + VFS_PAGE) & ~(size_t)(VFS_PAGE - 1);
    uint8_t *m = (uint8_t *)syscall(SYS_mmap, NULL, len, PROT_READ | PROT_WRITE, MAP_PRIVATE | MAP_ANONYMOUS | MAP_NORESERVE, -1, 0);
    if (m == MAP_FAILED)
        return NULL;
    for (size_t pg = 0; pg < f->npages && (long)(pg * VFS_PAGE) < f->size; pg++)
        if (f->pages[pg])
            memcpy(m + pg * VFS_PAGE, f->pages[pg], VFS_PAGE);
    return m;
}
void
vfs_unmap_flat(const vfile *f, uint8_t *m)
{
    size_t len = ((size_t)f->size + VFS_PAGE) & ~(size_t)(VFS_PAGE - 1);
    syscall(SYS_munmap, m, len);
}
