/* vfs.h - in-memory stdio for paths under /vmem/, with write log, fault plan, hashing.
 * Linked with -Wl,--wrap=fopen,... so the HDF4 static libraries' stdio calls land here. */
#ifndef VFS_H
#define VFS_H
#include <stdint.h>
#include <stdio.h>
#include <stddef.h>

#define VFS_PREFIX "/vmem/"
#define VFS_MAXFILES 64
#define VFS_PAGE 4096

typedef struct vfile {
    char      name[1200]; /* whole path: never truncated (vfs_create refuses longer ones) */
    int       exists;
    long      size;
    uint8_t **pages;
    size_t    npages;
    long      ro_writes;   /* fwrite attempts through read-only streams */
    long      nwrites;     /* successful fwrite calls that changed the file */
    long      ntrunc;      /* "wb+" truncations */
} vfile;

enum { VK_FOPEN, VK_FCLOSE, VK_FREAD, VK_FWRITE, VK_FSEEK, VK_FTELL, VK_FFLUSH, VK_NKINDS };
extern const char *vfs_kind_name[VK_NKINDS];

/* ---- fault plan ---------------------------------------------------------- */
/* The k-th intercepted /vmem stdio call (0-based, counted over the kinds in `mask`) fails.
 * variant 0: plain failure (NULL / 0 / -1 / EOF); variant 1: short count (half) for fread/fwrite.
 * sticky: every later call of the kinds in mask fails too. */
typedef struct {
    long     at;      /* -1 = off */
    int      variant;
    int      sticky;
    unsigned mask;    /* bit per VK_ kind */
    long     fired;   /* number of calls failed so far */
    int      first_kind;
    long     at2;     /* -1 = off; a second, independent single failure (plain) at this call index */
    long     fired2;
} vfs_fault_t;
extern vfs_fault_t vfs_fault;
extern long        vfs_ncalls;              /* calls counted against the plan (by mask) */
extern long        vfs_calls_by_kind[VK_NKINDS];
void vfs_fault_set(long at, int variant, int sticky, unsigned mask);
void vfs_fault_set2(long at2); /* after vfs_fault_set */
/* optional trace of the kind of every counted call (for enumerating applicable fault variants) */
extern unsigned char *vfs_kind_trace;
extern long           vfs_kind_trace_n, vfs_kind_trace_cap;
void vfs_kind_trace_start(void);
void vfs_fault_clear(void);

/* ---- write log ----------------------------------------------------------- */
typedef struct {
    int      file;    /* index of vfile */
    int      kind;    /* 0 = write, 1 = truncate-to-zero (wb+), 2 = create */
    long     off;
    long     len;
    uint8_t *data;
    long     apiseq;  /* value of vfs_api_seq when issued (harness sets it per API call) */
} vfs_logent;
extern vfs_logent *vfs_log;
extern long        vfs_nlog;
extern int         vfs_log_on;
extern long        vfs_api_seq;
void vfs_log_start(void);
void vfs_log_stop(void);
void vfs_log_reset(void);

/* ---- events that are memory-safety violations under a real libc --------- */
extern long vfs_use_after_close; /* any call on a closed vFILE, incl. double fclose */
extern long vfs_contract_breach; /* write directly after read (or vice versa) without positioning */
extern char vfs_last_event[160];

/* ---- inspection ---------------------------------------------------------- */
vfile   *vfs_lookup(const char *path);            /* NULL if absent */
vfile   *vfs_file(int idx);
int      vfs_index(const vfile *f);
uint64_t vfs_hash_file(const vfile *f);           /* content+size */
uint64_t vfs_hash_all(void);                      /* all existing files, by name */
long     vfs_size(const char *path);              /* -1 if absent */
long     vfs_read_at(const vfile *f, long off, void *buf, long n); /* returns bytes copied */
void     vfs_write_at(vfile *f, long off, const void *buf, long n); /* raw, not logged */
void     vfs_truncate(vfile *f, long size);
uint8_t *vfs_dup_bytes(const vfile *f, long *size); /* malloc'd flat copy (size must be moderate) */
vfile   *vfs_create(const char *path);            /* create/truncate, raw */
void     vfs_remove_file(const char *path);
int      vfs_copy(const char *from, const char *to);
int      vfs_open_streams(void);                  /* number of currently open vFILEs */
int      vfs_export(const char *vpath, const char *realpath); /* write to a real file */
int      vfs_import(const char *realpath, const char *vpath);
int      vfs_is_vfile(const FILE *fp);
uint8_t *vfs_map_flat(const vfile *f, long *size); /* sparse-friendly flat copy (mmap) */
void     vfs_unmap_flat(const vfile *f, uint8_t *m);

#endif
