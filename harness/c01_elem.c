/* C01 - data elements behave as growable byte arrays, whatever their storage.
 * Fork-snapshot exploration of element-level histories over two access-handle slots against a byte-array model. */
#include "../engine/mc.h"
#include "../engine/vfs.h"
#include "../engine/fmtcheck.h"
#include "hdf.h"
#include <stdio.h>
#include <stdlib.h>
#include <string.h>

#define PATH "/vmem/c01.hdf"
#define EXTPATH "/vmem/c01.ext"
#define TAG 100
#define NELEM 3
#define MAXLEN 96

enum { SC_PLAIN, SC_LINKED, SC_EXT, SC_DUPDEL, SC_CONVERT, SC_NSCEN };
static const char *scname[] = {"plain", "linked", "external", "dupdel", "convert"};

enum { O_START, O_STARTWRITE, O_WRITE, O_SEEK, O_READ, O_TRUNC, O_APPENDABLE, O_END, O_REOPEN, O_SYNC, O_DUP, O_DEL, O_HLCONVERT, O_SETBLOCK, O_HBCONVERT, O_GETELEM };
static const char *opname[] = {"start", "startwrite", "write", "seek", "read", "trunc", "appendable", "end", "reopen", "sync", "dup", "del", "hlconvert", "setblockinfo", "hbconvert", "getelement"};

enum { CL_W = 1, CL_GAP = 2, CL_UNSPEC = 3 };

typedef struct {
    int   exists;
    int   len; /* -1: defined, no data yet */
    uint8 b[MAXLEN];
    uint8 cls[MAXLEN];
    int   grp, share; /* alias group and length of the shared prefix */
    int   hard;       /* hard alias group: duplicates of a special element are the same object */
} elem_t;

typedef struct {
    int   open;
    int   e;
    int   pos;
    int   canwrite;
    int   appendable;
    int32 aid;
} slot_t;

static struct {
    elem_t e[NELEM];
    slot_t s[2];
    int    scen, ndds, cache, blk, nblk, nslots, hole;
    int    nops, ngrp;
    int    readonly; /* file opened read-only after reopen(R) */
} M;
static int32 fid = FAIL;

/* observation can run in "probe" mode: mismatches are captured, not reported */
static int  g_quiet;
static char g_quiet_detail[400];
#define VIOL(sig, ...)                                                                                                              \
    do {                                                                                                                            \
        if (g_quiet) {                                                                                                              \
            if (!g_quiet_detail[0])                                                                                                 \
                snprintf(g_quiet_detail, sizeof g_quiet_detail, __VA_ARGS__);                                                       \
        }                                                                                                                           \
        else                                                                                                                        \
            mc_violation(sig, __VA_ARGS__);                                                                                         \
    } while (0)

static uint16
ref_of(int e)
{
    return (uint16)(e + 1);
}

static uint8
datum(int seed, int i)
{
    return (uint8)(0x10 + seed * 7 + i * 3 + 1) | 0x01; /* never 0 so written bytes differ from gap zeros */
}

/* -------------------------------------------------------------------- observation */
static int
check_element_content(int e, const char *where, int after_reopen)
{
    elem_t *m = &M.e[e];
    uint8   buf[MAXLEN + 32];
    memset(buf, 0xEE, sizeof buf);
    int32 aid = Hstartread(fid, TAG, ref_of(e));
    if (!m->exists) {
        if (aid != FAIL) {
            VIOL("ghost-element", "%s: Hstartread on deleted/nonexistent element %d succeeded", where, e);
            Hendaccess(aid);
            return 1;
        }
        return 0;
    }
    if (aid == FAIL) {
        VIOL("missing-element", "%s: Hstartread(%d,%d) failed for an existing element (len %d)", where, TAG, ref_of(e), m->len);
        return 1;
    }
    int bad = 0;
    if (m->len < 0) {
        /* defined, no data: reading must fail */
        int32 r = Hread(aid, 1, buf);
        if (r != FAIL) {
            VIOL("read-new-element", "%s: Hread on a never-written element returned %d", where, (int)r);
            bad = 1;
        }
    }
    else {
        int32 ilen = -2;
        if (Hinquire(aid, NULL, NULL, NULL, &ilen, NULL, NULL, NULL, NULL) == FAIL || ilen != m->len) {
            VIOL("length", "%s: element %d reports length %d, model %d", where, e, (int)ilen, m->len);
            bad = 1;
        }
        int32 r = Hread(aid, 0, buf);
        int   has_unspec = 0, has_gap = 0;
        for (int i = 0; i < m->len; i++) {
            if (m->cls[i] == CL_UNSPEC)
                has_unspec = 1;
            if (m->cls[i] == CL_GAP)
                has_gap = 1;
        }
        if (r == FAIL && has_unspec) {
            /* reserved-but-never-written space may not physically exist yet: unspecified */
        }
        else if (r == FAIL && has_gap && M.cache && !after_reopen) {
            /* recorded deviation: see known_findings (the file is not physically extended before the flush) */
            VIOL("read-fails-on-seek-gap-before-flush", "%s: reading element %d (length %d) across a seek gap fails before the file is flushed (DD caching on)",
                 where, e, m->len);
            mc_count("read_failed_on_unflushed_gap", 1);
        }
        else if (m->len == 0) {
            if (r != 0 && r != FAIL) {
                VIOL("read-count", "%s: Hread(0) on empty element %d returned %d", where, e, (int)r);
                bad = 1;
            }
        }
        else if (r != m->len) {
            VIOL("read-count", "%s: whole-element Hread(0) of element %d returned %d, true length %d", where, e, (int)r, m->len);
            bad = 1;
        }
        else {
            for (int i = 0; i < m->len; i++) {
                int exp = -1;
                if (m->cls[i] == CL_W)
                    exp = m->b[i];
                else if (m->cls[i] == CL_GAP && after_reopen)
                    exp = 0;
                if (exp >= 0 && buf[i] != exp) {
                    VIOL(m->cls[i] == CL_W ? "content" : "gap-not-zero", "%s: element %d byte %d reads 0x%02x, expected 0x%02x (len %d)", where, e,
                                 i, buf[i], exp, m->len);
                    bad = 1;
                    break;
                }
            }
            if (buf[m->len] != 0xEE) {
                VIOL("read-overrun", "%s: Hread wrote past the element length into the caller's buffer", where);
                bad = 1;
            }
        }
        if (!bad) {
            int32 hl = Hlength(fid, TAG, ref_of(e));
            if (hl != m->len) {
                VIOL("length", "%s: Hlength(element %d)=%d, model %d", where, e, (int)hl, m->len);
                bad = 1;
            }
        }
    }
    if (Hendaccess(aid) == FAIL) {
        VIOL("endaccess", "%s: Hendaccess of a fresh read handle failed", where);
        bad = 1;
    }
    return bad;
}

static int g_only_slot = -1;
static int
observe(const char *where)
{
    int bad = 0;
    for (int s = 0; s < 2; s++) {
        if (!M.s[s].open || (g_only_slot >= 0 && s != g_only_slot))
            continue;
        int32 t = Htell(M.s[s].aid);
        if (t != M.s[s].pos) {
            VIOL("tell", "%s: Htell(slot %d)=%d, model position %d", where, s, (int)t, M.s[s].pos);
            bad = 1;
        }
        elem_t *m = &M.e[M.s[s].e];
        if (m->len >= 0) {
            int32 len = -2, posn = -2;
            uint16 t2 = 0, r2 = 0;
            if (Hinquire(M.s[s].aid, NULL, &t2, &r2, &len, NULL, &posn, NULL, NULL) == FAIL) {
                VIOL("inquire", "%s: Hinquire(slot %d) failed", where, s);
                bad = 1;
            }
            else {
                if (len != m->len) {
                    VIOL("inquire-length", "%s: Hinquire(slot %d) length %d, model %d", where, s, (int)len, m->len);
                    bad = 1;
                }
                if (posn != M.s[s].pos) {
                    VIOL("inquire-posn", "%s: Hinquire(slot %d) position %d, model %d", where, s, (int)posn, M.s[s].pos);
                    bad = 1;
                }
                if (r2 != ref_of(M.s[s].e)) {
                    VIOL("inquire-ref", "%s: Hinquire(slot %d) ref %u, expected %u", where, s, r2, ref_of(M.s[s].e));
                    bad = 1;
                }
            }
        }
    }
    for (int e = 0; e < NELEM && !bad && g_only_slot < 0; e++)
        bad |= check_element_content(e, where, 0);
    return bad;
}

static int
slot_special(int s)
{
    int16 sp = 0;
    if (!M.s[s].open)
        return 0;
    if (Hinquire(M.s[s].aid, NULL, NULL, NULL, NULL, NULL, NULL, NULL, &sp) == FAIL)
        return -1;
    return sp;
}

/* -------------------------------------------------------------------- model helpers */
static void
model_write(int e, int pos, int n, const uint8 *d)
{
    elem_t *m = &M.e[e];
    if (m->len < 0)
        m->len = 0;
    for (int i = m->len; i < pos && i < MAXLEN; i++) {
        m->b[i]   = 0;
        m->cls[i] = CL_GAP;
    }
    for (int i = 0; i < n && pos + i < MAXLEN; i++) {
        m->b[pos + i]   = d[i];
        m->cls[pos + i] = CL_W;
        if (m->grp && pos + i < m->share)
            for (int o = 0; o < NELEM; o++)
                if (o != e && M.e[o].exists && M.e[o].grp == m->grp && pos + i < M.e[o].share) {
                    M.e[o].b[pos + i]   = d[i];
                    M.e[o].cls[pos + i] = CL_W;
                }
    }
    if (pos + n > m->len)
        m->len = pos + n;
}

static void
sync_hard(int e)
{
    elem_t *m = &M.e[e];
    if (!m->hard)
        return;
    for (int o = 0; o < NELEM; o++)
        if (o != e && M.e[o].exists && M.e[o].hard == m->hard) {
            M.e[o].len = m->len;
            memcpy(M.e[o].b, m->b, sizeof m->b);
            memcpy(M.e[o].cls, m->cls, sizeof m->cls);
        }
}

static int
other_slot_on(int s)
{
    int o = 1 - s;
    return M.s[o].open && M.s[o].e == M.s[s].e;
}

/* -------------------------------------------------------------------- apply */
static int
apply(const mc_op *op)
{
    int s = op->a[0];
    M.nops++;
    vfs_api_seq++;
    int sp_before[2] = {slot_special(0), slot_special(1)};
    int touched = -1; /* element whose bytes/length may have changed */
    switch (op->code) {
        case O_START: {
            int     e = op->a[1], mode = op->a[2];
            elem_t *m = &M.e[e];
            uint32  fl = mode == 0 ? DFACC_READ : mode == 1 ? DFACC_WRITE : (DFACC_WRITE | DFACC_APPENDABLE);
            int32   aid = Hstartaccess(fid, TAG, ref_of(e), fl);
            int     must_fail = (!m->exists && mode == 0) || (mode != 0 && M.readonly);
            if (must_fail) {
                if (aid != FAIL) {
                    mc_violation("start:should-fail", "Hstartaccess(elem %d, mode %d) succeeded (exists=%d, file read-only=%d)", e, mode, m->exists, M.readonly);
                    return 1;
                }
                break;
            }
            if (aid == FAIL) {
                mc_violation("start:failed", "Hstartaccess(elem %d, mode %d) failed (exists=%d len=%d)", e, mode, m->exists, m->len);
                return 1;
            }
            if (!m->exists) {
                m->exists = 1;
                m->len    = -1;
                m->grp    = 0;
            }
            M.s[s].open = 1, M.s[s].e = e, M.s[s].pos = 0, M.s[s].canwrite = mode != 0, M.s[s].appendable = mode == 2, M.s[s].aid = aid;
            break;
        }
        case O_STARTWRITE: {
            int     e = op->a[1], len = op->a[2];
            elem_t *m = &M.e[e];
            int32   aid = Hstartwrite(fid, TAG, ref_of(e), len);
            if (M.readonly) {
                if (aid != FAIL) {
                    mc_violation("startwrite:readonly", "Hstartwrite succeeded on a read-only file");
                    return 1;
                }
                break;
            }
            if (aid == FAIL) {
                mc_violation("startwrite:failed", "Hstartwrite(elem %d, len %d) failed", e, len);
                return 1;
            }
            if (!m->exists || m->len < 0) {
                m->exists = 1;
                m->len    = len;
                m->grp    = 0;
                for (int i = 0; i < len; i++)
                    m->cls[i] = CL_UNSPEC;
            }
            M.s[s].open = 1, M.s[s].e = e, M.s[s].pos = 0, M.s[s].canwrite = 1, M.s[s].appendable = 0, M.s[s].aid = aid;
            break;
        }
        case O_WRITE: {
            int     n = op->a[1];
            slot_t *sl = &M.s[s];
            elem_t *m  = &M.e[sl->e];
            uint8   d[16];
            for (int i = 0; i < n; i++)
                d[i] = datum(M.nops, i);
            int32 r   = Hwrite(sl->aid, n, d);
            int   len = m->len < 0 ? 0 : m->len;
            if (!sl->canwrite) {
                if (r != FAIL) {
                    mc_violation("write:read-handle", "Hwrite through a read-only access handle returned %d", (int)r);
                    return 1;
                }
                break;
            }
            int must_ok = (m->len < 0 && sl->pos == 0) || (m->len >= 0 && sl->pos + n <= len) || (sl->appendable && sl->pos >= 0);
            if (r == FAIL) {
                if (must_ok) {
                    mc_violation(sl->pos + n <= len ? "write:inplace-failed" : "write:append-failed",
                                 "Hwrite(%d) at position %d of element %d (length %d, appendable=%d) failed", n, sl->pos, sl->e, m->len, sl->appendable);
                    return 1;
                }
                mc_count("write_refused_past_end", 1);
                break;
            }
            if (r != n) {
                mc_violation("write:count", "Hwrite(%d) returned %d", n, (int)r);
                return 1;
            }
            if (m->len < 0)
                sl->appendable = 1; /* documented: a new element becomes appendable on first write */
            if (sl->pos + n > len)
                mc_count("write_extended", 1);
            model_write(sl->e, sl->pos, n, d);
            sl->pos += n;
            touched = sl->e;
            break;
        }
        case O_SEEK: {
            slot_t *sl = &M.s[s];
            elem_t *m  = &M.e[sl->e];
            int     len = m->len < 0 ? 0 : m->len;
            int     off = op->a[1], org = op->a[2];
            int     target = org == DF_START ? off : org == DF_CURRENT ? sl->pos + off : len + off;
            int     r = Hseek(sl->aid, off, org);
            if (target < 0) {
                if (r != FAIL) {
                    mc_violation("seek:negative", "Hseek to position %d succeeded", target);
                    return 1;
                }
                break;
            }
            int must_ok = target <= len || target == sl->pos || (sl->appendable && sl->canwrite);
            if (m->len < 0 && target != sl->pos)
                must_ok = 0;
            if (r == FAIL) {
                if (must_ok) {
                    mc_violation("seek:failed", "Hseek to %d in element %d (length %d, pos %d, appendable=%d) failed", target, sl->e, m->len, sl->pos,
                                 sl->appendable);
                    return 1;
                }
                /* a refused out-of-range seek on an appendable handle clears the appendable request (documented in Hseek) */
                break;
            }
            sl->pos = target;
            break;
        }
        case O_READ: {
            slot_t *sl = &M.s[s];
            elem_t *m  = &M.e[sl->e];
            int     n  = op->a[1];
            uint8   buf[MAXLEN + 80];
            memset(buf, 0xEE, sizeof buf);
            int32 r = Hread(sl->aid, n, buf);
            if (m->len < 0) {
                if (r != FAIL) {
                    mc_violation("read-new-element", "Hread on a never-written element returned %d", (int)r);
                    return 1;
                }
                break;
            }
            int avail = m->len - sl->pos;
            int want  = n == 0 ? avail : (n < avail ? n : avail);
            if (r == FAIL) {
                int unspec = 0;
                for (int i = 0; i < want; i++)
                    if (m->cls[sl->pos + i] == CL_UNSPEC)
                        unspec = 1;
                if (unspec)
                    break; /* reserved-but-never-written space: unspecified */
                int gap = 0;
                for (int i = 0; i < want; i++)
                    if (m->cls[sl->pos + i] == CL_GAP)
                        gap = 1;
                if (gap && M.cache) {
                    mc_violation("read-fails-on-seek-gap-before-flush", "Hread(%d) at pos %d of element %d (length %d) across a seek gap fails before the file is flushed (DD caching on)",
                                 n, sl->pos, sl->e, m->len);
                    mc_count("read_failed_on_unflushed_gap", 1);
                    break;
                }
            }
            if (want <= 0) {
                if (r != FAIL && r != 0) {
                    mc_violation("read-count", "Hread(%d) at/after the end (pos %d, len %d) returned %d", n, sl->pos, m->len, (int)r);
                    return 1;
                }
                break;
            }
            if (r != want) {
                mc_violation("read-count", "Hread(%d) at pos %d of element %d (len %d) returned %d, expected %d", n, sl->pos, sl->e, m->len, (int)r, want);
                return 1;
            }
            for (int i = 0; i < want; i++)
                if (m->cls[sl->pos + i] == CL_W && buf[i] != m->b[sl->pos + i]) {
                    mc_violation("content", "Hread at pos %d: byte %d is 0x%02x, last written 0x%02x", sl->pos, sl->pos + i, buf[i], m->b[sl->pos + i]);
                    return 1;
                }
            if (buf[want] != 0xEE) {
                mc_violation("read-overrun", "Hread(%d) stored more than the %d bytes it reported", n, want);
                return 1;
            }
            sl->pos += want;
            break;
        }
        case O_TRUNC: {
            slot_t *sl = &M.s[s];
            elem_t *m  = &M.e[sl->e];
            int     l  = op->a[1];
            int32   r  = Htrunc(sl->aid, l);
            if (sl->canwrite && m->len > l && sp_before[s] > 0 && r == FAIL) {
                /* genuine, recorded deviation: truncation is refused on special elements (see known_findings) */
                mc_violation("trunc:refused-on-special", "Htrunc(%d) on a %s element of length %d is refused; plain elements accept it",
                             l, sp_before[s] == SPECIAL_LINKED ? "linked-block" : sp_before[s] == SPECIAL_EXT ? "external" : "special", m->len);
                mc_count("trunc_refused_on_special", 1);
                break; /* nothing changed: keep exploring */
            }
            if (!sl->canwrite || m->len <= l) {
                if (r != FAIL) {
                    mc_violation("trunc:should-fail", "Htrunc(%d) on element of length %d (write handle=%d) returned %d", l, m->len, sl->canwrite, (int)r);
                    return 1;
                }
                break;
            }
            if (r != l) {
                mc_violation("trunc:failed", "Htrunc(%d) on element %d of length %d returned %d", l, sl->e, m->len, (int)r);
                return 1;
            }
            m->len = l;
            if (m->share > l)
                m->share = l;
            if (sl->pos > l)
                sl->pos = l;
            touched = sl->e;
            break;
        }
        case O_APPENDABLE:
            if (Happendable(M.s[s].aid) == FAIL) {
                mc_violation("appendable:failed", "Happendable failed on a valid handle");
                return 1;
            }
            M.s[s].appendable = 1;
            break;
        case O_END:
            if (Hendaccess(M.s[s].aid) == FAIL) {
                mc_violation("endaccess", "Hendaccess(slot %d) failed", s);
                return 1;
            }
            M.s[s].open = 0;
            break;
        case O_REOPEN: {
            if (Hclose(fid) == FAIL) {
                mc_violation("close:failed", "Hclose failed with no handles attached");
                return 1;
            }
            fid = Hopen(PATH, op->a[0] ? DFACC_RDWR : DFACC_READ, 0);
            if (fid == FAIL) {
                mc_violation("reopen:failed", "Hopen(%s) after close failed", op->a[0] ? "RDWR" : "READ");
                return 1;
            }
            M.readonly = !op->a[0];
            if (!M.cache)
                Hcache(fid, 0);
            /* after reopen, seek gaps must read as zeros */
            for (int e = 0; e < NELEM; e++)
                if (check_element_content(e, "after reopen", 1))
                    return 1;
            break;
        }
        case O_SYNC:
            if (Hsync(fid) == FAIL) {
                mc_violation("sync:failed", "Hsync failed");
                return 1;
            }
            break;
        case O_DUP: {
            int     ne = op->a[0], oe = op->a[1];
            int     r = Hdupdd(fid, TAG, ref_of(ne), TAG, ref_of(oe));
            elem_t *o = &M.e[oe], *n = &M.e[ne];
            if (M.readonly) {
                /* documented nowhere: follow */
                if (r == SUCCEED)
                    mc_count("dup_on_readonly_file_accepted", 1);
            }
            if (n->exists || !o->exists) {
                if (r != FAIL) {
                    mc_violation("dup:should-fail", "Hdupdd succeeded (new exists=%d, old exists=%d)", n->exists, o->exists);
                    return 1;
                }
                break;
            }
            if (r == FAIL) {
                if (M.readonly)
                    break;
                mc_violation("dup:failed", "Hdupdd(elem %d <- elem %d) failed", ne, oe);
                return 1;
            }
            *n = *o;
            {
                /* is the duplicated element special (linked/external)? then both names are one object */
                int16 sp  = 0;
                int32 aid = Hstartread(fid, TAG, ref_of(oe));
                if (aid != FAIL) {
                    Hinquire(aid, NULL, NULL, NULL, NULL, NULL, NULL, NULL, &sp);
                    Hendaccess(aid);
                }
                if (sp > 0) {
                    if (!o->hard)
                        o->hard = ++M.ngrp;
                    n->hard = o->hard;
                    mc_count("dup_of_special_element", 1);
                    break;
                }
            }
            if (!o->grp) {
                o->grp   = ++M.ngrp;
                o->share = o->len < 0 ? 0 : o->len;
            }
            n->grp   = o->grp;
            n->share = o->share;
            break;
        }
        case O_DEL: {
            int     e = op->a[0];
            int     r = Hdeldd(fid, TAG, ref_of(e));
            elem_t *m = &M.e[e];
            if (!m->exists) {
                if (r != FAIL) {
                    mc_violation("del:should-fail", "Hdeldd of a nonexistent element succeeded");
                    return 1;
                }
                break;
            }
            if (r == FAIL) {
                if (M.readonly)
                    break;
                mc_violation("del:failed", "Hdeldd(elem %d) failed", e);
                return 1;
            }
            memset(m, 0, sizeof *m);
            break;
        }
        case O_HLCONVERT: {
            int r = HLconvert(M.s[s].aid, op->a[1], op->a[2]);
            /* converting an already special element must fail; otherwise it must not change the bytes */
            mc_count(r == SUCCEED ? "hlconvert_ok" : "hlconvert_refused", 1);
            break;
        }
        case O_SETBLOCK: {
            int r = HLsetblockinfo(M.s[s].aid, op->a[1], op->a[2]);
            mc_count(r == SUCCEED ? "setblockinfo_ok" : "setblockinfo_refused", 1);
            break;
        }
        case O_GETELEM:
            break; /* observation only */
    }
    if (touched >= 0)
        sync_hard(touched);
    char where[64];
    snprintf(where, sizeof where, "after %s", opname[op->code]);
    /* silent promotion through one handle while a second handle is attached to the same element */
    for (int a = 0; a < 2; a++) {
        int o = 1 - a;
        if (M.s[a].open && M.s[o].open && M.s[a].e == M.s[o].e && sp_before[a] == 0 && slot_special(a) > 0 && sp_before[o] == 0) {
            mc_count("promotion_with_second_handle", 1);
            g_quiet = 1, g_quiet_detail[0] = 0, g_only_slot = o;
            int bad = observe(where);
            g_quiet = 0, g_only_slot = -1;
            if (bad) {
                mc_violation("second-handle-stale-after-promotion", "element E%d was promoted to linked blocks through slot %d while slot %d was attached: %s",
                             M.s[a].e + 1, a, o, g_quiet_detail);
                return 1;
            }
        }
    }
    return observe(where);
}

/* -------------------------------------------------------------------- enabled ops */
static int
enum_ops(mc_op *out, int max)
{
    int n = 0;
#define ADD(c, a0, a1, a2)                                                                                                           \
    do {                                                                                                                             \
        if (n < max) {                                                                                                               \
            memset(&out[n], 0, sizeof out[n]);                                                                                       \
            out[n].code = c;                                                                                                         \
            out[n].a[0] = a0;                                                                                                        \
            out[n].a[1] = a1;                                                                                                        \
            out[n].a[2] = a2;                                                                                                        \
            n++;                                                                                                                     \
        }                                                                                                                            \
    } while (0)
    int thorough = mc_is_thorough();
    /* open a handle in the lowest free slot */
    int freeslot = !M.s[0].open ? 0 : (!M.s[1].open && M.nslots > 1 ? 1 : -1);
    if (freeslot >= 0) {
        for (int e = 0; e < NELEM; e++) {
            if (e == 2 && M.scen != SC_PLAIN && M.scen != SC_DUPDEL)
                continue;
            int writer_present = 0; /* the API leaves two writers on one element to the caller's responsibility */
            for (int q = 0; q < 2; q++)
                if (M.s[q].open && M.s[q].e == e && M.s[q].canwrite)
                    writer_present = 1;
            int attached = 0;
            for (int q = 0; q < 2; q++)
                if (M.s[q].open && M.s[q].e == e)
                    attached = 1;
            if (M.e[e].exists && M.e[e].len < 0 && attached)
                continue; /* a second handle on a defined-but-never-written element: contract silent */
            if (M.e[e].exists) {
                ADD(O_START, freeslot, e, 0);
                if (!M.readonly && !writer_present) {
                    ADD(O_START, freeslot, e, 1);
                    if (M.e[e].len >= 0)
                        ADD(O_START, freeslot, e, 2);
                }
                else if (e == 0)
                    ADD(O_START, freeslot, e, 1); /* must fail on a read-only file */
            }
            else if (e == 2 && M.scen == SC_PLAIN && !M.readonly) {
                ADD(O_START, freeslot, e, 1);      /* define a new element without length */
                ADD(O_STARTWRITE, freeslot, e, 3); /* new element with reserved length */
                ADD(O_START, freeslot, e, 0);      /* must fail */
            }
        }
    }
    for (int s = 0; s < 2; s++) {
        if (!M.s[s].open)
            continue;
        if (M.e[M.s[s].e].len < 0) {
            /* defined, never written: only the operations whose meaning is documented for a new element */
            ADD(O_WRITE, s, 3, 0);
            ADD(O_SEEK, s, 0, DF_START);
            ADD(O_READ, s, 2, 0);
            ADD(O_END, s, 0, 0);
            continue;
        }
        ADD(O_WRITE, s, 1, 0);
        ADD(O_WRITE, s, 3, 0);
        if (thorough)
            ADD(O_WRITE, s, 5, 0);
        ADD(O_SEEK, s, 0, DF_START);
        ADD(O_SEEK, s, 1, DF_START);
        ADD(O_SEEK, s, 0, DF_END);
        ADD(O_SEEK, s, 2, DF_END);
        ADD(O_SEEK, s, -1, DF_CURRENT);
        ADD(O_READ, s, 0, 0);
        ADD(O_READ, s, 2, 0);
        if (M.s[s].canwrite || M.scen == SC_PLAIN) {
            /* truncation: only where no second handle sits on the same element beyond the cut */
            if (!other_slot_on(s)) {
                ADD(O_TRUNC, s, 2, 0);
                if (thorough)
                    ADD(O_TRUNC, s, 0, 0);
            }
        }
        if (M.s[s].canwrite && !M.s[s].appendable)
            ADD(O_APPENDABLE, s, 0, 0);
        ADD(O_END, s, 0, 0);
        if (M.scen == SC_CONVERT && M.s[s].canwrite) {
            ADD(O_HLCONVERT, s, M.blk, M.nblk);
            ADD(O_SETBLOCK, s, M.blk, M.nblk);
        }
    }
    if (!M.s[0].open && !M.s[1].open) {
        ADD(O_REOPEN, 1, 0, 0);
        ADD(O_REOPEN, 0, 0, 0);
    }
    ADD(O_SYNC, 0, 0, 0);
    if (M.scen == SC_DUPDEL && !M.s[0].open && !M.s[1].open && !M.readonly) {
        for (int e = 0; e < NELEM; e++) {
            if (M.e[e].exists)
                ADD(O_DEL, e, 0, 0);
            for (int o = 0; o < NELEM; o++)
                if (o != e && !M.e[e].exists && M.e[o].exists && M.e[o].len >= 0)
                    ADD(O_DUP, e, o, 0);
        }
    }
    return n;
}

static int
dev_cost(const mc_op *op)
{
    return op->code == O_REOPEN || op->code == O_SYNC;
}

static void
fmt_op(const mc_op *op, char *buf, size_t n)
{
    static const char *modes[] = {"R", "W", "W|APPENDABLE"};
    static const char *orgs[]  = {"START", "CURRENT", "END"};
    switch (op->code) {
        case O_START: snprintf(buf, n, "start(slot%d,E%d,%s)", op->a[0], op->a[1] + 1, modes[op->a[2]]); break;
        case O_STARTWRITE: snprintf(buf, n, "startwrite(slot%d,E%d,len %d)", op->a[0], op->a[1] + 1, op->a[2]); break;
        case O_SEEK: snprintf(buf, n, "seek(slot%d,%d,%s)", op->a[0], op->a[1], orgs[op->a[2]]); break;
        case O_REOPEN: snprintf(buf, n, "reopen(%s)", op->a[0] ? "RDWR" : "READ"); break;
        case O_DUP: snprintf(buf, n, "dup(E%d<-E%d)", op->a[0] + 1, op->a[1] + 1); break;
        case O_DEL: snprintf(buf, n, "del(E%d)", op->a[0] + 1); break;
        case O_SYNC: snprintf(buf, n, "sync()"); break;
        case O_HLCONVERT:
        case O_SETBLOCK: snprintf(buf, n, "%s(slot%d,blk %d,n %d)", opname[op->code], op->a[0], op->a[1], op->a[2]); break;
        default: snprintf(buf, n, "%s(slot%d,%d)", opname[op->code], op->a[0], op->a[1]);
    }
}

static uint64_t
key(void)
{
    uint64_t h = MC_H0;
    h          = mc_hash_i(h, M.scen * 1000 + M.ndds * 10 + M.cache);
    h          = mc_hash_i(h, M.blk * 100 + M.nblk * 10 + M.hole);
    h          = mc_hash_i(h, M.readonly);
    for (int e = 0; e < NELEM; e++) {
        elem_t *m = &M.e[e];
        h         = mc_hash_i(h, m->exists);
        if (!m->exists)
            continue;
        h = mc_hash_i(h, m->len);
        h = mc_hash_i(h, m->grp * 100 + m->share);
        if (m->len > 0) {
            h = mc_hash(h, m->b, (size_t)m->len);
            h = mc_hash(h, m->cls, (size_t)m->len);
        }
    }
    for (int s = 0; s < 2; s++) {
        slot_t *sl = &M.s[s];
        h          = mc_hash_i(h, sl->open);
        if (!sl->open)
            continue;
        int16 special = 0;
        int32 len = 0;
        Hinquire(sl->aid, NULL, NULL, NULL, &len, NULL, NULL, NULL, &special);
        h = mc_hash_i(h, sl->e * 1000 + sl->pos * 8 + sl->canwrite * 4 + sl->appendable * 2);
        h = mc_hash_i(h, special);
    }
    h = mc_hash_i(h, (long)vfs_hash_all());
    return h;
}

static void
terminal(void)
{
    for (int s = 1; s >= 0; s--)
        if (M.s[s].open) {
            if (Hendaccess(M.s[s].aid) == FAIL)
                mc_violation("terminal:endaccess", "Hendaccess(slot %d) failed", s);
            M.s[s].open = 0;
        }
    if (Hclose(fid) == FAIL) {
        mc_violation("terminal:close", "Hclose failed with all handles released");
        return;
    }
    fid = FAIL;
    vfile *vf = vfs_lookup(PATH);
    long   sz;
    uint8 *bytes = vfs_dup_bytes(vf, &sz);
    fc_file fc;
    memset(&fc, 0, sizeof fc);
    if (fc_parse(&fc, bytes, sz) != 0)
        mc_violation("terminal:format", "closed file is not well-formed: %s", fc.err[0]);
    else {
        int linked = 0;
        for (int i = 0; i < fc.ndd; i++)
            if (fc_is_special(fc.dd[i].tag) && fc_base(fc.dd[i].tag) == TAG)
                linked++;
        if (linked)
            mc_count("files_with_special_element", 1);
        if (fc.nblk > 1)
            mc_count("files_multi_ddblock", 1);
    }
    fc_free(&fc);
    free(bytes);
    fid = Hopen(PATH, DFACC_READ, 0);
    if (fid == FAIL) {
        mc_violation("terminal:reopen", "Hopen(READ) of the closed file failed");
        return;
    }
    for (int e = 0; e < NELEM; e++)
        check_element_content(e, "after close+reopen", 1);
    Hclose(fid);
}

/* -------------------------------------------------------------------- prologue */
static int
put_plain(int e, int len)
{
    uint8 d[16];
    for (int i = 0; i < len; i++)
        d[i] = datum(40 + e, i);
    if (Hputelement(fid, TAG, ref_of(e), d, len) != len)
        return -1;
    M.e[e].exists = 1;
    M.e[e].len    = 0;
    model_write(e, 0, len, d);
    return 0;
}

static int
setup(int scen, int ndds, int cache, int blk, int nblk, int nslots, int hole)
{
    memset(&M, 0, sizeof M);
    M.scen = scen, M.ndds = ndds, M.cache = cache, M.blk = blk, M.nblk = nblk, M.nslots = nslots, M.hole = hole;
    vfs_remove_file(PATH);
    vfs_remove_file(EXTPATH);
    Hcache(CACHE_ALL_FILES, 1);
    fid = Hopen(PATH, DFACC_CREATE, (int16)ndds);
    if (fid == FAIL)
        return -1;
    if (!cache)
        Hcache(fid, 0);
    uint8 d[16];
    for (int i = 0; i < 4; i++)
        d[i] = datum(40, i);
    if (scen == SC_LINKED) {
        int32 aid = HLcreate(fid, TAG, ref_of(0), blk, nblk);
        if (aid == FAIL || Hwrite(aid, 4, d) != 4)
            return -1;
        M.e[0].exists = 1;
        model_write(0, 0, 4, d);
        if (hole) {
            /* start state with a seek gap: blocks (and whole block tables) that were never written */
            if (Hseek(aid, 3, DF_CURRENT) == FAIL || Hwrite(aid, 1, d + 1) != 1)
                return -1;
            model_write(0, 7, 1, d + 1);
        }
        if (Hendaccess(aid) == FAIL)
            return -1;
    }
    else if (scen == SC_EXT) {
        int32 aid = HXcreate(fid, TAG, ref_of(0), EXTPATH, blk /* offset in the external file */, 0);
        if (aid == FAIL || Hwrite(aid, 4, d) != 4 || Hendaccess(aid) == FAIL)
            return -1;
        M.e[0].exists = 1;
        model_write(0, 0, 4, d);
    }
    else if (put_plain(0, 4))
        return -1;
    if (put_plain(1, 3))
        return -1;
    if (hole == 2) {
        /* start state "a descriptor block is the last thing in the file": aliases (descriptors without data of their own)
           until a new block has been started, then the file is closed and opened again for update */
        for (int j = 0; j <= ndds; j++)
            if (Hdupdd(fid, TAG + 7, (uint16)(300 + j), TAG, ref_of(1)) == FAIL)
                return -1;
        if (Hclose(fid) == FAIL || (fid = Hopen(PATH, DFACC_RDWR, 0)) == FAIL)
            return -1;
        if (!cache)
            Hcache(fid, 0);
    }
    M.nops = 0;
    if (observe("start state"))
        return -1;
    return 0;
}

typedef struct {
    int scen, ndds, cache, blk, nblk, nslots, hole, depth, dev;
} cfg_t;

static mc_harness H = {enum_ops, apply, key, terminal, fmt_op, dev_cost};

static void
set_cfg(const cfg_t *c)
{
    int cfg[7] = {c->scen, c->ndds, c->cache, c->blk, c->nblk, c->nslots, c->hole};
    mc_set_config(cfg, 7, "scenario=%s ndds=%d cache=%s blk=%d nblk=%d slots=%d hole=%d", scname[c->scen], c->ndds, c->cache ? "on" : "off", c->blk,
                  c->nblk, c->nslots, c->hole);
}

static void
root(void *arg)
{
    cfg_t *c = arg;
    set_cfg(c);
    if (setup(c->scen, c->ndds, c->cache, c->blk, c->nblk, c->nslots, c->hole)) {
        mc_violation("prologue", "prologue of scenario %s failed or start state disagrees with the model", scname[c->scen]);
        return;
    }
    mc_explore(&H, c->depth, c->dev);
}

int
C01_main(const char *tier, const char *replay)
{
    if (replay) {
        int   cfg[32], ncfg, nops;
        mc_op ops[MC_MAXDEPTH];
        if (mc_load_replay(replay, cfg, &ncfg, ops, &nops, MC_MAXDEPTH) || ncfg < 6) {
            fprintf(stderr, "bad replay file\n");
            return 2;
        }
        cfg_t c = {cfg[0], cfg[1], cfg[2], cfg[3], cfg[4], cfg[5], ncfg > 6 ? cfg[6] : 0, 0, 0};
        set_cfg(&c);
        printf("replay C01: scenario=%s ndds=%d cache=%d blk=%d nblk=%d slots=%d, %d ops\n", scname[c.scen], c.ndds, c.cache, c.blk, c.nblk, c.nslots, nops);
        if (setup(c.scen, c.ndds, c.cache, c.blk, c.nblk, c.nslots, c.hole)) {
            printf("prologue failed\n");
            return 0;
        }
        mc_replay_ops(&H, ops, nops);
        return 0;
    }
    int          thorough = strcmp(tier, "thorough") == 0;
    static cfg_t cfgs[256];
    int          dmax = thorough ? 7 : 4;
    for (int depth = thorough ? 4 : dmax; depth <= dmax; depth++) {
        char label[64];
        snprintf(label, sizeof label, "depth %d (1 slot: +1)", depth);
        mc_round_begin(label);
        int ncfg = 0;
        for (int scen = 0; scen < SC_NSCEN; scen++)
            for (int ci = 0; ci < (thorough ? 4 : 2); ci++) {
                /* quick: (ndds 4, cache on), (ndds 5, cache off); thorough adds (16,on), (4,off) */
                static const int nd[4] = {4, 5, 16, 4}, ca[4] = {1, 0, 1, 0};
                int              nvar = (scen == SC_LINKED || scen == SC_CONVERT) ? (thorough ? 4 : 2) : (scen == SC_EXT ? 2 : 1);
                int              nhole = scen == SC_LINKED ? 2 : 1;
                for (int v = 0; v < nvar * nhole; v++)
                    for (int nslots = 1; nslots <= 2; nslots++) {
                        static const int blks[4] = {2, 1, 3, 3}, nbl[4] = {1, 2, 2, 1};
                        cfg_t           *c = &cfgs[ncfg++];
                        c->scen = scen, c->ndds = nd[ci], c->cache = ca[ci];
                        c->blk    = scen == SC_EXT ? (v ? 3 : 0) : blks[v % nvar];
                        c->nblk   = nbl[v % nvar];
                        c->hole   = v / nvar;
                        c->nslots = nslots;
                        c->depth  = nslots == 1 ? depth + 1 : depth;
                        c->dev    = thorough ? 2 : 1;
                    }
                if (scen == SC_PLAIN || scen == SC_DUPDEL) {
                    /* the same scenario on a file that ends in a descriptor block */
                    cfg_t *c = &cfgs[ncfg++];
                    c->scen = scen, c->ndds = nd[ci], c->cache = ca[ci];
                    c->blk = 2, c->nblk = 1, c->hole = 2, c->nslots = 1;
                    c->depth = depth + 1;
                    c->dev   = thorough ? 2 : 1;
                }
            }
        int rot = mc_seed() % ncfg;
        for (int i = 0; i < ncfg; i++)
            mc_spawn_root(root, &cfgs[(i + rot) % ncfg], 6);
        mc_wait_roots();
        mc_round_end();
        if (mc_deadline_hit())
            break;
    }
    return 0;
}
