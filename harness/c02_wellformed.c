/* C02 - every file written is a well-formed, independently readable HDF4 file.
 * Fork-snapshot exploration of H/V/GR/SD/AN-level histories over one file (configurations: DDs per block x DD caching).
 * At every state the file is closed and (a) parsed and validated by the independent reader (descriptor chain, bounds, duplicates,
 * overlaps, every special element, Vdata header and Vgroup record), (b) every data element, Vdata, Vgroup, SDS, image and
 * annotation is decoded by the independent reader and compared with what the library's own read calls return, (c) the raw
 * (offset,length) locations reported by the *getdatainfo calls are compared with where the independent reader finds the data,
 * for every info_count from 1 to one more than the number of blocks, with exactly-sized heap arrays under AddressSanitizer. */
#include "../engine/mc.h"
#include "../engine/vfs.h"
#include "../engine/fmtcheck.h"
#include "hdf.h"
#include "mfhdf.h"
#include <stdio.h>
#include <stdlib.h>
#include <string.h>
#include <stdarg.h>

#define PATH "/vmem/c02.hdf"
#define EXTF "/vmem/c02.ext"
#define ETAG 1000

static int   g_ndds, g_cache;
static int32 fid = FAIL;
static int   g_nvs, g_nvg, g_nsd, g_ngr, g_nan; /* objects created so far (bounds the alphabet) */
static int32 g_vsref[4], g_vgref[4];
static uint64_t g_since; /* hash of the ops since the last reopen */
static int      g_nops;

static uint8 PAT[256];

/* situations in which the API contract is strained; appended to every signature reported afterwards so that a recorded
   finding is identified by the history that produces it */
static char g_ctx[64];
static int  g_kind[8]; /* storage kind of element (ETAG,r): 0 absent/plain, 1 linked, 2 external, 3 compressed */
static int  g_clen[8]; /* bytes held by a compressed element */
static uint16 g_sdref0; /* NDG reference number of the first data set */
static int  g_sd0_grown; /* the first data set is unlimited and got records in a later session than the one that created it */
static void
viol(const char *sig, const char *fmt, ...)
{
    char    s2[200], msg[900];
    va_list ap;
    va_start(ap, fmt);
    vsnprintf(msg, sizeof msg, fmt, ap);
    va_end(ap);
    snprintf(s2, sizeof s2, "%s%s%s", sig, g_ctx[0] ? "@" : "", g_ctx);
    mc_violation(s2, "%s", msg);
}
/* "(17384,1): compressed stream (coder 1, 9 bytes) does not ..." -> "compressed-stream-coder-bytes-does-not-..." */
static void
slug(const char *msg, char *out, size_t cap)
{
    const char *p = strstr(msg, "): ");
    p             = p ? p + 3 : msg;
    size_t o      = 0;
    int    dash   = 1;
    for (; *p && o + 2 < cap && o < 60; p++) {
        if ((*p >= 'a' && *p <= 'z') || (*p >= 'A' && *p <= 'Z')) {
            out[o++] = *p;
            dash     = 0;
        }
        else if (!dash) {
            out[o++] = '-';
            dash     = 1;
        }
    }
    while (o && out[o - 1] == '-')
        o--;
    out[o] = 0;
}

/* ------------------------------------------------------------------ session */
static int
open_session(int create)
{
    fid = Hopen(PATH, create ? DFACC_CREATE : DFACC_RDWR, (int16)g_ndds);
    if (fid == FAIL)
        return -1;
    if (!g_cache)
        Hcache(fid, FALSE);
    Vstart(fid);
    return 0;
}
static int
close_session(void)
{
    int rc = 0;
    if (fid == FAIL)
        return 0;
    if (Vend(fid) == FAIL)
        rc = -1;
    if (Hclose(fid) == FAIL)
        rc = -1;
    fid = FAIL;
    return rc;
}

/* ------------------------------------------------------------------ independent side */
static uint8_t *
ext_open(const char *name, long *size)
{
    vfile *v = vfs_lookup(name);
    if (!v)
        return NULL;
    return vfs_dup_bytes(v, size);
}

static int
internal_tag(uint16_t base)
{
    return base == FC_TAG_NULL || base == FC_TAG_LINKED || base == FC_TAG_VERSION || base == FC_TAG_COMPRESSED || base == FC_TAG_CHUNK;
}

static void
hex(const uint8_t *b, long n, char *out, size_t cap)
{
    size_t o = 0;
    for (long i = 0; i < n && i < 24 && o + 3 < cap; i++)
        o += (size_t)snprintf(out + o, cap - o, "%02x", b[i]);
    out[o] = 0;
}

/* (c) raw locations: the pieces the library reports must lie exactly where the independent reader finds the stored stream */
static void
check_pieces(const char *api, uint16_t tag, uint16_t ref, const uint8_t *file, long fsize, const int32 *off, const int32 *len, int n, int start,
             const fc_extent *ext, int next, const uint8_t *stored, long slen)
{
    long pos = 0;
    for (int i = 0; i < start && i < next; i++)
        pos += ext[i].len;
    for (int i = 0; i < n; i++) {
        int e = start + i;
        if (e >= next) {
            viol("datainfo:more-blocks-than-exist", "%s(%u,%u): reports block %d but the element is stored in %d block(s)", api, tag, ref, e, next);
            return;
        }
        if (ext[e].external)
            continue;
        if (off[i] != ext[e].off || len[i] < 0 || len[i] > ext[e].len || (long)off[i] + len[i] > fsize) {
            viol("datainfo:wrong-location", "%s(%u,%u): block %d reported at offset %d length %d, the independent reader finds it at offset %ld length %ld", api,
                         tag, ref, e, (int)off[i], (int)len[i], ext[e].off, ext[e].len);
            return;
        }
        /* the bytes at the reported location are the element's stored stream at that position */
        if (stored && pos + len[i] <= slen && memcmp(file + off[i], stored + pos, (size_t)len[i]) != 0) {
            viol("datainfo:wrong-bytes", "%s(%u,%u): bytes at reported block %d differ from the element's data", api, tag, ref, e);
            return;
        }
        /* every block but the last must be reported with its full length, or data would be missing */
        if (e < next - 1 && len[i] != ext[e].len) {
            viol("datainfo:short-block", "%s(%u,%u): block %d reported with length %d, it holds %ld bytes of the element", api, tag, ref, e, (int)len[i], ext[e].len);
            return;
        }
        pos += ext[e].len;
    }
    /* all blocks reported: together they are the element's stored stream, no more and no less */
    if (start == 0 && n == next && n > 0 && stored) {
        long sum = 0;
        int  anyext = 0;
        for (int i = 0; i < n; i++)
            sum += len[i], anyext |= ext[i].external;
        if (!anyext && sum != slen)
            viol("datainfo:lengths-do-not-add-up", "%s(%u,%u): the %d reported blocks add up to %ld bytes, the element's stored stream has %ld", api, tag, ref, n, sum, slen);
    }
}

typedef int (*info_fn)(void *ctx, unsigned start, unsigned count, int32 *off, int32 *len);
static void
probe_datainfo(const char *api, uint16_t tag, uint16_t ref, info_fn fn, void *ctx, const uint8_t *file, long fsize, const fc_extent *ext, int next,
               const uint8_t *stored, long slen)
{
    int total = fn(ctx, 0, 0, NULL, NULL);
    if (total == FAIL) {
        viol("datainfo:count-fails", "%s(%u,%u): the block-count query fails although the element exists (%d stored block(s))", api, tag, ref, next);
        return;
    }
    if (total == 0 && slen == 0)
        return; /* an element of no bytes (a Vdata without records that was attached for writing): no block to report */
    if (total != next) {
        viol("datainfo:wrong-count", "%s(%u,%u): reports %d block(s), the independent reader finds %d", api, tag, ref, total, next);
        return;
    }
    mc_count("datainfo_queries", 1);
    for (int k = 1; k <= total + 1; k++) {
        /* exactly k entries: AddressSanitizer reports any write beyond the caller-supplied size */
        int32 *off = malloc((size_t)k * sizeof *off), *len = malloc((size_t)k * sizeof *len);
        for (int i = 0; i < k; i++)
            off[i] = len[i] = -77;
        int got = fn(ctx, 0, (unsigned)k, off, len);
        if (got == FAIL) {
            if (total > 0)
                viol("datainfo:fails", "%s(%u,%u): fails with info_count %d although %d block(s) exist", api, tag, ref, k, total);
        }
        else {
            int want = k < total ? k : total;
            if (got != want && got != total)
                viol("datainfo:wrong-return", "%s(%u,%u): info_count %d of %d blocks: returned %d", api, tag, ref, k, total, got);
            else
                check_pieces(api, tag, ref, file, fsize, off, len, want, 0, ext, next, stored, slen);
            for (int i = want; i < k; i++)
                if (off[i] != -77 || len[i] != -77) {
                    viol("datainfo:writes-unused-entries", "%s(%u,%u): entry %d beyond the %d existing blocks was modified", api, tag, ref, i, total);
                    break;
                }
        }
        free(off);
        free(len);
        mc_count("datainfo_calls", 1);
    }
}

static int
hd_info(void *ctx, unsigned start, unsigned count, int32 *off, int32 *len)
{
    uint16 *tr = ctx;
    return HDgetdatainfo(fid, tr[0], tr[1], NULL, start, count, off, len);
}
static int
vs_info(void *ctx, unsigned start, unsigned count, int32 *off, int32 *len)
{
    return VSgetdatainfo(*(int32 *)ctx, start, count, off, len);
}
static int
gr_info(void *ctx, unsigned start, unsigned count, int32 *off, int32 *len)
{
    return GRgetdatainfo(*(int32 *)ctx, start, count, off, len);
}
static int
sd_info(void *ctx, unsigned start, unsigned count, int32 *off, int32 *len)
{
    return SDgetdatainfo(*(int32 *)ctx, NULL, start, count, off, len);
}

static void
swap_to_be(uint8_t *b, long n, int esz)
{
    if (esz <= 1)
        return;
    for (long i = 0; i + esz <= n; i += esz)
        for (int k = 0; k < esz / 2; k++) {
            uint8_t t        = b[i + k];
            b[i + k]         = b[i + esz - 1 - k];
            b[i + esz - 1 - k] = t;
        }
}

/* where an SD or GR attribute is said to be stored: exactly the bytes of its value (big-endian in the file) */
static void
check_attr_location(const char *when, const char *api, const char *what, int index, const char *aname, int rc, int32 aoff, int32 alen, uint8 *val, int32 nt, int32 cnt,
                    const uint8_t *bytes, long fsize)
{
    int esz = DFKNTsize(nt | DFNT_NATIVE);
    swap_to_be(val, (long)cnt * esz, esz);
    if (rc != 1 || aoff < 0 || alen != cnt * esz || (long)aoff + alen > fsize || memcmp(bytes + aoff, val, (size_t)alen))
        viol("datainfo:attribute-location", "%s: %s(%s, attribute %d '%s') returns %d, offset %d length %d: not where the %d bytes of its value are stored", when, api, what, index,
             aname, rc, (int)aoff, (int)alen, (int)(cnt * esz));
    mc_count("attribute_locations_checked", 1);
}
static void
sd_attr_locations(const char *when, int32 id, const char *what, int32 na, const uint8_t *bytes, long fsize)
{
    for (int a = 0; a < na; a++) {
        char  an[H4_MAX_NC_NAME + 1] = "";
        int32 ant = 0, acnt = 0, aoff = -1, alen = -1;
        if (SDattrinfo(id, a, an, &ant, &acnt) == FAIL)
            continue;
        uint8 *av = calloc(1, (size_t)acnt * 8 + 8);
        if (SDreadattr(id, a, av) != FAIL) {
            int rc = SDgetattdatainfo(id, a, &aoff, &alen);
            check_attr_location(when, "SDgetattdatainfo", what, a, an, rc, aoff, alen, av, ant, acnt, bytes, fsize);
        }
        free(av);
    }
}
static void
gr_attr_locations(const char *when, int32 id, const char *what, int32 na, const uint8_t *bytes, long fsize)
{
    for (int a = 0; a < na; a++) {
        char  an[H4_MAX_GR_NAME + 1] = "";
        int32 ant = 0, acnt = 0, aoff = -1, alen = -1;
        if (GRattrinfo(id, a, an, &ant, &acnt) == FAIL)
            continue;
        uint8 *av = calloc(1, (size_t)acnt * 8 + 8);
        if (GRgetattr(id, a, av) != FAIL) {
            int rc = GRgetattdatainfo(id, a, &aoff, &alen);
            check_attr_location(when, "GRgetattdatainfo", what, a, an, rc, aoff, alen, av, ant, acnt, bytes, fsize);
        }
        free(av);
    }
}

/* SDgetanndatainfo for a data set (labels, descriptions) or the file: every array size from 1 to one more than the number of
   annotations the independent reader finds, exactly-sized heap arrays; every entry is where one of them stores its text */
static void
sd_ann_locations(const char *when, const fc_file *fc, int32 id, const char *what, int isfile, uint16 ndgref)
{
    static const ann_type T[2][2] = {{AN_DATA_LABEL, AN_DATA_DESC}, {AN_FILE_LABEL, AN_FILE_DESC}};
    static const int      TAG[2][2] = {{104, 105}, {100, 101}};
    for (int t = 0; t < 2; t++) {
        int32 woff[16], wlen[16];
        int   want = 0;
        for (int i = 0; i < fc->ndd && want < 16; i++) {
            const fc_dd *d = &fc->dd[i];
            if (d->tag != TAG[isfile][t])
                continue;
            if (!isfile) {
                const uint8_t *b = fc->b + d->off;
                if (d->len < 4 || ((b[0] << 8) | b[1]) != 720 || ((b[2] << 8) | b[3]) != ndgref)
                    continue;
            }
            woff[want] = d->off + (isfile ? 0 : 4), wlen[want] = d->len - (isfile ? 0 : 4);
            want++;
        }
        int n = SDgetanndatainfo(id, T[isfile][t], 0, NULL, NULL);
        if (n != want)
            viol("datainfo:annotation-count", "%s: SDgetanndatainfo(%s, %s, count query) returns %d, the file holds %d such annotations", when, what,
                 t ? "descriptions" : "labels", n, want);
        for (int k = 1; k <= want + 1 && want > 0; k++) {
            int32 *o = malloc((size_t)k * sizeof *o), *l = malloc((size_t)k * sizeof *l);
            memset(o, 0xEE, (size_t)k * sizeof *o);
            memset(l, 0xEE, (size_t)k * sizeof *l);
            int got = SDgetanndatainfo(id, T[isfile][t], (unsigned)k, o, l), exp = k < want ? k : want;
            if (got != exp)
                viol("datainfo:annotation-return", "%s: SDgetanndatainfo(%s, %s) with arrays of %d for %d annotations returns %d", when, what, t ? "descriptions" : "labels", k, want, got);
            for (int i = 0; i < got && i < k; i++) {
                int found = 0;
                for (int j = 0; j < want; j++)
                    if (woff[j] == o[i] && wlen[j] == l[i])
                        found = 1;
                for (int j = 0; j < i; j++)
                    if (o[j] == o[i])
                        found = 0;
                if (!found)
                    viol("datainfo:annotation-location", "%s: SDgetanndatainfo(%s, %s) entry %d of %d: offset %d length %d is not where one of its annotations stores its text (or is reported twice)",
                         when, what, t ? "descriptions" : "labels", i, k, (int)o[i], (int)l[i]);
            }
            free(o);
            free(l);
            mc_count("anninfo_probes", 1);
        }
    }
}

/* the whole verification; the file is closed when this is called */
static void
verify_file(const char *when)
{
    vfile *vf = vfs_lookup(PATH);
    if (!vf)
        return;
    long     fsize;
    uint8_t *bytes = vfs_dup_bytes(vf, &fsize);
    fc_file  fc;
    memset(&fc, 0, sizeof fc);
    fc.ext_open = ext_open;
    if (fc_parse(&fc, bytes, fsize) != 0) {
        char sl[80], sg[120];
        slug(fc.err[0], sl, sizeof sl);
        snprintf(sg, sizeof sg, "format:descriptor-level:%s", sl);
        viol(sg, "%s: the independent reader rejects the file: %s", when, fc.err[0]);
        goto out;
    }
    if (fc_check_objects(&fc) != 0) {
        char sl[80], sg[120];
        slug(fc.err[0], sl, sizeof sl);
        snprintf(sg, sizeof sg, "format:object-level:%s", sl);
        viol(sg, "%s: %s", when, fc.err[0]);
        goto out;
    }
    mc_count("files_validated", 1);
    /* (b) + (c): read everything through the library */
    fid = Hopen(PATH, DFACC_READ, 0);
    if (fid == FAIL) {
        viol("library-cannot-open-own-file", "%s: Hopen(READ) fails on a file the library just closed", when);
        goto out;
    }
    Vstart(fid);
    for (int i = 0; i < fc.ndd; i++) {
        const fc_dd *d = &fc.dd[i];
        uint16_t     base = fc_base(d->tag);
        if (internal_tag(base) || d->off < 0)
            continue;
        fc_special s;
        memset(&s, 0, sizeof s);
        if (fc_is_special(d->tag) && fc_special_info(&fc, d, &s) != 0)
            continue;
        long      ilen = 0, slen = 0;
        int       uns = 0, next = 0;
        fc_extent ext[64];
        uint8_t  *ind, *stored = NULL;
        if (s.special == FC_SPECIAL_CHUNKED)
            ind = fc_chunked_logical(&fc, d, &ilen, &uns, ext, 64, &next);
        else {
            ind    = fc_logical_bytes(&fc, d, &ilen, &uns);
            stored = fc_stored_bytes(&fc, d, &slen, ext, 64, &next);
        }
        if (!ind) {
            if (!uns)
                viol("format:element-undecodable", "%s: (%u,%u): %s", when, d->tag, d->ref, fc.nerr ? fc.err[0] : "independent reader cannot decode the element");
            free(stored);
            continue;
        }
        int32 llen = Hlength(fid, base, d->ref);
        if (llen != ilen) {
            viol("content:length", "%s: (%u,%u): library reports length %d, the independent reader finds %ld bytes", when, base, d->ref, (int)llen, ilen);
        }
        else if (ilen > 0) {
            uint8 *lb = malloc((size_t)ilen + 8);
            int32  n  = Hgetelement(fid, base, d->ref, lb);
            if (n != ilen || memcmp(lb, ind, (size_t)ilen)) {
                char a[64], b[64];
                hex(lb, n > 0 ? n : 0, a, sizeof a);
                hex(ind, ilen, b, sizeof b);
                viol("content:bytes", "%s: (%u,%u): library reads %d bytes %s, the independent reader decodes %ld bytes %s", when, base, d->ref, (int)n, a, ilen, b);
            }
            free(lb);
        }
        mc_count("elements_compared", 1);
        /* raw locations through the element-level query (chunked elements need chunk coordinates: done at SD level) */
        if (s.special != FC_SPECIAL_CHUNKED && !(s.special == FC_SPECIAL_EXT)) {
            uint16 tr[2] = {base, d->ref};
            if (s.special == FC_SPECIAL_COMP && s.logical_len == 0)
                next = 0;
            probe_datainfo("HDgetdatainfo", base, d->ref, hd_info, tr, bytes, fsize, ext, next, s.special == FC_SPECIAL_COMP ? stored : stored, slen);
        }
        /* interface-level views of the same data */
        if (base == FC_TAG_VS) {
            int32 vs = VSattach(fid, d->ref, "r");
            if (vs != FAIL) {
                if (s.special != FC_SPECIAL_EXT)
                    probe_datainfo("VSgetdatainfo", base, d->ref, vs_info, &vs, bytes, fsize, ext, next, stored, slen);
                VSdetach(vs);
            }
        }
        free(stored);
        free(ind);
    }
    /* Vdata headers and Vgroups */
    for (int i = 0; i < fc.ndd; i++) {
        const fc_dd *d = &fc.dd[i];
        if (d->tag == FC_TAG_VH) {
            fc_vh h;
            if (fc_vdata_header(&fc, d, &h) != 0)
                continue;
            int32 vs = VSattach(fid, d->ref, "r");
            if (vs == FAIL) {
                viol("content:vdata-unattachable", "%s: Vdata (1962,%u) '%s' decodes independently but VSattach fails", when, d->ref, h.name);
                continue;
            }
            int32 n = -1, il = -1, sz = -1;
            static char fl[VSFIELDMAX * (FIELDNAMELENMAX + 1)];
            char  nm[VSNAMELENMAX + 1] = "", cl[VSNAMELENMAX + 1] = "", want[4096] = "";
            VSinquire(vs, &n, &il, fl, &sz, nm);
            VSgetclass(vs, cl);
            for (int k = 0; k < h.nfields; k++) {
                if (k)
                    strcat(want, ",");
                strcat(want, h.fname[k]);
            }
            if (n != h.nvert || il != h.interlace || strcmp(nm, h.name) || strcmp(cl, h.cls) || (h.nfields > 0 && strcmp(fl, want)))
                viol("content:vdata-header", "%s: Vdata (1962,%u): library says n=%d il=%d name='%s' class='%s' fields='%s'; file holds n=%ld il=%d name='%s' class='%s' fields='%s'",
                             when, d->ref, (int)n, (int)il, nm, cl, fl, h.nvert, h.interlace, h.name, h.cls, want);
            if (VSfnattrs(vs, _HDF_VDATA) + 0 >= 0) {
                int32 na = VSnattrs(vs);
                if (na != h.nattrs)
                    viol("content:vdata-nattrs", "%s: Vdata (1962,%u): library reports %d attributes, the header lists %d", when, d->ref, (int)na, h.nattrs);
            }
            /* where each attribute of the Vdata and of its fields is said to be stored: exactly the bytes of its value */
            for (int fi = -1; fi < h.nfields; fi++) {
                int32 findex = fi < 0 ? _HDF_VDATA : fi;
                int   nfa    = VSfnattrs(vs, findex);
                for (int a = 0; a < nfa; a++) {
                    char  an[FIELDNAMELENMAX + 1];
                    int32 ant = 0, acnt = 0, asz = 0, aoff = -1, alen = -1;
                    if (VSattrinfo(vs, findex, a, an, &ant, &acnt, &asz) == FAIL)
                        continue;
                    int    esz = DFKNTsize(ant | DFNT_NATIVE);
                    uint8 *av  = calloc(1, (size_t)(acnt * esz) + 8);
                    if (VSgetattr(vs, findex, a, av) != FAIL) {
                        int rc = VSgetattdatainfo(vs, findex, a, &aoff, &alen);
                        swap_to_be(av, (long)acnt * esz, esz);
                        if (rc != 1 || aoff < 0 || alen != acnt * esz || aoff + alen > fsize || memcmp(bytes + aoff, av, (size_t)alen))
                            viol("datainfo:attribute-location", "%s: VSgetattdatainfo(Vdata (1962,%u), %s, attribute %d '%s') returns %d, offset %d length %d: not where the %d bytes of its value are stored",
                                 when, d->ref, fi < 0 ? "the Vdata itself" : h.fname[fi], a, an, rc, (int)aoff, (int)alen, (int)(acnt * esz));
                        mc_count("attribute_locations_checked", 1);
                    }
                    free(av);
                }
            }
            VSdetach(vs);
            mc_count("vdatas_compared", 1);
        }
        if (d->tag == FC_TAG_VG) {
            fc_vg g;
            if (fc_vgroup(&fc, d, &g) != 0)
                continue;
            int32 vg = Vattach(fid, d->ref, "r");
            if (vg == FAIL) {
                viol("content:vgroup-unattachable", "%s: Vgroup (1965,%u) decodes independently but Vattach fails", when, d->ref);
                fc_vg_free(&g);
                continue;
            }
            int32  n  = Vntagrefs(vg);
            int32 *tg = malloc(sizeof(int32) * (size_t)(g.nvelt + 1)), *rf = malloc(sizeof(int32) * (size_t)(g.nvelt + 1));
            char  *nm = calloc(1, 70000), *cl = calloc(1, 70000);
            Vgetname(vg, nm);
            Vgetclass(vg, cl);
            int bad = n != g.nvelt || strcmp(nm, g.name) || strcmp(cl, g.cls);
            if (!bad && n > 0 && Vgettagrefs(vg, tg, rf, n) == n)
                for (int k = 0; k < n; k++)
                    if (tg[k] != g.tag[k] || rf[k] != g.ref[k])
                        bad = 1;
            if (bad)
                viol("content:vgroup", "%s: Vgroup (1965,%u): library says %d members name='%s' class='%s'; file holds %d members name='%s' class='%s' (or member lists differ)", when,
                             d->ref, (int)n, nm, cl, g.nvelt, g.name, g.cls);
            for (int a = 0; a < Vnattrs(vg); a++) {
                char  an[H4_MAX_NC_NAME + 1];
                int32 ant = 0, acnt = 0, asz = 0, aoff = -1, alen = -1;
                if (Vattrinfo(vg, a, an, &ant, &acnt, &asz) == FAIL)
                    continue;
                int    esz = DFKNTsize(ant | DFNT_NATIVE);
                uint8 *av  = calloc(1, (size_t)(acnt * esz) + 8);
                if (Vgetattr(vg, a, av) != FAIL) {
                    int rc = Vgetattdatainfo(vg, a, &aoff, &alen);
                    swap_to_be(av, (long)acnt * esz, esz);
                    if (rc != 1 || aoff < 0 || alen != acnt * esz || aoff + alen > fsize || memcmp(bytes + aoff, av, (size_t)alen))
                        viol("datainfo:attribute-location", "%s: Vgetattdatainfo(Vgroup (1965,%u), attribute %d '%s') returns %d, offset %d length %d: not where the %d bytes of its value are stored", when,
                             d->ref, a, an, rc, (int)aoff, (int)alen, (int)(acnt * esz));
                    mc_count("attribute_locations_checked", 1);
                }
                free(av);
            }
            if (Vnattrs(vg) != g.nattrs)
                viol("content:vgroup-nattrs", "%s: Vgroup (1965,%u): library reports %d attributes, the record lists %d", when, d->ref, (int)Vnattrs(vg), g.nattrs);
            free(tg);
            free(rf);
            free(nm);
            free(cl);
            Vdetach(vg);
            fc_vg_free(&g);
            mc_count("vgroups_compared", 1);
        }
    }
    /* raster images: the RI vgroup names the image data element */
    {
        int32 G = GRstart(fid), nimg = 0, nat = 0;
        if (G != FAIL && GRfileinfo(G, &nimg, &nat) != FAIL) {
            for (int k = 0; k < nimg; k++) {
                int32 ri = GRselect(G, k);
                if (ri == FAIL) {
                    viol("content:image-unselectable", "%s: image %d of %d cannot be selected", when, k, (int)nimg);
                    continue;
                }
                char  nm[H4_MAX_GR_NAME + 1];
                int32 nc, nt, il, dm[2], na;
                GRgetiminfo(ri, nm, &nc, &nt, &il, dm, &na);
                gr_attr_locations(when, ri, nm, na, bytes, fsize);
                uint16 rref = GRidtoref(ri);
                /* independent: vgroup (1965,rref) of class RI0.0 has a member with tag 302 (RI) */
                const fc_dd *gd = fc_find(&fc, FC_TAG_VG, rref);
                fc_vg        g;
                if (gd && fc_vgroup(&fc, gd, &g) == 0) {
                    for (int m = 0; m < g.nvelt; m++)
                        if (g.tag[m] == 302) {
                            const fc_dd *id = fc_find(&fc, 302, g.ref[m]);
                            if (!id)
                                continue;
                            fc_special s;
                            memset(&s, 0, sizeof s);
                            if (fc_is_special(id->tag))
                                fc_special_info(&fc, id, &s);
                            long      ilen = 0, slen = 0;
                            int       uns = 0, next = 0;
                            fc_extent ext[64];
                            uint8_t  *stored = NULL;
                            uint8_t  *ind = s.special == FC_SPECIAL_CHUNKED ? fc_chunked_logical(&fc, id, &ilen, &uns, ext, 64, &next) : fc_logical_bytes(&fc, id, &ilen, &uns);
                            if (s.special != FC_SPECIAL_CHUNKED)
                                stored = fc_stored_bytes(&fc, id, &slen, ext, 64, &next);
                            long want = (long)dm[0] * dm[1] * nc * DFKNTsize(nt | DFNT_NATIVE);
                            if (ind && s.special != FC_SPECIAL_CHUNKED) {
                                uint8 *img = calloc(1, (size_t)want + 8);
                                int32  st[2] = {0, 0};
                                GRreqimageil(ri, il);
                                if (GRreadimage(ri, st, NULL, dm, img) == FAIL)
                                    viol("content:image-unreadable", "%s: image '%s' cannot be read", when, nm);
                                else {
                                    swap_to_be(img, want, DFKNTsize(nt | DFNT_NATIVE));
                                    if (ilen != want || memcmp(img, ind, (size_t)want))
                                        viol("content:image", "%s: image '%s' %dx%dx%d: GRreadimage differs from the independently decoded data element (302,%u) of %ld bytes", when, nm,
                                                     (int)dm[0], (int)dm[1], (int)nc, g.ref[m], ilen);
                                }
                                free(img);
                                mc_count("images_compared", 1);
                                if (s.special != FC_SPECIAL_EXT) {
                                    if (s.special == FC_SPECIAL_COMP && s.logical_len == 0)
                                        next = 0;
                                    probe_datainfo("GRgetdatainfo", 302, g.ref[m], gr_info, &ri, bytes, fsize, ext, next, stored, slen);
                                }
                            }
                            free(ind);
                            free(stored);
                        }
                    fc_vg_free(&g);
                }
                GRendaccess(ri);
            }
        }
        if (G != FAIL)
            gr_attr_locations(when, G, "the GR file", nat, bytes, fsize);
        /* palette descriptors: GRgetpalinfo for every array size from 1 to one more than the number of palette descriptors
           (tags 201 IP8 and 301 LUT) the independent reader finds, exactly-sized heap arrays */
        if (G != FAIL) {
            int want = 0;
            for (int i = 0; i < fc.ndd; i++)
                if (fc.dd[i].tag == 201 || fc.dd[i].tag == 301)
                    want++;
            int np = GRgetpalinfo(G, 0, NULL);
            if (np != want)
                viol("datainfo:palette-count", "%s: GRgetpalinfo(count query) returns %d, the file holds %d palette descriptors", when, np, want);
            for (int k = 1; k <= want + 1 && want > 0; k++) {
                hdf_ddinfo_t *pa = malloc((size_t)k * sizeof *pa);
                memset(pa, 0xEE, (size_t)k * sizeof *pa);
                int got = GRgetpalinfo(G, (unsigned)k, pa), exp = k < want ? k : want;
                if (got != exp)
                    viol("datainfo:palette-return", "%s: GRgetpalinfo with an array of %d for %d palette descriptors returns %d", when, k, want, got);
                for (int i = 0; i < got && i < k; i++) {
                    const fc_dd *pd = (pa[i].tag == 201 || pa[i].tag == 301) ? fc_find_exact(&fc, pa[i].tag, pa[i].ref) : NULL;
                    if (!pd || pd->off != pa[i].offset || pd->len != pa[i].length)
                        viol("datainfo:palette-location", "%s: GRgetpalinfo entry %d of %d is (%u,%u) offset %d length %d: no palette descriptor of the file says so", when, i, k,
                             pa[i].tag, pa[i].ref, (int)pa[i].offset, (int)pa[i].length);
                    for (int j = 0; j < i; j++)
                        if (pa[j].tag == pa[i].tag && pa[j].ref == pa[i].ref)
                            viol("datainfo:palette-duplicate", "%s: GRgetpalinfo reports (%u,%u) twice", when, pa[i].tag, pa[i].ref);
                }
                free(pa);
                mc_count("palinfo_probes", 1);
            }
        }
        if (G != FAIL)
            GRend(G);
    }
    /* annotations */
    {
        int32 A = ANstart(fid), nfl, nfd, nol, nod;
        if (A != FAIL && ANfileinfo(A, &nfl, &nfd, &nol, &nod) != FAIL) {
            int32 cnt[4] = {nol, nod, nfl, nfd};
            for (int t = 0; t < 4; t++)
                for (int k = 0; k < cnt[t]; k++) {
                    int32 a = ANselect(A, k, (ann_type)t);
                    if (a == FAIL)
                        continue;
                    uint16 atag, aref;
                    int32  len = ANannlen(a);
                    ANid2tagref(a, &atag, &aref);
                    const fc_dd *ad = fc_find(&fc, atag, aref);
                    char        *txt = calloc(1, (size_t)(len > 0 ? len : 0) + 8);
                    ANreadann(a, txt, len + 1);
                    int skip = (t < 2) ? 4 : 0;
                    if (!ad || ad->len - skip != len || memcmp(bytes + ad->off + skip, txt, (size_t)len))
                        viol("content:annotation", "%s: annotation (%u,%u): ANreadann differs from the bytes stored in the file", when, atag, aref);
                    else {
                        int32 off = -1, ln = -1;
                        if (ANgetdatainfo(a, &off, &ln) == FAIL || off != ad->off + skip || ln != len)
                            viol("datainfo:annotation", "%s: ANgetdatainfo(%u,%u) reports offset %d length %d, the text is at offset %d length %d", when, atag, aref, (int)off,
                                         (int)ln, (int)(ad->off + skip), (int)len);
                    }
                    free(txt);
                    ANendaccess(a);
                    mc_count("annotations_compared", 1);
                }
        }
        if (A != FAIL)
            ANend(A);
    }
    Vend(fid);
    Hclose(fid);
    fid = FAIL;
    /* scientific datasets */
    {
        int32 S = SDstart(PATH, DFACC_READ), nds = 0, nat = 0;
        if (S == FAIL) {
            if (g_nsd)
                viol("library-cannot-open-own-file:SD", "%s: SDstart(READ) fails", when);
        }
        else {
            SDfileinfo(S, &nds, &nat);
            sd_attr_locations(when, S, "the SD file", nat, bytes, fsize);
            sd_ann_locations(when, &fc, S, "the SD file", 1, 0);
            fid = Hopen(PATH, DFACC_READ, 0); /* for Hlength etc. in info callbacks */
            for (int k = 0; k < nds; k++) {
                int32 sds = SDselect(S, k);
                char  nm[H4_MAX_NC_NAME + 1];
                int32 rk, dm[H4_MAX_VAR_DIMS], nt, na;
                if (sds == FAIL || SDgetinfo(sds, nm, &rk, dm, &nt, &na) == FAIL || SDiscoordvar(sds)) {
                    if (sds != FAIL)
                        SDendaccess(sds);
                    continue;
                }
                sd_attr_locations(when, sds, nm, na, bytes, fsize);
                sd_ann_locations(when, &fc, sds, nm, 0, (uint16)SDidtoref(sds));
                for (int i = 0; i < rk; i++) {
                    int32 dim = SDgetdimid(sds, i), dsz = 0, dnt = 0, dna = 0;
                    char  dn[H4_MAX_NC_NAME + 1] = "";
                    if (dim != FAIL && SDdiminfo(dim, dn, &dsz, &dnt, &dna) != FAIL)
                        sd_attr_locations(when, dim, dn, dna, bytes, fsize);
                }
                /* independent: the dataset's vgroup (class Var0.0, same name) has a member with tag 702 (SD) */
                const fc_dd *dd = NULL, *ndg = NULL;
                for (int i = 0; i < fc.ndd && !dd; i++)
                    if (fc.dd[i].tag == FC_TAG_VG) {
                        fc_vg g;
                        if (fc_vgroup(&fc, &fc.dd[i], &g) == 0) {
                            if (!strcmp(g.name, nm) && !strcmp(g.cls, "Var0.0"))
                                for (int m = 0; m < g.nvelt; m++) {
                                    if (g.tag[m] == 702)
                                        dd = fc_find(&fc, 702, g.ref[m]);
                                    if (g.tag[m] == 720)
                                        ndg = fc_find(&fc, 720, g.ref[m]);
                                }
                            fc_vg_free(&g);
                        }
                    }
                int  esz = DFKNTsize(nt | DFNT_NATIVE);
                long nel = 1;
                for (int i = 0; i < rk; i++)
                    nel *= dm[i];
                /* the old-style description of the same data set (NDG -> SDD dimension record, SD data) that the
                   library stores for readers of the DFSD generation: it must describe the same array */
                if (ndg) {
                    long     glen = 0;
                    int      guns = 0;
                    uint8_t *gb   = fc_logical_bytes(&fc, ndg, &glen, &guns);
                    const fc_dd *sdd = NULL;
                    int          sdref = -1;
                    for (long q = 0; gb && q + 4 <= glen; q += 4) {
                        int t = (gb[q] << 8) | gb[q + 1], r = (gb[q + 2] << 8) | gb[q + 3];
                        if (t == 701)
                            sdd = fc_find(&fc, 701, (uint16_t)r);
                        if (t == 702)
                            sdref = r;
                    }
                    if (dd && sdref >= 0 && sdref != dd->ref)
                        viol("format:object-level:ndg-names-other-data", "%s: SDS '%s': its NDG (720,%u) names data element (702,%d), its Vgroup names (702,%u)", when, nm,
                             ndg->ref, sdref, dd->ref);
                    if (sdd) {
                        long     dlen = 0;
                        int      duns = 0;
                        uint8_t *db   = fc_logical_bytes(&fc, sdd, &dlen, &duns);
                        if (!db || dlen < 2 || dlen < 2 + 4L * ((db[0] << 8) | db[1]))
                            viol("format:object-level:sdd-short", "%s: SDS '%s': dimension record (701,%u) is %ld bytes", when, nm, sdd->ref, dlen);
                        else {
                            int srk = (db[0] << 8) | db[1];
                            if (srk != rk)
                                viol("format:object-level:sdd-rank", "%s: SDS '%s': dimension record (701,%u) has rank %d, the data set has rank %d", when, nm, sdd->ref, srk, (int)rk);
                            else
                                for (int i = 0; i < rk; i++) {
                                    long dv = ((long)db[2 + 4 * i] << 24) | (db[3 + 4 * i] << 16) | (db[4 + 4 * i] << 8) | db[5 + 4 * i];
                                    if (dv != dm[i])
                                        mc_violation(k == 0 && i == 0 && g_sd0_grown ? "format:object-level:sdd-dimension@records-appended-in-a-later-session"
                                                                                      : "format:object-level:sdd-dimension",
                                                     "%s: SDS '%s': dimension record (701,%u) gives %ld for dimension %d, the data set has %d", when, nm, sdd->ref, dv, i,
                                                     (int)dm[i]);
                                }
                            mc_count("sdd_records_compared", 1);
                        }
                        free(db);
                    }
                    free(gb);
                }
                if (dd && nel > 0) {
                    fc_special s;
                    memset(&s, 0, sizeof s);
                    if (fc_is_special(dd->tag))
                        fc_special_info(&fc, dd, &s);
                    long      ilen = 0, slen = 0;
                    int       uns = 0, next = 0;
                    fc_extent ext[64];
                    uint8_t  *stored = NULL;
                    uint8_t  *ind    = s.special == FC_SPECIAL_CHUNKED ? fc_chunked_logical(&fc, dd, &ilen, &uns, ext, 64, &next) : fc_logical_bytes(&fc, dd, &ilen, &uns);
                    if (s.special != FC_SPECIAL_CHUNKED)
                        stored = fc_stored_bytes(&fc, dd, &slen, ext, 64, &next);
                    if (ind) {
                        uint8 *val = calloc(1, (size_t)(nel * esz) + 8);
                        int32  st[H4_MAX_VAR_DIMS] = {0};
                        if (SDreaddata(sds, st, NULL, dm, val) == FAIL)
                            viol("content:sds-unreadable", "%s: SDS '%s' cannot be read", when, nm);
                        else {
                            swap_to_be(val, nel * esz, esz);
                            long cmp = nel * esz < ilen ? nel * esz : ilen;
                            /* cells beyond the stored bytes are fill values supplied by the library: compare what is stored */
                            if (memcmp(val, ind, (size_t)cmp))
                                viol("content:sds", "%s: SDS '%s': SDreaddata differs from the independently decoded data element (702,%u)", when, nm, dd->ref);
                        }
                        free(val);
                        mc_count("sds_compared", 1);
                        if (s.special == FC_SPECIAL_CHUNKED) {
                            /* per chunk: one block, located where the chunk table says */
                            int32 coord[H4_MAX_VAR_DIMS] = {0};
                            int32 cnt = SDgetdatainfo(sds, coord, 0, 0, NULL, NULL);
                            if (cnt != FAIL && cnt > 1)
                                viol("datainfo:chunk-count", "%s: SDgetdatainfo on chunk 0 of '%s' reports %d blocks", when, nm, (int)cnt);
                            if (cnt == 1) {
                                int32 *o = malloc(sizeof *o), *l = malloc(sizeof *l);
                                if (SDgetdatainfo(sds, coord, 0, 1, o, l) == FAIL)
                                    viol("datainfo:fails", "%s: SDgetdatainfo(chunk 0 of '%s') fails with info_count 1", when, nm);
                                else {
                                    int found = 0;
                                    for (int e = 0; e < next; e++)
                                        if (ext[e].off == o[0] && l[0] <= ext[e].len)
                                            found = 1;
                                    if (!found)
                                        viol("datainfo:wrong-location", "%s: SDgetdatainfo(chunk 0 of '%s') reports offset %d length %d, no stored chunk lies there", when, nm,
                                                     (int)o[0], (int)l[0]);
                                }
                                free(o);
                                free(l);
                            }
                        }
                        else if (s.special != FC_SPECIAL_EXT) {
                            if (s.special == FC_SPECIAL_COMP && s.logical_len == 0)
                                next = 0;
                            probe_datainfo("SDgetdatainfo", 702, dd->ref, sd_info, &sds, bytes, fsize, ext, next, stored, slen);
                        }
                    }
                    free(ind);
                    free(stored);
                }
                SDendaccess(sds);
            }
            if (fid != FAIL)
                Hclose(fid);
            fid = FAIL;
            SDend(S);
        }
    }
out:
    fc_free(&fc);
    free(bytes);
}

/* ------------------------------------------------------------------ the alphabet */
enum { OP_PUT, OP_DUP, OP_DEL, OP_LINKED, OP_EXT, OP_COMP, OP_APPEND, OP_VS, OP_VSAPPEND, OP_VG, OP_VGADD, OP_GR, OP_SD, OP_SDAPPEND, OP_AN, OP_REOPEN, OP_SYNC, OP_VSRENAME, OP_OVEREXT, OP_NOPS };
static const char *OPN[] = {"put", "dup", "del", "linked", "ext", "comp", "append", "vs", "vsappend", "vg", "vgadd", "gr", "sd", "sdappend", "an", "reopen", "sync", "vsrename", "overext"};

static int
elem_exists(int r)
{
    return Hexist(fid, ETAG, (uint16)r) != FAIL;
}

static int
enum_ops(mc_op *out, int max)
{
    int n = 0;
#define ADD(c, x, y)                                                                                                                 \
    do {                                                                                                                             \
        if (n < max) {                                                                                                               \
            memset(&out[n], 0, sizeof out[n]);                                                                                       \
            out[n].code = c, out[n].a[0] = x, out[n].a[1] = y;                                                                       \
            n++;                                                                                                                     \
        }                                                                                                                            \
    } while (0)
    for (int r = 1; r <= 2; r++) {
        ADD(OP_PUT, r, 5);
        ADD(OP_PUT, r, 9);
        if (g_kind[r] == 3)
            ADD(OP_PUT, r, 15); /* longer than what the compressed element holds */
        if (elem_exists(r)) {
            ADD(OP_DEL, r, 0);
            ADD(OP_APPEND, r, 6);
            for (int nr = 3; nr <= 4; nr++)
                if (!elem_exists(nr)) {
                    ADD(OP_DUP, r, nr);
                    break;
                }
        }
        ADD(OP_LINKED, r, 0);
        if (g_kind[r] == 1) /* a linked-block element is overwritten from its middle and extended in one call */
            ADD(OP_OVEREXT, r, 0);
        if (!elem_exists(r)) {
            ADD(OP_EXT, r, 0);
            ADD(OP_COMP, r, COMP_CODE_RLE);
            ADD(OP_COMP, r, COMP_CODE_DEFLATE);
        }
    }
    if (g_nvs < 2) {
        ADD(OP_VS, 0, 3);
        ADD(OP_VS, 1, 2);
        ADD(OP_VS, 0, 0);
    }
    for (int i = 0; i < g_nvs; i++)
        ADD(OP_VSAPPEND, i, 2);
    if (g_nvs) {
        ADD(OP_VSRENAME, 0, 0); /* shorter name */
        ADD(OP_VSRENAME, 0, 1); /* shorter class */
        ADD(OP_VSRENAME, 0, 2); /* longer name */
    }
    if (g_nvg < 2)
        ADD(OP_VG, 0, 0);
    for (int i = 0; i < g_nvg; i++)
        ADD(OP_VGADD, i, 0);
    if (g_ngr < 2)
        for (int k = 0; k < 4; k++)
            ADD(OP_GR, k, 0);
    if (g_nsd < 2)
        for (int k = 0; k < 7; k++)
            ADD(OP_SD, k, 0);
    if (g_nsd > 0)
        ADD(OP_SDAPPEND, 0, 0);
    if (g_nan < 2) {
        ADD(OP_AN, AN_FILE_LABEL, 0);
        ADD(OP_AN, AN_DATA_DESC, 0);
        if (g_nsd > 0)
            ADD(OP_AN, AN_DATA_LABEL, 0); /* a label on the first data set */
    }
    ADD(OP_REOPEN, 0, 0);
    ADD(OP_SYNC, 0, 0);
    return n;
}

/* every op must succeed: the alphabet only offers legal requests; a refusal is reported as a harness-level surprise (MAY for a few) */
static int
fail_op(const mc_op *op, const char *what)
{
    char sig[96];
    snprintf(sig, sizeof sig, "legal-operation-failed:%s:%s", OPN[op->code], what);
    viol(sig, "%s(%d,%d): %s failed on a legal request", OPN[op->code], op->a[0], op->a[1], what);
    return 1;
}

static int
apply(const mc_op *op)
{
    int   a0 = op->a[0], a1 = op->a[1];
    int32 aid, rc;
    g_since = mc_hash_i(mc_hash_i(mc_hash_i(g_since, op->code), a0), a1);
    g_nops++;
    switch (op->code) {
        case OP_PUT:
            if (g_kind[a0] == 3) /* the compressed elements of this alphabet hold 12 bytes */
                snprintf(g_ctx, sizeof g_ctx, a1 < g_clen[a0] ? "rewrite-of-compressed-element-with-fewer-bytes" : "rewrite-of-compressed-element-with-more-bytes");
            if (Hputelement(fid, ETAG, (uint16)a0, PAT + g_nops, a1) != a1) {
                /* replacing a special element with Hputelement is allowed to be refused */
                if (elem_exists(a0))
                    return 2;
                return fail_op(op, "Hputelement");
            }
            if (g_kind[a0] == 3 && a1 > g_clen[a0])
                g_clen[a0] = a1;
            break;
        case OP_DUP:
            if (Hdupdd(fid, ETAG, (uint16)a1, ETAG, (uint16)a0) == FAIL)
                return fail_op(op, "Hdupdd");
            g_kind[a1] = g_kind[a0];
            g_clen[a1] = g_clen[a0];
            break;
        case OP_DEL:
            if (Hdeldd(fid, ETAG, (uint16)a0) == FAIL)
                return fail_op(op, "Hdeldd");
            g_kind[a0] = 0;
            break;
        case OP_LINKED:
            aid = HLcreate(fid, ETAG, (uint16)a0, 4, 2);
            if (aid == FAIL)
                return 2; /* already special */
            if (Hseek(aid, 0, DF_END) == FAIL || Hwrite(aid, 11, PAT + g_nops) != 11) {
                Hendaccess(aid);
                return fail_op(op, "Hwrite");
            }
            Hendaccess(aid);
            g_kind[a0] = 1;
            break;
        case OP_EXT:
            aid = HXcreate(fid, ETAG, (uint16)a0, EXTF, 3 * a0, 0);
            if (aid == FAIL)
                return fail_op(op, "HXcreate");
            if (Hwrite(aid, 7, PAT + g_nops) != 7) {
                Hendaccess(aid);
                return fail_op(op, "Hwrite");
            }
            Hendaccess(aid);
            g_kind[a0] = 2;
            break;
        case OP_COMP: {
            comp_info  ci;
            model_info mi;
            memset(&ci, 0, sizeof ci);
            memset(&mi, 0, sizeof mi);
            ci.deflate.level = 6;
            aid = HCcreate(fid, ETAG, (uint16)a0, COMP_MODEL_STDIO, &mi, (comp_coder_t)a1, &ci);
            if (aid == FAIL)
                return fail_op(op, "HCcreate");
            uint8 d[12] = {5, 5, 5, 5, 5, 5, 1, 2, 3, 3, 3, 3};
            d[0]        = (uint8)g_nops;
            if (Hwrite(aid, 12, d) != 12) {
                Hendaccess(aid);
                return fail_op(op, "Hwrite");
            }
            Hendaccess(aid);
            g_kind[a0] = 3;
            g_clen[a0] = 12;
            break;
        }
        case OP_APPEND:
            if (g_kind[a0] == 3)
                snprintf(g_ctx, sizeof g_ctx, "append-to-compressed-element");
            aid = Hstartaccess(fid, ETAG, (uint16)a0, DFACC_RDWR);
            if (aid == FAIL)
                return fail_op(op, "Hstartaccess");
            rc = Happendable(aid);
            if (rc == FAIL || Hseek(aid, 0, DF_END) == FAIL) {
                Hendaccess(aid);
                return 2; /* compressed/external elements may refuse */
            }
            rc = Hwrite(aid, a1, PAT + g_nops);
            Hendaccess(aid);
            if (rc != a1)
                return 2;
            if (g_kind[a0] == 3)
                g_clen[a0] += a1;
            break;
        case OP_OVEREXT:
            /* bytes 5..13 of an element in blocks of 4 bytes, 2 per table: from the first table across the second block of
               data into blocks that do not exist yet */
            aid = Hstartaccess(fid, ETAG, (uint16)a0, DFACC_RDWR);
            if (aid == FAIL)
                return fail_op(op, "Hstartaccess");
            if (Hseek(aid, 5, DF_START) == FAIL || Hwrite(aid, 9, PAT + g_nops) != 9) {
                Hendaccess(aid);
                return fail_op(op, "Hseek/Hwrite");
            }
            Hendaccess(aid);
            break;
        case OP_VS: {
            int32 vs = VSattach(fid, -1, "w");
            if (vs == FAIL)
                return fail_op(op, "VSattach");
            char nm[16];
            snprintf(nm, sizeof nm, "vd%d", g_nvs);
            VSsetname(vs, nm);
            VSsetclass(vs, a0 ? "mixed" : "simple");
            if (a0 == 0) {
                VSfdefine(vs, "x", DFNT_INT16, 1);
                VSsetfields(vs, "x");
            }
            else {
                VSfdefine(vs, "a", DFNT_INT32, 1);
                VSfdefine(vs, "b", DFNT_FLOAT32, 2);
                VSfdefine(vs, "c", DFNT_CHAR8, 3);
                VSsetfields(vs, "a,b,c");
            }
            if (a1 > 0) {
                uint8 rec[64];
                memcpy(rec, PAT + g_nops, sizeof rec);
                if (VSwrite(vs, rec, a1, FULL_INTERLACE) != a1) {
                    VSdetach(vs);
                    return fail_op(op, "VSwrite");
                }
            }
            if (a0) {
                int32 av = 4 + g_nops;
                int32 fv[2] = {1000 + g_nops, -7};
                VSsetattr(vs, _HDF_VDATA, "va", DFNT_INT32, 1, &av);
                VSsetattr(vs, 1, "fa", DFNT_INT32, 1, &fv[0]); /* (values differ from attribute to attribute) */
                VSsetattr(vs, 2, "fb", DFNT_INT32, 2, fv);
            }
            g_vsref[g_nvs++] = VSQueryref(vs);
            if (VSdetach(vs) == FAIL)
                return fail_op(op, "VSdetach");
            break;
        }
        case OP_VSAPPEND: {
            int32 vs = VSattach(fid, g_vsref[a0], "w");
            if (vs == FAIL)
                return fail_op(op, "VSattach");
            int32 n = VSelts(vs);
            char  fl[256];
            VSgetfields(vs, fl);
            VSsetfields(vs, fl);
            if (n > 0)
                VSseek(vs, n - 1), VSread(vs, (uint8 *)fl, 1, FULL_INTERLACE); /* position at the end */
            uint8 rec[64];
            memcpy(rec, PAT + g_nops, sizeof rec);
            rc = VSwrite(vs, rec, a1, FULL_INTERLACE);
            if (VSdetach(vs) == FAIL || rc != a1)
                return fail_op(op, "VSwrite/VSdetach");
            break;
        }
        case OP_VSRENAME: {
            /* an existing Vdata gets another name or class: its header changes size in either direction */
            int32 vs = VSattach(fid, g_vsref[a0], "w");
            if (vs == FAIL)
                return fail_op(op, "VSattach");
            char cur[VSNAMELENMAX + 1] = "";
            if (a1 == 1) {
                VSgetclass(vs, cur);
                rc = VSsetclass(vs, strlen(cur) > 1 ? "s" : "longer class");
            }
            else {
                VSgetname(vs, cur);
                rc = VSsetname(vs, a1 == 0 ? (strlen(cur) > 1 ? "v" : "vdx") : (strlen(cur) > 8 ? "vdy" : "vdata renamed"));
            }
            if (VSdetach(vs) == FAIL || rc == FAIL)
                return fail_op(op, "VSsetname/VSsetclass/VSdetach");
            break;
        }
        case OP_VG: {
            int32 vg = Vattach(fid, -1, "w");
            if (vg == FAIL)
                return fail_op(op, "Vattach");
            char nm[16];
            snprintf(nm, sizeof nm, "grp%d", g_nvg);
            Vsetname(vg, nm);
            Vsetclass(vg, "c02");
            for (int r = 1; r <= 4; r++)
                if (elem_exists(r))
                    Vaddtagref(vg, ETAG, r);
            for (int i = 0; i < g_nvs; i++)
                Vaddtagref(vg, DFTAG_VH, g_vsref[i]);
            if (g_nvg)
                Vaddtagref(vg, DFTAG_VG, g_vgref[0]);
            int32 av = g_nops;
            Vsetattr(vg, "ga", DFNT_INT32, 1, &av);
            g_vgref[g_nvg++] = VQueryref(vg);
            if (Vdetach(vg) == FAIL)
                return fail_op(op, "Vdetach");
            break;
        }
        case OP_VGADD: {
            int32 vg = Vattach(fid, g_vgref[a0], "w");
            if (vg == FAIL)
                return fail_op(op, "Vattach");
            for (int r = 1; r <= 4; r++)
                if (elem_exists(r) && !Vinqtagref(vg, ETAG, r))
                    Vaddtagref(vg, ETAG, r);
            for (int i = 0; i < g_nvs; i++)
                if (!Vinqtagref(vg, DFTAG_VH, g_vsref[i]))
                    Vaddtagref(vg, DFTAG_VH, g_vsref[i]);
            if (Vdetach(vg) == FAIL)
                return fail_op(op, "Vdetach");
            break;
        }
        case OP_GR: {
            int32 G = GRstart(fid);
            if (G == FAIL)
                return fail_op(op, "GRstart");
            int32 dm[2] = {5, 4}, st[2] = {0, 0};
            int32 nc = (a0 & 1) ? 3 : 1;
            char  nm[16];
            snprintf(nm, sizeof nm, "img%d", g_ngr);
            int32 ri = GRcreate(G, nm, nc, DFNT_UINT8, MFGR_INTERLACE_PIXEL, dm);
            if (ri == FAIL) {
                GRend(G);
                return fail_op(op, "GRcreate");
            }
            comp_info ci;
            memset(&ci, 0, sizeof ci);
            ci.deflate.level = 6;
            if (a0 == 2)
                GRsetcompress(ri, COMP_CODE_RLE, &ci);
            if (a0 == 3)
                GRsetcompress(ri, COMP_CODE_DEFLATE, &ci);
            uint8 img[64];
            for (int i = 0; i < 60; i++)
                img[i] = (uint8)(i / 4 + g_nops);
            rc = GRwriteimage(ri, st, NULL, dm, img);
            if (a0 == 1) {
                uint8 pal[768];
                for (int i = 0; i < 768; i++)
                    pal[i] = (uint8)i;
                GRwritelut(GRgetlutid(ri, 0), 3, DFNT_UINT8, MFGR_INTERLACE_PIXEL, 256, pal);
                int32 av = 3;
                int16 a2[2] = {41, 42};
                GRsetattr(ri, "ra", DFNT_INT32, 1, &av);
                GRsetattr(ri, "rb", DFNT_INT16, 2, a2);
                a2[1] = 43;
                GRsetattr(G, "gra", DFNT_INT16, 2, a2);
            }
            GRendaccess(ri);
            g_ngr++;
            if (GRend(G) == FAIL || rc == FAIL)
                return fail_op(op, "GRwriteimage/GRend");
            break;
        }
        case OP_SD: {
            int32 S = SDstart(PATH, DFACC_RDWR);
            if (S == FAIL)
                return fail_op(op, "SDstart");
            int32 dm[2] = {3, 4}, st[2] = {0, 0}, cn[2] = {3, 4};
            int32 nt = (a0 == 1 || a0 == 5) ? DFNT_FLOAT32 : DFNT_INT16;
            if (a0 == 1)
                dm[0] = SD_UNLIMITED, cn[0] = 1 + g_nsd % 3; /* record counts differ between the unlimited data sets of a file */
            char nm[16];
            snprintf(nm, sizeof nm, "sds%d", g_nsd);
            int32 s = SDcreate(S, nm, nt, 2, dm);
            if (s == FAIL) {
                SDend(S);
                return fail_op(op, "SDcreate");
            }
            HDF_CHUNK_DEF cd;
            comp_info     ci;
            memset(&cd, 0, sizeof cd);
            memset(&ci, 0, sizeof ci);
            ci.deflate.level = 6;
            if (a0 == 2 || a0 == 3) {
                cd.comp.chunk_lengths[0] = 2, cd.comp.chunk_lengths[1] = 3;
                cd.comp.comp_type           = COMP_CODE_DEFLATE;
                cd.comp.cinfo.deflate.level = 6;
                SDsetchunk(s, cd, a0 == 3 ? (HDF_CHUNK | HDF_COMP) : HDF_CHUNK);
            }
            if (a0 == 4)
                SDsetcompress(s, COMP_CODE_DEFLATE, &ci);
            if (a0 == 5)
                SDsetcompress(s, COMP_CODE_RLE, &ci);
            if (a0 == 6)
                SDsetnbitdataset(s, 6, 5, 0, 0);
            int16 v16[12];
            float v32[12];
            for (int i = 0; i < 12; i++)
                v16[i] = (int16)((i * 5 + g_nops) & 0x7f), v32[i] = (float)(i + g_nops) * 0.5f;
            if (a0 == 2) /* partial: only the first chunk row */
                cn[0] = 2;
            rc = SDwritedata(s, st, NULL, cn, nt == DFNT_INT16 ? (VOIDP)v16 : (VOIDP)v32);
            int32 av = 9;
            if (a0 == 0) {
                /* attributes with values of their own on the data set, a dimension and the file (the second ones tell an
                   index slip from a right answer) */
                int16   a2[3] = {21, 22, 23};
                float32 fa   = 1.5f;
                SDsetattr(s, "sa", DFNT_INT32, 1, &av);
                SDsetattr(s, "sb", DFNT_INT16, 3, a2);
                SDsetdimname(SDgetdimid(s, 0), "rows");
                SDsetdimscale(SDgetdimid(s, 0), 3, DFNT_INT16, v16);
                SDsetattr(SDgetdimid(s, 0), "da", DFNT_FLOAT32, 1, &fa);
                a2[0] = 31;
                SDsetattr(S, "ga", DFNT_INT16, 2, a2);
                SDsetattr(S, "gb", DFNT_CHAR8, 5, "hello");
            }
            if (g_nsd == 0)
                g_sdref0 = (uint16)SDidtoref(s);
            SDendaccess(s);
            g_nsd++;
            if (SDend(S) == FAIL || rc == FAIL)
                return fail_op(op, "SDwritedata/SDend");
            break;
        }
        case OP_SDAPPEND: {
            int32 S = SDstart(PATH, DFACC_RDWR);
            if (S == FAIL)
                return fail_op(op, "SDstart");
            int32 s = SDselect(S, 0);
            char  nm[H4_MAX_NC_NAME + 1];
            int32 rk, dm[H4_MAX_VAR_DIMS], nt, na;
            SDgetinfo(s, nm, &rk, dm, &nt, &na);
            int32 st[2] = {SDisrecord(s) ? dm[0] : 1, 0}, cn[2] = {1, 4};
            int16 v16[4] = {70, 71, 72, 73};
            float v32[4] = {7.5f, 8.5f, 9.5f, 10.5f};
            rc = SDwritedata(s, st, NULL, cn, nt == DFNT_INT16 ? (VOIDP)v16 : (VOIDP)v32);
            if (rc != FAIL && SDisrecord(s))
                g_sd0_grown = 1;
            SDendaccess(s);
            if (SDend(S) == FAIL)
                return fail_op(op, "SDend");
            if (rc == FAIL)
                return 2; /* whole-array-only storage kinds refuse partial rewrites */
            break;
        }
        case OP_AN: {
            int32 A = ANstart(fid);
            if (A == FAIL)
                return fail_op(op, "ANstart");
            int32 a = a0 == AN_FILE_LABEL ? ANcreatef(A, AN_FILE_LABEL) : a0 == AN_DATA_LABEL ? ANcreate(A, DFTAG_NDG, g_sdref0, AN_DATA_LABEL) : ANcreate(A, ETAG, 1, AN_DATA_DESC);
            if (a == FAIL) {
                ANend(A);
                return fail_op(op, "ANcreate");
            }
            char txt[32];
            snprintf(txt, sizeof txt, "annotation %d of op %d", g_nan, g_nops);
            rc = ANwriteann(a, txt, (int32)strlen(txt));
            ANendaccess(a);
            g_nan++;
            if (ANend(A) == FAIL || rc == FAIL)
                return fail_op(op, "ANwriteann/ANend");
            break;
        }
        case OP_REOPEN:
            if (close_session())
                return fail_op(op, "Vend/Hclose");
            verify_file("after close");
            if (open_session(0))
                return fail_op(op, "Hopen");
            g_since = MC_H0;
            break;
        case OP_SYNC:
            if (Hsync(fid) == FAIL)
                return fail_op(op, "Hsync");
            break;
    }
    return 0;
}

static uint64_t
key(void)
{
    uint64_t h = vfs_hash_all();
    h          = mc_hash_i(h, g_ndds * 2 + g_cache);
    h          = mc_hash_i(h, (long)g_since);
    h          = mc_hash_i(h, g_nvs * 1000 + g_nvg * 100 + g_nsd * 10 + g_ngr);
    return h;
}
static void
terminal(void)
{
    if (close_session()) {
        viol("close-failed", "Vend/Hclose failed at the end of a history of successful operations");
        return;
    }
    if (mc_replaying && getenv("C02_EXPORT"))
        vfs_export(PATH, getenv("C02_EXPORT"));
    verify_file("after final close");
}
static void
fmt_op(const mc_op *op, char *buf, size_t n)
{
    snprintf(buf, n, "%s(%d,%d)", OPN[op->code], op->a[0], op->a[1]);
}
static mc_harness H = {enum_ops, apply, key, terminal, fmt_op, NULL};

typedef struct {
    int ndds, cache, start, depth;
} cfg_t;
static int g_start;

/* start state 1: the last descriptor block is exactly full, so the next descriptor forces a new block at the end of the file */
static int
prologue(void)
{
    vfs_remove_file(PATH);
    vfs_remove_file(EXTF);
    g_since = MC_H0;
    g_ctx[0] = 0;
    memset(g_kind, 0, sizeof g_kind);
    memset(g_clen, 0, sizeof g_clen);
    g_sd0_grown = 0;
    if (open_session(1))
        return -1;
    if (g_start == 1) {
        for (int i = 0; i < 40; i++) {
            /* the first two are elements of the alphabet (so that aliases of them can be made), the rest are fillers */
            if (Hputelement(fid, ETAG, (uint16)(i < 2 ? 1 + i : 10 + i), PAT + i, 3) != 3 || Hsync(fid) == FAIL)
                return -1;
            long     sz;
            uint8_t *b = vfs_dup_bytes(vfs_lookup(PATH), &sz);
            fc_file  fc;
            memset(&fc, 0, sizeof fc);
            int bad = fc_parse(&fc, b, sz), nfree = fc.nfree;
            fc_free(&fc);
            free(b);
            if (bad)
                return -1;
            if (nfree == 0)
                break;
        }
        if (close_session() || open_session(0))
            return -1;
    }
    return 0;
}
static void
root(void *arg)
{
    cfg_t *c = arg;
    g_ndds = c->ndds, g_cache = c->cache, g_start = c->start;
    int cfg[3] = {g_ndds, g_cache, g_start};
    mc_set_config(cfg, 3, "ndds=%d cache=%s start=%s", g_ndds, g_cache ? "on" : "off", g_start ? "descriptor block exactly full" : "empty file");
    if (prologue()) {
        mc_harness_error("cannot prepare the start state");
        return;
    }
    mc_explore(&H, c->depth, 99);
}

int
C02_main(const char *tier, const char *replay)
{
    for (int i = 0; i < 256; i++)
        PAT[i] = (uint8)(i * 11 + 3);
    if (replay) {
        int   cfg[32], ncfg, nops;
        mc_op ops[MC_MAXDEPTH];
        if (mc_load_replay(replay, cfg, &ncfg, ops, &nops, MC_MAXDEPTH) || ncfg < 3)
            return 2;
        g_ndds = cfg[0], g_cache = cfg[1], g_start = cfg[2];
        printf("replay C02: ndds=%d cache=%d start=%d, %d ops\n", g_ndds, g_cache, g_start, nops);
        if (prologue())
            return 0;
        mc_replay_ops(&H, ops, nops);
        return 0;
    }
    int          thorough = strcmp(tier, "thorough") == 0;
    static cfg_t cfgs[16];
    int          nc = 0, maxd = thorough ? 5 : 3;
    for (int d = 1; d <= maxd && !mc_deadline_hit(); d++) {
        char lbl[64];
        snprintf(lbl, sizeof lbl, "depth %d", d);
        mc_round_begin(lbl);
        nc = 0;
        static const int NDDS[] = {4, 16, 5};
        for (int i = 0; i < (thorough ? 3 : 2); i++)
            for (int c = 1; c >= 0; c--)
                for (int st = 0; st < 2; st++)
                    cfgs[nc++] = (cfg_t){NDDS[i], c, st, d};
        for (int i = 0; i < nc; i++)
            mc_spawn_root(root, &cfgs[i], 4);
        mc_wait_roots();
        mc_round_end();
    }
    return 0;
}
