/* C03 / C04 - SDS hyperslabs behave as an n-dimensional array, whatever the storage layout.
 * Case enumeration: (shape, number type, fill mode, layout) x every history of <=2 hyperslab writes (every arithmetic
 * progression per dimension) x full and slab reads x out-of-range requests, against an ndarray model. */
#include "../engine/mc.h"
#include "../engine/vfs.h"
#include "../engine/fmtcheck.h"
#include "hdf.h"
#include "mfhdf.h"
#include <stdio.h>
#include <stdlib.h>
#include <string.h>

#define PATH "/vmem/sd.hdf"
#define EXT "/vmem/sd.ext"
#define MAXR 4
#define MAXCELLS 256
#define MAXREC 7

enum { L_CONTIG, L_CHUNK, L_COMP, L_CHUNKCOMP, L_NBIT, L_EXT, L_LINKED };
static const char *LNAME[] = {"contiguous", "chunked", "compressed", "chunked+compressed", "n-bit", "external", "unlimited(linked blocks)"};

typedef struct {
    int   rank, dims[MAXR], unlimited;
    int32 nt;
    int   esize;
    int   nofill, userfill;
    int   layout, chunk[MAXR], coder, cparam, cache, blocksize, extoff, ndds;
    int   second_var; /* another record variable in the file with a different record count */
} dcfg;

typedef struct {
    int start[MAXR], stride[MAXR], count[MAXR];
    int null_stride;
} slab;

/* ------------------------------------------------------------------ model */
static struct {
    dcfg  c;
    int   nrec; /* unlimited: records so far */
    uint8 cell[MAXCELLS][8];
    uint8 st[MAXCELLS]; /* 0 never touched, 1 written, 2 filled (intermediate record) */
    uint8 fill[8];
    int   any_write;
} A;
static int32 sd = FAIL, sds = FAIL;
static char  g_hist[400];

static int
extent(int d)
{
    return (d == 0 && A.c.unlimited) ? MAXREC : A.c.dims[d];
}
static int
ncells(void)
{
    int n = 1;
    for (int d = 0; d < A.c.rank; d++)
        n *= extent(d);
    return n;
}
static int
lin(const int *idx)
{
    int l = 0;
    for (int d = 0; d < A.c.rank; d++)
        l = l * extent(d) + idx[d];
    return l;
}
static int
cur_extent(int d)
{
    return (d == 0 && A.c.unlimited) ? A.nrec : A.c.dims[d];
}

static void
default_fill(int32 nt, uint8 *f)
{
    memset(f, 0, 8);
    switch (nt & 0xfff) {
        case DFNT_CHAR8:
        case DFNT_UCHAR8: f[0] = 0; break;
        case DFNT_INT8:
        case DFNT_UINT8: f[0] = (uint8)(char)-127; break;
        case DFNT_INT16:
        case DFNT_UINT16: {
            int16 v = -32767;
            memcpy(f, &v, 2);
            break;
        }
        case DFNT_INT32:
        case DFNT_UINT32: {
            int32 v = -2147483647;
            memcpy(f, &v, 4);
            break;
        }
        case DFNT_FLOAT32: {
            float32 v = 9.9692099683868690e+36F;
            memcpy(f, &v, 4);
            break;
        }
        case DFNT_FLOAT64: {
            float64 v = 9.9692099683868690e+36;
            memcpy(f, &v, 8);
            break;
        }
    }
}

static int
slab_cells(const slab *s)
{
    int n = 1;
    for (int d = 0; d < A.c.rank; d++)
        n *= s->count[d];
    return n;
}

static void
slab_fmt(const slab *s, char *b, size_t n)
{
    size_t o = 0;
    o += (size_t)snprintf(b + o, n - o, "[");
    for (int d = 0; d < A.c.rank; d++)
        o += (size_t)snprintf(b + o, n - o, "%s%d:%d:%d", d ? "," : "", s->start[d], s->null_stride ? 1 : s->stride[d], s->count[d]);
    snprintf(b + o, n - o, "]%s", s->null_stride ? "(stride NULL)" : "");
}

/* iterate the slab's cells in row-major order: calls f(k, linear index) */
#define SLAB_FOR(s, K, L)                                                                                                            \
    for (int K = 0, _n = slab_cells(s), L = 0; K < _n && ((L = slab_lin(s, K)), 1); K++)
static int
slab_lin(const slab *s, int k)
{
    int idx[MAXR];
    for (int d = A.c.rank - 1; d >= 0; d--) {
        int c  = k % s->count[d];
        k /= s->count[d];
        idx[d] = s->start[d] + c * (s->null_stride ? 1 : s->stride[d]);
    }
    return lin(idx);
}

static void
cell_value(int wseq, int l, uint8 *out)
{
    for (int b = 0; b < A.c.esize; b++)
        out[b] = (uint8)(0x21 + wseq * 61 + l * 7 + b * 3);
    if ((A.c.nt & 0xfff) == DFNT_FLOAT32 || (A.c.nt & 0xfff) == DFNT_FLOAT64)
        out[A.c.esize - 1] = (uint8)(0x40 | (out[A.c.esize - 1] & 0x0F)); /* finite */
    if (A.c.layout == L_NBIT) {
        /* n-bit keeps bits [start-len+1, start] = low 7 bits here (see open_dataset): stay inside the field */
        for (int b = 1; b < A.c.esize; b++)
            out[b] = 0;
        out[0] &= 0x7f;
        if (A.c.cparam == 1) {
            /* sign-extended variant: the 7-bit field holds -64..63 and its sign bit lies below the most significant byte */
            int16 v = (int16)out[0];
            if (v & 0x40)
                v = (int16)(v - 128);
            memcpy(out, &v, 2);
        }
    }
}

/* ------------------------------------------------------------------ dataset life cycle */
static int
open_dataset(const dcfg *c)
{
    memset(&A, 0, sizeof A);
    A.c = *c;
    vfs_remove_file(PATH);
    vfs_remove_file(EXT);
    if (c->ndds) {
        /* pre-create the file with a small DD block size */
        int32 f = Hopen(PATH, DFACC_CREATE, (int16)c->ndds);
        if (f == FAIL)
            return -1;
        Hclose(f);
        sd = SDstart(PATH, DFACC_RDWR);
    }
    else
        sd = SDstart(PATH, DFACC_CREATE);
    if (sd == FAIL)
        return -1;
    int32 dims[MAXR];
    for (int d = 0; d < c->rank; d++)
        dims[d] = (d == 0 && c->unlimited) ? SD_UNLIMITED : c->dims[d];
    if (c->nofill)
        SDsetfillmode(sd, SD_NOFILL);
    if (c->second_var) {
        int32 od[2] = {SD_UNLIMITED, 2}, st[2] = {0, 0}, cn[2] = {c->second_var, 2};
        int16 v[2 * MAXREC];
        for (int i = 0; i < 2 * MAXREC; i++)
            v[i] = (int16)i;
        int32 o = SDcreate(sd, "other", DFNT_INT16, 2, od);
        if (o == FAIL || SDwritedata(o, st, NULL, cn, v) == FAIL)
            return -1;
        SDendaccess(o);
    }
    sds = SDcreate(sd, "data", c->nt, c->rank, dims);
    if (sds == FAIL)
        return -1;
    default_fill(c->nt, A.fill);
    if (c->userfill) {
        for (int b = 0; b < c->esize; b++)
            A.fill[b] = (uint8)(0x5A + b);
        if ((c->nt & 0xfff) == DFNT_FLOAT32 || (c->nt & 0xfff) == DFNT_FLOAT64)
            A.fill[c->esize - 1] = 0x41;
        if (c->layout == L_NBIT) {
            memset(A.fill, 0, 8);
            A.fill[0] = 0x33;
        }
        if (SDsetfillvalue(sds, A.fill) == FAIL)
            return -2;
    }
    if (c->layout == L_NBIT) {
        /* the fill pass goes through the n-bit element like any other value: never-written cells read as the
           documented projection of the fill value (the 7-bit field, rest zero or sign-extended) */
        for (int b = 1; b < c->esize; b++)
            A.fill[b] = 0;
        A.fill[0] &= 0x7f;
        if (c->cparam == 1) {
            int16 v = (int16)A.fill[0];
            if (v & 0x40)
                v = (int16)(v - 128);
            memcpy(A.fill, &v, 2);
        }
    }
    HDF_CHUNK_DEF cd;
    comp_info     ci;
    memset(&cd, 0, sizeof cd);
    memset(&ci, 0, sizeof ci);
    switch (c->layout) {
        case L_CHUNK:
            for (int d = 0; d < c->rank; d++)
                cd.chunk_lengths[d] = c->chunk[d];
            if (SDsetchunk(sds, cd, HDF_CHUNK) == FAIL)
                return -3;
            break;
        case L_CHUNKCOMP:
            for (int d = 0; d < c->rank; d++)
                cd.comp.chunk_lengths[d] = c->chunk[d];
            cd.comp.comp_type = c->coder;
            if (c->coder == COMP_CODE_SKPHUFF)
                cd.comp.cinfo.skphuff.skp_size = c->cparam;
            if (c->coder == COMP_CODE_DEFLATE)
                cd.comp.cinfo.deflate.level = c->cparam;
            if (SDsetchunk(sds, cd, HDF_CHUNK | HDF_COMP) == FAIL)
                return -3;
            break;
        case L_COMP:
            if (c->coder == COMP_CODE_SKPHUFF)
                ci.skphuff.skp_size = c->cparam;
            if (c->coder == COMP_CODE_DEFLATE)
                ci.deflate.level = c->cparam;
            if (SDsetcompress(sds, c->coder, &ci) == FAIL)
                return -3;
            break;
        case L_NBIT:
            if (SDsetnbitdataset(sds, 6, 7, c->cparam == 1 ? TRUE : FALSE, 0) == FAIL)
                return -3;
            break;
        case L_EXT:
            if (SDsetexternalfile(sds, EXT, c->extoff) == FAIL)
                return -3;
            break;
        case L_LINKED:
            if (c->blocksize && SDsetblocksize(sds, c->blocksize) == FAIL)
                return -3;
            break;
    }
    if ((c->layout == L_CHUNK || c->layout == L_CHUNKCOMP) && c->cache > 0)
        if (SDsetchunkcache(sds, c->cache, 0) == FAIL)
            return -4;
    A.nrec = 0;
    return 0;
}

static const char *g_reopen_prefix = "";
static void        reconcile_partial_record(int32 nrec_reported, const char *phase, const char *prefix);
static int
reopen_dataset(int rdonly)
{
    if (SDendaccess(sds) == FAIL || SDend(sd) == FAIL)
        return -1;
    sd = SDstart(PATH, rdonly ? DFACC_READ : DFACC_RDWR);
    if (sd == FAIL)
        return -1;
    if (A.c.nofill && !rdonly)
        SDsetfillmode(sd, SD_NOFILL); /* the fill mode is a property of the open file, not of the stored dataset */
    int32 idx = SDnametoindex(sd, "data");
    sds       = idx == FAIL ? FAIL : SDselect(sd, idx);
    if (sds == FAIL)
        return -1;
    if ((A.c.layout == L_CHUNK || A.c.layout == L_CHUNKCOMP) && A.c.cache > 0)
        SDsetchunkcache(sds, A.c.cache, 0);
    if (A.c.unlimited) {
        int32 dims[MAXR], rank, nt, nattr;
        char  name[80];
        if (SDgetinfo(sds, name, &rank, dims, &nt, &nattr) != FAIL)
            reconcile_partial_record(dims[0], "after SDend/SDstart", g_reopen_prefix);
    }
    return 0;
}

static void
close_dataset(void)
{
    if (sds != FAIL)
        SDendaccess(sds);
    if (sd != FAIL)
        SDend(sd);
    sds = sd = FAIL;
}

static void
cfg_fmt(char *b, size_t n)
{
    const dcfg *c = &A.c;
    size_t      o = 0;
    o += (size_t)snprintf(b + o, n - o, "nt=%d dims=", (int)c->nt);
    for (int d = 0; d < c->rank; d++)
        o += (size_t)snprintf(b + o, n - o, "%s%s%d", d ? "x" : "", (d == 0 && c->unlimited) ? "U" : "", c->dims[d]);
    o += (size_t)snprintf(b + o, n - o, " %s%s layout=%s", c->nofill ? "NOFILL" : "FILL", c->userfill ? "+userfill" : "", LNAME[c->layout]);
    if (c->layout == L_CHUNK || c->layout == L_CHUNKCOMP) {
        o += (size_t)snprintf(b + o, n - o, " chunk=");
        for (int d = 0; d < c->rank; d++)
            o += (size_t)snprintf(b + o, n - o, "%s%d", d ? "x" : "", c->chunk[d]);
        o += (size_t)snprintf(b + o, n - o, " cache=%d", c->cache);
    }
    if (c->layout == L_COMP || c->layout == L_CHUNKCOMP)
        o += (size_t)snprintf(b + o, n - o, " coder=%d/%d", c->coder, c->cparam);
    if (c->layout == L_LINKED)
        o += (size_t)snprintf(b + o, n - o, " blocksize=%d", c->blocksize);
    if (c->second_var)
        o += (size_t)snprintf(b + o, n - o, " +second record variable(%d recs)", c->second_var);
}

/* ------------------------------------------------------------------ operations */
static int
do_write(const slab *s, int wseq, const char *prefix)
{
    static uint8 buf[MAXCELLS * 8];
    int32        st[MAXR], sr[MAXR], cn[MAXR];
    int          n = slab_cells(s);
    for (int d = 0; d < A.c.rank; d++)
        st[d] = s->start[d], sr[d] = s->stride[d], cn[d] = s->count[d];
    SLAB_FOR(s, k, l) cell_value(wseq, l, buf + k * A.c.esize);
    int whole = 1;
    for (int d = 0; d < A.c.rank; d++)
        if (s->start[d] != 0 || s->count[d] != extent(d) || (!s->null_stride && s->stride[d] != 1))
            whole = 0;
    if (A.c.unlimited)
        whole = 0;
    int  must = !(A.c.layout == L_COMP || A.c.layout == L_NBIT) || (whole && !A.any_write);
    int  rc   = SDwritedata(sds, st, s->null_stride ? NULL : sr, cn, buf);
    char sb[96];
    slab_fmt(s, sb, sizeof sb);
    if (rc == FAIL) {
        if (must) {
            char sig[80];
            snprintf(sig, sizeof sig, "%swrite:failed", prefix);
            mc_violation(sig, "SDwritedata%s failed [%s]", sb, g_hist);
            return 1;
        }
        mc_count("partial_write_refused_on_compressed", 1);
        return 2;
    }
    (void)n;
    /* model */
    if (A.c.unlimited) {
        int last = s->start[0] + (s->count[0] - 1) * (s->null_stride ? 1 : s->stride[0]) + 1;
        if (last > A.nrec) {
            /* records between the old end and the new end that this write does not cover hold the fill value */
            int per = ncells() / MAXREC;
            for (int r = A.nrec; r < last; r++)
                for (int i = 0; i < per; i++)
                    if (A.st[r * per + i] == 0)
                        A.st[r * per + i] = 2;
            A.nrec = last;
        }
    }
    SLAB_FOR(s, k2, l2)
    {
        memcpy(A.cell[l2], buf + k2 * A.c.esize, (size_t)A.c.esize);
        A.st[l2] = 1;
    }
    A.any_write = 1;
    return 0;
}

static int
check_read(const slab *s, const char *phase, const char *prefix)
{
    static uint8 got[MAXCELLS * 8 + 16];
    int32        st[MAXR], sr[MAXR], cn[MAXR];
    int          n = slab_cells(s);
    for (int d = 0; d < A.c.rank; d++)
        st[d] = s->start[d], sr[d] = s->stride[d], cn[d] = s->count[d];
    memset(got, 0xEE, (size_t)(n * A.c.esize) + 8);
    int  rc = SDreaddata(sds, st, s->null_stride ? NULL : sr, cn, got);
    char sb[96], sig[96];
    slab_fmt(s, sb, sizeof sb);
    if (rc == FAIL) {
        int unwritten = 0;
        SLAB_FOR(s, k0, l0) if (A.st[l0] != 1) unwritten = 1;
        if (A.c.layout == L_EXT && unwritten && !A.c.nofill) {
            snprintf(sig, sizeof sig, "%sexternal:unwritten-cells-not-filled", prefix);
            mc_violation(sig, "%s: SDreaddata%s over never-written cells of a dataset moved to an external file before its first write fails: the fill pass is skipped "
                              "[%s]", phase, sb, g_hist);
            mc_count("external_unwritten_not_filled", 1);
            return 0;
        }
        if (A.c.nofill && unwritten) {
            /* NOFILL: the content of never-written cells is unspecified, and so is the result of a request that includes them */
            mc_count("nofill_unwritten_read_refused", 1);
            return 0;
        }
        snprintf(sig, sizeof sig, "%sread:failed", prefix);
        mc_violation(sig, "%s: SDreaddata%s failed [%s]", phase, sb, g_hist);
        return 1;
    }
    SLAB_FOR(s, k, l)
    {
        const uint8 *g = got + k * A.c.esize;
        const uint8 *e = NULL;
        if (A.st[l] == 1)
            e = A.cell[l];
        else if (A.st[l] == 3)
            e = NULL; /* inside a refused request: unspecified */
        else if (!A.c.nofill)
            e = A.fill;
        if (e && A.st[l] != 1 && A.c.layout == L_EXT && memcmp(g, e, (size_t)A.c.esize) != 0) {
            snprintf(sig, sizeof sig, "%sexternal:unwritten-cells-not-filled", prefix);
            mc_violation(sig, "%s: SDreaddata%s: never-written cell (linear index %d) of an external dataset does not hold the fill value [%s]", phase, sb, l, g_hist);
            mc_count("external_unwritten_not_filled", 1);
            continue;
        }
        if (e && memcmp(g, e, (size_t)A.c.esize) != 0) {
            snprintf(sig, sizeof sig, "%sread:%s", prefix, A.st[l] == 1 ? "value" : "fill");
            mc_violation(sig, "%s: SDreaddata%s: cell #%d of the request (linear index %d, %s) reads %02x%02x.., expected %02x%02x.. [%s]", phase, sb, k, l,
                         A.st[l] == 1 ? "last written" : "never written: fill value", g[0], A.c.esize > 1 ? g[1] : 0, e[0], A.c.esize > 1 ? e[1] : 0, g_hist);
            return 1;
        }
    }
    if (got[n * A.c.esize] != 0xEE) {
        snprintf(sig, sizeof sig, "%sread:overrun", prefix);
        mc_violation(sig, "%s: SDreaddata%s wrote past the caller's buffer [%s]", phase, sb, g_hist);
        return 1;
    }
    return 0;
}

static void
full_slab(slab *s)
{
    memset(s, 0, sizeof *s);
    for (int d = 0; d < A.c.rank; d++) {
        s->start[d] = 0, s->stride[d] = 1, s->count[d] = cur_extent(d);
    }
}

/* NOFILL + unlimited: a last record that was only partly written is dropped when the file is reopened (known finding F29);
   follow the implementation so that the rest of the history can still be checked */
static void
reconcile_partial_record(int32 nrec_reported, const char *phase, const char *prefix)
{
    int32 dims[MAXR] = {nrec_reported};
    if (A.c.unlimited && dims[0] == A.nrec - 1 && A.c.nofill && A.nrec > 0) {
        /* was the last record only partly written? */
        int per = ncells() / MAXREC, partial = 0;
        for (int i = 0; i < per; i++)
            if (A.st[(A.nrec - 1) * per + i] != 1)
                partial = 1;
        if (partial) {
            char sig[80];
            snprintf(sig, sizeof sig, "%sgetinfo:records:nofill-partial-last-record", prefix);
            mc_violation(sig, "%s: a last record that was only partly written (NOFILL) is gone: SDgetinfo reports %d records, %d were written [%s]", phase,
                         (int)dims[0], A.nrec, g_hist);
            mc_count("nofill_partial_last_record_lost", 1);
            for (int i = 0; i < per; i++)
                A.st[(A.nrec - 1) * per + i] = 0;
            A.nrec = dims[0]; /* follow the implementation so that the rest of the history is still checked */
        }
    }
}

static int
check_full(const char *phase, const char *prefix)
{
    slab s;
    full_slab(&s);
    for (int d = 0; d < A.c.rank; d++)
        if (s.count[d] == 0)
            return 0; /* no records yet */
    int32 dims[MAXR], rank = -1, nt = -1, nattr = -1;
    char  name[80];
    /* the flavour bits may legitimately be normalised (native is recorded as little-endian on this host): compare the base type */
    if (SDgetinfo(sds, name, &rank, dims, &nt, &nattr) == FAIL || rank != A.c.rank || (nt & 0xfff) != (A.c.nt & 0xfff)) {
        char sig[64];
        snprintf(sig, sizeof sig, "%sgetinfo", prefix);
        mc_violation(sig, "%s: SDgetinfo failed or reports rank %d type %d [%s]", phase, (int)rank, (int)nt, g_hist);
        return 1;
    }
    reconcile_partial_record(dims[0], phase, prefix);
    if (A.c.unlimited && dims[0] != A.nrec) {
        char sig[64];
        snprintf(sig, sizeof sig, "%sgetinfo:records", prefix);
        mc_violation(sig, "%s: SDgetinfo reports %d records, %d were written [%s]", phase, (int)dims[0], A.nrec, g_hist);
        return 1;
    }
    return check_read(&s, phase, prefix);
}

/* a request that violates the extent in exactly one dimension must fail and change nothing */
static int
check_violations(const char *prefix)
{
    static uint8 buf[MAXCELLS * 8];
    for (int d = 0; d < A.c.rank; d++) {
        int n = cur_extent(d);
        if (n == 0)
            continue;
        int bad[5][3] = {{n, 1, 1}, {n - 1, 1, 2}, {0, n, 2}, {-1, 1, 1}, {n > 1 ? 1 : 0, n, 2}};
        for (int v = 0; v < 5; v++) {
            int32 st[MAXR], sr[MAXR], cn[MAXR];
            for (int e = 0; e < A.c.rank; e++)
                st[e] = 0, sr[e] = 1, cn[e] = 1;
            st[d] = bad[v][0], sr[d] = bad[v][1], cn[d] = bad[v][2];
            int is_write_growth = A.c.unlimited && d == 0 && st[d] >= 0;
            memset(buf, 0x11, sizeof buf);
            int all1 = 1;
            for (int e = 0; e < A.c.rank; e++)
                if (sr[e] != 1)
                    all1 = 0;
            if (SDreaddata(sds, st, sr, cn, buf) != FAIL || (all1 && SDreaddata(sds, st, NULL, cn, buf) != FAIL)) {
                char sig[64];
                snprintf(sig, sizeof sig, "%sread:out-of-range-accepted", prefix);
                mc_violation(sig, "SDreaddata with start %d stride %d count %d in dimension %d (current extent %d) succeeded [%s]", (int)st[d], (int)sr[d], (int)cn[d],
                             d, n, g_hist);
                return 1;
            }
            /* a write that starts inside a non-chunked compressed / n-bit dataset is outside the coders' contract: probe reads only */
            if (!is_write_growth && A.c.layout != L_COMP && A.c.layout != L_NBIT) {
                /* cells of the requested region that lie inside the extent may or may not have been assigned: unspecified from now on */
                for (int q = 0; q < cn[d]; q++) {
                    int i = (int)st[d] + q * (int)sr[d];
                    if (i < 0 || i >= n)
                        continue;
                    int idxv[MAXR] = {0, 0, 0, 0};
                    idxv[d]        = i;
                    A.st[lin(idxv)] = 3;
                }
                if (SDwritedata(sds, st, sr, cn, buf) != FAIL) {
                    char sig[64];
                    snprintf(sig, sizeof sig, "%swrite:out-of-range-accepted", prefix);
                    mc_violation(sig, "SDwritedata with start %d stride %d count %d in dimension %d (extent %d) succeeded [%s]", (int)st[d], (int)sr[d], (int)cn[d],
                                 d, n, g_hist);
                    return 1;
                }
            }
            mc_count("out_of_range_requests", 1);
        }
    }
    return check_full("after refused out-of-range requests", prefix);
}

/* ------------------------------------------------------------------ slab enumeration */
static slab *SL;
static int   NSL;

static void
enum_slabs(int maxstride)
{
    /* every arithmetic progression per dimension (stride<=maxstride for counts>1), cartesian product */
    static int ap[MAXR][64][3], nap[MAXR];
    for (int d = 0; d < A.c.rank; d++) {
        int n  = (d == 0 && A.c.unlimited) ? 4 : A.c.dims[d]; /* unlimited: records 0..3 */
        nap[d] = 0;
        for (int s = 0; s < n; s++)
            for (int c = 1; s + (c - 1) < n; c++)
                for (int t = 1; t <= (c == 1 ? 1 : maxstride) && s + (c - 1) * t < n; t++) {
                    ap[d][nap[d]][0] = s, ap[d][nap[d]][1] = t, ap[d][nap[d]][2] = c;
                    nap[d]++;
                }
        /* count 1 with a stride larger than the extent: legal spelling of a single index */
        ap[d][nap[d]][0] = n - 1, ap[d][nap[d]][1] = n + 3, ap[d][nap[d]][2] = 1;
        nap[d]++;
    }
    int total = 1;
    for (int d = 0; d < A.c.rank; d++)
        total *= nap[d];
    SL  = realloc(SL, (size_t)(total + 1) * sizeof *SL);
    NSL = 0;
    for (int code = 0; code < total; code++) {
        slab s;
        memset(&s, 0, sizeof s);
        int c = code, cells = 1;
        for (int d = A.c.rank - 1; d >= 0; d--) {
            int i      = c % nap[d];
            c /= nap[d];
            s.start[d] = ap[d][i][0], s.stride[d] = ap[d][i][1], s.count[d] = ap[d][i][2];
            cells *= s.count[d];
        }
        if (cells > MAXCELLS)
            continue;
        SL[NSL++] = s;
    }
    /* one contiguous slab spelled with stride == NULL */
    slab z;
    memset(&z, 0, sizeof z);
    for (int d = 0; d < A.c.rank; d++) {
        int n      = (d == 0 && A.c.unlimited) ? 2 : A.c.dims[d];
        z.start[d] = 0, z.stride[d] = 1, z.count[d] = n;
    }
    z.null_stride = 1;
    SL[NSL++]     = z;
}

/* ------------------------------------------------------------------ one configuration: all histories */
static long g_hist_count;

static int g_midread = -1; /* slab read between the first and the second write of a history (-1: none) */

static int
run_history(const dcfg *c, const int *w, int nw, int cut, int readall, const char *prefix)
{
    g_reopen_prefix = prefix;
    int rc = open_dataset(c);
    if (rc) {
        char sig[64];
        snprintf(sig, sizeof sig, "%ssetup:%d", prefix, rc);
        char cb[200];
        cfg_fmt(cb, sizeof cb);
        mc_violation(sig, "creating the dataset / requesting its layout failed (step %d) [%s]", rc, cb);
        return 1;
    }
    char cb[200];
    cfg_fmt(cb, sizeof cb);
    size_t o = (size_t)snprintf(g_hist, sizeof g_hist, "%s; writes:", cb);
    for (int i = 0; i < nw; i++) {
        char sb[96];
        slab_fmt(&SL[w[i]], sb, sizeof sb);
        o += (size_t)snprintf(g_hist + o, sizeof g_hist - o, " %s%s", sb, (cut == i + 1) ? " |SDend/SDstart|" : "");
    }
    g_hist_count++;
    int bad = 0;
    for (int i = 0; i < nw && !bad; i++) {
        if (i == 1 && g_midread >= 0) {
            /* a read through the same id between two writes (read -> write switch of the storage layer) */
            int inside = 1;
            for (int d = 0; d < c->rank; d++)
                if (SL[g_midread].start[d] + (SL[g_midread].count[d] - 1) * (SL[g_midread].null_stride ? 1 : SL[g_midread].stride[d]) >= cur_extent(d))
                    inside = 0;
            if (inside && (bad = check_read(&SL[g_midread], "between the writes", prefix)) != 0)
                break;
        }
        int r = do_write(&SL[w[i]], i + 1, prefix);
        if (r == 1)
            bad = 1;
        if (!bad && cut == i + 1 && reopen_dataset(0)) {
            char sig[64];
            snprintf(sig, sizeof sig, "%sreopen:failed", prefix);
            mc_violation(sig, "SDend/SDstart between writes failed [%s]", g_hist);
            bad = 1;
        }
    }
    if (!bad)
        bad = check_full("same session", prefix);
    if (!bad && readall)
        for (int r = 0; r < NSL && !bad; r++) {
            /* only slabs inside the current extent */
            int inside = 1;
            for (int d = 0; d < c->rank; d++)
                if (SL[r].start[d] + (SL[r].count[d] - 1) * (SL[r].null_stride ? 1 : SL[r].stride[d]) >= cur_extent(d))
                    inside = 0;
            if (inside)
                bad = check_read(&SL[r], "same session", prefix);
        }
    if (!bad && readall)
        bad = check_violations(prefix);
    if (!bad) {
        if (reopen_dataset(1)) {
            char sig[64];
            snprintf(sig, sizeof sig, "%sreopen:failed", prefix);
            mc_violation(sig, "SDend/SDstart(read-only) failed [%s]", g_hist);
            bad = 1;
        }
        else
            bad = check_full("after SDend/SDstart", prefix);
    }
    close_dataset();
    return bad;
}

static void
run_config(const dcfg *c, const char *prefix, int deep)
{
    memset(&A, 0, sizeof A);
    A.c = *c;
    enum_slabs(deep ? 3 : 2);
    int w[3];
    if (c->layout == L_COMP) { /* (n-bit storage has fixed-width cells and no such restriction: it takes the general path) */
        /* the coders' contract: written sequentially from the start, or rewritten in full - so only whole-array writes (both
           spellings), once and twice, across a session cut; every slab is still read */
        int full[2], nf = 0;
        for (int a = 0; a < NSL; a++) {
            int whole = 1;
            for (int d = 0; d < c->rank; d++)
                if (SL[a].start[d] != 0 || SL[a].count[d] != c->dims[d] || (!SL[a].null_stride && SL[a].stride[d] != 1 && SL[a].count[d] > 1))
                    whole = 0;
            if (whole && nf < 2)
                full[nf++] = a;
        }
        for (int i = 0; i < nf; i++) {
            w[0] = full[i];
            if (run_history(c, w, 1, 0, 1, prefix))
                return;
            for (int j = 0; j < nf; j++) {
                w[1] = full[j];
                if (run_history(c, w, 2, j, 1, prefix))
                    return;
            }
        }
        return;
    }
    /* single writes: every slab, with all reads */
    for (int a = 0; a < NSL; a++) {
        w[0] = a;
        if (run_history(c, w, 1, 0, 1, prefix))
            return;
    }
    /* two writes: every ordered pair for small slab sets, a strided subset otherwise; with a session cut for some */
    int step = NSL <= 30 ? 1 : NSL <= 120 ? 5 : 23;
    if (deep && NSL <= 120)
        step = 1;
    for (int a = 0; a < NSL; a++)
        for (int b = (a * 7) % step; b < NSL; b += step) {
            w[0] = a, w[1] = b;
            int code = a * NSL + b;
            g_midread = (code % 3 != 0 && (code % 2 == 1 || c->layout == L_NBIT)) ? (a * 3 + b + 1) % NSL : -1;
            int hr    = run_history(c, w, 2, code % 3 == 0 ? 1 : 0, code % 11 == 0, prefix);
            g_midread = -1;
            if (hr)
                return;
        }
    if (c->rank <= 1 || deep) {
        /* three writes for the smallest shapes */
        int st3 = NSL <= 8 ? 1 : NSL / 4;
        for (int a = 0; a < NSL; a += st3)
            for (int b = 0; b < NSL; b += st3)
                for (int d = 0; d < NSL; d += st3) {
                    w[0] = a, w[1] = b, w[2] = d;
                    if (run_history(c, w, 3, (a + b + d) % 3, 0, prefix))
                        return;
                }
    }
}

/* ------------------------------------------------------------------ plans */
static dcfg *PLAN;
static long  NPLAN;
static void
add_plan(const dcfg *c)
{
    static long cap;
    if (NPLAN == cap) {
        cap  = cap ? cap * 2 : 1024;
        PLAN = realloc(PLAN, (size_t)cap * sizeof *PLAN);
    }
    PLAN[NPLAN++] = *c;
}

static const struct {
    int32 nt;
    int   sz;
} T4[] = {{DFNT_INT8, 1}, {DFNT_INT16 | DFNT_LITEND, 2}, {DFNT_FLOAT32, 4}, {DFNT_FLOAT64, 8}};
static const struct {
    int32 nt;
    int   sz;
} TALL[] = {{DFNT_CHAR8, 1},  {DFNT_UCHAR8, 1}, {DFNT_INT8, 1},    {DFNT_UINT8, 1},   {DFNT_INT16, 2},
            {DFNT_UINT16, 2}, {DFNT_INT32, 4},  {DFNT_UINT32, 4}, {DFNT_FLOAT32, 4}, {DFNT_FLOAT64, 8}};

static const char *g_prefix = "";
static int         g_deep;

static void
plan_case(long idx, void *ctx)
{
    (void)ctx;
    dcfg *c = &PLAN[idx];
    int   cfg[24], n = 0;
    cfg[n++] = c->rank;
    for (int d = 0; d < MAXR; d++)
        cfg[n++] = c->dims[d];
    cfg[n++] = c->unlimited, cfg[n++] = (int)c->nt, cfg[n++] = c->esize, cfg[n++] = c->nofill, cfg[n++] = c->userfill, cfg[n++] = c->layout;
    for (int d = 0; d < MAXR; d++)
        cfg[n++] = c->chunk[d];
    cfg[n++] = c->coder, cfg[n++] = c->cparam, cfg[n++] = c->cache, cfg[n++] = c->blocksize, cfg[n++] = c->extoff, cfg[n++] = c->ndds, cfg[n++] = c->second_var;
    memset(&A, 0, sizeof A);
    A.c = *c;
    char cb[200];
    cfg_fmt(cb, sizeof cb);
    mc_set_config(cfg, n, "%s", cb);
    mc_set_case("%s", cb);
    g_hist_count = 0;
    run_config(c, g_prefix, g_deep);
    mc_count("histories", g_hist_count);
    mc_outcome(mc_hash(MC_H0, c, sizeof *c));
    if (idx % 37 == 0)
        mc_sample("%s: %ld histories (every slab as single write with all slab reads and out-of-range probes; pairs/triples of writes; SDend/SDstart cuts)", cb,
                  g_hist_count);
}

static void
cfg_from_replay(const int *cfg, dcfg *c)
{
    int n = 0;
    memset(c, 0, sizeof *c);
    c->rank = cfg[n++];
    for (int d = 0; d < MAXR; d++)
        c->dims[d] = cfg[n++];
    c->unlimited = cfg[n++], c->nt = cfg[n++], c->esize = cfg[n++], c->nofill = cfg[n++], c->userfill = cfg[n++], c->layout = cfg[n++];
    for (int d = 0; d < MAXR; d++)
        c->chunk[d] = cfg[n++];
    c->coder = cfg[n++], c->cparam = cfg[n++], c->cache = cfg[n++], c->blocksize = cfg[n++], c->extoff = cfg[n++], c->ndds = cfg[n++], c->second_var = cfg[n++];
}

static void
shapes_c03(int thorough)
{
    static const int S1[][MAXR] = {{1}, {2}, {3}, {4}};
    static const int S2[][MAXR] = {{1, 1}, {1, 2}, {2, 1}, {2, 2}, {1, 3}, {3, 1}, {2, 3}, {3, 2}, {3, 3}};
    static const int S3[][MAXR] = {{1, 1, 1}, {2, 2, 2}, {1, 2, 2}, {2, 1, 2}, {2, 2, 1}, {3, 2, 3}};
    static const int S4[][MAXR] = {{1, 1, 1, 1}, {2, 1, 2, 2}, {2, 2, 2, 2}, {1, 2, 1, 2}};
    for (int t = 0; t < 4; t++)
        for (int mode = 0; mode < 3; mode++) { /* FILL default, FILL user value, NOFILL */
            dcfg c;
            memset(&c, 0, sizeof c);
            c.nt = T4[t].nt, c.esize = T4[t].sz, c.nofill = mode == 2, c.userfill = mode == 1;
            for (int unl = 0; unl < 2; unl++) {
                c.unlimited = unl;
                c.layout    = unl ? L_LINKED : L_CONTIG;
                c.rank = 1;
                for (unsigned i = 0; i < 4; i++) {
                    if (unl && i > 0)
                        continue;
                    memcpy(c.dims, S1[i], sizeof c.dims);
                    for (int bs = 0; bs < (unl ? 3 : 1); bs++) {
                        c.blocksize = bs == 0 ? 0 : bs == 1 ? c.esize : 7;
                        add_plan(&c);
                    }
                }
                c.blocksize = 0;
                c.rank      = 2;
                for (unsigned i = 0; i < 9; i++) {
                    if (!thorough && t > 0 && (i == 0 || i == 4 || i == 5))
                        continue;
                    memcpy(c.dims, S2[i], sizeof c.dims);
                    if (unl && S2[i][0] != 1)
                        continue;
                    add_plan(&c);
                    if (unl) {
                        /* a second record variable with more / fewer records in the same file */
                        c.second_var = 5;
                        add_plan(&c);
                        c.second_var = 1;
                        add_plan(&c);
                        c.second_var = 0;
                        c.blocksize  = c.esize * S2[i][1];
                        add_plan(&c);
                        c.blocksize = 0;
                    }
                }
                c.rank = 3;
                for (unsigned i = 0; i < 6; i++) {
                    if (!thorough && (mode != 0 || t == 3) && i != 1)
                        continue;
                    if (!thorough && i == 5 && t != 1)
                        continue;
                    memcpy(c.dims, S3[i], sizeof c.dims);
                    if (unl && S3[i][0] != 1)
                        continue;
                    add_plan(&c);
                }
                c.rank = 4;
                for (unsigned i = 0; i < 4; i++) {
                    if (!thorough && (mode != 0 || t != 1 || i == 2))
                        continue;
                    memcpy(c.dims, S4[i], sizeof c.dims);
                    if (unl && S4[i][0] != 1)
                        continue;
                    add_plan(&c);
                }
            }
        }
    /* every number type (standard flavour; little-endian and native for the 2/4-byte ones) on reduced geometry */
    for (int t = 0; t < 10; t++)
        for (int fl = 0; fl < 3; fl++) {
            dcfg c;
            memset(&c, 0, sizeof c);
            c.nt      = TALL[t].nt | (fl == 1 ? DFNT_LITEND : fl == 2 ? DFNT_NATIVE : 0);
            c.esize   = TALL[t].sz;
            c.rank    = 2;
            c.dims[0] = 2, c.dims[1] = 2;
            add_plan(&c);
            c.unlimited = 1, c.layout = L_LINKED, c.dims[0] = 1;
            add_plan(&c);
        }
}

/* first write far into a large fixed-size data set: the lead-in is filled in pieces by the library, the data must land at its
   own position and everything in front of it must read as the fill value (fill mode on) */
static const struct {
    int32 rows, cols, row; /* int32 data set rows x cols, first write = whole row `row` */
} BIGFIRST[] = {{700, 600, 650}, {700, 600, 417}, {1000, 300, 834}, {900, 500, 556}, {300, 1000, 251}, {2100, 250, 2000}};
#define NBIGFIRST 6
static void
bigfirst_case(long idx, void *ctx)
{
    (void)ctx;
    /* layout (C04 only): 0 contiguous, 1 deflate (not chunked; a second, partial write is not offered by that layout), 2 chunked */
    static const char *LAY[] = {"contiguous", "deflate", "chunked 7 x 64"};
    int   userfill = (int)(idx % 2), k = (int)(idx / 2 % NBIGFIRST), layout = (int)(idx / (2 * NBIGFIRST));
    int   cfg[4] = {-7, k, userfill, layout};
    int32 dims[2] = {BIGFIRST[k].rows, BIGFIRST[k].cols}, row = BIGFIRST[k].row;
    mc_set_config(cfg, 4, "first write far into a %dx%d int32 data set", (int)dims[0], (int)dims[1]);
    mc_set_case("%dx%d int32 (%s), %s fill value, first write is row %d (byte offset %ld)%s", (int)dims[0], (int)dims[1], LAY[layout], userfill ? "user" : "default", (int)row,
                (long)row * dims[1] * 4, layout == 1 ? "" : ", then row 3");
    const char *path = "/vmem/c03big.hdf";
    vfs_remove_file(path);
    int32 sdid = SDstart(path, DFACC_CREATE), id = SDcreate(sdid, "big", DFNT_INT32, 2, dims);
    int32 fill = userfill ? -7 : FILL_LONG;
    if (userfill)
        SDsetfillvalue(id, &fill);
    /* (the fill value of a chunked data set has to be set before the chunking) */
    if (layout == 1) {
        comp_info ci;
        memset(&ci, 0, sizeof ci);
        ci.deflate.level = 1;
        SDsetcompress(id, COMP_CODE_DEFLATE, &ci);
    }
    if (layout == 2) {
        HDF_CHUNK_DEF cd;
        memset(&cd, 0, sizeof cd);
        cd.chunk_lengths[0] = 7, cd.chunk_lengths[1] = 64;
        SDsetchunk(id, cd, HDF_CHUNK);
    }
    int32 *rowbuf = malloc(sizeof(int32) * (size_t)dims[1]), *all = malloc(sizeof(int32) * (size_t)dims[0] * (size_t)dims[1]);
    for (int j = 0; j < dims[1]; j++)
        rowbuf[j] = 100000 + j;
    int32 st[2] = {row, 0}, cn[2] = {1, dims[1]}, st0[2] = {0, 0};
    if (id == FAIL || SDwritedata(id, st, NULL, cn, rowbuf) == FAIL) {
        mc_violation("bigfirst:write-failed", "the first write (row %d) failed", (int)row);
        return;
    }
    st[0] = 3;
    for (int j = 0; j < dims[1]; j++)
        rowbuf[j] = 200000 + j;
    if (layout != 1 && SDwritedata(id, st, NULL, cn, rowbuf) == FAIL)
        mc_violation("bigfirst:write-failed", "the second write (row 3) failed");
    for (int pass = 0; pass < 2; pass++) {
        if (pass == 1) {
            SDendaccess(id);
            if (SDend(sdid) == FAIL) {
                mc_violation("bigfirst:close", "SDend failed");
                break;
            }
            sdid = SDstart(path, DFACC_READ);
            id   = SDselect(sdid, 0);
        }
        memset(all, 0x5a, sizeof(int32) * (size_t)dims[0] * (size_t)dims[1]);
        if (SDreaddata(id, st0, NULL, dims, all) == FAIL) {
            mc_violation("bigfirst:read-failed", "%s: reading the whole data set failed", pass ? "after reopen" : "same session");
            break;
        }
        long bad = 0, firstbad = -1;
        for (long r = 0; r < dims[0]; r++)
            for (long j = 0; j < dims[1]; j++) {
                int32 want = r == row ? 100000 + (int32)j : (r == 3 && layout != 1) ? 200000 + (int32)j : fill;
                /* rows behind the first write were never reached by any fill pass: their content is only defined up to the
                   written row (the file ends there), the library supplies fill values */
                if (all[r * dims[1] + j] != want) {
                    if (!bad)
                        firstbad = r * dims[1] + j;
                    bad++;
                }
            }
        if (bad)
            mc_violation("bigfirst:value", "%s: %ld cells differ from the array model, first at [%ld][%ld] = %d", pass ? "after reopen" : "same session", bad, firstbad / dims[1],
                         firstbad % dims[1], (int)all[firstbad]);
    }
    free(rowbuf);
    free(all);
    mc_count("bigfirst_cases", 1);
}

/* fill-mode switches inside a session on an existing file: a sequence of <=3 SDsetfillmode calls (each returning the mode
   it replaced), with an unrelated metadata change before, between or after them or not at all, and then a new data set
   (fixed or unlimited) that is written in part: in FILL mode its never-written cells read as the fill value, whatever the
   file's state was when the mode was switched on */
static void
fillmode_case(long idx, void *ctx)
{
    (void)ctx;
    int len = 1 + (int)(idx % 3), bits = (int)(idx / 3 % 8), dirty = (int)(idx / 24 % 5), unl = (int)(idx / 120 % 2), userfill = (int)(idx / 240 % 2);
    int cfg[6] = {-8, len, bits, dirty, unl, userfill};
    mc_set_config(cfg, 6, "fill-mode switches");
    char seq[64] = "";
    for (int i = 0; i < len; i++)
        strcat(seq, (bits >> i) & 1 ? " NOFILL" : " FILL");
    mc_set_case("existing file opened read-write; SDsetfillmode%s; attribute change at position %d (4 = none); new %s int16 data set%s, cell 1 written", seq, dirty,
                unl ? "unlimited" : "4-cell", userfill ? " with its own fill value" : "");
    vfs_remove_file(PATH);
    int32 st[1] = {0}, cn[1] = {4}, dm[1] = {4};
    int16 v[4] = {11, 12, 13, 14};
    int32 S = SDstart(PATH, DFACC_CREATE), s = SDcreate(S, "old", DFNT_INT16, 1, dm);
    if (S == FAIL || s == FAIL || SDwritedata(s, st, NULL, cn, v) == FAIL || SDendaccess(s) == FAIL || SDend(S) == FAIL) {
        mc_harness_error("cannot prepare the file");
        return;
    }
    S = SDstart(PATH, DFACC_RDWR);
    if (S == FAIL) {
        mc_violation("fillmode:open", "SDstart(RDWR) failed");
        return;
    }
    int cur = SD_FILL; /* the default */
    for (int i = 0; i <= len; i++) {
        if (dirty == i) {
            int32 a = 5;
            if (SDsetattr(S, "note", DFNT_INT32, 1, &a) == FAIL) {
                mc_violation("fillmode:setattr", "SDsetattr on the file failed");
                return;
            }
        }
        if (i == len)
            break;
        int want = (bits >> i) & 1 ? SD_NOFILL : SD_FILL;
        int prev = SDsetfillmode(S, want);
        if (prev != cur) {
            mc_violation("fillmode:previous-mode", "call %d: SDsetfillmode(%s) returns %d, the mode in force was %s", i + 1, want == SD_NOFILL ? "SD_NOFILL" : "SD_FILL", prev,
                         cur == SD_NOFILL ? "SD_NOFILL" : "SD_FILL");
            return;
        }
        cur = want;
    }
    int32 nd[1] = {unl ? SD_UNLIMITED : 4};
    s           = SDcreate(S, "new", DFNT_INT16, 1, nd);
    int16 fillv = -32767, one = 77;
    if (userfill) {
        fillv = 0x1234;
        if (s == FAIL || SDsetfillvalue(s, &fillv) == FAIL) {
            mc_violation("fillmode:setfillvalue", "SDsetfillvalue failed");
            return;
        }
    }
    int32 w1[1] = {1}, c1[1] = {1};
    if (unl)
        w1[0] = 2; /* records 0 and 1 are skipped */
    if (s == FAIL || SDwritedata(s, w1, NULL, c1, &one) == FAIL) {
        mc_violation("fillmode:write", "creating / writing the new data set failed");
        return;
    }
    for (int pass = 0; pass < 2; pass++) {
        if (pass == 1) {
            if (SDendaccess(s) == FAIL || SDend(S) == FAIL || (S = SDstart(PATH, DFACC_READ)) == FAIL || (s = SDselect(S, SDnametoindex(S, "new"))) == FAIL) {
                mc_violation("fillmode:reopen", "SDend / SDstart(READ) failed");
                return;
            }
        }
        int   n = unl ? 3 : 4;
        int16 r[4] = {0, 0, 0, 0};
        int32 rc[1] = {n};
        if (SDreaddata(s, st, NULL, rc, r) == FAIL) {
            if (cur == SD_FILL)
                mc_violation("fillmode:read-failed", "%s: reading the new data set (fill mode on) failed", pass ? "after reopen" : "same session");
            continue;
        }
        int wpos = unl ? 2 : 1;
        if (r[wpos] != one)
            mc_violation("fillmode:value", "%s: the written cell reads %d, written %d", pass ? "after reopen" : "same session", r[wpos], one);
        if (cur == SD_FILL)
            for (int i = 0; i < n; i++)
                if (i != wpos && r[i] != fillv) {
                    mc_violation("fillmode:fill", "%s: never-written cell %d reads %d although fill mode was switched on before the data set was created (fill value %d)",
                                 pass ? "after reopen" : "same session", i, r[i], fillv);
                    break;
                }
    }
    SDendaccess(s);
    SDend(S);
    mc_count("fillmode_cases", 1);
    mc_outcome(mc_hash_i(mc_hash_i(MC_H0, -8), idx));
}
#define NFILLMODE (3L * 8 * 5 * 2 * 2)
static void biglinked_case(long idx, void *ctx); /* below: one write call spanning several linked-block tables */
static void bigrecord_case(long idx, void *ctx); /* below: records of 2^25..2^26+1 bytes with the default block size */

int
C03_main(const char *tier, const char *replay)
{
    int thorough = strcmp(tier, "thorough") == 0;
    g_prefix     = "";
    g_deep       = thorough;
    if (replay) {
        int   cfg[32], ncfg, nops;
        mc_op ops[4];
        if (mc_load_replay(replay, cfg, &ncfg, ops, &nops, 4) || ncfg < 3)
            return 2;
        if (cfg[0] == -7) {
            bigfirst_case(cfg[1] * 2L + cfg[2] + (ncfg >= 4 ? 2L * NBIGFIRST * cfg[3] : 0), NULL);
            return 0;
        }
        if (cfg[0] == -5) {
            biglinked_case(cfg[1], NULL);
            return 0;
        }
        if (cfg[0] == -9) {
            bigrecord_case(cfg[1], NULL);
            return 0;
        }
        if (cfg[0] == -8 && ncfg >= 6) {
            fillmode_case((cfg[1] - 1) + 3L * (cfg[2] + 8L * (cfg[3] + 5L * (cfg[4] + 2L * cfg[5]))), NULL);
            return 0;
        }
        if (ncfg < 20)
            return 2;
        dcfg c;
        cfg_from_replay(cfg, &c);
        add_plan(&c);
        plan_case(0, NULL);
        return 0;
    }
    shapes_c03(thorough);
    /* rank 0 and spot ranks up to the 32-dimension limit: definition/inquiry and memory safety only (the repository's own
       test pins that SDwritedata fails on rank 0) */
    mc_round_begin("every (shape,type,fill mode) x every history of <=2(3) slab writes x reads x out-of-range requests");
    mc_foreach(NPLAN, plan_case, NULL, 1, 600);
    mc_round_end();
    mc_round_begin("first write far into a large fixed-size data set (lead-in filled in pieces)");
    mc_foreach(2L * NBIGFIRST, bigfirst_case, NULL, 1, 300);
    mc_round_end();
    mc_round_begin("fill-mode switches in a session on an existing file, then a partly written new data set");
    mc_foreach(NFILLMODE, fillmode_case, NULL, 1, 120);
    mc_round_end();
    mc_round_begin("unlimited data sets: single writes that cross linked-block table boundaries, then reopen");
    mc_foreach(12, biglinked_case, NULL, 1, 300);
    mc_round_end();
    mc_round_begin("unlimited data sets with records of 2^25 .. 2^26+1 bytes and the default block size");
    mc_foreach(thorough ? 8 : 2, bigrecord_case, NULL, 1, 300);
    mc_round_end();
    mc_count("evaluations", mc_get("histories") + mc_get("bigfirst_cases") + mc_get("fillmode_cases") + 12 + mc_get("bigrecord_cases"));
    mc_rule("SD datasets of rank 1-4 (dims 1..4, 1..3^2, up to 3x2x3 and 2^4), fixed and with an unlimited first dimension (with SDsetblocksize variants and a "
            "second record variable of a different length in the same file), element sizes 1/2/4/8 with the full geometry and all 10 number types x 3 flavours "
            "on reduced geometry, fill mode FILL (default and user value) and NOFILL. Per configuration: every hyperslab made of one arithmetic progression per "
            "dimension (incl. stride NULL and a stride larger than the extent with count 1) as a single write followed by a full read, every slab read and 5 "
            "single-dimension out-of-range requests per dimension (which must fail and change nothing); ordered pairs (triples for rank 1) of writes, some cut by "
            "SDend/SDstart; every history re-read after SDend/SDstart(read-only). distinct = configurations completed.");
    return 0;
}

/* ======================================================================= C04: layouts */
void C09_grchunk_case(long idx, void *ctx); /* harness/c09_gr.c: chunked raster images */
static void
shapes_c04(int thorough)
{
    static const int E[][MAXR + 1] = {{1, 1}, {1, 2}, {1, 3}, {1, 4}, {1, 5}, {2, 2, 2}, {2, 3, 2}, {2, 2, 3}, {2, 4, 3}, {3, 2, 3, 2}};
    int              ne = thorough ? 10 : 8;
    static const struct {
        int32 nt;
        int   sz;
    } T[] = {{DFNT_INT16, 2}, {DFNT_FLOAT32, 4}, {DFNT_UINT8, 1}, {DFNT_FLOAT64, 8}};
    int nt = thorough ? 4 : 2;
    for (int ei = 0; ei < ne; ei++)
        for (int ti = 0; ti < nt; ti++) {
            if (!thorough && ti == 1 && E[ei][0] != 2)
                continue;
            dcfg b;
            memset(&b, 0, sizeof b);
            b.rank = E[ei][0];
            for (int d = 0; d < b.rank; d++)
                b.dims[d] = E[ei][1 + d];
            b.nt = T[ti].nt, b.esize = T[ti].sz;
            b.userfill = (ei + ti) % 2;
            /* baseline */
            b.layout = L_CONTIG;
            add_plan(&b);
            /* every chunk shape c_i in [1, n_i + 1] */
            int tot = 1;
            for (int d = 0; d < b.rank; d++)
                tot *= b.dims[d] + 1;
            for (int code = 0; code < tot; code++) {
                dcfg c = b;
                int  x = code;
                for (int d = b.rank - 1; d >= 0; d--) {
                    c.chunk[d] = 1 + x % (b.dims[d] + 1);
                    x /= b.dims[d] + 1;
                }
                int caches[5] = {1, 2, 3, 0, 64};
                int ncache    = thorough ? 5 : 2;
                for (int ci = 0; ci < ncache; ci++) {
                    c.layout = L_CHUNK;
                    c.cache  = caches[thorough ? ci : (ci ? 3 : 0)];
                    c.ndds   = (code + ci) % 3 == 0 ? 4 : 0;
                    add_plan(&c);
                }
                /* chunked + compressed */
                static const int cod[][2] = {{COMP_CODE_RLE, 0}, {COMP_CODE_DEFLATE, 6}, {COMP_CODE_SKPHUFF, 2}, {COMP_CODE_DEFLATE, 1}, {COMP_CODE_DEFLATE, 9}, {COMP_CODE_SKPHUFF, 1}, {COMP_CODE_SKPHUFF, 4}};
                int              ncod     = thorough ? 7 : 2;
                for (int k = 0; k < ncod; k++) {
                    if (!thorough && (code % 2) != k)
                        continue;
                    c.layout = L_CHUNKCOMP;
                    c.coder = cod[k][0], c.cparam = cod[k][1];
                    c.cache = (code + k) % 2 ? 1 : 0;
                    add_plan(&c);
                }
            }
            /* non-chunked compressed, n-bit, external */
            static const int cod2[][2] = {{COMP_CODE_NONE, 0}, {COMP_CODE_RLE, 0}, {COMP_CODE_DEFLATE, 6}, {COMP_CODE_SKPHUFF, 2}, {COMP_CODE_DEFLATE, 1}, {COMP_CODE_DEFLATE, 9}, {COMP_CODE_SKPHUFF, 1}, {COMP_CODE_SKPHUFF, 4}};
            for (int k = 0; k < (thorough ? 8 : 4); k++) {
                dcfg c   = b;
                c.layout = L_COMP;
                c.coder = cod2[k][0], c.cparam = cod2[k][1];
                add_plan(&c);
            }
            if (b.esize == 2) {
                dcfg c   = b;
                c.layout = L_NBIT;
                c.nt     = DFNT_INT16;
                c.cparam = 0;
                add_plan(&c);
                c.cparam = 1; /* with sign extension, negative values */
                add_plan(&c);
            }
            for (int off = 0; off < 2; off++) {
                dcfg c   = b;
                c.layout = L_EXT;
                c.extoff = off ? 5 : 0;
                add_plan(&c);
            }
            /* linked blocks: unlimited leading dimension with tiny block sizes */
            if (b.dims[0] <= 3) {
                dcfg c      = b;
                c.unlimited = 1;
                c.layout    = L_LINKED;
                for (int bs = 0; bs < 3; bs++) {
                    c.blocksize = bs == 0 ? 0 : bs == 1 ? c.esize : 7;
                    c.ndds      = bs == 2 ? 4 : 0;
                    add_plan(&c);
                }
            }
        }
}

/* whole-chunk access must agree with hyperslab access; unwritten chunks read as fill */
static void
chunk_case(long idx, void *ctx)
{
    (void)ctx;
    /* enumerate chunked plans only */
    dcfg *c = &PLAN[idx];
    if (c->layout != L_CHUNK && c->layout != L_CHUNKCOMP)
        return;
    int cfg[4] = {-4, (int)idx, 0, 0};
    memset(&A, 0, sizeof A);
    A.c = *c;
    char cb[200];
    cfg_fmt(cb, sizeof cb);
    mc_set_config(cfg, 2, "%s", cb);
    mc_set_case("whole-chunk I/O: %s", cb);
    if (open_dataset(c)) {
        mc_violation("C04:chunkio:setup", "creating the chunked dataset failed [%s]", cb);
        return;
    }
    snprintf(g_hist, sizeof g_hist, "%s; SDwritechunk/SDreadchunk", cb);
    int nch[MAXR], tot = 1, csz = 1;
    for (int d = 0; d < c->rank; d++) {
        nch[d] = (c->dims[d] + c->chunk[d] - 1) / c->chunk[d];
        tot *= nch[d];
        csz *= c->chunk[d];
    }
    static uint8 cbuf[512 * 8];
    if (csz > 512) {
        close_dataset();
        return;
    }
    /* write every second chunk whole; the rest stays unwritten */
    for (int code = 0; code < tot; code += 2) {
        int32 org[MAXR];
        int   x = code;
        for (int d = c->rank - 1; d >= 0; d--) {
            org[d] = x % nch[d];
            x /= nch[d];
        }
        /* chunk cell k (row-major within the chunk) -> array index */
        for (int k = 0; k < csz; k++) {
            int idxv[MAXR], y = k, inside = 1;
            for (int d = c->rank - 1; d >= 0; d--) {
                idxv[d] = (int)org[d] * c->chunk[d] + y % c->chunk[d];
                y /= c->chunk[d];
                if (idxv[d] >= c->dims[d])
                    inside = 0;
            }
            uint8 v[8];
            if (inside) {
                int l = lin(idxv);
                cell_value(9, l, v);
                memcpy(A.cell[l], v, (size_t)c->esize);
                A.st[l] = 1;
            }
            else
                memset(v, 0x99, 8); /* ghost area */
            memcpy(cbuf + k * c->esize, v, (size_t)c->esize);
        }
        if (SDwritechunk(sds, org, cbuf) == FAIL) {
            mc_violation("C04:writechunk:failed", "SDwritechunk of chunk #%d failed [%s]", code, g_hist);
            close_dataset();
            return;
        }
    }
    A.any_write = 1;
    if (check_full("after SDwritechunk", "C04:chunkio:"))
        goto out;
    /* a hyperslab write on top, then every chunk read whole must agree with the array */
    {
        slab s;
        full_slab(&s);
        s.start[0] = c->dims[0] - 1, s.count[0] = 1;
        if (do_write(&s, 5, "C04:chunkio:") == 1)
            goto out;
    }
    for (int phase = 0; phase < 2; phase++) {
        if (phase == 1 && reopen_dataset(1)) {
            mc_violation("C04:chunkio:reopen", "reopen failed [%s]", g_hist);
            goto out;
        }
        for (int code = 0; code < tot; code++) {
            int32 org[MAXR];
            int   x = code;
            for (int d = c->rank - 1; d >= 0; d--) {
                org[d] = x % nch[d];
                x /= nch[d];
            }
            memset(cbuf, 0xEE, (size_t)(csz * c->esize) + 8);
            if (SDreadchunk(sds, org, cbuf) == FAIL) {
                mc_violation("C04:readchunk:failed", "SDreadchunk of chunk #%d failed [%s]", code, g_hist);
                goto out;
            }
            for (int k = 0; k < csz; k++) {
                int idxv[MAXR], y = k, inside = 1;
                for (int d = c->rank - 1; d >= 0; d--) {
                    idxv[d] = (int)org[d] * c->chunk[d] + y % c->chunk[d];
                    y /= c->chunk[d];
                    if (idxv[d] >= c->dims[d])
                        inside = 0;
                }
                if (!inside)
                    continue;
                int          l = lin(idxv);
                const uint8 *e = A.st[l] == 1 ? A.cell[l] : A.fill;
                if (A.st[l] == 3)
                    continue;
                if (memcmp(cbuf + k * c->esize, e, (size_t)c->esize) != 0) {
                    mc_violation(A.st[l] == 1 ? "C04:readchunk:value" : "C04:readchunk:fill",
                                 "%s: SDreadchunk of chunk #%d: cell %d (array index %d) reads %02x.., expected %02x.. (%s) [%s]", phase ? "after reopen" : "same session",
                                 code, k, l, cbuf[k * c->esize], e[0], A.st[l] == 1 ? "written" : "fill", g_hist);
                    goto out;
                }
            }
            if (cbuf[csz * c->esize] != 0xEE) {
                mc_violation("C04:readchunk:overrun", "SDreadchunk wrote past one chunk [%s]", g_hist);
                goto out;
            }
            mc_count("chunks_read_whole", 1);
        }
    }
out:
    close_dataset();
}


/* one write call spanning several linked-block tables (tiny block sizes), then reopen */
static void
biglinked_case(long idx, void *ctx)
{
    (void)ctx;
    static const int BS[] = {8, 16, 100, 1024, 4096, 7};
    int              bs   = BS[idx % 6], ndds = idx >= 6 ? 4 : 0;
    int              cfg[3] = {-5, (int)idx, 0};
    mc_set_config(cfg, 2, "big linked case %ld", idx);
    mc_set_case("unlimited x 300 int32 in linked blocks of %d bytes, multi-record writes in one call", bs);
    vfs_remove_file(PATH);
    if (ndds) {
        int32 f = Hopen(PATH, DFACC_CREATE, (int16)ndds);
        Hclose(f);
    }
    int32 sdid = SDstart(PATH, ndds ? DFACC_RDWR : DFACC_CREATE);
    int32 dims[2] = {SD_UNLIMITED, 300};
    int32 id = SDcreate(sdid, "big", DFNT_INT32, 2, dims);
    /* something behind it so that growth cannot happen in place */
    int32 od = 4, o2 = SDcreate(sdid, "tail", DFNT_INT8, 1, &od);
    int8  tv[4] = {1, 2, 3, 4};
    int32 z = 0;
    if (id == FAIL || SDsetblocksize(id, bs) == FAIL) {
        mc_violation("C04:biglinked:setup", "SDcreate/SDsetblocksize(%d) failed", bs);
        return;
    }
    static int32 v[7 * 300], back[7 * 300 + 4];
    for (int i = 0; i < 7 * 300; i++)
        v[i] = 1000003 * (i + 1);
    int32 st[2] = {0, 0}, cn[2] = {1, 300};
    if (SDwritedata(id, st, NULL, cn, v) == FAIL) { /* first record */
        mc_violation("C04:biglinked:write", "first record write failed");
        return;
    }
    SDwritedata(o2, &z, NULL, &od, tv);
    SDendaccess(o2);
    st[0] = 1, cn[0] = 3; /* three records (3600 bytes) in one call: promoted to linked blocks, crosses block tables */
    if (SDwritedata(id, st, NULL, cn, v + 300) == FAIL) {
        mc_violation("C04:biglinked:write", "multi-record write failed (block size %d)", bs);
        return;
    }
    st[0] = 4, cn[0] = 3;
    if (SDwritedata(id, st, NULL, cn, v + 4 * 300) == FAIL) {
        mc_violation("C04:biglinked:write", "second multi-record write failed (block size %d)", bs);
        return;
    }
    for (int phase = 0; phase < 3; phase++) {
        if (phase == 1) {
            SDendaccess(id);
            id = SDselect(sdid, SDnametoindex(sdid, "big"));
        }
        if (phase == 2) {
            SDendaccess(id);
            if (SDend(sdid) == FAIL) {
                mc_violation("C04:biglinked:close", "SDend failed");
                return;
            }
            sdid = SDstart(PATH, DFACC_READ);
            id   = SDselect(sdid, SDnametoindex(sdid, "big"));
        }
        st[0] = 0, cn[0] = 7;
        memset(back, 0, sizeof back);
        if (id == FAIL || SDreaddata(id, st, NULL, cn, back) == FAIL) {
            mc_violation("C04:biglinked:read-failed", "%s: reading the 7 records back failed (block size %d)",
                         phase == 0 ? "same handle" : phase == 1 ? "after SDendaccess/SDselect" : "after SDend/SDstart", bs);
            return;
        }
        for (int i = 0; i < 7 * 300; i++)
            if (back[i] != v[i]) {
                mc_violation("C04:biglinked:value", "%s: value #%d (record %d) reads %d, written %d (block size %d)",
                             phase == 0 ? "same handle" : phase == 1 ? "after SDendaccess/SDselect" : "after SDend/SDstart", i, i / 300, (int)back[i], (int)v[i], bs);
                return;
            }
    }
    SDendaccess(id);
    SDend(sdid);
    mc_count("biglinked_cases", 1);
    mc_sample("unlimited x 300 int32, SDsetblocksize(%d), records written 1 + 3 + 3 per call, read back through the same handle, after reselect and after reopen", bs);
}

/* records so large that the default linked-block size computation (record bytes x 64, capped) leaves 32-bit range */
static void
bigrecord_case(long idx, void *ctx)
{
    (void)ctx;
    static const int32 RL[] = {33554432, 34000000, 67108864, 67108865};
    int32 rl = RL[idx % 4];
    int   nofill = (int)(idx / 4);
    int   cfg[3] = {-9, (int)idx, 0};
    mc_set_config(cfg, 2, "big record case %ld", idx);
    mc_set_case("unlimited x %d int8 (no SDsetblocksize), %s: 1000 cells written in the middle of record 0 and at the end of record 1", (int)rl, nofill ? "NOFILL" : "fill value 7");
    vfs_remove_file(PATH);
    int32 sdid = SDstart(PATH, DFACC_CREATE);
    int32 dims[2] = {SD_UNLIMITED, rl};
    int32 id = SDcreate(sdid, "bigrec", DFNT_INT8, 2, dims);
    int8  fv = 7;
    if (id == FAIL || SDsetfillvalue(id, &fv) == FAIL || (nofill && SDsetfillmode(sdid, SD_NOFILL) == FAIL)) {
        mc_violation("C03:bigrecord:setup", "SDcreate/SDsetfillvalue failed for a record of %d bytes", (int)rl);
        return;
    }
    static int8 v[1000], back[1000 + 8];
    for (int i = 0; i < 1000; i++)
        v[i] = (int8)(i * 7 + 3);
    int32 st[2] = {0, rl / 2}, cn[2] = {1, 1000};
    if (SDwritedata(id, st, NULL, cn, v) == FAIL) {
        mc_violation("C03:bigrecord:write", "SDwritedata of 1000 cells at (0,%d) of an unlimited x %d int8 data set failed", (int)st[1], (int)rl);
        return;
    }
    st[0] = 1, st[1] = rl - 1000;
    if (SDwritedata(id, st, NULL, cn, v) == FAIL) {
        mc_violation("C03:bigrecord:write", "SDwritedata of the last 1000 cells of record 1 (record length %d) failed", (int)rl);
        return;
    }
    for (int phase = 0; phase < 2; phase++) {
        if (phase == 1) {
            SDendaccess(id);
            if (SDend(sdid) == FAIL) {
                mc_violation("C03:bigrecord:close", "SDend failed");
                return;
            }
            sdid = SDstart(PATH, DFACC_READ);
            id   = SDselect(sdid, SDnametoindex(sdid, "bigrec"));
        }
        const char *when = phase ? "after SDend/SDstart" : "same handle";
        int32 dm[2] = {0, 0}, rk, nt, na;
        char  nm[64];
        if (id == FAIL || SDgetinfo(id, nm, &rk, dm, &nt, &na) == FAIL || dm[0] != 2 || dm[1] != rl) {
            mc_violation("C03:bigrecord:shape", "%s: data set reports %d x %d, written 2 records of %d", when, (int)dm[0], (int)dm[1], (int)rl);
            return;
        }
        for (int r = 0; r < 2; r++) {
            st[0] = r, st[1] = r ? rl - 1000 : rl / 2;
            memset(back, 0x55, sizeof back);
            if (SDreaddata(id, st, NULL, cn, back) == FAIL || memcmp(back, v, 1000) != 0) {
                mc_violation("C03:bigrecord:value", "%s: the 1000 cells written at (%d,%d) do not read back (record length %d)", when, r, (int)st[1], (int)rl);
                return;
            }
        }
        if (!nofill) {
            /* never-written cells: both ends of record 0, start of record 1 */
            int32 probes[3][2] = {{0, 0}, {0, rl - 8}, {1, 0}};
            for (int q = 0; q < 3; q++) {
                int32 c8[2] = {1, 8};
                memset(back, 0x55, sizeof back);
                if (SDreaddata(id, probes[q], NULL, c8, back) == FAIL) {
                    mc_violation("C03:bigrecord:read-failed", "%s: reading 8 never-written cells at (%d,%d) failed", when, (int)probes[q][0], (int)probes[q][1]);
                    return;
                }
                for (int i = 0; i < 8; i++)
                    if (back[i] != fv) {
                        mc_violation("C03:bigrecord:fill", "%s: never-written cell (%d,%d) reads %d, fill value is %d", when, (int)probes[q][0], (int)probes[q][1] + i, back[i], fv);
                        return;
                    }
            }
        }
        st[0] = 2, st[1] = 0;
        if (SDreaddata(id, st, NULL, cn, back) != FAIL) {
            mc_violation("C03:bigrecord:beyond", "%s: reading record 2 of 2 succeeded", when);
            return;
        }
    }
    SDendaccess(id);
    SDend(sdid);
    mc_count("bigrecord_cases", 1);
    mc_outcome(mc_hash_i(mc_hash_i(MC_H0, -9), idx));
}
#define NBIGRECORD 8

int
C04_main(const char *tier, const char *replay)
{
    int thorough = strcmp(tier, "thorough") == 0;
    g_prefix     = "C04:";
    g_deep       = 0;
    if (replay) {
        int   cfg[32], ncfg, nops;
        mc_op ops[4];
        if (mc_load_replay(replay, cfg, &ncfg, ops, &nops, 4) || ncfg < 2)
            return 2;
        if (cfg[0] == -5) {
            biglinked_case(cfg[1], NULL);
            return 0;
        }
        if (cfg[0] == -7 && ncfg >= 4) {
            bigfirst_case(cfg[1] * 2L + cfg[2] + 2L * NBIGFIRST * cfg[3], NULL);
            return 0;
        }
        if (cfg[0] == -6 && ncfg >= 7) {
            C09_grchunk_case(cfg[1] + 5L * ((cfg[2] == 3) + 2L * (cfg[3] + 2L * (cfg[4] + 3L * (cfg[5] + 3L * cfg[6])))), NULL);
            return 0;
        }
        if (cfg[0] == -4) {
            shapes_c04(thorough);
            if (cfg[1] >= NPLAN) {
                NPLAN = 0;
                shapes_c04(1);
            }
            chunk_case(cfg[1], NULL);
            return 0;
        }
        dcfg c;
        cfg_from_replay(cfg, &c);
        add_plan(&c);
        plan_case(0, NULL);
        return 0;
    }
    shapes_c04(thorough);
    mc_round_begin("every layout configuration x slab-write histories vs the array model");
    mc_foreach(NPLAN, plan_case, NULL, 1, 600);
    mc_round_end();
    mc_round_begin("whole-chunk I/O vs hyperslab access");
    mc_foreach(NPLAN, chunk_case, NULL, 1, 300);
    mc_round_end();
    mc_round_begin("multi-record writes across linked-block tables");
    mc_foreach(12, biglinked_case, NULL, 1, 300);
    mc_round_end();
    mc_round_begin("first write far into a large data set: contiguous, deflate and chunked layouts against the same array model");
    mc_foreach(3L * 2 * NBIGFIRST, bigfirst_case, NULL, 1, 300);
    mc_round_end();
    mc_round_begin("raster images: whole-chunk reads vs region reads, every interlace, three kinds of session");
    mc_foreach(360, C09_grchunk_case, NULL, 1, 300);
    mc_round_end();
    mc_count("evaluations", mc_get("histories") + mc_get("chunks_read_whole") + 12 + 360 + mc_get("bigfirst_cases"));
    mc_rule("extents of rank 1 (1..5), rank 2 (2x2, 3x2, 2x3, 4x3) and rank 3 (2x3x2): contiguous baseline; chunked with EVERY chunk shape c_i in [1, n_i+1] "
            "(incl. shapes that do not divide the extent and chunks larger than it) x chunk-cache sizes x DD-block sizes; chunked+compressed and compressed "
            "(RLE, deflate, skipping-Huffman; more parameters in thorough); n-bit; external file at offset 0 and 5; unlimited dimension in linked blocks with "
            "SDsetblocksize default / one element / 7 bytes. Every configuration runs the C03 slab-write histories against the same array model (so every layout "
            "agrees with the contiguous baseline cell by cell), and chunked datasets additionally: every second chunk written with SDwritechunk, a hyperslab "
            "write on top, then every chunk read whole with SDreadchunk in the same session and after reopen (unwritten chunks = fill value). Chunked raster images "
            "(5 square geometries x 1/3 components x 1/2-byte pixels x creation interlace x plain/deflate chunks): every chunk read whole with GRreadchunk under each requested "
            "interlace against the pixels written and against GRreadimage of the same region, in the writing session and after reopening read-write and read-only. distinct = "
            "configurations completed.");
    return 0;
}
