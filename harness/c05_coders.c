/* C05 - lossless coders, n-bit projection and bit-granular I/O round-trip every stream.
 * Case enumeration: every (coder, input string) x every write partition x every read partition / seek pattern;
 * every n-bit (type, start_bit, bit_len, sign_ext, fill_one) x value family x call-size pattern;
 * every sequence of bit-field widths x re-partition on read x bit seeks. */
#include "../engine/mc.h"
#include "../engine/vfs.h"
#include "../engine/fmtcheck.h"
#include "hdf.h"
#include <stdio.h>
#include <stdlib.h>
#include <string.h>

#define PATH "/vmem/c05.hdf"
#define TAG 400

/* ------------------------------------------------------------------ coders */
typedef struct {
    comp_coder_t type;
    int          param;
    const char  *name;
} coder_t;
static const coder_t CODERS_Q[] = {{COMP_CODE_NONE, 0, "none"},       {COMP_CODE_RLE, 0, "rle"},           {COMP_CODE_SKPHUFF, 1, "skphuff1"},
                                   {COMP_CODE_SKPHUFF, 2, "skphuff2"}, {COMP_CODE_DEFLATE, 1, "deflate1"}, {COMP_CODE_DEFLATE, 6, "deflate6"}};
static const coder_t CODERS_T[] = {{COMP_CODE_NONE, 0, "none"},        {COMP_CODE_RLE, 0, "rle"},           {COMP_CODE_SKPHUFF, 1, "skphuff1"},
                                   {COMP_CODE_SKPHUFF, 2, "skphuff2"},  {COMP_CODE_SKPHUFF, 3, "skphuff3"}, {COMP_CODE_SKPHUFF, 4, "skphuff4"},
                                   {COMP_CODE_SKPHUFF, 8, "skphuff8"},  {COMP_CODE_DEFLATE, 0, "deflate0"}, {COMP_CODE_DEFLATE, 1, "deflate1"},
                                   {COMP_CODE_DEFLATE, 2, "deflate2"},  {COMP_CODE_DEFLATE, 3, "deflate3"}, {COMP_CODE_DEFLATE, 4, "deflate4"},
                                   {COMP_CODE_DEFLATE, 5, "deflate5"},  {COMP_CODE_DEFLATE, 6, "deflate6"}, {COMP_CODE_DEFLATE, 7, "deflate7"},
                                   {COMP_CODE_DEFLATE, 8, "deflate8"},  {COMP_CODE_DEFLATE, 9, "deflate9"}};
static const coder_t *CODERS;
static int            NCODERS;

/* ------------------------------------------------------------------ input strings */
#define MAXS 9000
typedef struct {
    int  kind; /* 0 binary string (len,bits), 1 ternary, 2 runs a^i b^j a^k, 3 (ab)^m mix, 4 incompressible block */
    int  a, b, c;
} sdesc;
static sdesc *STR;
static long   NSTR;

static int
build_string(const sdesc *d, uint8 *out)
{
    int n = 0;
    switch (d->kind) {
        case 0:
            for (int i = 0; i < d->a; i++)
                out[n++] = (d->b >> i) & 1 ? 'b' : 'a';
            break;
        case 1: {
            int v = d->b;
            for (int i = 0; i < d->a; i++, v /= 3)
                out[n++] = (uint8)('a' + v % 3);
            break;
        }
        case 2:
            for (int i = 0; i < d->a; i++)
                out[n++] = 'a';
            for (int i = 0; i < d->b; i++)
                out[n++] = 'b';
            for (int i = 0; i < d->c; i++)
                out[n++] = 'a';
            break;
        case 3:
            for (int i = 0; i < d->a; i++) {
                out[n++] = 'a';
                out[n++] = 'b';
            }
            for (int i = 0; i < d->b; i++)
                out[n++] = 'c';
            for (int i = 0; i < d->a; i++) {
                out[n++] = 'b';
                out[n++] = 'a';
            }
            break;
        case 4: {
            uint32 x = 2463534242u + (uint32)d->b;
            for (int i = 0; i < d->a; i++) {
                x ^= x << 13;
                x ^= x >> 17;
                x ^= x << 5;
                out[n++] = (uint8)(x >> 11);
            }
            break;
        }
    }
    return n;
}

static void
describe_string(const sdesc *d, char *buf, size_t n)
{
    static const char *k[] = {"binary", "ternary", "runs a^i b^j a^k", "(ab)^m c^j (ba)^m", "pseudo-random block"};
    snprintf(buf, n, "%s(%d,%d,%d)", k[d->kind], d->a, d->b, d->c);
}

static void
add_str(int kind, int a, int b, int c)
{
    static long cap;
    if (NSTR == cap) {
        cap = cap ? cap * 2 : 4096;
        STR = realloc(STR, (size_t)cap * sizeof *STR);
    }
    STR[NSTR++] = (sdesc){kind, a, b, c};
}

/* ------------------------------------------------------------------ one compressed-element lifecycle */
static int32 fid = FAIL;
static uint16 nextref;

static int32
create_elem(const coder_t *c, uint16 ref)
{
    comp_info  ci;
    model_info mi;
    memset(&ci, 0, sizeof ci);
    memset(&mi, 0, sizeof mi);
    if (c->type == COMP_CODE_SKPHUFF)
        ci.skphuff.skp_size = c->param;
    if (c->type == COMP_CODE_DEFLATE)
        ci.deflate.level = c->param;
    return HCcreate(fid, TAG, ref, COMP_MODEL_STDIO, &mi, c->type, &ci);
}

static int
write_parts(int32 aid, const uint8 *s, int n, int cut1, int cut2)
{
    int cuts[4] = {0, cut1, cut2, n}, nc = 0;
    int seq[4];
    seq[nc++] = 0;
    if (cut1 > 0 && cut1 < n)
        seq[nc++] = cut1;
    if (cut2 > cut1 && cut2 < n)
        seq[nc++] = cut2;
    seq[nc] = n;
    (void)cuts;
    for (int i = 0; i < nc; i++) {
        int len = seq[i + 1] - seq[i];
        if (len <= 0)
            continue;
        if (Hwrite(aid, len, s + seq[i]) != len)
            return -1;
    }
    return 0;
}

/* returns 0 ok */
static int
check_read_seq(uint16 ref, const uint8 *s, int n, int p1, int k1, int p2, int k2, const char *phase, const char *cname)
{
    static uint8 buf[20000];
    int32        aid = Hstartread(fid, TAG, ref);
    if (aid == FAIL) {
        mc_violation("read:start-failed", "%s %s: Hstartread failed", cname, phase);
        return 1;
    }
    int bad = 0;
    int pos = 0;
    int ps[2] = {p1, p2}, ks[2] = {k1, k2};
    for (int i = 0; i < 2 && !bad; i++) {
        if (ps[i] < 0)
            continue;
        if (ps[i] != pos || i > 0) {
            /* the same target position expressed from the start, from the current position or from the end */
            int   org = (p1 + 2 * p2 + k1 + i) % 3;
            int32 off = org == 0 ? ps[i] : org == 1 ? ps[i] - pos : ps[i] - n;
            if (Hseek(aid, off, org == 0 ? DF_START : org == 1 ? DF_CURRENT : DF_END) == FAIL) {
                mc_violation(ps[i] < pos ? "seek:backward-failed" : "seek:forward-failed", "%s %s: Hseek(%d,%s) to %d from %d failed (length %d)", cname, phase, (int)off,
                             org == 0 ? "DF_START" : org == 1 ? "DF_CURRENT" : "DF_END", ps[i], pos, n);
                bad = 1;
                break;
            }
            pos = ps[i];
        }
        /* reads reaching beyond the end of a compressed element are refused by the coders' contract: stay inside */
        if (ks[i] > n - pos)
            ks[i] = n - pos;
        if (n - pos == 0)
            continue;
        int want = ks[i] == 0 ? n - pos : ks[i];
        memset(buf, 0xEE, (size_t)want + 8);
        int32 r = Hread(aid, ks[i], buf);
        if (want <= 0) {
            if (r != 0 && r != FAIL) {
                mc_violation("read:count-at-end", "%s %s: Hread(%d) at end returned %d", cname, phase, ks[i], (int)r);
                bad = 1;
            }
            continue;
        }
        if (r != want) {
            mc_violation("read:count", "%s %s: seek to %d (origin %d), Hread(%d) returned %d, expected %d (length %d)", cname, phase, ps[i], (p1 + 2 * p2 + k1 + i) % 3, ks[i], (int)r,
                         want, n);
            bad = 1;
            break;
        }
        if (memcmp(buf, s + pos, (size_t)want) != 0) {
            int j = 0;
            while (buf[j] == s[pos + j])
                j++;
            mc_violation(i > 0 && ps[i] < ps[0] + ks[0] ? "read:content-after-backward-seek" : "read:content",
                         "%s %s: seek %d read %d: byte %d is 0x%02x, written 0x%02x (length %d)", cname, phase, ps[i], want, pos + j, buf[j], s[pos + j], n);
            bad = 1;
            break;
        }
        if (buf[want] != 0xEE) {
            mc_violation("read:overrun", "%s %s: Hread(%d) wrote more than %d bytes", cname, phase, ks[i], want);
            bad = 1;
        }
        pos += want;
    }
    int32 len = -1;
    if (!bad && (Hinquire(aid, NULL, NULL, NULL, &len, NULL, NULL, NULL, NULL) == FAIL || len != n)) {
        mc_violation("inquire:length", "%s %s: Hinquire length %d, written %d", cname, phase, (int)len, n);
        bad = 1;
    }
    if (Hendaccess(aid) == FAIL && !bad) {
        mc_violation("read:endaccess", "%s %s: Hendaccess failed", cname, phase);
        bad = 1;
    }
    return bad;
}

static int
check_sizes(uint16 ref, int n, const char *cname, const char *phase)
{
    int32 csz = -1, osz = -1;
    if (HCPgetdatasize(fid, TAG, ref, &csz, &osz) == FAIL) {
        mc_violation("datasize:failed", "%s %s: HCPgetdatasize failed", cname, phase);
        return 1;
    }
    if (osz != n) {
        mc_violation("datasize:orig", "%s %s: HCPgetdatasize reports uncompressed size %d, stored %d bytes", cname, phase, (int)osz, n);
        return 1;
    }
    if (Hlength(fid, TAG, ref) != n) {
        mc_violation("length", "%s %s: Hlength=%d, written %d", cname, phase, (int)Hlength(fid, TAG, ref), n);
        return 1;
    }
    return 0;
}

/* all read patterns for one written element */
static int
read_patterns(uint16 ref, const uint8 *s, int n, const char *cname, const char *phase, int full)
{
    if (check_read_seq(ref, s, n, 0, 0, -1, 0, phase, cname))
        return 1;
    if (!full)
        return 0;
    /* every 2-call partition; every (p,k) then (p2,k2) for short strings */
    for (int c = 1; c < n && c <= 16; c++)
        if (check_read_seq(ref, s, n, 0, c, c, 0, phase, cname))
            return 1;
    if (n <= 6) {
        for (int p1 = 0; p1 <= n; p1++)
            for (int k1 = 1; k1 <= n - p1 && k1 <= 3; k1++)
                for (int p2 = 0; p2 < n; p2++) {
                    if (check_read_seq(ref, s, n, p1, k1, p2, 1, phase, cname))
                        return 1;
                    mc_count(p2 < p1 + k1 ? "backward_seeks" : "forward_seeks", 1);
                }
    }
    else {
        int ps[6] = {0, 1, n / 2, n - 1, n > 130 ? 129 : n / 3, n > 4097 ? 4096 : n / 4};
        for (int a = 0; a < 6; a++)
            for (int b = 0; b < 6; b++) {
                if (check_read_seq(ref, s, n, ps[a], 2, ps[b], 3, phase, cname))
                    return 1;
                mc_count(ps[b] < ps[a] + 2 ? "backward_seeks" : "forward_seeks", 1);
            }
    }
    return 0;
}

static uint64_t g_strbuf_hash;

static void
coder_case(long idx, void *ctx)
{
    (void)ctx;
    int           ci = (int)(idx % NCODERS);
    long          si = idx / NCODERS;
    const coder_t *c = &CODERS[ci];
    static uint8  s[20000], s2[20000];
    int           n = build_string(&STR[si], s);
    char          sd[96];
    describe_string(&STR[si], sd, sizeof sd);
    int cfg[3] = {0, ci, (int)si};
    mc_set_config(cfg, 3, "coder=%s", c->name);
    mc_set_case("coder %s, input %s (%d bytes)", c->name, sd, n);
    vfs_remove_file(PATH);
    fid = Hopen(PATH, DFACC_CREATE, 16);
    if (fid == FAIL) {
        mc_harness_error("create failed");
        return;
    }
    nextref = 1;
    /* write partitions: single call, every single cut (short) or boundary cuts (long), a few double cuts */
    int cuts[64][2], ncut = 0;
    cuts[ncut][0] = 0, cuts[ncut++][1] = 0;
    if (n <= 13) {
        for (int a = 1; a < n; a++)
            cuts[ncut][0] = a, cuts[ncut++][1] = 0;
        if (mc_is_thorough() || n <= 5)
            for (int a = 1; a < n && ncut < 60; a++)
                for (int b = a + 1; b < n && ncut < 60; b++)
                    cuts[ncut][0] = a, cuts[ncut++][1] = b;
    }
    else {
        int cand[8] = {1, n / 2, n - 1, 127, 128, 129, 4096, 4097};
        for (int a = 0; a < 8; a++)
            if (cand[a] > 0 && cand[a] < n)
                cuts[ncut][0] = cand[a], cuts[ncut++][1] = 0;
        cuts[ncut][0] = 1, cuts[ncut++][1] = n - 1;
    }
    uint16 refs[64];
    for (int w = 0; w < ncut; w++) {
        uint16 ref = nextref++;
        refs[w]    = ref;
        int32 aid  = create_elem(c, ref);
        if (aid == FAIL) {
            mc_violation("create:failed", "HCcreate(%s) failed", c->name);
            return;
        }
        if (n > 0 && write_parts(aid, s, n, cuts[w][0], cuts[w][1])) {
            mc_violation("write:failed", "%s: sequential Hwrite in parts (cuts %d,%d) of %d bytes failed", c->name, cuts[w][0], cuts[w][1], n);
            return;
        }
        if (Hendaccess(aid) == FAIL) {
            mc_violation("write:endaccess", "%s: Hendaccess after writing failed", c->name);
            return;
        }
        if (n == 0)
            continue; /* an element nothing was written to has no data: nothing to read */
        if (read_patterns(ref, s, n, c->name, "same session", w == 0))
            return;
        if (check_sizes(ref, n, c->name, "same session"))
            return;
        mc_count("elements_written", 1);
    }
    /* rewrite in full from offset 0 with a string at least as long */
    if (n > 0 && n < 9000) {
        int n2 = n + (int)(si % 4);
        for (int i = 0; i < n2; i++)
            s2[i] = (uint8)(i < n ? (s[i] == 'a' ? 'b' : 'a') : 'c');
        int32 aid = Hstartaccess(fid, TAG, refs[0], DFACC_RDWR);
        if (aid == FAIL) {
            mc_violation("rewrite:start", "%s: Hstartaccess(RDWR) on the compressed element failed", c->name);
            return;
        }
        if (Hwrite(aid, n2, s2) != n2) {
            mc_violation("rewrite:write", "%s: rewriting the element in full from its start (%d -> %d bytes) failed", c->name, n, n2);
            return;
        }
        if (Hendaccess(aid) == FAIL) {
            mc_violation("rewrite:endaccess", "%s: Hendaccess after rewrite failed", c->name);
            return;
        }
        if (read_patterns(refs[0], s2, n2, c->name, "after rewrite", 0))
            return;
        mc_count("elements_rewritten", 1);
    }
    /* reopen */
    if (Hclose(fid) == FAIL) {
        mc_violation("close:failed", "%s: Hclose failed", c->name);
        return;
    }
    fid = Hopen(PATH, DFACC_READ, 0);
    if (fid == FAIL) {
        mc_violation("reopen:failed", "%s: reopen failed", c->name);
        return;
    }
    if (n > 0)
        for (int w = 1; w < ncut; w++) {
            if (read_patterns(refs[w], s, n, c->name, "after reopen", w == 1))
                return;
            if (check_sizes(refs[w], n, c->name, "after reopen"))
                return;
        }
    /* stored size as the independent reader sees it */
    if (n > 0 && ncut > 1) {
        vfile *vf = vfs_lookup(PATH);
        long   sz;
        uint8 *bytes = vfs_dup_bytes(vf, &sz);
        fc_file fc;
        memset(&fc, 0, sizeof fc);
        if (fc_parse(&fc, bytes, sz) != 0)
            mc_violation("format", "%s: file not well-formed: %s", c->name, fc.err[0]);
        else {
            int32        csz = -1, osz = -1;
            const fc_dd *d = fc_find(&fc, TAG, refs[1]);
            fc_special   sp;
            if (!d || fc_special_info(&fc, d, &sp) != 0 || sp.special != FC_SPECIAL_COMP)
                mc_violation("format:special", "%s: element is not a well-formed compressed special element on disk", c->name);
            else {
                const fc_dd *cd = fc_find(&fc, FC_TAG_COMPRESSED, (uint16)sp.comp_ref);
                HCPgetdatasize(fid, TAG, refs[1], &csz, &osz);
                if (!cd || cd->len != csz)
                    mc_violation("datasize:comp", "%s: HCPgetdatasize reports compressed size %d, the stored compressed element has %d bytes", c->name,
                                 (int)csz, cd ? cd->len : -1);
                if (sp.logical_len != n)
                    mc_violation("format:length", "%s: header records length %ld, written %d", c->name, sp.logical_len, n);
            }
        }
        fc_free(&fc);
        free(bytes);
    }
    Hclose(fid);
    mc_outcome(mc_hash_i(mc_hash(MC_H0, s, (size_t)n), ci));
    if (idx % 997 == 0)
        mc_sample("coder %s, input %s: %d write partitions, read partitions + seek patterns, rewrite, reopen", c->name, sd, ncut);
}

/* ------------------------------------------------------------------ n-bit */
typedef struct {
    int32 nt;
    int   size, sgn;
    const char *name;
} nbtype;
static const nbtype NBT[] = {{DFNT_INT8, 1, 1, "int8"},   {DFNT_UINT8, 1, 0, "uint8"},   {DFNT_INT16, 2, 1, "int16"},
                             {DFNT_UINT16, 2, 0, "uint16"}, {DFNT_INT32, 4, 1, "int32"}, {DFNT_UINT32, 4, 0, "uint32"}};

typedef struct {
    int t, start, len, sign_ext, fill_one;
} nbcase;
static nbcase *NB;
static long    NNB;

static uint32
project(uint32 v, int bits, int start, int len, int sign_ext, int fill_one)
{
    int    lo   = start - len + 1;
    uint32 fm   = (len >= 32 ? 0xffffffffu : ((1u << len) - 1u)) << lo;
    uint32 all  = bits >= 32 ? 0xffffffffu : ((1u << bits) - 1u);
    uint32 r    = v & fm;
    uint32 low  = lo > 0 ? ((1u << lo) - 1u) : 0;
    uint32 high = all & ~(fm | low);
    if (fill_one)
        r |= low;
    if (sign_ext) {
        if ((v >> start) & 1u)
            r |= high;
    }
    else if (fill_one)
        r |= high;
    return r & all;
}

static int
value_family(int bits, int start, int len, uint32 *out, int max, int all16)
{
    int n = 0;
    if (bits == 8) {
        for (int v = 0; v < 256 && n < max; v++)
            out[n++] = (uint32)v;
        return n;
    }
    if (bits == 16 && all16) {
        for (int v = 0; v < 65536 && n < max; v++)
            out[n++] = (uint32)v;
        return n;
    }
    uint32 all = bits >= 32 ? 0xffffffffu : ((1u << bits) - 1u);
    uint32 base[] = {0, all, 0x55555555u & all, 0xAAAAAAAAu & all, 1, all >> 1, (all >> 1) + 1, 0x12345678u & all, 0xFEDCBA98u & all};
    for (unsigned i = 0; i < sizeof base / sizeof base[0] && n < max; i++)
        out[n++] = base[i];
    for (int b = 0; b < bits && n < max; b++) { /* walking one / walking zero */
        out[n++] = 1u << b;
        if (n < max)
            out[n++] = all & ~(1u << b);
    }
    int lo = start - len + 1;
    int edges[] = {start, start + 1, lo, lo - 1};
    for (int e = 0; e < 4 && n < max; e++)
        if (edges[e] >= 0 && edges[e] < bits) {
            out[n++] = (all >> (bits - 1 - edges[e]));
            if (n < max)
                out[n++] = all & ~((1u << edges[e]) - 1u);
        }
    return n;
}

static void
nbit_case(long idx, void *ctx)
{
    (void)ctx;
    nbcase       *c  = &NB[idx];
    const nbtype *t  = &NBT[c->t];
    int           bits = t->size * 8;
    int           cfg[6] = {1, c->t, c->start, c->len, c->sign_ext, c->fill_one};
    mc_set_config(cfg, 6, "nbit %s start=%d len=%d sign_ext=%d fill_one=%d", t->name, c->start, c->len, c->sign_ext, c->fill_one);
    mc_set_case("n-bit %s start_bit=%d bit_len=%d sign_ext=%d fill_one=%d", t->name, c->start, c->len, c->sign_ext, c->fill_one);
    static uint32 vals[70000];
    int           nv = value_family(bits, c->start, c->len, vals, 70000, mc_is_thorough());
    static uint8  raw[70000 * 4], back[70000 * 4 + 16];
    for (int i = 0; i < nv; i++)
        for (int b = 0; b < t->size; b++)
            raw[i * t->size + b] = (uint8)(vals[i] >> (8 * (t->size - 1 - b)));
    vfs_remove_file(PATH);
    fid = Hopen(PATH, DFACC_CREATE, 16);
    if (fid == FAIL)
        return;
    comp_info  ci;
    model_info mi;
    memset(&ci, 0, sizeof ci);
    memset(&mi, 0, sizeof mi);
    ci.nbit.nt        = t->nt;
    ci.nbit.sign_ext  = c->sign_ext;
    ci.nbit.fill_one  = c->fill_one;
    ci.nbit.start_bit = c->start;
    ci.nbit.bit_len   = c->len;
    int32 aid         = HCcreate(fid, TAG, 1, COMP_MODEL_STDIO, &mi, COMP_CODE_NBIT, &ci);
    if (aid == FAIL) {
        mc_violation("nbit:create", "HCcreate(NBIT) failed");
        return;
    }
    /* write in whole-value transfers of varying size */
    static const int wsz[] = {1, 2, 3, 5, 64, 7};
    int              pos = 0, wi = 0;
    while (pos < nv) {
        int k = wsz[wi++ % 6];
        if (k > nv - pos)
            k = nv - pos;
        if (Hwrite(aid, k * t->size, raw + pos * t->size) != k * t->size) {
            mc_violation("nbit:write", "Hwrite of %d values at value %d failed", k, pos);
            return;
        }
        pos += k;
    }
    if (Hendaccess(aid) == FAIL) {
        mc_violation("nbit:endaccess", "Hendaccess failed");
        return;
    }
    for (int phase = 0; phase < 2; phase++) {
        if (phase == 1) {
            if (Hclose(fid) == FAIL || (fid = Hopen(PATH, DFACC_READ, 0)) == FAIL) {
                mc_violation("nbit:reopen", "close/reopen failed");
                return;
            }
        }
        /* read patterns: one call; growing sizes 1,2,3,5,...; shrinking; with a seek to a value boundary */
        static const int pats[4][6] = {{0, 0, 0, 0, 0, 0}, {1, 2, 3, 5, 64, 1000}, {64, 5, 3, 2, 1, 1000}, {1, 19, 2, 100, 3, 1000}};
        for (int p = 0; p < 4; p++) {
            aid = Hstartread(fid, TAG, 1);
            if (aid == FAIL) {
                mc_violation("nbit:startread", "Hstartread failed");
                return;
            }
            int rp = 0, ri = 0;
            memset(back, 0xEE, sizeof back);
            while (rp < nv) {
                int k = pats[p][ri % 6];
                ri++;
                if (k == 0 || k > nv - rp)
                    k = nv - rp;
                int32 r = Hread(aid, k * t->size, back + rp * t->size);
                if (r != k * t->size) {
                    mc_violation(p == 0 ? "nbit:read-count" : "nbit:read-count-partitioned", "pattern %d: Hread of %d values at value %d returned %d", p, k, rp,
                                 (int)r);
                    Hendaccess(aid);
                    return;
                }
                rp += k;
            }
            for (int i = 0; i < nv; i++) {
                uint32 got = 0;
                for (int b = 0; b < t->size; b++)
                    got = (got << 8) | back[i * t->size + b];
                uint32 exp = project(vals[i], bits, c->start, c->len, c->sign_ext, c->fill_one);
                if (got != exp) {
                    mc_violation(p == 0 ? "nbit:value" : "nbit:value-partitioned",
                                 "%s read pattern %d: value #%d written 0x%x reads 0x%x, documented projection 0x%x", phase ? "after reopen" : "same session", p, i,
                                 vals[i], got, exp);
                    Hendaccess(aid);
                    return;
                }
            }
            /* seek to a value boundary (forward and backward) and read 2 values */
            int targets[3] = {nv / 2, 1, nv - 2};
            for (int q = 0; q < 3; q++) {
                int at = targets[q];
                if (at < 0 || at + 2 > nv)
                    continue;
                if (Hseek(aid, at * t->size, DF_START) == FAIL) {
                    mc_violation("nbit:seek", "Hseek to value %d failed", at);
                    break;
                }
                uint8 two[8];
                if (Hread(aid, 2 * t->size, two) != 2 * t->size) {
                    mc_violation("nbit:read-after-seek", "Hread of 2 values after seek to value %d failed", at);
                    break;
                }
                for (int i = 0; i < 2; i++) {
                    uint32 got = 0;
                    for (int b = 0; b < t->size; b++)
                        got = (got << 8) | two[i * t->size + b];
                    uint32 exp = project(vals[at + i], bits, c->start, c->len, c->sign_ext, c->fill_one);
                    if (got != exp) {
                        mc_violation("nbit:value-after-seek", "after seek to value %d: value #%d reads 0x%x, projection 0x%x", at, at + i, got, exp);
                        q = 3;
                        break;
                    }
                }
            }
            Hendaccess(aid);
        }
    }
    Hclose(fid);
    mc_count("nbit_values_checked", nv);
    mc_outcome(mc_hash(MC_H0, c, sizeof *c));
    if (idx % 211 == 0)
        mc_sample("n-bit %s start_bit=%d bit_len=%d sign_ext=%d fill_one=%d: %d values, 4 read partitions x 2 sessions + 3 seeks", t->name, c->start, c->len,
                  c->sign_ext, c->fill_one, nv);
}

/* ------------------------------------------------------------------ bit I/O */
static const int WIDTHS[] = {1, 2, 7, 8, 9, 15, 16, 17, 31, 32};
#define NW 10

static uint32
pattern(int count, int salt)
{
    uint32 x = 0xA5C3E187u * (uint32)(salt + 1) ^ 0x5555AAAAu;
    return count >= 32 ? x : (x & ((1u << count) - 1u));
}

static int
getbits(const uint8 *bv, long pos, int count, uint32 *out)
{
    uint32 v = 0;
    for (int i = 0; i < count; i++)
        v = (v << 1) | bv[pos + i];
    *out = v;
    return 0;
}

static void
bit_case(long idx, void *ctx)
{
    (void)ctx;
    /* idx encodes up to 4 widths (base NW+1, 0 = none) */
    int  w[4], nw = 0;
    long x = idx;
    for (int i = 0; i < 4; i++) {
        int d = (int)(x % (NW + 1));
        x /= NW + 1;
        if (d == 0)
            break;
        w[nw++] = WIDTHS[d - 1];
    }
    /* skip encodings with a 0 in the middle (duplicates) */
    {
        long y = idx;
        int  seen0 = 0;
        for (int i = 0; i < 4; i++) {
            int d = (int)(y % (NW + 1));
            y /= NW + 1;
            if (d == 0)
                seen0 = 1;
            else if (seen0)
                return;
        }
    }
    if (nw == 0)
        return;
    int cfg[2] = {2, (int)idx};
    mc_set_config(cfg, 2, "bitio");
    mc_set_case("bit widths %d,%d,%d,%d", w[0], nw > 1 ? w[1] : 0, nw > 2 ? w[2] : 0, nw > 3 ? w[3] : 0);
    static uint8 bv[256];
    long         total = 0;
    vfs_remove_file(PATH);
    fid = Hopen(PATH, DFACC_CREATE, 16);
    if (fid == FAIL)
        return;
    long plan = 0;
    for (int i = 0; i < nw; i++)
        plan += w[i];
    /* either reserve the exact byte length, or start empty and ask for appendable access */
    int   use_append = (idx / 3) % 2;
    int32 bid        = Hstartbitwrite(fid, TAG, 1, use_append ? 0 : (int32)((plan + 7) / 8));
    if (bid == FAIL) {
        mc_violation("bit:startwrite", "Hstartbitwrite failed");
        return;
    }
    if (use_append && Hbitappendable(bid) == FAIL) {
        mc_violation("bit:appendable", "Hbitappendable failed");
        return;
    }
    for (int i = 0; i < nw; i++) {
        uint32 d = pattern(w[i], i);
        if (Hbitwrite(bid, w[i], d) != w[i]) {
            mc_violation("bit:write", "Hbitwrite(count %d) returned a different count", w[i]);
            return;
        }
        for (int b = w[i] - 1; b >= 0; b--)
            bv[total++] = (uint8)((d >> b) & 1u);
    }
    int flushbit = (int)(idx % 3) - 1; /* -1, 0, 1 */
    if (Hendbitaccess(bid, flushbit) == FAIL) {
        mc_violation("bit:endwrite", "Hendbitaccess failed");
        return;
    }
    long padded = (total + 7) / 8 * 8;
    for (long i = total; i < padded; i++)
        bv[i] = 2; /* flush-dependent */
    if (Hlength(fid, TAG, 1) != padded / 8) {
        mc_violation("bit:length", "element length %d bytes, %ld bits were written", (int)Hlength(fid, TAG, 1), total);
        return;
    }
    for (int phase = 0; phase < 2; phase++) {
        if (phase == 1) {
            if (Hclose(fid) == FAIL || (fid = Hopen(PATH, DFACC_READ, 0)) == FAIL) {
                mc_violation("bit:reopen", "reopen failed");
                return;
            }
        }
        /* same partition */
        bid = Hstartbitread(fid, TAG, 1);
        if (bid == FAIL) {
            mc_violation("bit:startread", "Hstartbitread failed");
            return;
        }
        long pos = 0;
        for (int i = 0; i < nw; i++) {
            uint32 got = 0, exp;
            if (Hbitread(bid, w[i], &got) != w[i]) {
                mc_violation("bit:read-count", "Hbitread(%d) at bit %ld returned a different count", w[i], pos);
                return;
            }
            getbits(bv, pos, w[i], &exp);
            if (got != exp) {
                mc_violation("bit:value", "%s: field %d (width %d at bit %ld) reads 0x%x, written 0x%x", phase ? "after reopen" : "same session", i, w[i], pos,
                             got, exp);
                return;
            }
            pos += w[i];
        }
        Hendbitaccess(bid, 0);
        /* every re-partition of the total into widths from the set (depth-first, <= 4 reads) */
        bid = Hstartbitread(fid, TAG, 1);
        for (int a = 0; a < NW; a++)
            for (int b = 0; b < NW; b++) {
                int ra = WIDTHS[a], rb = WIDTHS[b];
                if (ra + rb > total)
                    continue;
                /* seek to every start position that leaves room */
                for (long s = 0; s + ra + rb <= total; s += (total > 24 ? 5 : 1)) {
                    if (Hbitseek(bid, (int32)(s / 8), (int)(s % 8)) == FAIL) {
                        mc_violation("bit:seek", "Hbitseek(%ld,%ld) failed", s / 8, s % 8);
                        return;
                    }
                    uint32 g1 = 0, g2 = 0, e1, e2;
                    if (Hbitread(bid, ra, &g1) != ra || Hbitread(bid, rb, &g2) != rb) {
                        mc_violation("bit:read-count", "Hbitread(%d)+Hbitread(%d) after seek to bit %ld returned different counts", ra, rb, s);
                        return;
                    }
                    getbits(bv, s, ra, &e1);
                    getbits(bv, s + ra, rb, &e2);
                    if (g1 != e1 || g2 != e2) {
                        mc_violation("bit:value-repartition", "after seek to bit %ld: reads of widths %d,%d give 0x%x,0x%x, expected 0x%x,0x%x (total %ld bits)",
                                     s, ra, rb, g1, g2, e1, e2, total);
                        return;
                    }
                    mc_count("bit_seek_reads", 1);
                }
            }
        Hendbitaccess(bid, 0);
    }
    Hclose(fid);
    mc_outcome(mc_hash_i(MC_H0, idx));
    if (idx % 1201 == 7)
        mc_sample("bit fields written with widths %d,%d,%d,%d (flush %d); read back in the same and in every 2-width re-partition after bit seeks", w[0],
                  nw > 1 ? w[1] : 0, nw > 2 ? w[2] : 0, nw > 3 ? w[3] : 0, flushbit);
}


/* reading and writing through ONE write-mode bit element (what the n-bit coder does when a data set is read or
   partly rewritten through the id that wrote it): write every field, then - without ending the access - seek to
   every field and read it (write->read switch, mostly with a partly filled byte pending), overwrite one field in
   place and read the following one without a seek (read->write and write->read switches back to back), and
   finally check the whole element through a fresh read access */
static void
bitmix_case(long idx, void *ctx)
{
    (void)ctx;
    int  w[4], nw = 0;
    long x = idx;
    for (int i = 0; i < 4; i++) {
        int d = (int)(x % (NW + 1));
        x /= NW + 1;
        if (d == 0)
            break;
        w[nw++] = WIDTHS[d - 1];
    }
    {
        long y = idx;
        int  seen0 = 0;
        for (int i = 0; i < 4; i++) {
            int d = (int)(y % (NW + 1));
            y /= NW + 1;
            if (d == 0)
                seen0 = 1;
            else if (seen0)
                return;
        }
    }
    if (nw < 2)
        return;
    int cfg[2] = {4, (int)idx};
    mc_set_config(cfg, 2, "bitmix");
    mc_set_case("bit widths %d,%d,%d,%d read back through the writing access", w[0], w[1], nw > 2 ? w[2] : 0, nw > 3 ? w[3] : 0);
    static uint8 bv[256];
    long         total = 0, start[5];
    vfs_remove_file(PATH);
    fid = Hopen(PATH, DFACC_CREATE, 16);
    if (fid == FAIL)
        return;
    long plan = 0;
    for (int i = 0; i < nw; i++)
        plan += w[i];
    int32 bid = Hstartbitwrite(fid, TAG, 1, (int32)((plan + 7) / 8));
    if (bid == FAIL) {
        mc_violation("bitmix:startwrite", "Hstartbitwrite failed");
        return;
    }
    for (int i = 0; i < nw; i++) {
        uint32 d = pattern(w[i], i);
        start[i] = total;
        if (Hbitwrite(bid, w[i], d) != w[i]) {
            mc_violation("bitmix:write", "Hbitwrite(count %d) returned a different count", w[i]);
            return;
        }
        for (int b = w[i] - 1; b >= 0; b--)
            bv[total++] = (uint8)((d >> b) & 1u);
    }
    start[nw] = total;
    /* (a) seek + read of every field, last to first, through the writing access; the last field may share its final
       byte with bits never written, so only fields that end on or before the last whole byte boundary... are all
       readable: every field lies inside the reserved length */
    for (int i = nw - 1; i >= 0; i--) {
        uint32 got = 0, exp;
        if (Hbitseek(bid, (int32)(start[i] / 8), (int)(start[i] % 8)) == FAIL) {
            mc_violation("bitmix:seek", "Hbitseek(%ld,%ld) on the writing access failed", start[i] / 8, start[i] % 8);
            return;
        }
        if (start[i] + w[i] > total / 8 * 8 && total % 8)
            continue; /* reaches into the byte that is still being assembled */
        if (Hbitread(bid, w[i], &got) != w[i]) {
            mc_violation("bitmix:read-count", "Hbitread(%d) at bit %ld through the writing access returned a different count", w[i], start[i]);
            return;
        }
        getbits(bv, start[i], w[i], &exp);
        if (got != exp) {
            mc_violation("bitmix:value", "field %d (width %d at bit %ld) read through the writing access gives 0x%x, written 0x%x", i, w[i], start[i], got, exp);
            return;
        }
        mc_count("bitmix_reads", 1);
    }
    /* (b) overwrite field j in place, then read field j+1 directly behind it */
    int j = (int)(idx % (nw - 1));
    {
        uint32 d = pattern(w[j], j + 7) ^ 1u;
        d &= w[j] == 32 ? 0xffffffffu : ((1u << w[j]) - 1);
        if (Hbitseek(bid, (int32)(start[j] / 8), (int)(start[j] % 8)) == FAIL || Hbitwrite(bid, w[j], d) != w[j]) {
            mc_violation("bitmix:rewrite", "seek + Hbitwrite(%d) at bit %ld failed", w[j], start[j]);
            return;
        }
        for (int b = w[j] - 1, q = 0; b >= 0; b--, q++)
            bv[start[j] + q] = (uint8)((d >> b) & 1u);
        if (!(start[j + 1] + w[j + 1] > total / 8 * 8 && total % 8)) {
            uint32 got = 0, exp;
            if (Hbitread(bid, w[j + 1], &got) != w[j + 1]) {
                mc_violation("bitmix:read-count", "Hbitread(%d) directly after rewriting the field in front of it returned a different count", w[j + 1]);
                return;
            }
            getbits(bv, start[j + 1], w[j + 1], &exp);
            if (got != exp) {
                mc_violation("bitmix:value-after-write", "field %d (width %d at bit %ld) read directly after field %d was rewritten gives 0x%x, expected 0x%x", j + 1,
                             w[j + 1], start[j + 1], j, got, exp);
                return;
            }
            mc_count("bitmix_reads", 1);
        }
    }
    if (Hendbitaccess(bid, 0) == FAIL) {
        mc_violation("bitmix:end", "Hendbitaccess failed");
        return;
    }
    /* (c) the element as a whole */
    bid = Hstartbitread(fid, TAG, 1);
    for (int i = 0; i < nw && bid != FAIL; i++) {
        uint32 got = 0, exp;
        if (Hbitread(bid, w[i], &got) != w[i]) {
            mc_violation("bitmix:read-count", "final Hbitread(%d) at bit %ld returned a different count", w[i], start[i]);
            break;
        }
        getbits(bv, start[i], w[i], &exp);
        if (got != exp) {
            mc_violation("bitmix:final-value", "after the mixed session field %d (width %d at bit %ld) reads 0x%x, expected 0x%x", i, w[i], start[i], got, exp);
            break;
        }
    }
    if (bid != FAIL)
        Hendbitaccess(bid, 0);
    Hclose(fid);
    mc_outcome(mc_hash_i(mc_hash_i(MC_H0, 4), idx));
}


/* large bit elements: the bit layer buffers 4096 bytes at a time; seek/read exactly around the block boundaries */
static void
bigbit_case(long idx, void *ctx)
{
    (void)ctx;
    static const int cyc[6][4] = {{13, 7, 32, 1}, {8, 8, 8, 8}, {31, 17, 9, 2}, {32, 32, 32, 32}, {1, 2, 7, 15}, {16, 9, 23, 5}};
    const int *w = cyc[idx % 6];
    int        variant = (int)(idx / 6); /* 0 written once, 1 rewritten in the same session, 2 rewritten after reopening */
    int cfg[2] = {3, (int)idx};
    mc_set_config(cfg, 2, "bigbit");
    mc_set_case("large bit element, width cycle %d,%d,%d,%d%s", w[0], w[1], w[2], w[3], variant == 0 ? "" : variant == 1 ? ", written a second time with other content" : ", written a second time with other content after close/reopen");
    long          nbits = 0, target = 9000L * 8;
    static uint8 *bv;
    if (!bv)
        bv = malloc(80000);
    vfs_remove_file(PATH);
    fid = Hopen(PATH, DFACC_CREATE, 16);
    if (fid == FAIL)
        return;
    int32 bid = Hstartbitwrite(fid, TAG, 1, 0);
    if (bid == FAIL || Hbitappendable(bid) == FAIL) {
        mc_violation("bigbit:start", "Hstartbitwrite/Hbitappendable failed");
        return;
    }
    for (int i = 0; nbits < target; i++) {
        int    c = w[i % 4];
        uint32 d = pattern(c, i);
        if (Hbitwrite(bid, c, d) != c) {
            mc_violation("bigbit:write", "Hbitwrite(count %d) at bit %ld failed", c, nbits);
            return;
        }
        for (int b = c - 1; b >= 0; b--)
            bv[nbits++] = (uint8)((d >> b) & 1u);
    }
    if (Hendbitaccess(bid, 0) == FAIL) {
        mc_violation("bigbit:end", "Hendbitaccess failed");
        return;
    }
    if (variant) {
        /* the whole element is written again with other content (same widths, so the same length), in the same session or
           after the file has been closed and opened again: existing data lies behind every buffer block that is flushed */
        if (variant == 2 && (Hclose(fid) == FAIL || (fid = Hopen(PATH, DFACC_RDWR, 0)) == FAIL)) {
            mc_violation("bigbit:reopen", "reopen for update failed");
            return;
        }
        bid = Hstartbitwrite(fid, TAG, 1, 0);
        if (bid == FAIL) {
            mc_violation("bigbit:start", "Hstartbitwrite on the existing element failed");
            return;
        }
        long total = nbits;
        nbits      = 0;
        for (int i = 0; nbits < total; i++) {
            int    c = w[i % 4];
            uint32 d = pattern(c, i + 7777);
            if (Hbitwrite(bid, c, d) != c) {
                mc_violation("bigbit:write", "rewriting: Hbitwrite(count %d) at bit %ld failed", c, nbits);
                return;
            }
            for (int b = c - 1; b >= 0; b--)
                bv[nbits++] = (uint8)((d >> b) & 1u);
        }
        if (Hendbitaccess(bid, 0) == FAIL) {
            mc_violation("bigbit:end", "Hendbitaccess after the rewrite failed");
            return;
        }
    }
    for (int phase = 0; phase < 2; phase++) {
        if (phase == 1 && (Hclose(fid) == FAIL || (fid = Hopen(PATH, DFACC_READ, 0)) == FAIL)) {
            mc_violation("bigbit:reopen", "reopen failed");
            return;
        }
        /* sequential read with another width cycle */
        bid = Hstartbitread(fid, TAG, 1);
        long pos = 0;
        static const int rw[5] = {5, 32, 11, 1, 24};
        for (int i = 0; pos + 32 <= nbits; i++) {
            int    c = rw[i % 5];
            uint32 got = 0, exp;
            if (Hbitread(bid, c, &got) != c) {
                mc_violation("bigbit:read-count", "sequential Hbitread(%d) at bit %ld failed", c, pos);
                return;
            }
            getbits(bv, pos, c, &exp);
            if (got != exp) {
                mc_violation("bigbit:value-sequential", "sequential read: %d bits at bit %ld give 0x%x, written 0x%x", c, pos, got, exp);
                return;
            }
            pos += c;
        }
        Hendbitaccess(bid, 0);
        /* seeks around every buffer-block boundary, fresh handle per seek (first access) and chained */
        for (int fresh = 0; fresh < 2; fresh++) {
            bid = fresh ? FAIL : Hstartbitread(fid, TAG, 1);
            for (long blk = 4096; blk <= 8192; blk += 4096)
                for (long s = blk * 8 - 34; s <= blk * 8 + 34; s++) {
                    static const int widths[4] = {1, 7, 13, 32};
                    for (int k = 0; k < 4; k++) {
                        if (fresh)
                            bid = Hstartbitread(fid, TAG, 1);
                        if (Hbitseek(bid, (int32)(s / 8), (int)(s % 8)) == FAIL) {
                            mc_violation("bigbit:seek", "Hbitseek(%ld,%ld) failed", s / 8, s % 8);
                            return;
                        }
                        uint32 got = 0, exp;
                        if (Hbitread(bid, widths[k], &got) != widths[k]) {
                            mc_violation("bigbit:read-count", "Hbitread(%d) after seek to bit %ld failed", widths[k], s);
                            return;
                        }
                        getbits(bv, s, widths[k], &exp);
                        if (got != exp) {
                            mc_violation("bigbit:value-after-seek", "%s handle: %d bits at bit %ld (byte %ld bit %ld) read 0x%x, written 0x%x",
                                         fresh ? "fresh" : "reused", widths[k], s, s / 8, s % 8, got, exp);
                            return;
                        }
                        if (fresh)
                            Hendbitaccess(bid, 0);
                        mc_count("bigbit_boundary_reads", 1);
                    }
                }
            if (!fresh)
                Hendbitaccess(bid, 0);
        }
    }
    Hclose(fid);
    mc_outcome(mc_hash_i(MC_H0, 777000 + idx));
    if (!variant)
        mc_sample("large bit element (%ld bits, width cycle %d,%d,%d,%d): sequential re-partitioned read + bit seeks at every offset within 34 bits of the 4096/8192-byte buffer boundaries", nbits, w[0], w[1], w[2], w[3]);
}

/* long coded elements: seeks whose distance from the decoder's position is an exact multiple of its skip buffer (and one more,
   one fewer), forward from every earlier position and backward (restart from the beginning) */
static void
bigseek_case(long idx, void *ctx)
{
    (void)ctx;
    const coder_t *c = &CODERS[idx % NCODERS];
    int cfg[2] = {5, (int)idx};
    mc_set_config(cfg, 2, "bigseek coder=%s", c->name);
    mc_set_case("coder %s, 70000-byte element: every ordered pair of seek targets around multiples of 4096 / 16384, 16 bytes read after each seek", c->name);
    static uint8 v[70000];
    uint32       x = 12345u + (uint32)idx;
    for (int i = 0; i < 70000; i++) {
        x = x * 1103515245u + 12345u;
        v[i] = (i / 37) % 3 == 0 ? (uint8)(i / 37) : (uint8)(x >> 24); /* runs and noise */
    }
    vfs_remove_file(PATH);
    fid = Hopen(PATH, DFACC_CREATE, 16);
    int32 aid = fid == FAIL ? FAIL : create_elem(c, 1);
    if (aid == FAIL || Hwrite(aid, 70000, v) != 70000 || Hendaccess(aid) == FAIL || Hclose(fid) == FAIL) {
        mc_violation("bigseek:write", "writing the 70000-byte %s element failed", c->name);
        return;
    }
    fid = Hopen(PATH, DFACC_READ, 0);
    static const int32 T[] = {0, 1, 4095, 4096, 4097, 8192, 16383, 16384, 16385, 20480, 32767, 32768, 32769, 49152, 65536, 69984};
    int nt = (int)(sizeof T / sizeof T[0]);
    for (int a = 0; a < nt; a++)
        for (int b = 0; b < nt; b++) {
            uint8 got[16];
            aid = Hstartread(fid, TAG, 1);
            int ok = aid != FAIL;
            for (int q = 0; q < 2 && ok; q++) {
                int32 t = q ? T[b] : T[a];
                memset(got, 0xEE, sizeof got);
                if (Hseek(aid, t, DF_START) == FAIL || Hread(aid, 16, got) != 16) {
                    mc_violation("bigseek:failed", "%s: Hseek(%d)/Hread(16) fails (previous position %d)", c->name, (int)t, q ? (int)T[a] + 16 : 0);
                    ok = 0;
                }
                else if (memcmp(got, v + t, 16)) {
                    mc_violation("bigseek:content", "%s: after Hseek(%d) from position %d the 16 bytes read are not those stored there", c->name, (int)t, q ? (int)T[a] + 16 : 0);
                    ok = 0;
                }
            }
            if (aid != FAIL)
                Hendaccess(aid);
            mc_count("bigseek_reads", 2);
            if (!ok)
                goto out;
        }
out:
    Hclose(fid);
    fid = FAIL;
    mc_outcome(mc_hash_i(MC_H0, 888000 + idx));
}

/* ------------------------------------------------------------------ main */
static void
build_strings(int thorough)
{
    int L = thorough ? 12 : 10;
    add_str(0, 0, 0, 0);
    for (int len = 1; len <= L; len++)
        for (int b = 0; b < (1 << len); b++)
            add_str(0, len, b, 0);
    int LT = thorough ? 6 : 4;
    for (int len = 2; len <= LT; len++) {
        int n = 1;
        for (int i = 0; i < len; i++)
            n *= 3;
        for (int v = 0; v < n; v++) {
            /* only strings that actually use 'c' (others are covered by the binary family) */
            int t = v, hasc = 0;
            for (int i = 0; i < len; i++, t /= 3)
                if (t % 3 == 2)
                    hasc = 1;
            if (hasc)
                add_str(1, len, v, 0);
        }
    }
    static const int RQ[] = {1, 2, 127, 128, 129, 130, 131, 257};
    static const int RT[] = {1, 2, 3, 126, 127, 128, 129, 130, 131, 255, 256, 257};
    const int       *R = thorough ? RT : RQ;
    int              nr = thorough ? 12 : 8;
    for (int i = 0; i < nr; i++)
        for (int j = 0; j < nr; j++)
            for (int k = 0; k < nr; k++)
                if (thorough || i == k || j == 1 || i == 0)
                    add_str(2, R[i], R[j], R[k]);
    static const int M[] = {63, 64, 65, 127, 128, 129};
    for (int i = 0; i < 6; i++)
        for (int j = 0; j < 3; j++)
            add_str(3, M[i], j == 0 ? 1 : j == 1 ? 3 : 130, 0);
    static const int B[] = {1, 127, 128, 129, 4095, 4096, 4097, 8191, 8193};
    for (int i = 0; i < 9; i++)
        add_str(4, B[i], i, 0);
}

static void
build_nbit(int thorough)
{
    long cap = 0;
    for (int t = 0; t < 6; t++) {
        int bits = NBT[t].size * 8;
        for (int start = 0; start < bits; start++)
            for (int len = 1; len <= start + 1; len++) {
                if (!thorough && bits == 32 && !(len == 1 || len == start + 1 || len % 7 == 0 || start % 8 == 7 || start % 8 == 0))
                    continue;
                if (!thorough && bits == 16 && !(len <= 3 || len >= start || start % 4 == 3 || start % 8 == 0))
                    continue;
                for (int se = 0; se < 2; se++)
                    for (int fo = 0; fo < 2; fo++) {
                        if (NNB == cap) {
                            cap = cap ? cap * 2 : 1024;
                            NB  = realloc(NB, (size_t)cap * sizeof *NB);
                        }
                        NB[NNB++] = (nbcase){t, start, len, se, fo};
                    }
            }
    }
}

int
C05_main(const char *tier, const char *replay)
{
    int thorough = strcmp(tier, "thorough") == 0;
    CODERS  = thorough ? CODERS_T : CODERS_Q;
    NCODERS = thorough ? (int)(sizeof CODERS_T / sizeof CODERS_T[0]) : (int)(sizeof CODERS_Q / sizeof CODERS_Q[0]);
    build_strings(thorough);
    build_nbit(thorough);
    (void)g_strbuf_hash;
    if (replay) {
        int   cfg[32], ncfg, nops;
        mc_op ops[4];
        if (mc_load_replay(replay, cfg, &ncfg, ops, &nops, 4) || ncfg < 2)
            return 2;
        /* replay files record the tier-dependent index space: use the thorough tables if the indices need them */
        if (cfg[0] == 0) {
            if (cfg[1] >= NCODERS || cfg[2] >= NSTR) {
                CODERS  = CODERS_T;
                NCODERS = (int)(sizeof CODERS_T / sizeof CODERS_T[0]);
                NSTR    = 0;
                build_strings(1);
            }
            printf("replay C05 coder case: coder %s string #%d\n", CODERS[cfg[1]].name, cfg[2]);
            coder_case((long)cfg[2] * NCODERS + cfg[1], NULL);
        }
        else if (cfg[0] == 1) {
            static nbcase one;
            one = (nbcase){cfg[1], cfg[2], cfg[3], cfg[4], cfg[5]};
            NB  = &one;
            printf("replay C05 n-bit case\n");
            nbit_case(0, NULL);
        }
        else if (cfg[0] == 5) {
            bigseek_case(cfg[1], NULL);
            return 0;
        }
        else if (cfg[0] == 3) {
            printf("replay C05 large bit element case %d\n", cfg[1]);
            bigbit_case(cfg[1], NULL);
        }
        else if (cfg[0] == 4) {
            printf("replay C05 mixed read/write bit case %d\n", cfg[1]);
            bitmix_case(cfg[1], NULL);
        }
        else {
            printf("replay C05 bit-I/O case %d\n", cfg[1]);
            bit_case(cfg[1], NULL);
        }
        return 0;
    }
    mc_round_begin("byte coders: (coder x input string) x write partitions x read/seek patterns");
    mc_foreach(NSTR * NCODERS, coder_case, NULL, 1, 120);
    mc_round_end();
    mc_round_begin("n-bit: every (type,start_bit,bit_len,sign_ext,fill_one) x value family x read partitions");
    mc_foreach(NNB, nbit_case, NULL, 1, 120);
    mc_round_end();
    long nbit = 1;
    int  nfields = thorough ? 4 : 3;
    for (int i = 0; i < nfields; i++)
        nbit *= NW + 1;
    mc_round_begin("bit I/O: every sequence of field widths x re-partition x bit seek");
    mc_foreach(nbit, bit_case, NULL, 1, 120);
    mc_round_end();
    mc_round_begin("bit I/O: reads and in-place rewrites through the writing access");
    mc_foreach(nbit, bitmix_case, NULL, 1, 120);
    mc_round_end();
    mc_round_begin("bit I/O: large elements, seeks around the 4096-byte buffer boundaries");
    mc_foreach(18, bigbit_case, NULL, 1, 300);
    mc_round_end();
    mc_round_begin("byte coders: long elements, seek distances around multiples of the skip buffers");
    mc_foreach(NCODERS, bigseek_case, NULL, 1, 300);
    mc_round_end();
    mc_count("evaluations", NSTR * NCODERS + NNB + 2 * nbit + 6);
    mc_rule("byte coders %d x %ld input strings (all binary strings up to length %d, ternary strings with a third symbol, run-structured strings around the "
            "RLE limits 127..131/255..257, alternating mixes, pseudo-random blocks around the 4096/8192 coder buffers): each written under every <=2(3)-call "
            "partition, read back whole, under every 2-call partition and seek/read patterns incl. backward seeks, rewritten in full, reopened; reported "
            "sizes compared with the stored element. n-bit: %ld parameter sets x value families (all 2^8 [2^16 thorough] / boundary families) x 4 read "
            "partitions x 2 sessions against the documented projection. bit I/O: all width sequences of <=%d fields from {1,2,7,8,9,15,16,17,31,32}, "
            "every 2-read re-partition after bit seeks; the same sequences read back field by field, one field rewritten in place and the next read, all through the writing access. distinct = distinct (input,coder) / parameter sets / width sequences completed.",
            NCODERS, NSTR, thorough ? 12 : 10, NNB, nfields);
    return 0;
}
