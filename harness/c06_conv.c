/* C06 - number-type conversion is exact, byte-order-correct and mode-independent.
 * Complete enumeration of bit patterns (2^8, 2^16, [2^32 thorough], finite 64-bit lane families) x type x flavour x
 * direction x (count, strides, in-place) against an explicit byte-order model; plus end-to-end checks through
 * Vdata and SD with the raw stored bytes located independently. */
#include "../engine/mc.h"
#include "../engine/vfs.h"
#include "../engine/fmtcheck.h"
#include "hdf.h"
#include "mfhdf.h"
#include <stdio.h>
#include <stdlib.h>
#include <string.h>

typedef struct {
    int32       nt;
    int         size;
    const char *name;
} ty_t;
static const ty_t TY[] = {{DFNT_CHAR8, 1, "char8"},   {DFNT_UCHAR8, 1, "uchar8"}, {DFNT_INT8, 1, "int8"},       {DFNT_UINT8, 1, "uint8"},
                          {DFNT_INT16, 2, "int16"},   {DFNT_UINT16, 2, "uint16"}, {DFNT_INT32, 4, "int32"},     {DFNT_UINT32, 4, "uint32"},
                          {DFNT_FLOAT32, 4, "float32"}, {DFNT_FLOAT64, 8, "float64"}};
#define NTY 10
static const int32  FL[3]     = {0, DFNT_LITEND, DFNT_NATIVE};
static const char  *FLNAME[3] = {"standard", "little-endian", "native"};

/* file representation of the value whose memory image (little-endian host) is m[0..size) */
static void
to_file(const uint8 *m, uint8 *f, int size, int flavour)
{
    if (flavour == 0)
        for (int i = 0; i < size; i++)
            f[i] = m[size - 1 - i]; /* big-endian */
    else
        memcpy(f, m, (size_t)size); /* little-endian == native here */
}

/* value families ----------------------------------------------------------------------------- */
/* kind 0: all patterns of `size` bytes in [lo,hi) (size<=4); kind 1: lane family for 4/8-byte types */
static long
lane_family_count(int size)
{
    /* one free byte lane x 256 values x 4 backgrounds, + two free lanes x 16x16 nibble-spread values, + walking bits + special floats */
    return (long)size * 256 * 4 + (long)size * (size - 1) / 2 * 256 + size * 16 + 64;
}

static void
lane_family_value(int size, long i, uint8 *v)
{
    static const uint8 BG[4] = {0x00, 0xFF, 0xA5, 0x5A};
    long               n1    = (long)size * 256 * 4;
    if (i < n1) {
        int lane = (int)(i / 1024), val = (int)(i % 256), bg = (int)((i / 256) % 4);
        memset(v, BG[bg], (size_t)size);
        v[lane] = (uint8)val;
        return;
    }
    i -= n1;
    long n2 = (long)size * (size - 1) / 2 * 256;
    if (i < n2) {
        long pair = i / 256;
        int  a = 0, b = 1;
        for (long p = 0; p < pair; p++) {
            b++;
            if (b >= size) {
                a++;
                b = a + 1;
            }
        }
        memset(v, 0, (size_t)size);
        v[a] = (uint8)(0x11 * (i % 16) + 1);
        v[b] = (uint8)(0x0F + 0x10 * ((i / 16) % 16));
        return;
    }
    i -= n2;
    long n3 = size * 16;
    if (i < n3) {
        int bit = (int)(i / 2), inv = (int)(i % 2);
        memset(v, inv ? 0xFF : 0, (size_t)size);
        v[bit / 8] ^= (uint8)(1u << (bit % 8));
        return;
    }
    i -= n3;
    /* exponent boundaries / NaN payloads / denormals with single-bit mantissas (as raw patterns) */
    memset(v, 0, (size_t)size);
    int      top = size - 1;
    unsigned k   = (unsigned)i;
    v[top]       = (k & 1) ? 0xFF : 0x7F;      /* sign + exponent high bits */
    v[top - 1]   = (k & 2) ? 0xF0 : ((k & 4) ? 0x80 : 0x00);
    v[(k >> 3) % (unsigned)(size - 1)] |= (uint8)(1u << ((k >> 3) % 8));
}

/* one conversion call with full checking --------------------------------------------------- */
/* pats: n values of `size` bytes (memory images); dir: DFACC_WRITE (mem->file) or DFACC_READ (file->mem) */
static int
convert_check(const ty_t *t, int fl, int dir, const uint8 *pats, int n, int sstride, int dstride, int inplace, const char *what)
{
    int    size = t->size;
    int    ss = sstride ? sstride : size, ds = dstride ? dstride : size;
    size_t slen = (size_t)(n - 1) * (size_t)ss + (size_t)size, dlen = (size_t)(n - 1) * (size_t)ds + (size_t)size;
    uint8 *src = malloc(slen), *dst = inplace ? src : malloc(dlen), *exp = malloc((size_t)n * (size_t)size), *srccopy = malloc(slen);
    memset(src, 0xEE, slen);
    if (!inplace)
        memset(dst, 0xDD, dlen);
    /* source representation and expected destination representation */
    for (int i = 0; i < n; i++) {
        uint8 fb[8];
        to_file(pats + (size_t)i * size, fb, size, fl);
        if (dir == DFACC_WRITE) {
            memcpy(src + (size_t)i * ss, pats + (size_t)i * size, (size_t)size);
            memcpy(exp + (size_t)i * size, fb, (size_t)size);
        }
        else {
            memcpy(src + (size_t)i * ss, fb, (size_t)size);
            memcpy(exp + (size_t)i * size, pats + (size_t)i * size, (size_t)size);
        }
    }
    memcpy(srccopy, src, slen);
    int32 rc  = DFKconvert(src, dst, t->nt | FL[fl], n, (int16)dir, sstride, dstride);
    int   bad = 0;
    char  sig[160];
    if (rc == FAIL) {
        snprintf(sig, sizeof sig, "convert:failed:%s", what);
        mc_violation(sig, "DFKconvert(%s %s, %s, n=%d, strides %d/%d%s) returned FAIL", FLNAME[fl], t->name, dir == DFACC_WRITE ? "write" : "read", n,
                     sstride, dstride, inplace ? ", in place" : "");
        bad = 1;
    }
    for (int i = 0; i < n && !bad; i++)
        if (memcmp(dst + (size_t)i * ds, exp + (size_t)i * size, (size_t)size) != 0) {
            const uint8 *g = dst + (size_t)i * ds, *e = exp + (size_t)i * size;
            snprintf(sig, sizeof sig, "convert:value:%s", what);
            mc_violation(sig, "DFKconvert(%s %s, %s, n=%d, strides %d/%d%s): element %d is %02x%02x%02x%02x.., expected %02x%02x%02x%02x.. (%s)", FLNAME[fl],
                         t->name, dir == DFACC_WRITE ? "mem->file" : "file->mem", n, sstride, dstride, inplace ? ", in place" : "", i, g[0], size > 1 ? g[1] : 0,
                         size > 2 ? g[2] : 0, size > 3 ? g[3] : 0, e[0], size > 1 ? e[1] : 0, size > 2 ? e[2] : 0, size > 3 ? e[3] : 0,
                         fl == 0 ? "big-endian file order" : "little-endian file order");
            bad = 1;
        }
    if (!bad && !inplace) {
        /* bytes between strided destination elements keep the guard pattern; the source is untouched */
        for (int i = 0; i + 1 < n && !bad; i++)
            for (int b = size; b < ds; b++)
                if (dst[(size_t)i * ds + b] != 0xDD) {
                    snprintf(sig, sizeof sig, "convert:gap-clobbered:%s", what);
                    mc_violation(sig, "DFKconvert(%s %s, n=%d, strides %d/%d) wrote into the gap after destination element %d", FLNAME[fl], t->name, n, sstride,
                                 dstride, i);
                    bad = 1;
                    break;
                }
        if (!bad && memcmp(src, srccopy, slen) != 0) {
            snprintf(sig, sizeof sig, "convert:source-modified:%s", what);
            mc_violation(sig, "DFKconvert(%s %s, n=%d, strides %d/%d) modified its source buffer", FLNAME[fl], t->name, n, sstride, dstride);
            bad = 1;
        }
    }
    if (!bad && inplace)
        for (int i = 0; i + 1 < n && !bad; i++)
            for (int b = size; b < ss; b++)
                if (src[(size_t)i * ss + b] != 0xEE) {
                    snprintf(sig, sizeof sig, "convert:gap-clobbered:%s", what);
                    mc_violation(sig, "in-place DFKconvert(%s %s, n=%d, stride %d) wrote into the gap after element %d", FLNAME[fl], t->name, n, sstride, i);
                    bad = 1;
                    break;
                }
    free(srccopy);
    free(exp);
    if (!inplace)
        free(dst);
    free(src);
    return bad;
}

/* exhaustive value blocks ------------------------------------------------------------------- */
typedef struct {
    int  ti, fl, dir;
    int  family; /* 0 = all patterns of the type width in [lo,hi), 1 = lane family */
    long lo, hi;
} blk_t;
static blk_t *BLK;
static long   NBLK;

static void
value_block(long idx, void *ctx)
{
    (void)ctx;
    blk_t      *b = &BLK[idx];
    const ty_t *t = &TY[b->ti];
    int         cfg[6] = {0, b->ti, b->fl, b->dir, b->family, (int)(b->lo >> 16)};
    mc_set_config(cfg, 6, "values %s %s", FLNAME[b->fl], t->name);
    mc_set_case("%s %s %s, %s values [%ld,%ld)", FLNAME[b->fl], t->name, b->dir == DFACC_WRITE ? "mem->file" : "file->mem",
                b->family ? "lane-family" : "all", b->lo, b->hi);
    long   n    = b->hi - b->lo;
    uint8 *pats = malloc((size_t)n * (size_t)t->size);
    for (long i = 0; i < n; i++) {
        if (b->family)
            lane_family_value(t->size, b->lo + i, pats + i * t->size);
        else {
            unsigned long v = (unsigned long)(b->lo + i);
            for (int k = 0; k < t->size; k++)
                pats[i * t->size + k] = (uint8)(v >> (8 * k));
        }
    }
    /* contiguous, strided and in-place must all give the explicit model's answer */
    int s = t->size;
    convert_check(t, b->fl, b->dir, pats, (int)n, 0, 0, 0, "contiguous") || convert_check(t, b->fl, b->dir, pats, (int)n, s, s, 0, "stride-s-s") ||
        convert_check(t, b->fl, b->dir, pats, (int)n, 0, 0, 1, "in-place");
    if (n <= 70000) {
        convert_check(t, b->fl, b->dir, pats, (int)n, s + 1, s, 0, "stride-s+1-s") || convert_check(t, b->fl, b->dir, pats, (int)n, s, s + 3, 0, "stride-s-s+3") ||
            convert_check(t, b->fl, b->dir, pats, (int)n, s, 2 * s, 0, "stride-s-2s") || convert_check(t, b->fl, b->dir, pats, (int)n, 2 * s, 2 * s, 0, "stride-2s-2s") ||
            convert_check(t, b->fl, b->dir, pats, (int)n, 2 * s, s, 0, "stride-2s-s") || convert_check(t, b->fl, b->dir, pats, (int)n, 2 * s, 2 * s, 1, "in-place-strided");
    }
    free(pats);
    mc_count("values_converted", n);
    mc_outcome(mc_hash_i(mc_hash_i(mc_hash_i(MC_H0, b->ti * 16 + b->fl * 2 + (b->dir == DFACC_WRITE)), b->lo), b->family));
}

/* modes: element counts x stride pairs x in-place ------------------------------------------- */
static void
mode_case(long idx, void *ctx)
{
    (void)ctx;
    static const int counts[] = {1, 2, 3, 7, 8, 9, 1025};
    int         ti = (int)(idx % NTY), fl = (int)((idx / NTY) % 3), dir = (idx / (NTY * 3)) % 2 ? DFACC_WRITE : DFACC_READ;
    const ty_t *t  = &TY[ti];
    int         cfg[4] = {1, ti, fl, dir};
    mc_set_config(cfg, 4, "modes %s %s", FLNAME[fl], t->name);
    mc_set_case("%s %s %s: counts x strides x in-place", FLNAME[fl], t->name, dir == DFACC_WRITE ? "mem->file" : "file->mem");
    int s = t->size;
    for (int ci = 0; ci < 7; ci++) {
        int    n = counts[ci];
        uint8 *p = malloc((size_t)n * (size_t)s);
        for (int i = 0; i < n * s; i++)
            p[i] = (uint8)(0x11 + i * 37 + ci);
        const int sp[8][2] = {{0, 0}, {s, s}, {s + 1, s}, {s, s + 3}, {2 * s, 2 * s}, {s, 2 * s}, {2 * s, s}, {3 * s + 1, s + 5}};
        for (int k = 0; k < 8; k++) {
            char what[40];
            snprintf(what, sizeof what, "count-%d-strides-%d-%d", n, sp[k][0] ? sp[k][0] - s : -1, sp[k][1] ? sp[k][1] - s : -1);
            if (convert_check(t, fl, dir, p, n, sp[k][0], sp[k][1], 0, what))
                break;
            if (sp[k][0] == sp[k][1]) {
                snprintf(what, sizeof what, "count-%d-inplace-stride-%d", n, sp[k][0] ? sp[k][0] - s : -1);
                if (convert_check(t, fl, dir, p, n, sp[k][0], sp[k][1], 1, what))
                    break;
            }
            mc_count("mode_calls", 1);
        }
        free(p);
    }
    /* count 0 is documented as an error: whatever is returned, no byte may be touched */
    {
        uint8 a[16], b[16];
        memset(a, 0x77, sizeof a);
        memset(b, 0x88, sizeof b);
        DFKconvert(a, b, t->nt | FL[fl], 0, (int16)dir, 0, 0);
        for (int i = 0; i < 16; i++)
            if (a[i] != 0x77 || b[i] != 0x88) {
                mc_violation("convert:count0-touched", "DFKconvert with count 0 modified a buffer (%s %s)", FLNAME[fl], t->name);
                break;
            }
    }
    mc_outcome(mc_hash_i(MC_H0, 5000 + idx));
}

/* end to end: a flavour stored through Vdata / SD ------------------------------------------- */
#define E2E "/vmem/c06.hdf"
static void
e2e_case(long idx, void *ctx)
{
    (void)ctx;
    int         ti = (int)(idx % NTY), fl = (int)(idx / NTY);
    const ty_t *t  = &TY[ti];
    int         cfg[3] = {2, ti, fl};
    mc_set_config(cfg, 3, "end-to-end %s %s", FLNAME[fl], t->name);
    mc_set_case("%s %s stored through Vdata and SD", FLNAME[fl], t->name);
    int   s = t->size;
    uint8 vals[5 * 8];
    for (int i = 0; i < 5 * s; i++)
        vals[i] = (uint8)(0x81 + 29 * i);
    if (t->nt == DFNT_FLOAT32 || t->nt == DFNT_FLOAT64) /* keep them ordinary finite numbers */
        for (int i = 0; i < 5; i++) {
            vals[i * s + s - 1] = (uint8)(0x3F + i);
            vals[i * s + s - 2] &= 0x7F;
        }
    vfs_remove_file(E2E);
    /* Vdata */
    int32 fid = Hopen(E2E, DFACC_CREATE, 16);
    if (fid == FAIL)
        return;
    Vstart(fid);
    int32 vs = VSattach(fid, -1, "w");
    if (VSfdefine(vs, "f", t->nt | FL[fl], 1) == FAIL || VSsetfields(vs, "f") == FAIL || VSwrite(vs, vals, 5, FULL_INTERLACE) != 5) {
        mc_violation("e2e:vs-write", "writing a %s %s Vdata failed", FLNAME[fl], t->name);
        return;
    }
    int32 vsref = VSQueryref(vs);
    VSdetach(vs);
    Vend(fid);
    Hclose(fid);
    /* SD */
    int32 sd  = SDstart(E2E, DFACC_RDWR);
    int32 dim = 5, st = 0;
    int32 sds = SDcreate(sd, "v", t->nt | FL[fl], 1, &dim);
    if (sds == FAIL || SDwritedata(sds, &st, NULL, &dim, vals) == FAIL) {
        mc_violation("e2e:sd-write", "writing a %s %s SDS failed", FLNAME[fl], t->name);
        return;
    }
    int32 sdoff = -1, sdlen = -1;
    SDendaccess(sds);
    SDend(sd);
    /* raw bytes as an independent reader finds them */
    vfile *vf = vfs_lookup(E2E);
    long   sz;
    uint8 *bytes = vfs_dup_bytes(vf, &sz);
    fc_file fc;
    memset(&fc, 0, sizeof fc);
    uint8 expfile[5 * 8];
    for (int i = 0; i < 5; i++)
        to_file(vals + i * s, expfile + i * s, s, fl);
    if (fc_parse(&fc, bytes, sz) != 0)
        mc_violation("e2e:format", "file not well-formed: %s", fc.err[0]);
    else {
        const fc_dd *d = fc_find(&fc, FC_TAG_VS, (uint16)vsref);
        if (!d || d->len != 5 * s || memcmp(bytes + d->off, expfile, (size_t)(5 * s)) != 0)
            mc_violation("e2e:vs-byte-order", "the stored Vdata bytes of a %s %s field are not in %s order", FLNAME[fl], t->name, fl == 0 ? "big-endian" : "little-endian");
        /* SD data element: tag 702 (DFTAG_SD) */
        int found = 0;
        for (int i = 0; i < fc.ndd; i++)
            if (fc.dd[i].tag == 702 && fc.dd[i].len == 5 * s) {
                found = 1;
                sdoff = fc.dd[i].off, sdlen = fc.dd[i].len;
                if (memcmp(bytes + fc.dd[i].off, expfile, (size_t)(5 * s)) != 0)
                    mc_violation("e2e:sd-byte-order", "the stored SDS bytes of a %s %s dataset are not in %s order", FLNAME[fl], t->name,
                                 fl == 0 ? "big-endian" : "little-endian");
            }
        if (!found)
            mc_violation("e2e:sd-missing", "no scientific-data element of the expected size found");
    }
    (void)sdoff;
    (void)sdlen;
    fc_free(&fc);
    free(bytes);
    /* read back through each API */
    uint8 back[5 * 8];
    fid = Hopen(E2E, DFACC_READ, 0);
    Vstart(fid);
    vs = VSattach(fid, vsref, "r");
    memset(back, 0, sizeof back);
    if (vs == FAIL || VSsetfields(vs, "f") == FAIL || VSread(vs, back, 5, FULL_INTERLACE) != 5 || memcmp(back, vals, (size_t)(5 * s)) != 0)
        mc_violation("e2e:vs-readback", "%s %s values read back through VSread differ from those written", FLNAME[fl], t->name);
    if (vs != FAIL) {
        /* NO_INTERLACE buffer must give the same values for a single field */
        memset(back, 0, sizeof back);
        VSseek(vs, 0);
        if (VSread(vs, back, 5, NO_INTERLACE) != 5 || memcmp(back, vals, (size_t)(5 * s)) != 0)
            mc_violation("e2e:vs-readback-nointerlace", "%s %s values read back with NO_INTERLACE differ", FLNAME[fl], t->name);
        VSdetach(vs);
    }
    Vend(fid);
    Hclose(fid);
    sd  = SDstart(E2E, DFACC_READ);
    sds = SDselect(sd, SDnametoindex(sd, "v"));
    memset(back, 0, sizeof back);
    if (sds == FAIL || SDreaddata(sds, &st, NULL, &dim, back) == FAIL || memcmp(back, vals, (size_t)(5 * s)) != 0)
        mc_violation("e2e:sd-readback", "%s %s values read back through SDreaddata differ from those written", FLNAME[fl], t->name);
    /* strided read (every other element) */
    {
        int32 stride = 2, cnt = 3;
        memset(back, 0, sizeof back);
        if (sds != FAIL && SDreaddata(sds, &st, &stride, &cnt, back) != FAIL) {
            for (int i = 0; i < 3; i++)
                if (memcmp(back + i * s, vals + 2 * i * s, (size_t)s) != 0) {
                    mc_violation("e2e:sd-readback-strided", "%s %s strided SDreaddata returns a wrong value at index %d", FLNAME[fl], t->name, i);
                    break;
                }
        }
    }
    SDend(sd);
    /* the same values as a data set with a dimension scale written by the single-file interface (DFSD) and read by SD:
       data and scale come back as written whatever the storage flavour */
    {
        vfs_remove_file("/vmem/c06b.hdf");
        int32 dd[1] = {5};
        DFSDrestart();
        DFSDclear();
        if (DFSDsetdims(1, dd) == FAIL || DFSDsetNT(t->nt | FL[fl]) == FAIL || DFSDsetdimscale(1, 5, vals) == FAIL || DFSDputdata("/vmem/c06b.hdf", 1, dd, vals) == FAIL)
            mc_violation("e2e:dfsd-write", "writing a %s %s data set with a scale through DFSD failed", FLNAME[fl], t->name);
        else {
            int32 S2 = SDstart("/vmem/c06b.hdf", DFACC_READ), nds = 0, nat = 0, s2 = FAIL;
            SDfileinfo(S2, &nds, &nat);
            for (int i = 0; i < nds && s2 == FAIL; i++) {
                int32 c = SDselect(S2, i);
                if (c != FAIL && !SDiscoordvar(c))
                    s2 = c;
                else if (c != FAIL)
                    SDendaccess(c);
            }
            memset(back, 0, sizeof back);
            if (s2 == FAIL || SDreaddata(s2, &st, NULL, &dim, back) == FAIL || memcmp(back, vals, (size_t)(5 * s)) != 0)
                mc_violation("e2e:dfsd-sd-data", "%s %s values written by DFSD read back differently through SDreaddata", FLNAME[fl], t->name);
            else {
                int32 did = SDgetdimid(s2, 0), dsz = 0, dnt = 0, dna = 0;
                char  dn[H4_MAX_NC_NAME + 1];
                memset(back, 0, sizeof back);
                if (did == FAIL || SDdiminfo(did, dn, &dsz, &dnt, &dna) == FAIL || dnt == 0 || SDgetdimscale(did, back) == FAIL)
                    mc_violation("e2e:dfsd-sd-scale-missing", "the %s %s dimension scale written by DFSD is not visible through SD", FLNAME[fl], t->name);
                else if (memcmp(back, vals, (size_t)(5 * s)) != 0)
                    mc_violation("e2e:dfsd-sd-scale", "%s %s scale values written by DFSD read back differently through SDgetdimscale (scale type reported: %d)", FLNAME[fl],
                                 t->name, (int)dnt);
            }
            if (S2 != FAIL)
                SDend(S2);
        }
    }
    mc_outcome(mc_hash_i(MC_H0, 9000 + idx));
    if (idx % 7 == 0)
        mc_sample("end-to-end: 5 values of %s %s through VSwrite/VSread (both interlaces) and SDwritedata/SDreaddata (plain, strided); raw stored bytes compared "
                  "with the designated byte order",
                  FLNAME[fl], t->name);
}

/* end to end: a Vdata with TWO fields of (possibly) different type and storage flavour, written and read with both buffer
   interlaces, the fields selected alone, together and in reverse order: every field is converted with its own number type */
static void
e2e_pair_case(long idx, void *ctx)
{
    (void)ctx;
    int         ia = (int)(idx % (NTY * 3)), ib = (int)(idx / (NTY * 3));
    const ty_t *ta = &TY[ia % NTY], *tb = &TY[ib % NTY];
    int         fa = ia / NTY, fb = ib / NTY, sa = ta->size, sb = tb->size, rs = sa + sb;
    int         cfg[3] = {3, ia, ib};
    mc_set_config(cfg, 3, "end-to-end two fields");
    mc_set_case("Vdata with fields a = %s %s and b = %s %s, 4 records", FLNAME[fa], ta->name, FLNAME[fb], tb->name);
    uint8 A[4 * 8], B[4 * 8], full[4 * 16], cols[4 * 16], back[4 * 16 + 8];
    for (int i = 0; i < 4 * sa; i++)
        A[i] = (uint8)(0x83 + 31 * i);
    for (int i = 0; i < 4 * sb; i++)
        B[i] = (uint8)(0x47 + 23 * i);
    for (int r = 0; r < 4; r++) {
        if (ta->nt == DFNT_FLOAT32 || ta->nt == DFNT_FLOAT64)
            A[r * sa + sa - 1] = (uint8)(0x3F + r), A[r * sa + sa - 2] &= 0x7F;
        if (tb->nt == DFNT_FLOAT32 || tb->nt == DFNT_FLOAT64)
            B[r * sb + sb - 1] = (uint8)(0x40 + r), B[r * sb + sb - 2] &= 0x7F;
        memcpy(full + r * rs, A + r * sa, (size_t)sa);
        memcpy(full + r * rs + sa, B + r * sb, (size_t)sb);
    }
    memcpy(cols, A, (size_t)(4 * sa));
    memcpy(cols + 4 * sa, B, (size_t)(4 * sb));
    vfs_remove_file(E2E);
    int32 fid = Hopen(E2E, DFACC_CREATE, 16), ref[2] = {0, 0};
    if (fid == FAIL)
        return;
    Vstart(fid);
    for (int w = 0; w < 2; w++) { /* w = 0: written from a record-interlaced buffer, 1: from a field-by-field buffer */
        int32 vs = VSattach(fid, -1, "w");
        if (VSfdefine(vs, "a", ta->nt | FL[fa], 1) == FAIL || VSfdefine(vs, "b", tb->nt | FL[fb], 1) == FAIL || VSsetfields(vs, "a,b") == FAIL ||
            VSwrite(vs, w ? cols : full, 4, w ? NO_INTERLACE : FULL_INTERLACE) != 4) {
            mc_violation("e2e2:vs-write", "writing the two-field Vdata from a %s buffer failed", w ? "NO_INTERLACE" : "FULL_INTERLACE");
            return;
        }
        ref[w] = VSQueryref(vs);
        VSdetach(vs);
    }
    Vend(fid);
    Hclose(fid);
    /* the stored bytes of both: records of (a in its file order, b in its file order) */
    {
        vfile  *vf = vfs_lookup(E2E);
        long    sz;
        uint8  *bytes = vfs_dup_bytes(vf, &sz);
        fc_file fc;
        uint8   expfile[4 * 16];
        memset(&fc, 0, sizeof fc);
        for (int r = 0; r < 4; r++) {
            to_file(A + r * sa, expfile + r * rs, sa, fa);
            to_file(B + r * sb, expfile + r * rs + sa, sb, fb);
        }
        if (fc_parse(&fc, bytes, sz) != 0)
            mc_violation("e2e2:format", "file not well-formed: %s", fc.err[0]);
        else
            for (int w = 0; w < 2; w++) {
                const fc_dd *d = fc_find(&fc, FC_TAG_VS, (uint16)ref[w]);
                if (!d || d->len != 4 * rs || memcmp(bytes + d->off, expfile, (size_t)(4 * rs)) != 0)
                    mc_violation("e2e2:vs-stored-bytes", "the stored records of the Vdata written from a %s buffer are not (a in %s order, b in %s order)", w ? "NO_INTERLACE" : "FULL_INTERLACE",
                                 fa == 0 ? "big-endian" : "little-endian", fb == 0 ? "big-endian" : "little-endian");
            }
        fc_free(&fc);
        free(bytes);
    }
    fid = Hopen(E2E, DFACC_READ, 0);
    Vstart(fid);
    static const char *SEL[4] = {"a,b", "b", "b,a", "a"};
    for (int w = 0; w < 2; w++) {
        int32 vs = VSattach(fid, ref[w], "r");
        if (vs == FAIL) {
            mc_violation("e2e2:vs-attach", "cannot attach the two-field Vdata");
            continue;
        }
        for (int sel = 0; sel < 4; sel++)
            for (int il = 0; il < 2; il++) {
                /* the expected buffer for this selection and interlace */
                uint8 want[4 * 16];
                int   n = 0, f0 = SEL[sel][0] == 'a' ? 0 : 1, nf = strlen(SEL[sel]) > 1 ? 2 : 1;
                if (il == 0)
                    for (int r = 0; r < 4; r++)
                        for (int k = 0; k < nf; k++) {
                            int isb = (f0 + k) % 2;
                            memcpy(want + n, isb ? B + r * sb : A + r * sa, (size_t)(isb ? sb : sa));
                            n += isb ? sb : sa;
                        }
                else
                    for (int k = 0; k < nf; k++) {
                        int isb = (f0 + k) % 2;
                        memcpy(want + n, isb ? B : A, (size_t)(4 * (isb ? sb : sa)));
                        n += 4 * (isb ? sb : sa);
                    }
                memset(back, 0xEE, sizeof back);
                if (VSsetfields(vs, SEL[sel]) == FAIL || VSseek(vs, 0) == FAIL || VSread(vs, back, 4, il ? NO_INTERLACE : FULL_INTERLACE) != 4) {
                    mc_violation("e2e2:vs-read-failed", "VSread of fields \"%s\" (%s buffer) failed", SEL[sel], il ? "NO_INTERLACE" : "FULL_INTERLACE");
                    continue;
                }
                if (memcmp(back, want, (size_t)n) != 0 || back[n] != 0xEE) {
                    char sig[80];
                    snprintf(sig, sizeof sig, "e2e2:vs-readback:%s", il ? "nointerlace" : "fullinterlace");
                    mc_violation(sig, "fields \"%s\" read into a %s buffer differ from the values written (Vdata written from a %s buffer; a = %s %s, b = %s %s)", SEL[sel],
                                 il ? "NO_INTERLACE" : "FULL_INTERLACE", w ? "NO_INTERLACE" : "FULL_INTERLACE", FLNAME[fa], ta->name, FLNAME[fb], tb->name);
                }
                mc_count("two_field_reads", 1);
            }
        VSdetach(vs);
    }
    Vend(fid);
    Hclose(fid);
    mc_outcome(mc_hash_i(MC_H0, 20000 + idx));
}

static void
add_blk(int ti, int fl, int dir, int family, long lo, long hi)
{
    static long cap;
    if (NBLK == cap) {
        cap = cap ? cap * 2 : 4096;
        BLK = realloc(BLK, (size_t)cap * sizeof *BLK);
    }
    BLK[NBLK++] = (blk_t){ti, fl, dir, family, lo, hi};
}

int
C06_main(const char *tier, const char *replay)
{
    int thorough = strcmp(tier, "thorough") == 0;
    for (int ti = 0; ti < NTY; ti++)
        for (int fl = 0; fl < 3; fl++)
            for (int d = 0; d < 2; d++) {
                int dir = d ? DFACC_WRITE : DFACC_READ;
                int s   = TY[ti].size;
                if (s == 1)
                    add_blk(ti, fl, dir, 0, 0, 256);
                else if (s == 2)
                    add_blk(ti, fl, dir, 0, 0, 65536);
                else {
                    long nf = lane_family_count(s);
                    add_blk(ti, fl, dir, 1, 0, nf);
                    if (s == 4) {
                        /* quick: all patterns with the two low bytes free x the two high bytes from a boundary set (2^16 x 16);
                           thorough: all 2^32 */
                        if (thorough) {
                            for (long lo = 0; lo < (1L << 32); lo += 1L << 22)
                                add_blk(ti, fl, dir, 0, lo, lo + (1L << 22));
                        }
                        else {
                            static const long HI[16] = {0x0000, 0x0001, 0x007F, 0x0080, 0x00FF, 0x0100, 0x7F80, 0x7FFF,
                                                        0x8000, 0x8001, 0xFF7F, 0xFF80, 0xFFFE, 0xFFFF, 0xA55A, 0x5AA5};
                            for (int h = 0; h < 16; h++)
                                add_blk(ti, fl, dir, 0, HI[h] << 16, (HI[h] << 16) + 65536);
                        }
                    }
                }
            }
    if (replay) {
        int   cfg[32], ncfg, nops;
        mc_op ops[4];
        if (mc_load_replay(replay, cfg, &ncfg, ops, &nops, 4) || ncfg < 3)
            return 2;
        if (cfg[0] == 0) {
            for (long i = 0; i < NBLK; i++)
                if (BLK[i].ti == cfg[1] && BLK[i].fl == cfg[2] && BLK[i].dir == cfg[3] && BLK[i].family == cfg[4] && (int)(BLK[i].lo >> 16) == cfg[5]) {
                    printf("replay C06 value block %ld\n", i);
                    value_block(i, NULL);
                    return 0;
                }
            printf("value block not in this tier's plan; re-run with the tier that produced it\n");
        }
        else if (cfg[0] == 1)
            mode_case(cfg[1] + NTY * cfg[2] + NTY * 3 * (cfg[3] == DFACC_WRITE), NULL);
        else if (cfg[0] == 3)
            e2e_pair_case(cfg[1] + (long)NTY * 3 * cfg[2], NULL);
        else
            e2e_case(cfg[1] + NTY * cfg[2], NULL);
        return 0;
    }
    mc_round_begin("every bit pattern of the enumerated families x type x flavour x direction x {contiguous, strided, in place}");
    mc_foreach(NBLK, value_block, NULL, 1, 600);
    mc_round_end();
    mc_round_begin("element counts x stride pairs x in-place");
    mc_foreach(NTY * 3 * 2, mode_case, NULL, 1, 120);
    mc_round_end();
    mc_round_begin("end to end through Vdata and SD");
    mc_foreach(NTY * 3, e2e_case, NULL, 1, 120);
    mc_round_end();
    mc_round_begin("end to end: Vdatas with two fields of every pair of (type, flavour), both buffer interlaces, field subsets and orders");
    mc_foreach((long)NTY * 3 * NTY * 3, e2e_pair_case, NULL, 1, 120);
    mc_round_end();
    mc_count("evaluations", mc_get("values_converted") + mc_get("mode_calls") + NTY * 3 + mc_get("two_field_reads"));
    mc_rule("DFKconvert for 10 number types x {standard, little-endian, native} x {mem->file, file->mem}: all 2^8 and all 2^16 bit patterns; 32-bit: %s plus the "
            "byte-lane family; 64-bit: the byte-lane family (one free lane x 256 x 4 backgrounds, two-lane combinations, walking bits, exponent/NaN/denormal "
            "patterns) - each block converted contiguously, with equal and unequal source/destination strides and in place, compared element by element with "
            "an explicit byte-order model, guard bytes between strided elements and the source checked. Element counts {1,2,3,7,8,9,1025} x 8 stride pairs. "
            "End to end: each type/flavour stored through Vdata and SD, raw bytes located by the independent reader. distinct = distinct (type,flavour,"
            "direction,block) combinations completed.",
            thorough ? "all 2^32 patterns" : "2^16 low-half patterns under 16 boundary high halves");
    return 0;
}
