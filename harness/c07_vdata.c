/* C07 - Vdata tables return exactly the records written, for any schema and access.
 * Fork-snapshot exploration of write/seek/read/detach/attach/reopen histories per schema against a table model,
 * plus enumerated large-transfer cases around the internal 1,000,000-byte transfer buffer. */
#include "../engine/mc.h"
#include "../engine/vfs.h"
#include "../engine/fmtcheck.h"
#include "hdf.h"
#include <stdio.h>
#include <stdlib.h>
#include <string.h>

#define PATH "/vmem/c07.hdf"
#define MAXF 4
#define MAXREC 24
#define MAXRS 64 /* max record size in the exploration schemas */

typedef struct {
    int32 type;
    int   order, size; /* element size */
} fld_t;
typedef struct {
    int         nf;
    fld_t       f[MAXF];
    const char *desc;
} schema_t;

static const schema_t SCH[] = {
    {1, {{DFNT_INT16, 1, 2}}, "a:int16"},
    {1, {{DFNT_CHAR8, 3, 1}}, "a:char8[3]"},
    {2, {{DFNT_INT16, 1, 2}, {DFNT_FLOAT32, 2, 4}}, "a:int16,b:float32[2]"},
    {3, {{DFNT_INT8, 1, 1}, {DFNT_INT32, 1, 4}, {DFNT_FLOAT64, 1, 8}}, "a:int8,b:int32,c:float64"},
    {2, {{DFNT_UINT8, 2, 1}, {DFNT_INT16, 3, 2}}, "a:uint8[2],b:int16[3]"},
    {3, {{DFNT_INT32 | DFNT_LITEND, 1, 4}, {DFNT_UINT16, 2, 2}, {DFNT_FLOAT32 | DFNT_NATIVE, 1, 4}}, "a:lint32,b:uint16[2],c:nfloat32"},
    {4, {{DFNT_CHAR8, 2, 1}, {DFNT_FLOAT64, 1, 8}, {DFNT_INT16, 1, 2}, {DFNT_UINT32, 2, 4}}, "a:char8[2],b:float64,c:int16,d:uint32[2]"},
};
#define NSCH ((int)(sizeof SCH / sizeof SCH[0]))
static const char *FN[MAXF] = {"a", "b", "c", "d"};

enum { O_WRITE, O_READ, O_SEEK, O_DETACH, O_ATTACH, O_REOPEN, O_OTHER, O_APPEND, O_OVERREAD, O_SETBLOCK };
static const char *opname[] = {"write", "read", "seek", "detach", "attach", "reopen", "other-vdata", "append", "overread", "setblocksize"};

static struct {
    int   sch, blk, ndds;
    int   nrec;
    uint8 rec[MAXREC][MAXRS];
    int   attached; /* 0 none, 'r', 'w' */
    int   cursor;   /* -1 unknown */
    int   created;  /* fields defined */
    int   other;    /* another vdata was created behind this one */
    int   nops;
    int   fileopen, readonly;
    int32 vsref;
} M;
static int32 fid = FAIL, vs = FAIL;

static int
fsize(const fld_t *f)
{
    return f->order * f->size;
}
static int
recsize(void)
{
    int s = 0;
    for (int i = 0; i < SCH[M.sch].nf; i++)
        s += fsize(&SCH[M.sch].f[i]);
    return s;
}
static int
foff(int fi)
{
    int s = 0;
    for (int i = 0; i < fi; i++)
        s += fsize(&SCH[M.sch].f[i]);
    return s;
}

/* field subsets: every non-empty ordered subset for <=3 fields, a selection for 4 */
static int SUB[64][MAXF + 1], NSUB;
static void
build_subsets(int nf)
{
    NSUB = 0;
    /* all ordered subsets without repetition */
    int lim = nf <= 3 ? nf : 2;
    for (int len = 1; len <= lim; len++) {
        int idx[MAXF] = {0};
        int total = 1;
        for (int i = 0; i < len; i++)
            total *= nf;
        for (int code = 0; code < total; code++) {
            int c = code, ok = 1;
            for (int i = 0; i < len; i++, c /= nf)
                idx[i] = c % nf;
            for (int i = 0; i < len && ok; i++)
                for (int j = i + 1; j < len; j++)
                    if (idx[i] == idx[j])
                        ok = 0;
            if (!ok || NSUB >= 60)
                continue;
            SUB[NSUB][0] = len;
            for (int i = 0; i < len; i++)
                SUB[NSUB][1 + i] = idx[i];
            NSUB++;
        }
    }
    if (nf == 4) {
        int extra[3][5] = {{4, 0, 1, 2, 3}, {4, 3, 2, 1, 0}, {3, 3, 0, 2, 0}};
        for (int e = 0; e < 3; e++)
            memcpy(SUB[NSUB++], extra[e], sizeof extra[e]);
    }
}

static void
subset_names(int si, char *buf)
{
    buf[0] = 0;
    for (int i = 0; i < SUB[si][0]; i++) {
        if (i)
            strcat(buf, ",");
        strcat(buf, FN[SUB[si][1 + i]]);
    }
}

static void
gen_record(int seed, uint8 *out)
{
    int rs = recsize();
    for (int i = 0; i < rs; i++)
        out[i] = (uint8)(seed * 13 + i * 5 + 1);
}

/* build the caller's buffer for n records starting at model index r0 restricted to subset si in interlace il */
static int
expect_buffer(int r0, int n, int si, int il, uint8 *out)
{
    const schema_t *s = &SCH[M.sch];
    int             usz = 0;
    for (int k = 0; k < SUB[si][0]; k++)
        usz += fsize(&s->f[SUB[si][1 + k]]);
    if (il == FULL_INTERLACE) {
        for (int r = 0; r < n; r++) {
            int o = 0;
            for (int k = 0; k < SUB[si][0]; k++) {
                int fi = SUB[si][1 + k];
                memcpy(out + r * usz + o, M.rec[r0 + r] + foff(fi), (size_t)fsize(&s->f[fi]));
                o += fsize(&s->f[fi]);
            }
        }
    }
    else {
        int o = 0;
        for (int k = 0; k < SUB[si][0]; k++) {
            int fi = SUB[si][1 + k], fs = fsize(&s->f[fi]);
            for (int r = 0; r < n; r++)
                memcpy(out + o + r * fs, M.rec[r0 + r] + foff(fi), (size_t)fs);
            o += n * fs;
        }
    }
    return usz * n;
}

static int
all_subset(void)
{
    /* index of the subset listing all fields in definition order */
    int nf = SCH[M.sch].nf;
    for (int si = 0; si < NSUB; si++) {
        if (SUB[si][0] != nf)
            continue;
        int ok = 1;
        for (int i = 0; i < nf; i++)
            if (SUB[si][1 + i] != i)
                ok = 0;
        if (ok)
            return si;
    }
    return 0;
}

static int
check_read(int r0, int n, int si, int il, const char *where)
{
    static uint8 got[MAXREC * MAXRS + 64], exp[MAXREC * MAXRS + 64];
    char         names[32];
    subset_names(si, names);
    if (VSsetfields(vs, names) == FAIL) {
        mc_violation("setfields:failed", "%s: VSsetfields(\"%s\") failed on a Vdata with %d records", where, names, M.nrec);
        return 1;
    }
    if (VSseek(vs, r0) != r0) {
        mc_violation("seek:failed", "%s: VSseek(%d) failed (records %d)", where, r0, M.nrec);
        return 1;
    }
    int len = expect_buffer(r0, n, si, il, exp);
    memset(got, 0xEE, (size_t)len + 8);
    int32 r = VSread(vs, got, n, il);
    if (r != n) {
        mc_violation("read:count", "%s: VSread(%d records from %d, fields %s, %s) returned %d", where, n, r0, names, il == FULL_INTERLACE ? "FULL" : "NO_INTERLACE",
                     (int)r);
        return 1;
    }
    if (memcmp(got, exp, (size_t)len) != 0) {
        int j = 0;
        while (got[j] == exp[j])
            j++;
        char sig[64];
        snprintf(sig, sizeof sig, "read:content:%s:%s", SUB[si][0] == SCH[M.sch].nf ? "all-fields" : "subset", il == FULL_INTERLACE ? "full" : "nointerlace");
        mc_violation(sig, "%s: VSread(%d records from %d, fields %s, %s): buffer byte %d is 0x%02x, expected 0x%02x", where, n, r0, names,
                     il == FULL_INTERLACE ? "FULL_INTERLACE" : "NO_INTERLACE", j, got[j], exp[j]);
        return 1;
    }
    if (got[len] != 0xEE) {
        mc_violation("read:overrun", "%s: VSread stored more than %d bytes", where, len);
        return 1;
    }
    M.cursor = r0 + n;
    return 0;
}

static int
inquiries(const char *where)
{
    if (!M.attached || !M.created)
        return 0;
    int32 n = VSelts(vs);
    if (n != M.nrec) {
        mc_violation("elts", "%s: VSelts=%d, model %d", where, (int)n, M.nrec);
        return 1;
    }
    int32 nelt = -1, il = -1, esz = -1;
    char  fields[128] = "", name[80] = "";
    if (VSinquire(vs, &nelt, &il, fields, &esz, name) == FAIL && M.nrec > 0) {
        mc_violation("inquire:failed", "%s: VSinquire failed", where);
        return 1;
    }
    char allf[32];
    subset_names(all_subset(), allf);
    if (M.nrec > 0 && (nelt != M.nrec || strcmp(fields, allf) != 0)) {
        mc_violation("inquire", "%s: VSinquire reports %d records, fields \"%s\"; model %d, \"%s\"", where, (int)nelt, fields, M.nrec, allf);
        return 1;
    }
    if (VSsizeof(vs, allf) != recsize()) {
        mc_violation("sizeof", "%s: VSsizeof(\"%s\")=%d, record size %d", where, allf, (int)VSsizeof(vs, allf), recsize());
        return 1;
    }
    const schema_t *s = &SCH[M.sch];
    if (VFnfields(vs) != s->nf) {
        mc_violation("nfields", "%s: VFnfields=%d, schema has %d", where, (int)VFnfields(vs), s->nf);
        return 1;
    }
    for (int i = 0; i < s->nf; i++) {
        if (VFfieldtype(vs, i) != s->f[i].type || VFfieldorder(vs, i) != s->f[i].order || VFfieldisize(vs, i) != fsize(&s->f[i]) ||
            VFfieldesize(vs, i) != fsize(&s->f[i]) || strcmp(VFfieldname(vs, i), FN[i]) != 0) {
            mc_violation("fieldinfo", "%s: field %d reports type %d order %d isize %d name %s", where, i, (int)VFfieldtype(vs, i), (int)VFfieldorder(vs, i),
                         (int)VFfieldisize(vs, i), VFfieldname(vs, i));
            return 1;
        }
    }
    return 0;
}

static int
do_write(int n, int il)
{
    static uint8 buf[8 * MAXRS];
    uint8        recs[8][MAXRS];
    int          rs = recsize();
    const schema_t *s = &SCH[M.sch];
    for (int r = 0; r < n; r++)
        gen_record(M.nops * 4 + r, recs[r]);
    if (il == FULL_INTERLACE)
        for (int r = 0; r < n; r++)
            memcpy(buf + r * rs, recs[r], (size_t)rs);
    else {
        int o = 0;
        for (int fi = 0; fi < s->nf; fi++) {
            int fs = fsize(&s->f[fi]);
            for (int r = 0; r < n; r++)
                memcpy(buf + o + r * fs, recs[r] + foff(fi), (size_t)fs);
            o += n * fs;
        }
    }
    int32 r = VSwrite(vs, buf, n, il);
    if (r != n) {
        mc_violation(M.cursor < M.nrec ? "write:overwrite-failed" : "write:append-failed", "VSwrite(%d records at %d of %d, %s) returned %d", n, M.cursor, M.nrec,
                     il == FULL_INTERLACE ? "FULL" : "NO_INTERLACE", (int)r);
        return 1;
    }
    for (int k = 0; k < n; k++)
        memcpy(M.rec[M.cursor + k], recs[k], (size_t)rs);
    M.cursor += n;
    if (M.cursor > M.nrec) {
        if (M.other)
            mc_count("growth_not_last_in_file", 1);
        M.nrec = M.cursor;
    }
    return 0;
}

static int
define_fields(void)
{
    const schema_t *s = &SCH[M.sch];
    char            names[32];
    /* in half of the configurations (those with 4-entry descriptor blocks) the fields are defined in the reverse of the order in
       which VSsetfields names them: the record layout follows VSsetfields, not the order of definition */
    for (int k = 0; k < s->nf; k++) {
        int i = M.ndds == 4 ? s->nf - 1 - k : k;
        if (VSfdefine(vs, FN[i], s->f[i].type, s->f[i].order) == FAIL) {
            mc_violation("fdefine:failed", "VSfdefine(%s) failed", FN[i]);
            return 1;
        }
    }
    subset_names(all_subset(), names);
    if (VSsetfields(vs, names) == FAIL) {
        mc_violation("setfields:failed", "VSsetfields(\"%s\") on a new Vdata failed", names);
        return 1;
    }
    VSsetname(vs, "table");
    M.created = 1;
    return 0;
}

static int
apply(const mc_op *op)
{
    M.nops++;
    char where[48];
    snprintf(where, sizeof where, "after %s", opname[op->code]);
    switch (op->code) {
        case O_WRITE:
            if (do_write(op->a[0], op->a[1]))
                return 1;
            break;
        case O_APPEND: {
            /* the documented way to append: read the last record, then write */
            if (check_read(M.nrec - 1, 1, all_subset(), FULL_INTERLACE, "append(position)"))
                return 1;
            if (do_write(op->a[0], op->a[1]))
                return 1;
            break;
        }
        case O_READ:
            if (check_read(op->a[0], op->a[1], op->a[2], op->a[3], "read"))
                return 1;
            break;
        case O_SEEK: {
            int32 r = VSseek(vs, op->a[0]);
            if (op->a[0] < M.nrec) {
                if (r != op->a[0]) {
                    mc_violation("seek:failed", "VSseek(%d) with %d records returned %d", op->a[0], M.nrec, (int)r);
                    return 1;
                }
                M.cursor = op->a[0];
            }
            else if (r != FAIL) {
                /* seeking to the end is not a documented operation; if accepted the cursor is there */
                M.cursor = op->a[0];
                mc_count("seek_to_end_accepted", 1);
            }
            break;
        }
        case O_OVERREAD: {
            /* asking for more records than exist after the cursor must not succeed in full, nor overrun the buffer */
            static uint8 got[MAXREC * MAXRS + 64];
            int          n = M.nrec - M.cursor + 2;
            memset(got, 0xEE, sizeof got);
            char names[32];
            subset_names(all_subset(), names);
            VSsetfields(vs, names);
            VSseek(vs, M.cursor < M.nrec ? M.cursor : M.nrec - 1);
            int avail = M.nrec - (M.cursor < M.nrec ? M.cursor : M.nrec - 1);
            int32 r   = VSread(vs, got, avail + 2, FULL_INTERLACE);
            (void)n;
            if (r == avail + 2) {
                mc_violation("read:beyond-end", "VSread of %d records with only %d left returned %d", avail + 2, avail, (int)r);
                return 1;
            }
            if (got[(avail + 2) * recsize()] != 0xEE) {
                mc_violation("read:overrun", "VSread beyond the end wrote past the caller's buffer");
                return 1;
            }
            return 2; /* cursor unspecified after a refused read: do not continue this branch */
        }
        case O_SETBLOCK:
            if (VSsetblocksize(vs, op->a[0]) == FAIL || VSsetnumblocks(vs, op->a[1]) == FAIL) {
                mc_violation("setblocksize:failed", "VSsetblocksize(%d)/VSsetnumblocks(%d) failed", op->a[0], op->a[1]);
                return 1;
            }
            break;
        case O_DETACH:
            if (VSdetach(vs) == FAIL) {
                mc_violation("detach:failed", "VSdetach failed");
                return 1;
            }
            M.attached = 0;
            vs         = FAIL;
            break;
        case O_ATTACH: {
            vs = VSattach(fid, M.vsref, op->a[0] ? "w" : "r");
            if (M.readonly && op->a[0]) {
                if (vs != FAIL) {
                    mc_violation("attach:write-on-readonly", "VSattach(\"w\") succeeded on a file opened read-only");
                    return 1;
                }
                break;
            }
            if (vs == FAIL) {
                mc_violation("attach:failed", "VSattach(ref %d, %s) failed", (int)M.vsref, op->a[0] ? "w" : "r");
                return 1;
            }
            M.attached = op->a[0] ? 'w' : 'r';
            M.cursor   = 0;
            {
                /* block size and count are settings of the attachment, not of the stored Vdata: the application of the
                   block modes sets them again whenever it attaches for writing (no effect once linked blocks exist) */
                int bm = M.blk >= 3 ? M.blk - 2 : M.blk;
                if (op->a[0] && bm && (VSsetblocksize(vs, bm == 1 ? recsize() : 7) == FAIL || VSsetnumblocks(vs, bm) == FAIL)) {
                    mc_violation("setblocksize:failed", "VSsetblocksize/VSsetnumblocks after VSattach(\"w\") failed");
                    return 1;
                }
            }
            break;
        }
        case O_REOPEN:
            if (Vend(fid) == FAIL || Hclose(fid) == FAIL) {
                mc_violation("close:failed", "Vend/Hclose failed with nothing attached");
                return 1;
            }
            fid = Hopen(PATH, op->a[0] ? DFACC_RDWR : DFACC_READ, 0);
            if (fid == FAIL || Vstart(fid) == FAIL) {
                mc_violation("reopen:failed", "reopen failed");
                return 1;
            }
            M.readonly = !op->a[0];
            break;
        case O_OTHER: {
            int32 o = VSattach(fid, -1, "w");
            int16 v[3] = {7, 8, 9};
            if (o == FAIL || VSfdefine(o, "z", DFNT_INT16, 1) == FAIL || VSsetfields(o, "z") == FAIL || VSwrite(o, (uint8 *)v, 3, FULL_INTERLACE) != 3 ||
                VSdetach(o) == FAIL) {
                mc_violation("other:failed", "creating a second Vdata failed");
                return 1;
            }
            M.other = 1;
            break;
        }
    }
    if (M.attached && M.created && inquiries(where))
        return 1;
    /* cheap full read-back through the same handle after every step (all fields, FULL) */
    if (M.attached && M.nrec > 0) {
        int keep = M.cursor;
        if (check_read(0, M.nrec, all_subset(), FULL_INTERLACE, where))
            return 1;
        if (keep >= 0 && keep < M.nrec) {
            VSseek(vs, keep);
            M.cursor = keep;
        }
        else if (keep == M.nrec)
            M.cursor = M.nrec; /* after a full read the cursor is at the end again */
    }
    return 0;
}

static int
enum_ops(mc_op *out, int max)
{
    int n = 0;
#define ADD(c, a0, a1, a2, a3)                                                                                                       \
    do {                                                                                                                             \
        if (n < max) {                                                                                                               \
            memset(&out[n], 0, sizeof out[n]);                                                                                       \
            out[n].code = c;                                                                                                         \
            out[n].a[0] = a0, out[n].a[1] = a1, out[n].a[2] = a2, out[n].a[3] = a3;                                                  \
            n++;                                                                                                                     \
        }                                                                                                                            \
    } while (0)
    int thorough = mc_is_thorough();
    if (M.attached) {
        if (M.attached == 'w' && M.nrec + 2 < MAXREC) {
            if (M.cursor >= 0 && M.cursor <= M.nrec) {
                /* (cursor == nrec - 1 with a 2-record write straddles the end of the table) */
                if (1) {
                    ADD(O_WRITE, 1, FULL_INTERLACE, 0, 0);
                    ADD(O_WRITE, 2, NO_INTERLACE, 0, 0);
                    if (thorough) {
                        ADD(O_WRITE, 2, FULL_INTERLACE, 0, 0);
                        ADD(O_WRITE, 1, NO_INTERLACE, 0, 0);
                    }
                }
                else
                    ADD(O_WRITE, 1, FULL_INTERLACE, 0, 0);
            }
            if (M.nrec > 0 && M.cursor != M.nrec)
                ADD(O_APPEND, 2, FULL_INTERLACE, 0, 0);
            if (M.nrec > 0 && M.nrec <= 2 && !M.blk)
                ;
        }
        if (M.nrec > 0) {
            ADD(O_SEEK, 0, 0, 0, 0);
            if (M.nrec > 1)
                ADD(O_SEEK, M.nrec - 1, 0, 0, 0);
            ADD(O_SEEK, M.nrec, 0, 0, 0);
            /* reads: every subset at one position/interlace combination that rotates with the state, plus fixed ones */
            int rot = (M.nops + M.nrec) % NSUB;
            for (int k = 0; k < NSUB; k++) {
                int si = (rot + k) % NSUB;
                int r0 = (k % 2 && M.nrec > 1) ? 1 : 0;
                int cnt = (k % 3 == 0) ? M.nrec - r0 : 1;
                ADD(O_READ, r0, cnt, si, (k & 1) ? NO_INTERLACE : FULL_INTERLACE);
                if (!thorough && k >= 5)
                    break;
            }
            ADD(O_OVERREAD, 0, 0, 0, 0);
        }
        ADD(O_DETACH, 0, 0, 0, 0);
    }
    else {
        if (M.created) {
            ADD(O_ATTACH, 0, 0, 0, 0);
            ADD(O_ATTACH, 1, 0, 0, 0);
        }
        ADD(O_REOPEN, 1, 0, 0, 0);
        ADD(O_REOPEN, 0, 0, 0, 0);
        if (!M.other && !M.readonly)
            ADD(O_OTHER, 0, 0, 0, 0);
    }
    return n;
}

static int
dev_cost(const mc_op *op)
{
    return op->code == O_REOPEN || op->code == O_OTHER;
}

static void
fmt_op(const mc_op *op, char *buf, size_t n)
{
    char names[32];
    switch (op->code) {
        case O_WRITE:
        case O_APPEND: snprintf(buf, n, "%s(%d rec,%s)", opname[op->code], op->a[0], op->a[1] == FULL_INTERLACE ? "FULL" : "NO_IL"); break;
        case O_READ:
            subset_names(op->a[2], names);
            snprintf(buf, n, "read(from %d,%d rec,\"%s\",%s)", op->a[0], op->a[1], names, op->a[3] == FULL_INTERLACE ? "FULL" : "NO_IL");
            break;
        case O_SEEK: snprintf(buf, n, "seek(%d)", op->a[0]); break;
        case O_ATTACH: snprintf(buf, n, "attach(%s)", op->a[0] ? "w" : "r"); break;
        case O_REOPEN: snprintf(buf, n, "reopen(%s)", op->a[0] ? "RDWR" : "READ"); break;
        default: snprintf(buf, n, "%s()", opname[op->code]);
    }
}

static uint64_t
key(void)
{
    uint64_t h = MC_H0;
    h          = mc_hash_i(h, M.sch * 100 + M.blk * 10 + M.ndds);
    h          = mc_hash_i(h, M.nrec * 1000 + M.attached * 4 + M.other * 2 + M.readonly);
    h          = mc_hash_i(h, M.cursor);
    for (int r = 0; r < M.nrec; r++)
        h = mc_hash(h, M.rec[r], (size_t)recsize());
    h = mc_hash_i(h, (long)vfs_hash_all());
    return h;
}

static void
terminal(void)
{
    if (M.attached && VSdetach(vs) == FAIL)
        mc_violation("terminal:detach", "VSdetach failed");
    if (Vend(fid) == FAIL || Hclose(fid) == FAIL) {
        mc_violation("terminal:close", "Vend/Hclose failed");
        return;
    }
    vfile *vf = vfs_lookup(PATH);
    long   sz;
    uint8 *bytes = vfs_dup_bytes(vf, &sz);
    fc_file fc;
    memset(&fc, 0, sizeof fc);
    if (fc_parse(&fc, bytes, sz) != 0)
        mc_violation("terminal:format", "closed file is not well-formed: %s", fc.err[0]);
    else {
        const fc_dd *d = fc_find(&fc, FC_TAG_VS, (uint16)M.vsref);
        if (d && fc_is_special(d->tag))
            mc_count("vdata_in_linked_blocks", 1);
    }
    fc_free(&fc);
    free(bytes);
    if (!M.created)
        return;
    fid = Hopen(PATH, DFACC_READ, 0);
    if (fid == FAIL || Vstart(fid) == FAIL) {
        mc_violation("terminal:reopen", "reopen failed");
        return;
    }
    vs = VSattach(fid, M.vsref, "r");
    if (vs == FAIL) {
        mc_violation("terminal:attach", "VSattach(r) after reopen failed");
        return;
    }
    M.attached = 'r';
    if (inquiries("after reopen"))
        return;
    if (M.nrec > 0)
        for (int si = 0; si < NSUB; si++) {
            if (check_read(0, M.nrec, si, FULL_INTERLACE, "after reopen"))
                return;
            if (check_read(M.nrec > 1 ? 1 : 0, M.nrec > 1 ? M.nrec - 1 : 1, si, NO_INTERLACE, "after reopen"))
                return;
        }
    VSdetach(vs);
    Vend(fid);
    Hclose(fid);
}

static int
setup(int sch, int blk, int ndds)
{
    /* blk 3 / 4: block modes 1 / 2 with the start state "already in linked blocks": two records, another Vdata behind them,
       two more records appended (the search then starts with block tables in place) */
    int linked_start = blk >= 3;
    memset(&M, 0, sizeof M);
    M.sch = sch, M.blk = blk, M.ndds = ndds;
    if (linked_start)
        blk -= 2;
    build_subsets(SCH[sch].nf);
    vfs_remove_file(PATH);
    fid = Hopen(PATH, DFACC_CREATE, (int16)ndds);
    if (fid == FAIL || Vstart(fid) == FAIL)
        return -1;
    vs = VSattach(fid, -1, "w");
    if (vs == FAIL)
        return -1;
    M.attached = 'w';
    if (define_fields())
        return -1;
    if (blk) {
        /* tiny linked blocks: one record, or 7 bytes (does not divide the record size) */
        if (VSsetblocksize(vs, blk == 1 ? recsize() : 7) == FAIL || VSsetnumblocks(vs, blk) == FAIL)
            return -1;
    }
    M.vsref  = VSQueryref(vs);
    M.cursor = 0;
    M.nops   = 0;
    if (linked_start) {
        static const mc_op PRO[5] = {{O_WRITE, {2, FULL_INTERLACE}}, {O_DETACH, {0}}, {O_OTHER, {0}}, {O_ATTACH, {1}}, {O_APPEND, {2, FULL_INTERLACE}}};
        for (int i = 0; i < 5; i++)
            if (apply(&PRO[i]))
                return -1;
        M.nops = 0;
    }
    return 0;
}

typedef struct {
    int sch, blk, ndds, depth, dev;
} cfg_t;
static mc_harness H = {enum_ops, apply, key, terminal, fmt_op, dev_cost};

static void
root(void *arg)
{
    cfg_t *c      = arg;
    int    cfg[3] = {c->sch, c->blk, c->ndds};
    mc_set_config(cfg, 3, "schema {%s} blocksize-mode=%d ndds=%d", SCH[c->sch].desc, c->blk, c->ndds);
    if (setup(c->sch, c->blk, c->ndds)) {
        mc_violation("prologue", "creating the Vdata failed");
        return;
    }
    mc_explore(&H, c->depth, c->dev);
}

/* ---------------------------------------------------------------- large transfers */
static void
big_case(long idx, void *ctx)
{
    (void)ctx;
    /* idx: 0 many small records (26 B x 100000), 1 few large records (char8[60000] + int16, 41 records), 2 two big fields, 3 one small field */
    int cfg[2] = {-1, (int)idx};
    mc_set_config(cfg, 2, "large transfer case %ld", idx);
    static const struct {
        int   nf;
        fld_t f[3];
        int   nrec;
    } B[4] = {/* every single VSwrite / VSread call below moves more than 1 000 000 bytes (the size of the library's
                 transfer buffer), so the chunked transfer loops run more than once */
              {3, {{DFNT_INT32, 1, 4}, {DFNT_FLOAT64, 2, 8}, {DFNT_INT16, 3, 2}}, 100000},
              {2, {{DFNT_CHAR8, 60000, 1}, {DFNT_INT16, 1, 2}}, 41},
              {2, {{DFNT_INT32, 8000, 4}, {DFNT_UINT8, 30000, 1}}, 40},
              {1, {{DFNT_INT32, 1, 4}}, 600000}};
    int nf = B[idx].nf, nrec = B[idx].nrec, rs = 0, fo[3], fs[3];
    for (int i = 0; i < nf; i++) {
        fo[i] = rs;
        fs[i] = B[idx].f[i].order * B[idx].f[i].size;
        rs += fs[i];
    }
    mc_set_case("large transfer: %d records of %d bytes (%d fields)", nrec, rs, nf);
    uint8 *data = malloc((size_t)nrec * rs), *got = malloc((size_t)nrec * rs + 16), *exp = malloc((size_t)nrec * rs + 16);
    for (long i = 0; i < (long)nrec * rs; i++)
        data[i] = (uint8)((i * 2654435761u) >> 13);
    vfs_remove_file(PATH);
    fid = Hopen(PATH, DFACC_CREATE, 16);
    Vstart(fid);
    vs = VSattach(fid, -1, "w");
    char all[16] = "";
    for (int i = 0; i < nf; i++) {
        VSfdefine(vs, FN[i], B[idx].f[i].type, B[idx].f[i].order);
        if (i)
            strcat(all, ",");
        strcat(all, FN[i]);
    }
    if (VSsetfields(vs, all) == FAIL) {
        mc_violation("big:setfields", "VSsetfields failed");
        return;
    }
    /* write: first half FULL_INTERLACE in one call, second half NO_INTERLACE in one call */
    int h1 = nrec / 2, h2 = nrec - h1;
    if (VSwrite(vs, data, h1, FULL_INTERLACE) != h1) {
        mc_violation("big:write", "VSwrite(FULL) of %d records failed", h1);
        return;
    }
    {
        uint8 *nb = malloc((size_t)h2 * rs);
        long   o  = 0;
        for (int f = 0; f < nf; f++) {
            for (int r = 0; r < h2; r++)
                memcpy(nb + o + (long)r * fs[f], data + (long)(h1 + r) * rs + fo[f], (size_t)fs[f]);
            o += (long)h2 * fs[f];
        }
        if (VSwrite(vs, nb, h2, NO_INTERLACE) != h2) {
            mc_violation("big:write", "VSwrite(NO_INTERLACE) of %d records failed", h2);
            return;
        }
        free(nb);
    }
    int32 ref = VSQueryref(vs);
    VSdetach(vs);
    Vend(fid);
    Hclose(fid);
    fid = Hopen(PATH, DFACC_READ, 0);
    Vstart(fid);
    vs = VSattach(fid, ref, "r");
    if (vs == FAIL || VSelts(vs) != nrec) {
        mc_violation("big:reattach", "reattach failed or record count wrong (%d)", vs == FAIL ? -1 : (int)VSelts(vs));
        return;
    }
    /* every ordered subset, one call each, both interlaces */
    int subs[16][4], ns = 0;
    for (int a = 0; a < nf; a++) {
        subs[ns][0] = 1, subs[ns++][1] = a;
        for (int b = 0; b < nf; b++)
            if (b != a) {
                subs[ns][0] = 2, subs[ns][1] = a, subs[ns++][2] = b;
            }
    }
    if (nf == 3) {
        subs[ns][0] = 3, subs[ns][1] = 0, subs[ns][2] = 1, subs[ns++][3] = 2;
        subs[ns][0] = 3, subs[ns][1] = 2, subs[ns][2] = 0, subs[ns++][3] = 1;
    }
    for (int s = 0; s < ns; s++)
        for (int il = 0; il < 2; il++) {
            char names[16] = "";
            long usz = 0;
            for (int k = 0; k < subs[s][0]; k++) {
                if (k)
                    strcat(names, ",");
                strcat(names, FN[subs[s][1 + k]]);
                usz += fs[subs[s][1 + k]];
            }
            if (il == 0)
                for (int r = 0; r < nrec; r++) {
                    long o = 0;
                    for (int k = 0; k < subs[s][0]; k++) {
                        int f = subs[s][1 + k];
                        memcpy(exp + (long)r * usz + o, data + (long)r * rs + fo[f], (size_t)fs[f]);
                        o += fs[f];
                    }
                }
            else {
                long o = 0;
                for (int k = 0; k < subs[s][0]; k++) {
                    int f = subs[s][1 + k];
                    for (int r = 0; r < nrec; r++)
                        memcpy(exp + o + (long)r * fs[f], data + (long)r * rs + fo[f], (size_t)fs[f]);
                    o += (long)nrec * fs[f];
                }
            }
            memset(got, 0xEE, (size_t)(usz * nrec) + 8);
            if (VSsetfields(vs, names) == FAIL || VSseek(vs, 0) == FAIL || VSread(vs, got, nrec, il ? NO_INTERLACE : FULL_INTERLACE) != nrec) {
                mc_violation("big:read-count", "VSread of %d records (fields %s, %s) failed", nrec, names, il ? "NO_INTERLACE" : "FULL_INTERLACE");
                return;
            }
            if (memcmp(got, exp, (size_t)(usz * nrec)) != 0) {
                long j = 0;
                while (got[j] == exp[j])
                    j++;
                char sig[64];
                snprintf(sig, sizeof sig, "big:read-content:%s:%s", subs[s][0] == nf ? "all-fields" : "subset", il ? "nointerlace" : "full");
                mc_violation(sig, "VSread of %d x %d-byte records, fields %s, %s: first wrong byte at offset %ld (record %ld)", nrec, rs, names,
                             il ? "NO_INTERLACE" : "FULL_INTERLACE", j, j / usz);
                return;
            }
            if (got[usz * nrec] != 0xEE) {
                mc_violation("big:read-overrun", "VSread wrote past the caller's buffer (fields %s)", names);
                return;
            }
            mc_count("big_reads", 1);
        }
    VSdetach(vs);
    Vend(fid);
    Hclose(fid);
    free(data);
    free(got);
    free(exp);
    mc_sample("large transfer: %d records x %d bytes written in two calls (FULL, NO_INTERLACE), every ordered field subset read in one call in both interlaces", nrec,
              rs);
}

int
C07_main(const char *tier, const char *replay)
{
    if (replay) {
        int   cfg[32], ncfg, nops;
        mc_op ops[MC_MAXDEPTH];
        if (mc_load_replay(replay, cfg, &ncfg, ops, &nops, MC_MAXDEPTH) || ncfg < 2)
            return 2;
        if (cfg[0] == -1) {
            big_case(cfg[1], NULL);
            return 0;
        }
        mc_set_config(cfg, 3, "schema {%s} blocksize-mode=%d ndds=%d", SCH[cfg[0]].desc, cfg[1], cfg[2]);
        printf("replay C07: schema {%s} blk=%d ndds=%d, %d ops\n", SCH[cfg[0]].desc, cfg[1], cfg[2], nops);
        if (setup(cfg[0], cfg[1], cfg[2]))
            return 0;
        mc_replay_ops(&H, ops, nops);
        return 0;
    }
    int          thorough = strcmp(tier, "thorough") == 0;
    static cfg_t cfgs[128];
    int          dmax = thorough ? 8 : 6;
    /* the enumerated cases first: the deepening search below may use up the whole time allowance */
    mc_round_begin("large transfers across the 1,000,000-byte buffer");
    mc_foreach(4, big_case, NULL, 1, 300);
    mc_round_end();
    for (int depth = thorough ? 4 : dmax; depth <= dmax; depth++) {
        char label[48];
        snprintf(label, sizeof label, "depth %d", depth);
        mc_round_begin(label);
        int ncfg = 0;
        for (int sch = 0; sch < NSCH; sch++)
            for (int blk = 0; blk < 5; blk++) {
                if (!thorough && blk == 2 && sch % 2)
                    continue;
                if (!thorough && blk == 3 && sch % 3)
                    continue;
                cfg_t *c = &cfgs[ncfg++];
                c->sch = sch, c->blk = blk, c->ndds = (sch + blk) % 2 ? 4 : 16;
                c->depth = depth, c->dev = thorough ? 2 : 1;
            }
        int rot = mc_seed() % ncfg;
        for (int i = 0; i < ncfg; i++)
            mc_spawn_root(root, &cfgs[(i + rot) % ncfg], 6);
        mc_wait_roots();
        mc_round_end();
        if (mc_deadline_hit())
            break;
    }
    return 0;
}
