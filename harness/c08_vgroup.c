/* C08 - Vgroup membership, naming and hierarchy persist exactly as edited.
 * Fork-snapshot exploration of Vgroup edit histories against an ordered-multigraph model. */
#include "../engine/mc.h"
#include "../engine/vfs.h"
#include "../engine/fmtcheck.h"
#include "hdf.h"
#include <stdio.h>
#include <stdlib.h>
#include <string.h>

#define PATH "/vmem/c08.hdf"
#define NG 3
#define ND 2
#define MAXM 200

enum { O_NEW, O_ATTACH, O_DETACH, O_SETNAME, O_SETCLASS, O_ADD, O_INSERT_VS, O_INSERT_VG, O_DELTR, O_VDELETE, O_VSDELETE, O_GROW, O_REOPEN, O_HDEL };
static const char *opname[] = {"new", "attach", "detach", "setname", "setclass", "addtagref", "insert-vdata", "insert-vgroup", "deletetagref", "Vdelete", "VSdelete", "grow", "reopen", "Hdeldd-member"};
static const int NAMELEN[] = {1, 63, 64, 65, 300};

typedef struct {
    int    exists;
    int32  ref;
    int    namelen, classlen; /* 0 = never set */
    int    nm;
    uint16 tag[MAXM], mref[MAXM];
    int    attached; /* 0, 'r', 'w' */
    int32  id;
} vg_t;

static struct {
    vg_t  g[NG];
    int   dexists[ND];
    int32 dref[ND];
    int   elem_exists[3];
    int   readonly;
    int   ndds;
    int   nops;
} M;
static int32 fid = FAIL;

static void
make_name(int g, int len, int isclass, char *out)
{
    /* unique per (vgroup, kind): first char identifies it */
    for (int i = 0; i < len; i++)
        out[i] = (char)('a' + (i * 7 + g) % 26);
    if (len > 0)
        out[0] = (char)((isclass ? 'P' : 'G') + g);
    out[len] = 0;
}

static int
count_member(const vg_t *v, uint16 tag, uint16 ref)
{
    int c = 0;
    for (int i = 0; i < v->nm; i++)
        if (v->tag[i] == tag && v->mref[i] == ref)
            c++;
    return c;
}

static int
contained_in_some_vgroup(uint16 tag, uint16 ref)
{
    for (int g = 0; g < NG; g++)
        if (M.g[g].exists && count_member(&M.g[g], tag, ref))
            return 1;
    return 0;
}

/* ------------------------------------------------------------------ observation */
static int
observe_vgroup(int g, const char *where)
{
    vg_t *v   = &M.g[g];
    int   tmp = 0;
    int32 id  = v->id;
    if (!v->attached) {
        id = Vattach(fid, v->ref, "r");
        if (id == FAIL) {
            mc_violation("attach:failed", "%s: Vattach(ref %d,\"r\") of an existing vgroup failed", where, (int)v->ref);
            return 1;
        }
        tmp = 1;
    }
    int bad = 0;
    int32 n = Vntagrefs(id);
    if (n != v->nm) {
        mc_violation("ntagrefs", "%s: vgroup %d: Vntagrefs=%d, model %d", where, g, (int)n, v->nm);
        bad = 1;
    }
    if (!bad && v->nm > 0) {
        static int32 tags[MAXM + 8], refs[MAXM + 8];
        int32 r = Vgettagrefs(id, tags, refs, v->nm);
        if (r != v->nm) {
            mc_violation("gettagrefs:count", "%s: vgroup %d: Vgettagrefs returned %d of %d", where, g, (int)r, v->nm);
            bad = 1;
        }
        for (int i = 0; i < v->nm && !bad; i++) {
            if (tags[i] != v->tag[i] || refs[i] != v->mref[i]) {
                mc_violation("members:order", "%s: vgroup %d member %d is (%d,%d), model (%u,%u) [count %d]", where, g, i, (int)tags[i], (int)refs[i], v->tag[i],
                             v->mref[i], v->nm);
                bad = 1;
            }
        }
        /* asked for more members than there are (a caller's fixed-size arrays) or for fewer: the call delivers min(n, members)
           pairs and leaves the rest of the arrays alone */
        static const int DELTA[3] = {1, 8, -1};
        for (int q = 0; q < 3 && !bad; q++) {
            int ask = v->nm + DELTA[q], exp = ask < v->nm ? ask : v->nm;
            if (ask <= 0)
                continue;
            for (int i = 0; i < v->nm + 8; i++)
                tags[i] = refs[i] = -77;
            int32 r2 = Vgettagrefs(id, tags, refs, ask);
            int   ok = r2 == exp;
            for (int i = 0; i < v->nm + 8 && ok; i++)
                ok = i < exp ? (tags[i] == v->tag[i] && refs[i] == v->mref[i]) : (tags[i] == -77 && refs[i] == -77);
            if (!ok) {
                mc_violation("gettagrefs:other-count", "%s: vgroup %d with %d members: Vgettagrefs asked for %d returns %d, or delivers other pairs than the first %d members / writes beyond them",
                             where, g, v->nm, ask, (int)r2, exp);
                bad = 1;
            }
        }
        /* spot: first, last, around 63/64 by index */
        int idx[5] = {0, v->nm - 1, 63, 64, v->nm / 2};
        for (int k = 0; k < 5 && !bad; k++) {
            if (idx[k] < 0 || idx[k] >= v->nm)
                continue;
            int32 t = 0, rr = 0;
            if (Vgettagref(id, idx[k], &t, &rr) == FAIL || t != v->tag[idx[k]] || rr != v->mref[idx[k]]) {
                mc_violation("gettagref", "%s: vgroup %d: Vgettagref(%d) gives (%d,%d), model (%u,%u)", where, g, idx[k], (int)t, (int)rr, v->tag[idx[k]],
                             v->mref[idx[k]]);
                bad = 1;
            }
        }
    }
    if (!bad) {
        /* out-of-range index must fail */
        int32 t, rr;
        if (Vgettagref(id, v->nm, &t, &rr) != FAIL) {
            mc_violation("gettagref:beyond", "%s: vgroup %d: Vgettagref(index %d) succeeded with %d members", where, g, v->nm, v->nm);
            bad = 1;
        }
    }
    /* membership queries over the small universe */
    const uint16 ctag[6] = {100, 100, 100, DFTAG_VH, DFTAG_VH, DFTAG_VG};
    uint16       cref[6] = {1, 2, 3, (uint16)M.dref[0], (uint16)M.dref[1], 0};
    for (int k = 0; k < 5 + NG && !bad; k++) {
        uint16 t = k < 5 ? ctag[k] : DFTAG_VG;
        uint16 r = k < 5 ? cref[k] : (uint16)M.g[k - 5].ref;
        if (k >= 5 && !M.g[k - 5].ref)
            continue;
        int want = count_member(v, t, r) > 0;
        int got  = Vinqtagref(id, t, r);
        if ((got != 0) != want) {
            mc_violation("inqtagref", "%s: vgroup %d: Vinqtagref(%u,%u)=%d, model %s", where, g, t, r, got, want ? "member" : "not a member");
            bad = 1;
        }
    }
    if (!bad) {
        int want100 = 0, wantvh = 0;
        for (int i = 0; i < v->nm; i++) {
            want100 += v->tag[i] == 100;
            wantvh += v->tag[i] == DFTAG_VH;
        }
        if (Vnrefs(id, 100) != want100 || Vnrefs(id, DFTAG_VH) != wantvh) {
            mc_violation("nrefs", "%s: vgroup %d: Vnrefs(100)=%d Vnrefs(VH)=%d, model %d/%d", where, g, (int)Vnrefs(id, 100), (int)Vnrefs(id, DFTAG_VH), want100, wantvh);
            bad = 1;
        }
    }
    if (!bad) {
        static char name[1024], exp[512];
        uint16      nl = 0xFFFF;
        make_name(g, v->namelen, 0, exp);
        memset(name, 0x7e, sizeof name);
        if (Vgetnamelen(id, &nl) == FAIL || nl != v->namelen) {
            mc_violation("namelen", "%s: vgroup %d: Vgetnamelen=%u, model %d", where, g, nl, v->namelen);
            bad = 1;
        }
        else if (Vgetname(id, name) == FAIL || strcmp(name, exp) != 0) {
            name[40] = 0;
            mc_violation("name", "%s: vgroup %d: Vgetname returns \"%s...\" (len %d), expected length %d", where, g, name, (int)strlen(name), v->namelen);
            bad = 1;
        }
        else if (name[v->namelen + 1] != 0x7e) {
            mc_violation("name:overrun", "%s: Vgetname wrote past the terminating NUL", where);
            bad = 1;
        }
        make_name(g, v->classlen, 1, exp);
        memset(name, 0x7e, sizeof name);
        if (!bad && (Vgetclassnamelen(id, &nl) == FAIL || nl != v->classlen)) {
            mc_violation("classlen", "%s: vgroup %d: Vgetclassnamelen=%u, model %d", where, g, nl, v->classlen);
            bad = 1;
        }
        else if (!bad && (Vgetclass(id, name) == FAIL || strcmp(name, exp) != 0)) {
            name[40] = 0;
            mc_violation("class", "%s: vgroup %d: Vgetclass returns \"%s...\", expected length %d", where, g, name, v->classlen);
            bad = 1;
        }
    }
    if (tmp && Vdetach(id) == FAIL && !bad) {
        mc_violation("detach:failed", "%s: Vdetach of a temporary read attachment failed", where);
        bad = 1;
    }
    return bad;
}

static int
cmp32(const void *a, const void *b)
{
    int32 x = *(const int32 *)a, y = *(const int32 *)b;
    return x < y ? -1 : x > y;
}

static int
observe(const char *where)
{
    for (int g = 0; g < NG; g++)
        if (M.g[g].exists && observe_vgroup(g, where))
            return 1;
    /* file-level sets */
    int32 want[NG], nw = 0, got[16], ngot = 0;
    for (int g = 0; g < NG; g++)
        if (M.g[g].exists)
            want[nw++] = M.g[g].ref;
    qsort(want, (size_t)nw, sizeof want[0], cmp32);
    int32 id = -1;
    while ((id = Vgetid(fid, id)) != FAIL && ngot < 16)
        got[ngot++] = id;
    qsort(got, (size_t)ngot, sizeof got[0], cmp32);
    if (ngot != nw || memcmp(got, want, (size_t)nw * sizeof want[0]) != 0) {
        mc_violation("getid", "%s: Vgetid iteration visits %d vgroups (first %d), model has %d", where, ngot, ngot ? (int)got[0] : -1, nw);
        return 1;
    }
    /* Vgetvgroups: user-created vgroups */
    {
        uint16 refs[16];
        int    n = Vgetvgroups(fid, 0, 16, refs);
        if (n != nw) {
            mc_violation("getvgroups", "%s: Vgetvgroups reports %d vgroups, model %d", where, n, nw);
            return 1;
        }
        for (int i = 0; i < n; i++) {
            int ok = 0;
            for (int k = 0; k < nw; k++)
                ok |= want[k] == refs[i];
            if (!ok) {
                mc_violation("getvgroups:ghost", "%s: Vgetvgroups lists ref %u which is not an existing vgroup", where, refs[i]);
                return 1;
            }
        }
    }
    /* vdatas */
    {
        int32 wd[ND], nd = 0, gd[16], ngd = 0;
        for (int d = 0; d < ND; d++)
            if (M.dexists[d])
                wd[nd++] = M.dref[d];
        qsort(wd, (size_t)nd, sizeof wd[0], cmp32);
        id = -1;
        while ((id = VSgetid(fid, id)) != FAIL && ngd < 16)
            gd[ngd++] = id;
        qsort(gd, (size_t)ngd, sizeof gd[0], cmp32);
        if (ngd != nd || memcmp(gd, wd, (size_t)nd * sizeof wd[0]) != 0) {
            mc_violation("vsgetid", "%s: VSgetid iteration visits %d vdatas, model has %d", where, ngd, nd);
            return 1;
        }
        /* lone vdatas */
        int32 lone[16];
        int32 nl = VSlone(fid, lone, 16);
        int   wl = 0;
        for (int d = 0; d < ND; d++)
            if (M.dexists[d] && !contained_in_some_vgroup(DFTAG_VH, (uint16)M.dref[d]))
                wl++;
        if (nl != wl) {
            mc_violation("vslone", "%s: VSlone reports %d lone vdatas, model %d", where, (int)nl, wl);
            return 1;
        }
        for (int i = 0; i < nl; i++) {
            int ok = 0;
            for (int d = 0; d < ND; d++)
                if (M.dexists[d] && lone[i] == M.dref[d] && !contained_in_some_vgroup(DFTAG_VH, (uint16)M.dref[d]))
                    ok = 1;
            if (!ok) {
                mc_violation("vslone:wrong", "%s: VSlone lists ref %d which is not a lone vdata", where, (int)lone[i]);
                return 1;
            }
        }
        for (int d = 0; d < ND; d++) {
            int32 f = VSfind(fid, d ? "vd1" : "vd0");
            if ((f > 0) != (M.dexists[d] != 0) || (f > 0 && f != M.dref[d])) {
                mc_violation("vsfind", "%s: VSfind(\"vd%d\")=%d, model %s", where, d, (int)f, M.dexists[d] ? "exists" : "deleted");
                return 1;
            }
        }
    }
    /* lone vgroups */
    {
        int32 lone[16];
        int32 nl = Vlone(fid, lone, 16);
        int   wl = 0;
        for (int g = 0; g < NG; g++)
            if (M.g[g].exists && !contained_in_some_vgroup(DFTAG_VG, (uint16)M.g[g].ref))
                wl++;
        if (nl != wl) {
            mc_violation("vlone", "%s: Vlone reports %d lone vgroups, model %d", where, (int)nl, wl);
            return 1;
        }
        for (int i = 0; i < nl; i++) {
            int ok = 0;
            for (int g = 0; g < NG; g++)
                if (M.g[g].exists && lone[i] == M.g[g].ref && !contained_in_some_vgroup(DFTAG_VG, (uint16)M.g[g].ref))
                    ok = 1;
            if (!ok) {
                mc_violation("vlone:wrong", "%s: Vlone lists ref %d which is not a lone vgroup", where, (int)lone[i]);
                return 1;
            }
        }
    }
    /* lookups by name / class */
    for (int g = 0; g < NG; g++) {
        if (!M.g[g].ref)
            continue;
        static char nm[512];
        for (int li = 0; li < 5; li++) {
            make_name(g, NAMELEN[li], 0, nm);
            int32 f    = Vfind(fid, nm);
            int   want1 = M.g[g].exists && M.g[g].namelen == NAMELEN[li];
            if ((f > 0) != want1 || (f > 0 && f != M.g[g].ref)) {
                mc_violation("vfind", "%s: Vfind(name of vgroup %d, length %d)=%d, model %s", where, g, NAMELEN[li], (int)f, want1 ? "exists" : "no such name");
                return 1;
            }
            make_name(g, NAMELEN[li], 1, nm);
            f     = Vfindclass(fid, nm);
            want1 = M.g[g].exists && M.g[g].classlen == NAMELEN[li];
            if ((f > 0) != want1 || (f > 0 && f != M.g[g].ref)) {
                mc_violation("vfindclass", "%s: Vfindclass(class of vgroup %d, length %d)=%d, model %s", where, g, NAMELEN[li], (int)f,
                             want1 ? "exists" : "no such class");
                return 1;
            }
        }
    }
    return 0;
}

/* ------------------------------------------------------------------ apply */
static int
model_add(vg_t *v, uint16 tag, uint16 ref)
{
    if (v->nm >= MAXM)
        return -1;
    v->tag[v->nm]    = tag;
    v->mref[v->nm++] = ref;
    return 0;
}

static int
apply(const mc_op *op)
{
    int   g = op->a[0];
    vg_t *v = &M.g[g];
    M.nops++;
    switch (op->code) {
        case O_NEW: {
            int32 id = Vattach(fid, -1, "w");
            if (id == FAIL) {
                mc_violation("new:failed", "Vattach(-1,\"w\") failed");
                return 1;
            }
            memset(v, 0, sizeof *v);
            v->exists = 1, v->id = id, v->attached = 'w';
            v->ref = VQueryref(id);
            for (int o = 0; o < NG; o++)
                if (o != g && M.g[o].ref == v->ref && M.g[o].exists) {
                    mc_violation("new:ref-in-use", "new vgroup received ref %d which belongs to an existing vgroup", (int)v->ref);
                    return 1;
                }
            break;
        }
        case O_ATTACH: {
            int32 id = Vattach(fid, v->ref, op->a[1] ? "w" : "r");
            if (op->a[1] && M.readonly) {
                if (id != FAIL) {
                    mc_violation("attach:write-on-readonly", "Vattach(\"w\") succeeded on a read-only file");
                    return 1;
                }
                break;
            }
            if (id == FAIL) {
                mc_violation("attach:failed", "Vattach(ref %d,\"%s\") failed", (int)v->ref, op->a[1] ? "w" : "r");
                return 1;
            }
            v->id = id, v->attached = op->a[1] ? 'w' : 'r';
            break;
        }
        case O_DETACH:
            if (Vdetach(v->id) == FAIL) {
                mc_violation("detach:failed", "Vdetach failed");
                return 1;
            }
            v->attached = 0;
            break;
        case O_SETNAME:
        case O_SETCLASS: {
            static char nm[512];
            make_name(g, op->a[1], op->code == O_SETCLASS, nm);
            int32 r = op->code == O_SETNAME ? Vsetname(v->id, nm) : Vsetclass(v->id, nm);
            if (r == FAIL) {
                mc_violation(op->code == O_SETNAME ? "setname:failed" : "setclass:failed", "%s with a %d-character string failed", opname[op->code], op->a[1]);
                return 1;
            }
            if (op->code == O_SETNAME)
                v->namelen = op->a[1];
            else
                v->classlen = op->a[1];
            break;
        }
        case O_ADD: {
            int32 r = Vaddtagref(v->id, op->a[1], op->a[2]);
            if (r == FAIL) {
                mc_violation("addtagref:failed", "Vaddtagref(%d,%d) failed with %d members", op->a[1], op->a[2], v->nm);
                return 1;
            }
            model_add(v, (uint16)op->a[1], (uint16)op->a[2]);
            break;
        }
        case O_INSERT_VS: {
            int   d  = op->a[1];
            int32 vs = VSattach(fid, M.dref[d], "r");
            if (vs == FAIL) {
                mc_violation("vsattach:failed", "VSattach of an existing vdata failed");
                return 1;
            }
            int   dup = count_member(v, DFTAG_VH, (uint16)M.dref[d]) > 0;
            int32 r   = Vinsert(v->id, vs);
            VSdetach(vs);
            if (dup) {
                if (r != FAIL) {
                    mc_violation("insert:duplicate-accepted", "Vinsert of a vdata that is already a member returned %d", (int)r);
                    return 1;
                }
                break;
            }
            if (r != v->nm) {
                mc_violation("insert:index", "Vinsert returned %d, expected the new member's index %d", (int)r, v->nm);
                return 1;
            }
            model_add(v, DFTAG_VH, (uint16)M.dref[d]);
            break;
        }
        case O_INSERT_VG: {
            int   o   = op->a[1];
            int   dup = count_member(v, DFTAG_VG, (uint16)M.g[o].ref) > 0;
            int   tmp = 0;
            int32 oid = M.g[o].id;
            if (!M.g[o].attached) {
                oid = Vattach(fid, M.g[o].ref, "r");
                tmp = 1;
            }
            int32 r = Vinsert(v->id, oid);
            if (tmp)
                Vdetach(oid);
            if (dup) {
                if (r != FAIL) {
                    mc_violation("insert:duplicate-accepted", "Vinsert of a vgroup that is already a member returned %d", (int)r);
                    return 1;
                }
                break;
            }
            if (r != v->nm) {
                mc_violation("insert:index", "Vinsert(vgroup) returned %d, expected index %d", (int)r, v->nm);
                return 1;
            }
            model_add(v, DFTAG_VG, (uint16)M.g[o].ref);
            break;
        }
        case O_DELTR: {
            int present = count_member(v, (uint16)op->a[1], (uint16)op->a[2]);
            int r       = Vdeletetagref(v->id, op->a[1], op->a[2]);
            if (!present) {
                if (r != FAIL) {
                    mc_violation("deletetagref:absent-accepted", "Vdeletetagref of a non-member succeeded");
                    return 1;
                }
                break;
            }
            if (r == FAIL) {
                mc_violation("deletetagref:failed", "Vdeletetagref(%d,%d) of a member failed", op->a[1], op->a[2]);
                return 1;
            }
            for (int i = 0; i < v->nm; i++)
                if (v->tag[i] == op->a[1] && v->mref[i] == op->a[2]) {
                    memmove(&v->tag[i], &v->tag[i + 1], (size_t)(v->nm - i - 1) * sizeof v->tag[0]);
                    memmove(&v->mref[i], &v->mref[i + 1], (size_t)(v->nm - i - 1) * sizeof v->mref[0]);
                    v->nm--;
                    break;
                }
            break;
        }
        case O_GROW: {
            /* macro: bring the member count to op->a[1] with distinct plain tag/refs */
            while (v->nm < op->a[1]) {
                if (Vaddtagref(v->id, 101, 1000 + v->nm) == FAIL) {
                    mc_violation("addtagref:failed", "Vaddtagref failed while growing to %d members (at %d)", op->a[1], v->nm);
                    return 1;
                }
                model_add(v, 101, (uint16)(1000 + v->nm));
            }
            break;
        }
        case O_VDELETE:
            if (Vdelete(fid, v->ref) == FAIL) {
                if (M.readonly)
                    break;
                mc_violation("vdelete:failed", "Vdelete(ref %d) failed", (int)v->ref);
                return 1;
            }
            if (M.readonly) {
                mc_violation("vdelete:readonly-accepted", "Vdelete succeeded on a read-only file");
                return 1;
            }
            v->exists = 0;
            v->nm     = 0;
            break;
        case O_VSDELETE: {
            int d = op->a[0];
            if (VSdelete(fid, M.dref[d]) == FAIL) {
                if (M.readonly)
                    break;
                mc_violation("vsdelete:failed", "VSdelete failed");
                return 1;
            }
            if (M.readonly) {
                mc_violation("vsdelete:readonly-accepted", "VSdelete succeeded on a read-only file");
                return 1;
            }
            M.dexists[d] = 0;
            break;
        }
        case O_HDEL:
            /* the plain element (100,1) disappears: members referring to it dangle, which the format allows */
            if (Hdeldd(fid, 100, 1) == FAIL) {
                mc_violation("hdeldd:failed", "Hdeldd(100,1) failed");
                return 1;
            }
            M.elem_exists[0] = 0;
            break;
        case O_REOPEN:
            if (Vend(fid) == FAIL || Hclose(fid) == FAIL) {
                mc_violation("close:failed", "Vend/Hclose failed with nothing attached");
                return 1;
            }
            fid = Hopen(PATH, op->a[0] ? DFACC_RDWR : DFACC_READ, 0);
            if (fid == FAIL || Vstart(fid) == FAIL) {
                mc_violation("reopen:failed", "reopen failed");
                return 1;
            }
            M.readonly = !op->a[0];
            break;
    }
    char where[48];
    snprintf(where, sizeof where, "after %s", opname[op->code]);
    return observe(where);
}

static int
enum_ops(mc_op *out, int max)
{
    int n = 0;
#define ADD(c, a0, a1, a2)                                                                                                           \
    do {                                                                                                                             \
        if (n < max) {                                                                                                               \
            memset(&out[n], 0, sizeof out[n]);                                                                                       \
            out[n].code = c;                                                                                                         \
            out[n].a[0] = a0, out[n].a[1] = a1, out[n].a[2] = a2;                                                                    \
            n++;                                                                                                                     \
        }                                                                                                                            \
    } while (0)
    int thorough = mc_is_thorough();
    int anyatt   = 0;
    for (int g = 0; g < NG; g++)
        anyatt |= M.g[g].exists && M.g[g].attached;
    /* a new vgroup in the first free slot */
    if (!M.readonly)
        for (int g = 0; g < NG; g++)
            if (!M.g[g].exists && !M.g[g].ref) {
                ADD(O_NEW, g, 0, 0);
                break;
            }
    for (int g = 0; g < NG; g++) {
        vg_t *v = &M.g[g];
        if (!v->exists)
            continue;
        if (!v->attached) {
            ADD(O_ATTACH, g, 0, 0);
            ADD(O_ATTACH, g, 1, 0);
            if (!M.readonly)
                ADD(O_VDELETE, g, 0, 0);
            continue;
        }
        ADD(O_DETACH, g, 0, 0);
        if (v->attached != 'w')
            continue;
        /* names: one shorter and the lengths around the legacy 64-byte limit */
        ADD(O_SETNAME, g, 1, 0);
        ADD(O_SETNAME, g, 65, 0);
        ADD(O_SETCLASS, g, 64, 0);
        if (thorough) {
            ADD(O_SETNAME, g, 63, 0);
            ADD(O_SETNAME, g, 64, 0);
            ADD(O_SETNAME, g, 300, 0);
            ADD(O_SETCLASS, g, 1, 0);
            ADD(O_SETCLASS, g, 65, 0);
            ADD(O_SETCLASS, g, 300, 0);
        }
        if (v->nm < MAXM - 2) {
            ADD(O_ADD, g, 100, 1);
            ADD(O_ADD, g, 100, 2);
            /* a member of another tag under the reference number of a Vdata / Vgroup that can be inserted as well */
            if (M.dexists[0] && count_member(v, 1000, (uint16)M.dref[0]) == 0)
                ADD(O_ADD, g, 1000, M.dref[0]);
            for (int o = 0; o < NG; o++)
                if (o != g && M.g[o].exists && count_member(v, 1000, (uint16)M.g[o].ref) == 0) {
                    ADD(O_ADD, g, 1000, M.g[o].ref);
                    break;
                }
            if (M.dexists[0])
                ADD(O_INSERT_VS, g, 0, 0);
            if (thorough && M.dexists[1])
                ADD(O_INSERT_VS, g, 1, 0);
            for (int o = 0; o < NG; o++)
                if (o != g && M.g[o].exists)
                    ADD(O_INSERT_VG, g, o, 0);
            if (v->nm < 63)
                ADD(O_GROW, g, 63, 0);
            else if (v->nm < 127 && thorough)
                ADD(O_GROW, g, 127, 0);
        }
        ADD(O_DELTR, g, 100, 1);
        ADD(O_DELTR, g, 100, 3); /* never a member */
        if (v->nm > 0)
            ADD(O_DELTR, g, v->tag[v->nm - 1], v->mref[v->nm - 1]);
        if (v->nm > 2)
            ADD(O_DELTR, g, v->tag[1], v->mref[1]);
    }
    if (!M.readonly) {
        if (M.dexists[0])
            ADD(O_VSDELETE, 0, 0, 0);
        if (M.elem_exists[0])
            ADD(O_HDEL, 0, 0, 0);
    }
    if (!anyatt) {
        ADD(O_REOPEN, 1, 0, 0);
        ADD(O_REOPEN, 0, 0, 0);
    }
    return n;
}

static int
dev_cost(const mc_op *op)
{
    return op->code == O_REOPEN || op->code == O_HDEL || op->code == O_VSDELETE;
}

static void
fmt_op(const mc_op *op, char *buf, size_t n)
{
    switch (op->code) {
        case O_ATTACH: snprintf(buf, n, "attach(G%d,%s)", op->a[0], op->a[1] ? "w" : "r"); break;
        case O_SETNAME:
        case O_SETCLASS: snprintf(buf, n, "%s(G%d,len %d)", opname[op->code], op->a[0], op->a[1]); break;
        case O_ADD:
        case O_DELTR: snprintf(buf, n, "%s(G%d,%d,%d)", opname[op->code], op->a[0], op->a[1], op->a[2]); break;
        case O_INSERT_VS: snprintf(buf, n, "insert(G%d,vdata%d)", op->a[0], op->a[1]); break;
        case O_INSERT_VG: snprintf(buf, n, "insert(G%d,G%d)", op->a[0], op->a[1]); break;
        case O_GROW: snprintf(buf, n, "grow(G%d,to %d members)", op->a[0], op->a[1]); break;
        case O_REOPEN: snprintf(buf, n, "reopen(%s)", op->a[0] ? "RDWR" : "READ"); break;
        case O_VSDELETE: snprintf(buf, n, "VSdelete(vdata%d)", op->a[0]); break;
        case O_HDEL: snprintf(buf, n, "Hdeldd(100,1)"); break;
        default: snprintf(buf, n, "%s(G%d)", opname[op->code], op->a[0]);
    }
}

static uint64_t
key(void)
{
    uint64_t h = MC_H0;
    h          = mc_hash_i(h, M.ndds * 2 + M.readonly);
    for (int g = 0; g < NG; g++) {
        vg_t *v = &M.g[g];
        h       = mc_hash_i(h, v->exists * 1000 + v->attached);
        h       = mc_hash_i(h, v->ref);
        if (!v->exists)
            continue;
        h = mc_hash_i(h, v->namelen * 1000 + v->classlen);
        h = mc_hash(h, v->tag, (size_t)v->nm * sizeof v->tag[0]);
        h = mc_hash(h, v->mref, (size_t)v->nm * sizeof v->mref[0]);
    }
    h = mc_hash_i(h, M.dexists[0] * 4 + M.dexists[1] * 2 + M.elem_exists[0]);
    h = mc_hash_i(h, (long)vfs_hash_all());
    return h;
}

static void
terminal(void)
{
    for (int g = 0; g < NG; g++)
        if (M.g[g].exists && M.g[g].attached) {
            if (Vdetach(M.g[g].id) == FAIL)
                mc_violation("terminal:detach", "Vdetach failed");
            M.g[g].attached = 0;
        }
    if (Vend(fid) == FAIL || Hclose(fid) == FAIL) {
        mc_violation("terminal:close", "Vend/Hclose failed");
        return;
    }
    vfile *vf = vfs_lookup(PATH);
    long   sz;
    uint8 *bytes = vfs_dup_bytes(vf, &sz);
    fc_file fc;
    memset(&fc, 0, sizeof fc);
    if (fc_parse(&fc, bytes, sz) != 0)
        mc_violation("terminal:format", "closed file is not well-formed: %s", fc.err[0]);
    fc_free(&fc);
    free(bytes);
    fid = Hopen(PATH, DFACC_READ, 0);
    if (fid == FAIL || Vstart(fid) == FAIL) {
        mc_violation("terminal:reopen", "reopen failed");
        return;
    }
    M.readonly = 1;
    observe("after detach, close and reopen");
    int big = 0;
    for (int g = 0; g < NG; g++)
        if (M.g[g].exists && M.g[g].nm > 64)
            big = 1;
    if (big)
        mc_count("vgroups_beyond_64_members_persisted", 1);
    Vend(fid);
    Hclose(fid);
}

static int
setup(int ndds)
{
    memset(&M, 0, sizeof M);
    M.ndds = ndds;
    vfs_remove_file(PATH);
    fid = Hopen(PATH, DFACC_CREATE, (int16)ndds);
    if (fid == FAIL || Vstart(fid) == FAIL)
        return -1;
    uint8 d[4] = {1, 2, 3, 4};
    for (int e = 0; e < 2; e++) {
        if (Hputelement(fid, 100, (uint16)(e + 1), d, 4) != 4)
            return -1;
        M.elem_exists[e] = 1;
    }
    for (int k = 0; k < ND; k++) {
        int32 vs = VSattach(fid, -1, "w");
        int16 v[2] = {5, 6};
        if (vs == FAIL || VSsetname(vs, k ? "vd1" : "vd0") == FAIL || VSfdefine(vs, "x", DFNT_INT16, 1) == FAIL || VSsetfields(vs, "x") == FAIL ||
            VSwrite(vs, (uint8 *)v, 2, FULL_INTERLACE) != 2)
            return -1;
        M.dref[k]    = VSQueryref(vs);
        M.dexists[k] = 1;
        VSdetach(vs);
    }
    M.nops = 0;
    return observe("start state") ? -1 : 0;
}

typedef struct {
    int ndds, depth, dev;
} cfg_t;
static mc_harness H = {enum_ops, apply, key, terminal, fmt_op, dev_cost};

static void
root(void *arg)
{
    cfg_t *c = arg;
    int    cfg[1] = {c->ndds};
    mc_set_config(cfg, 1, "ndds=%d", c->ndds);
    if (setup(c->ndds)) {
        mc_violation("prologue", "prologue failed or start state disagrees with the model");
        return;
    }
    mc_explore(&H, c->depth, c->dev);
}

int
C08_main(const char *tier, const char *replay)
{
    if (replay) {
        int   cfg[32], ncfg, nops;
        mc_op ops[MC_MAXDEPTH];
        if (mc_load_replay(replay, cfg, &ncfg, ops, &nops, MC_MAXDEPTH) || ncfg < 1)
            return 2;
        mc_set_config(cfg, 1, "ndds=%d", cfg[0]);
        printf("replay C08: ndds=%d, %d ops\n", cfg[0], nops);
        if (setup(cfg[0]))
            return 0;
        mc_replay_ops(&H, ops, nops);
        return 0;
    }
    int          thorough = strcmp(tier, "thorough") == 0;
    static cfg_t cfgs[4];
    int          dmax = thorough ? 7 : 5;
    for (int depth = thorough ? 4 : dmax; depth <= dmax; depth++) {
        char label[48];
        snprintf(label, sizeof label, "depth %d", depth);
        mc_round_begin(label);
        cfgs[0] = (cfg_t){4, depth, thorough ? 2 : 1};
        cfgs[1] = (cfg_t){16, depth, thorough ? 2 : 1};
        for (int i = 0; i < 2; i++)
            mc_spawn_root(root, &cfgs[(i + mc_seed()) % 2], 2);
        mc_wait_roots();
        mc_round_end();
        if (mc_deadline_hit())
            break;
    }
    return 0;
}
