/* C09 - raster images and palettes round-trip for every region, interlace and type.
 * Case enumeration: (dims, ncomp, type, creation interlace, storage, fill) x histories of <=2 region writes (every arithmetic
 * progression per axis) x every region read in all three read interlaces, against an h x w x c array model. */
#include "../engine/mc.h"
#include "../engine/vfs.h"
#include "hdf.h"
#include <stdio.h>
#include <stdlib.h>
#include <string.h>

#define PATH "/vmem/gr.hdf"
#define MAXX 4
#define MAXC 4

enum { S_PLAIN, S_RLE, S_DEFLATE, S_SKPHUFF, S_CHUNK, S_CHUNKDEFLATE };
static const char *SNAME[] = {"plain", "rle", "deflate", "skphuff", "chunked", "chunked+deflate"};
static const char *ILN[]   = {"pixel", "line", "component"};

typedef struct {
    int   xd, yd, nc;
    int32 nt;
    int   es;
    int   il; /* creation interlace */
    int   storage, cx, cy;
    int   fillset;
    int   cache;
} gcfg;

typedef struct {
    int sx, tx, cx, sy, ty, cy, nullstride;
} reg;

static int g_comp_rewrite; /* a non-chunked compressed raster was written a second time: recorded defect */
static int g_first_strided; /* the first write to the new (plain) image was a sub-sampled one: recorded fill defect */
static struct {
    gcfg  c;
    uint8 v[MAXX][MAXX][MAXC][8]; /* [y][x][comp] */
    uint8 st[MAXX][MAXX];
    uint8 fill[MAXC][8];
    int   any;
    int   cur_il; /* interlace the library currently reports for the image (write-side buffer layout) */
} G;
static int32 fid = FAIL, gr = FAIL, ri = FAIL;
static char  g_hist[400];
static reg  *RG;
static int   NRG;

static void
cfg_fmt(char *b, size_t n)
{
    const gcfg *c = &G.c;
    size_t      o = (size_t)snprintf(b, n, "%dx%d ncomp=%d nt=%d il=%s storage=%s fill=%s", c->xd, c->yd, c->nc, (int)c->nt, ILN[c->il], SNAME[c->storage],
                                c->fillset ? "set" : "default");
    if (c->storage >= S_CHUNK)
        snprintf(b + o, n - o, " chunk=%dx%d cache=%d", c->cx, c->cy, c->cache);
}
static void
reg_fmt(const reg *r, char *b, size_t n)
{
    snprintf(b, n, "[x %d:%d:%d, y %d:%d:%d]%s", r->sx, r->tx, r->cx, r->sy, r->ty, r->cy, r->nullstride ? "(stride NULL)" : "");
}

/* position of (row j, col i, comp c) of a cw x ch region in a buffer of interlace il, in elements */
static int
bufpos(int il, int cw, int ch, int nc, int i, int j, int c)
{
    switch (il) {
        case MFGR_INTERLACE_PIXEL: return (j * cw + i) * nc + c;
        case MFGR_INTERLACE_LINE: return (j * nc + c) * cw + i;
        default: return (c * ch + j) * cw + i;
    }
}

static void
cellval(int wseq, int x, int y, int c, uint8 *out)
{
    for (int b = 0; b < G.c.es; b++)
        out[b] = (uint8)(0x31 + wseq * 53 + (y * MAXX + x) * 11 + c * 5 + b * 3);
    if (G.c.nt == DFNT_FLOAT32 || G.c.nt == DFNT_FLOAT64)
        out[G.c.es - 1] = (uint8)(0x40 | (out[G.c.es - 1] & 0x0F));
}

static int
open_image(const gcfg *c)
{
    memset(&G, 0, sizeof G);
    G.c = *c;
    vfs_remove_file(PATH);
    fid = Hopen(PATH, DFACC_CREATE, 16);
    if (fid == FAIL)
        return -1;
    gr = GRstart(fid);
    if (gr == FAIL)
        return -1;
    int32 dims[2] = {c->xd, c->yd};
    ri            = GRcreate(gr, "img", c->nc, c->nt, c->il, dims);
    if (ri == FAIL)
        return -2;
    G.cur_il = c->il;
    if (c->fillset) {
        uint8 fv[MAXC * 8];
        for (int k = 0; k < c->nc; k++)
            for (int b = 0; b < c->es; b++) {
                G.fill[k][b] = (uint8)(0x61 + k * 9 + b);
                if ((c->nt == DFNT_FLOAT32 || c->nt == DFNT_FLOAT64) && b == c->es - 1)
                    G.fill[k][b] = 0x41;
                fv[k * c->es + b] = G.fill[k][b];
            }
        if (GRsetattr(ri, FILL_ATTR, c->nt, c->nc, fv) == FAIL)
            return -3;
    }
    comp_info     ci;
    HDF_CHUNK_DEF cd;
    memset(&ci, 0, sizeof ci);
    memset(&cd, 0, sizeof cd);
    switch (c->storage) {
        case S_RLE:
            if (GRsetcompress(ri, COMP_CODE_RLE, &ci) == FAIL)
                return -4;
            break;
        case S_DEFLATE:
            ci.deflate.level = 6;
            if (GRsetcompress(ri, COMP_CODE_DEFLATE, &ci) == FAIL)
                return -4;
            break;
        case S_SKPHUFF:
            ci.skphuff.skp_size = c->es;
            if (GRsetcompress(ri, COMP_CODE_SKPHUFF, &ci) == FAIL)
                return -4;
            break;
        case S_CHUNK:
            cd.chunk_lengths[0] = c->cx, cd.chunk_lengths[1] = c->cy;
            if (GRsetchunk(ri, cd, HDF_CHUNK) == FAIL)
                return -4;
            break;
        case S_CHUNKDEFLATE:
            cd.comp.chunk_lengths[0] = c->cx, cd.comp.chunk_lengths[1] = c->cy;
            cd.comp.comp_type                = COMP_CODE_DEFLATE;
            cd.comp.cinfo.deflate.level      = 6;
            if (GRsetchunk(ri, cd, HDF_CHUNK | HDF_COMP) == FAIL)
                return -4;
            break;
    }
    if (c->storage >= S_CHUNK && c->cache > 0)
        GRsetchunkcache(ri, c->cache, 0);
    return 0;
}

static int
reopen_image(int rdonly)
{
    if (GRendaccess(ri) == FAIL || GRend(gr) == FAIL || Hclose(fid) == FAIL)
        return -1;
    fid = Hopen(PATH, rdonly ? DFACC_READ : DFACC_RDWR, 0);
    gr  = fid == FAIL ? FAIL : GRstart(fid);
    int32 idx = gr == FAIL ? FAIL : GRnametoindex(gr, "img");
    ri        = idx == FAIL ? FAIL : GRselect(gr, idx);
    if (ri == FAIL)
        return -1;
    if (G.c.storage >= S_CHUNK && G.c.cache > 0)
        GRsetchunkcache(ri, G.c.cache, 0);
    return 0;
}

static void
close_image(void)
{
    if (ri != FAIL)
        GRendaccess(ri);
    if (gr != FAIL)
        GRend(gr);
    if (fid != FAIL)
        Hclose(fid);
    ri = gr = fid = FAIL;
}

static int
check_info(const char *phase)
{
    char  name[80];
    int32 nc = -1, nt = -1, il = -1, dims[2] = {-1, -1}, nattr = -1;
    if (GRgetiminfo(ri, name, &nc, &nt, &il, dims, &nattr) == FAIL || nc != G.c.nc || nt != G.c.nt || dims[0] != G.c.xd || dims[1] != G.c.yd ||
        strcmp(name, "img") != 0) {
        mc_violation("iminfo", "%s: GRgetiminfo reports name %s ncomp %d nt %d dims %dx%d [%s]", phase, name, (int)nc, (int)nt, (int)dims[0], (int)dims[1], g_hist);
        return 1;
    }
    G.cur_il = il; /* observed, not required to persist (rasters are stored pixel-interlaced) */
    if (GRnametoindex(gr, "img") != 0 || GRreftoindex(gr, GRidtoref(ri)) != 0) {
        mc_violation("lookup", "%s: GRnametoindex/GRreftoindex do not lead back to the image [%s]", phase, g_hist);
        return 1;
    }
    return 0;
}

static int
do_write(const reg *r, int wseq)
{
    static uint8 buf[MAXX * MAXX * MAXC * 8];
    int32        st[2] = {r->sx, r->sy}, sr[2] = {r->tx, r->ty}, cn[2] = {r->cx, r->cy};
    for (int j = 0; j < r->cy; j++)
        for (int i = 0; i < r->cx; i++)
            for (int c = 0; c < G.c.nc; c++)
                cellval(wseq, r->sx + i * r->tx, r->sy + j * r->ty, c, buf + (size_t)bufpos(G.cur_il, r->cx, r->cy, G.c.nc, i, j, c) * G.c.es);
    char rb[80];
    reg_fmt(r, rb, sizeof rb);
    if (GRwriteimage(ri, st, r->nullstride ? NULL : sr, cn, buf) == FAIL) {
        mc_violation("write:failed", "GRwriteimage%s failed [%s]", rb, g_hist);
        return 1;
    }
    for (int j = 0; j < r->cy; j++)
        for (int i = 0; i < r->cx; i++) {
            int x = r->sx + i * r->tx, y = r->sy + j * r->ty;
            for (int c = 0; c < G.c.nc; c++)
                cellval(wseq, x, y, c, G.v[y][x][c]);
            G.st[y][x] = 1;
        }
    G.any = 1;
    return 0;
}

static int
check_read(const reg *r, int il, const char *phase)
{
    static uint8 got[MAXX * MAXX * MAXC * 8 + 16];
    int32        st[2] = {r->sx, r->sy}, sr[2] = {r->tx, r->ty}, cn[2] = {r->cx, r->cy};
    int          n = r->cx * r->cy * G.c.nc * G.c.es;
    char         rb[80], sig[96];
    reg_fmt(r, rb, sizeof rb);
    if (GRreqimageil(ri, il) == FAIL) {
        mc_violation("reqimageil:failed", "GRreqimageil(%s) failed [%s]", ILN[il], g_hist);
        return 1;
    }
    memset(got, 0xEE, (size_t)n + 8);
    if (GRreadimage(ri, st, r->nullstride ? NULL : sr, cn, got) == FAIL) {
        if (g_first_strided) {
            mc_violation("fill:first-write-strided", "%s: after a sub-sampled first write to a new image GRreadimage%s fails: the fill pass left the raster short [%s]",
                         phase, rb, g_hist);
            return 1;
        }
        mc_violation("read:failed", "%s: GRreadimage%s (buffer interlace %s) failed [%s]", phase, rb, ILN[il], g_hist);
        return 1;
    }
    for (int j = 0; j < r->cy; j++)
        for (int i = 0; i < r->cx; i++) {
            int x = r->sx + i * r->tx, y = r->sy + j * r->ty;
            for (int c = 0; c < G.c.nc; c++) {
                const uint8 *g = got + (size_t)bufpos(il, r->cx, r->cy, G.c.nc, i, j, c) * G.c.es;
                const uint8 *e = G.st[y][x] ? G.v[y][x][c] : G.fill[c];
                if (memcmp(g, e, (size_t)G.c.es) != 0 && g_comp_rewrite) {
                    mc_violation("compressed:rewrite-ignored", "%s: after a second whole-image GRwriteimage on a non-chunked compressed raster pixel (x %d, y %d) still "
                                                              "reads %02x.., the rewrite gave %02x.. [%s]", phase, x, y, g[0], e[0], g_hist);
                    return 1;
                }
                if (memcmp(g, e, (size_t)G.c.es) != 0 && g_first_strided) {
                    mc_violation("fill:first-write-strided", "%s: after a sub-sampled first write to a new image pixel (x %d, y %d) reads %02x.., expected %02x.. (%s) [%s]",
                                 phase, x, y, g[0], e[0], G.st[y][x] ? "last written" : "fill value", g_hist);
                    return 1;
                }
                if (memcmp(g, e, (size_t)G.c.es) != 0) {
                    int strided = !r->nullstride && (r->tx != 1 || r->ty != 1) && (r->cx > 1 || r->cy > 1);
                    snprintf(sig, sizeof sig, "read:%s:%s%s", G.st[y][x] ? "value" : "fill", il == MFGR_INTERLACE_PIXEL ? "pixel" : "converted", strided ? ":strided" : "");
                    mc_violation(sig, "%s: GRreadimage%s as %s-interlaced buffer: pixel (x %d, y %d) component %d reads %02x%02x.., expected %02x%02x.. (%s) [%s]",
                                 phase, rb, ILN[il], x, y, c, g[0], G.c.es > 1 ? g[1] : 0, e[0], G.c.es > 1 ? e[1] : 0, G.st[y][x] ? "last written" : "fill value",
                                 g_hist);
                    return 1;
                }
            }
        }
    if (got[n] != 0xEE) {
        mc_violation("read:overrun", "%s: GRreadimage%s wrote past the caller's buffer [%s]", phase, rb, g_hist);
        return 1;
    }
    return 0;
}

static void
whole(reg *r)
{
    r->sx = r->sy = 0, r->tx = r->ty = 1, r->cx = G.c.xd, r->cy = G.c.yd, r->nullstride = 0;
}

static void
enum_regions(void)
{
    int apx[32][3], nx = 0, apy[32][3], ny = 0;
    for (int axis = 0; axis < 2; axis++) {
        int n = axis ? G.c.yd : G.c.xd, (*ap)[3] = axis ? apy : apx, *na = axis ? &ny : &nx;
        for (int s = 0; s < n; s++)
            for (int c = 1; s + c - 1 < n; c++)
                for (int t = 1; t <= (c == 1 ? 1 : 3) && s + (c - 1) * t < n; t++) {
                    ap[*na][0] = s, ap[*na][1] = t, ap[*na][2] = c;
                    (*na)++;
                }
    }
    RG  = realloc(RG, (size_t)(nx * ny + 2) * sizeof *RG);
    NRG = 0;
    for (int a = 0; a < nx; a++)
        for (int b = 0; b < ny; b++)
            RG[NRG++] = (reg){apx[a][0], apx[a][1], apx[a][2], apy[b][0], apy[b][1], apy[b][2], 0};
    reg w;
    whole(&w);
    w.nullstride = 1;
    RG[NRG++]    = w;
}

static long g_nhist;
static int
run_history(const gcfg *c, const int *w, int nw, int cut, int readall)
{
    int rc = open_image(c);
    char cb[160];
    cfg_fmt(cb, sizeof cb);
    if (rc) {
        char sig[48];
        snprintf(sig, sizeof sig, "setup:%d", rc);
        mc_violation(sig, "creating the image / requesting its storage failed (step %d) [%s]", rc, cb);
        close_image();
        return 1;
    }
    size_t o = (size_t)snprintf(g_hist, sizeof g_hist, "%s; writes:", cb);
    for (int i = 0; i < nw; i++) {
        char rb[80];
        reg_fmt(&RG[w[i]], rb, sizeof rb);
        o += (size_t)snprintf(g_hist + o, sizeof g_hist - o, " %s%s", rb, cut == i + 1 ? " |GRend/reopen|" : "");
    }
    g_nhist++;
    int bad = 0;
    g_first_strided = (c->storage == S_PLAIN && nw > 0 && !RG[w[0]].nullstride &&
                       ((RG[w[0]].tx > 1 && RG[w[0]].cx > 1) || (RG[w[0]].ty > 1 && RG[w[0]].cy > 1)));
    int compressed = c->storage == S_RLE || c->storage == S_DEFLATE || c->storage == S_SKPHUFF;
    g_comp_rewrite = compressed && nw > 1;
    for (int i = 0; i < nw && !bad; i++) {
        bad = do_write(&RG[w[i]], i + 1);
        if (!bad && compressed) {
            /* reading through the handle that has just written a non-chunked compressed raster: recorded deviation; then reselect */
            reg all0;
            whole(&all0);
            static uint8 probe[MAXX * MAXX * MAXC * 8];
            int32        st0[2] = {0, 0}, cn0[2] = {c->xd, c->yd};
            int          ok = GRreqimageil(ri, G.cur_il) != FAIL && GRreadimage(ri, st0, NULL, cn0, probe) != FAIL;
            for (int y = 0; ok && y < c->yd; y++)
                for (int x = 0; ok && x < c->xd; x++)
                    for (int k = 0; ok && k < c->nc; k++)
                        if (memcmp(probe + (size_t)bufpos(G.cur_il, c->xd, c->yd, c->nc, x, y, k) * c->es, G.v[y][x][k], (size_t)c->es) != 0)
                            ok = 0;
            if (!ok) {
                mc_violation("compressed:read-through-writing-handle", "GRreadimage directly after GRwriteimage on a non-chunked compressed raster (no GRendaccess in "
                                                                    "between) does not return the pixels just written [%s]", g_hist);
                mc_count("compressed_read_through_writing_handle_wrong", 1);
            }
            if (GRendaccess(ri) == FAIL || (ri = GRselect(gr, 0)) == FAIL) {
                mc_violation("reselect:failed", "GRendaccess/GRselect failed [%s]", g_hist);
                bad = 1;
            }
        }
        if (!bad && cut == i + 1) {
            if (reopen_image(0)) {
                mc_violation("reopen:failed", "GRend/Hclose/reopen between writes failed [%s]", g_hist);
                bad = 1;
            }
            else
                bad = check_info("after reopen");
        }
    }
    reg all;
    whole(&all);
    for (int phase = 0; phase < 2 && !bad; phase++) {
        const char *pn = phase ? "after GRend/reopen" : "same session";
        if (phase == 1) {
            if (reopen_image(1)) {
                mc_violation("reopen:failed", "GRend/Hclose/reopen(read-only) failed [%s]", g_hist);
                bad = 1;
                break;
            }
        }
        bad = check_info(pn);
        for (int il = 0; il < 3 && !bad; il++)
            bad = check_read(&all, il, pn);
        if (!bad && readall && phase == 0)
            for (int r = 0; r < NRG && !bad; r++)
                bad = check_read(&RG[r], (r + nw) % 3, pn);
        if (!bad && readall && phase == 1)
            for (int r = 0; r < NRG && !bad; r += 3)
                bad = check_read(&RG[r], r % 3, pn);
    }
    close_image();
    return bad;
}

static void
run_config(const gcfg *c, int deep)
{
    memset(&G, 0, sizeof G);
    G.c = *c;
    enum_regions();
    int w[2] = {0, 0};
    /* no write at all (plain and chunked storage, where partial writing is supported and never-written pixels are
       defined to be the fill value): every read of the new image returns the fill pixel, in every requested interlace */
    if (!(c->storage == S_RLE || c->storage == S_DEFLATE || c->storage == S_SKPHUFF) && run_history(c, w, 0, 0, 1))
        return;
    if (c->storage == S_RLE || c->storage == S_DEFLATE || c->storage == S_SKPHUFF) {
        /* non-chunked compressed rasters: whole-image writes only (coder contract), once and rewritten */
        int wh[2] = {-1, -1};
        for (int r = 0; r < NRG; r++)
            if (RG[r].sx == 0 && RG[r].sy == 0 && RG[r].cx == c->xd && RG[r].cy == c->yd && (RG[r].nullstride || (RG[r].tx == 1 && RG[r].ty == 1)))
                wh[wh[0] < 0 ? 0 : 1] = r;
        /* the first write to the new image may be any region: the rest of the raster is laid down as fill pixels with it */
        for (int a = 0; a < NRG; a++) {
            if (a == wh[0] || a == wh[1])
                continue;
            if (!RG[a].nullstride && ((RG[a].tx > 1 && RG[a].cx > 1) || (RG[a].ty > 1 && RG[a].cy > 1)))
                continue; /* sub-sampled first writes: recorded separately for plain storage (F31) */
            w[0] = a;
            if (run_history(c, w, 1, 0, 1))
                return;
        }
        for (int i = 0; i < 2; i++) {
            if (wh[i] < 0)
                continue;
            w[0] = wh[i];
            if (run_history(c, w, 1, 0, 1))
                return;
            w[1] = wh[1 - i] >= 0 ? wh[1 - i] : wh[i];
            if (run_history(c, w, 2, i, 1))
                return;
        }
        return;
    }
    for (int a = 0; a < NRG; a++) {
        w[0] = a;
        if (run_history(c, w, 1, 0, 1))
            return;
    }
    int step = deep ? 1 : (NRG <= 16 ? 1 : NRG <= 60 ? 3 : 13);
    for (int a = 0; a < NRG; a++)
        for (int b = (a * 5) % step; b < NRG; b += step) {
            w[0] = a, w[1] = b;
            int code = a * NRG + b;
            if (run_history(c, w, 2, code % 3 == 0, code % 7 == 0))
                return;
        }
}

/* ------------------------------------------------------------------ whole-chunk reads of chunked images (decided for C04) */
/* Square images in square chunks (so that a chunk is the same set of pixels for the chunk layer and for a region read):
   every chunk read whole with GRreadchunk in each requested interlace agrees with the pixels written and with GRreadimage of
   the same region - in the writing session, after reopening read-write and after reopening read-only. */
void
C09_grchunk_case(long idx, void *ctx)
{
    (void)ctx;
    static const int NM[][2] = {{4, 2}, {6, 3}, {5, 2}, {5, 3}, {4, 3}}; /* image side, chunk side */
    int geo = (int)(idx % 5), nc = (idx / 5 % 2) ? 3 : 1, wide = (int)(idx / 10 % 2), cil = (int)(idx / 20 % 3), mode = (int)(idx / 60 % 3), comp = (int)(idx / 180 % 2);
    int n = NM[geo][0], m = NM[geo][1], es = wide ? 2 : 1;
    int cfg[7] = {-6, geo, nc, wide, cil, mode, comp};
    mc_set_config(cfg, 7, "GR whole-chunk reads");
    static const char *MN[] = {"in the writing session", "after reopening read-write", "after reopening read-only"};
    mc_set_case("%dx%d image, %d component(s) of %d byte(s), created %s-interlaced, %dx%d chunks%s: every chunk read whole in every interlace %s", n, n, nc, es, ILN[cil], m, m,
                comp ? " (deflate)" : "", MN[mode]);
    vfs_remove_file(PATH);
    int32 f = Hopen(PATH, DFACC_CREATE, 16), g = GRstart(f), dims[2] = {n, n}, st[2] = {0, 0};
    int32 r = GRcreate(g, "img", nc, wide ? DFNT_UINT16 : DFNT_UINT8, cil, dims);
    HDF_CHUNK_DEF cd;
    memset(&cd, 0, sizeof cd);
    if (comp) {
        cd.comp.chunk_lengths[0] = cd.comp.chunk_lengths[1] = m;
        cd.comp.comp_type           = COMP_CODE_DEFLATE;
        cd.comp.cinfo.deflate.level = 6;
    }
    else
        cd.chunk_lengths[0] = cd.chunk_lengths[1] = m;
    if (f == FAIL || g == FAIL || r == FAIL || GRsetchunk(r, cd, comp ? (HDF_CHUNK | HDF_COMP) : HDF_CHUNK) == FAIL) {
        mc_violation("grchunk:setup", "creating the chunked image failed");
        return;
    }
    /* pixel (x,y) component k = model value; the write buffer is laid out in the image's own interlace */
    static uint8 model[8][8][4][2], wbuf[8 * 8 * 4 * 2], cbuf[8 * 8 * 4 * 2 + 16], rbuf[8 * 8 * 4 * 2 + 16];
    for (int y = 0; y < n; y++)
        for (int x = 0; x < n; x++)
            for (int k = 0; k < nc; k++) {
                model[y][x][k][0] = (uint8)(7 + y * 29 + x * 5 + k * 71);
                model[y][x][k][1] = (uint8)(0x40 + y + x * 3 + k);
                memcpy(wbuf + (size_t)bufpos(cil, n, n, nc, x, y, k) * es, model[y][x][k], (size_t)es);
            }
    if (GRwriteimage(r, st, NULL, dims, wbuf) == FAIL) {
        mc_violation("grchunk:write", "GRwriteimage of the whole image failed");
        return;
    }
    if (mode > 0) {
        if (GRendaccess(r) == FAIL || GRend(g) == FAIL || Hclose(f) == FAIL || (f = Hopen(PATH, mode == 1 ? DFACC_RDWR : DFACC_READ, 0)) == FAIL || (g = GRstart(f)) == FAIL ||
            (r = GRselect(g, 0)) == FAIL) {
            mc_violation("grchunk:reopen", "closing and reopening the file failed");
            return;
        }
    }
    int nch = (n + m - 1) / m;
    for (int ril = 0; ril < 3; ril++) {
        if (GRreqimageil(r, ril) == FAIL) {
            mc_violation("grchunk:reqimageil", "GRreqimageil(%s) failed", ILN[ril]);
            return;
        }
        for (int a = 0; a < nch; a++)
            for (int b = 0; b < nch; b++) {
                int32 org[2] = {a, b};
                memset(cbuf, 0xEE, sizeof cbuf);
                if (GRreadchunk(r, org, cbuf) == FAIL) {
                    char sig[64];
                    snprintf(sig, sizeof sig, "grchunk:readchunk-failed:%s", mode == 2 ? "read-only" : mode == 1 ? "read-write" : "same-session");
                    mc_violation(sig, "GRreadchunk of chunk (%d,%d) failed %s", a, b, MN[mode]);
                    return;
                }
                /* chunk (a,b) holds rows a*m.. (y) and columns b*m.. (x) */
                int cw = n - b * m < m ? n - b * m : m, ch = n - a * m < m ? n - a * m : m;
                for (int i = 0; i < ch; i++)
                    for (int j = 0; j < cw; j++)
                        for (int k = 0; k < nc; k++)
                            if (memcmp(cbuf + (size_t)bufpos(ril, m, m, nc, j, i, k) * es, model[a * m + i][b * m + j][k], (size_t)es)) {
                                mc_violation("grchunk:value", "GRreadchunk of chunk (%d,%d) with %s interlace requested: pixel (x %d, y %d) component %d reads %02x.., written %02x.. (%s)",
                                             a, b, ILN[ril], b * m + j, a * m + i, k, cbuf[(size_t)bufpos(ril, m, m, nc, j, i, k) * es], model[a * m + i][b * m + j][k][0], MN[mode]);
                                return;
                            }
                /* the same region through GRreadimage */
                int32 rs[2] = {b * m, a * m}, rc[2] = {cw, ch};
                memset(rbuf, 0xEE, sizeof rbuf);
                if (GRreadimage(r, rs, NULL, rc, rbuf) == FAIL) {
                    mc_violation("grchunk:readimage-failed", "GRreadimage of the region of chunk (%d,%d) failed %s", a, b, MN[mode]);
                    return;
                }
                for (int i = 0; i < ch; i++)
                    for (int j = 0; j < cw; j++)
                        for (int k = 0; k < nc; k++)
                            if (memcmp(rbuf + (size_t)bufpos(ril, cw, ch, nc, j, i, k) * es, model[a * m + i][b * m + j][k], (size_t)es)) {
                                mc_violation("grchunk:region-value", "GRreadimage of the region of chunk (%d,%d), %s interlace: pixel (x %d, y %d) component %d differs from what was written (%s)", a,
                                             b, ILN[ril], b * m + j, a * m + i, k, MN[mode]);
                                return;
                            }
                mc_count("gr_chunks_read_whole", 1);
            }
    }
    GRendaccess(r);
    GRend(g);
    Hclose(f);
    mc_outcome(mc_hash_i(mc_hash_i(MC_H0, -6), idx));
}

/* ------------------------------------------------------------------ palettes */
static void
lut_case(long idx, void *ctx)
{
    (void)ctx;
    int wil = (int)(idx % 3), ril = (int)((idx / 3) % 3), nent = ((idx / 9) % 2) ? 256 : 256;
    int cfg[2] = {-9, (int)idx};
    mc_set_config(cfg, 2, "palette case %ld", idx);
    mc_set_case("palette written %s-interlaced, read %s-interlaced", ILN[wil], ILN[ril]);
    vfs_remove_file(PATH);
    fid = Hopen(PATH, DFACC_CREATE, 16);
    gr  = GRstart(fid);
    int32 dims[2] = {2, 2};
    ri            = GRcreate(gr, "img", 1, DFNT_UINT8, MFGR_INTERLACE_PIXEL, dims);
    uint8 px[4]   = {1, 2, 3, 4};
    int32 st[2] = {0, 0};
    GRwriteimage(ri, st, NULL, dims, px);
    int32 lut = GRgetlutid(ri, 0);
    static uint8 pal[768], got[768 + 8], exp[768];
    /* logical palette: entry e component c */
    for (int e = 0; e < nent; e++)
        for (int c = 0; c < 3; c++) {
            uint8 v = (uint8)(e * 3 + c * 85 + 7);
            /* a palette is a raster one pixel wide and `nent` pixels high: line interlace coincides with pixel interlace */
            int   wp = wil != MFGR_INTERLACE_COMPONENT ? e * 3 + c : c * nent + e;
            int   rp = ril != MFGR_INTERLACE_COMPONENT ? e * 3 + c : c * nent + e;
            pal[wp] = v;
            exp[rp] = v;
        }
    if (lut == FAIL) {
        mc_violation("lut:getlutid", "GRgetlutid failed");
        return;
    }
    if (GRwritelut(lut, 3, DFNT_UINT8, wil, nent, pal) == FAIL) {
        /* only the standard pixel-interlaced 256x3 uint8 palette is documented as supported for writing */
        if (wil == MFGR_INTERLACE_PIXEL)
            mc_violation("lut:write", "GRwritelut(pixel) failed");
        else
            mc_count("lut_write_interlace_refused", 1);
        GRendaccess(ri);
        GRend(gr);
        Hclose(fid);
        return;
    }
    for (int phase = 0; phase < 2; phase++) {
        if (phase == 1) {
            GRendaccess(ri);
            GRend(gr);
            Hclose(fid);
            fid = Hopen(PATH, DFACC_READ, 0);
            gr  = GRstart(fid);
            ri  = GRselect(gr, 0);
            lut = GRgetlutid(ri, 0);
        }
        int32 nc = -1, nt = -1, il = -1, ne = -1;
        if (lut == FAIL || GRgetlutinfo(lut, &nc, &nt, &il, &ne) == FAIL || nc != 3 || (nt != DFNT_UINT8 && nt != DFNT_UCHAR8) || ne != nent) {
            mc_violation("lut:info", "%s: GRgetlutinfo reports ncomp %d nt %d entries %d", phase ? "after reopen" : "same session", (int)nc, (int)nt, (int)ne);
            return;
        }
        if (GRgetnluts(ri) != 1) {
            mc_violation("lut:count", "GRgetnluts=%d for an image with one palette", (int)GRgetnluts(ri));
            return;
        }
        memset(got, 0xEE, sizeof got);
        if (GRreqlutil(ri, ril) == FAIL || GRreadlut(lut, got) == FAIL) {
            mc_violation("lut:read", "GRreqlutil/GRreadlut failed");
            return;
        }
        if (memcmp(got, exp, (size_t)nent * 3) != 0) {
            int j = 0;
            while (got[j] == exp[j])
                j++;
            mc_violation("lut:value", "%s: palette written %s-interlaced, read %s-interlaced: buffer byte %d is %u, expected %u", phase ? "after reopen" : "same session",
                         ILN[wil], ILN[ril], j, got[j], exp[j]);
            return;
        }
        if (got[nent * 3] != 0xEE) {
            mc_violation("lut:overrun", "GRreadlut wrote past the palette");
            return;
        }
    }
    GRendaccess(ri);
    GRend(gr);
    Hclose(fid);
    mc_count("palette_cases", 1);
}

/* ------------------------------------------------------------------ plans */
static gcfg *PLAN;
static long  NPLAN;
static int   g_deep;
static void
add_plan(const gcfg *c)
{
    static long cap;
    if (NPLAN == cap) {
        cap  = cap ? cap * 2 : 1024;
        PLAN = realloc(PLAN, (size_t)cap * sizeof *PLAN);
    }
    PLAN[NPLAN++] = *c;
}

static void
plan_case(long idx, void *ctx)
{
    (void)ctx;
    gcfg *c = &PLAN[idx];
    int   cfg[12] = {c->xd, c->yd, c->nc, (int)c->nt, c->es, c->il, c->storage, c->cx, c->cy, c->fillset, c->cache, 0};
    memset(&G, 0, sizeof G);
    G.c = *c;
    char cb[160];
    cfg_fmt(cb, sizeof cb);
    mc_set_config(cfg, 11, "%s", cb);
    mc_set_case("%s", cb);
    g_nhist = 0;
    run_config(c, g_deep);
    mc_count("histories", g_nhist);
    mc_outcome(mc_hash(MC_H0, c, sizeof *c));
    if (idx % 41 == 0)
        mc_sample("%s: %ld histories (every region as single write, all regions read back in rotating buffer interlaces; pairs of writes; GRend/reopen cuts)", cb,
                  g_nhist);
}

int
C09_main(const char *tier, const char *replay)
{
    int thorough = strcmp(tier, "thorough") == 0;
    g_deep       = thorough;
    if (replay) {
        int   cfg[32], ncfg, nops;
        mc_op ops[4];
        if (mc_load_replay(replay, cfg, &ncfg, ops, &nops, 4) || ncfg < 2)
            return 2;
        if (cfg[0] == -9) {
            lut_case(cfg[1], NULL);
            return 0;
        }
        gcfg c = {cfg[0], cfg[1], cfg[2], cfg[3], cfg[4], cfg[5], cfg[6], cfg[7], cfg[8], cfg[9], cfg[10]};
        add_plan(&c);
        plan_case(0, NULL);
        return 0;
    }
    static const struct {
        int32 nt;
        int   es;
    } T[] = {{DFNT_UINT8, 1}, {DFNT_INT16, 2}, {DFNT_FLOAT32, 4}, {DFNT_INT8, 1}, {DFNT_INT32, 4}, {DFNT_FLOAT64, 8}};
    int ntypes = thorough ? 6 : 3;
    for (int xd = 1; xd <= 3; xd++)
        for (int yd = 1; yd <= 3; yd++)
            for (int nci = 0; nci < (thorough ? 4 : 2); nci++)
                for (int t = 0; t < ntypes; t++)
                    for (int il = 0; il < 3; il++) {
                        int nc = thorough ? nci + 1 : (nci ? 3 : 1);
                        if (nc == 1 && il > 0)
                            continue; /* interlace is immaterial for one component */
                        if (!thorough && t > 0 && (xd == 1 || yd == 1) && !(xd == 1 && yd == 1))
                            continue;
                        gcfg c;
                        memset(&c, 0, sizeof c);
                        c.xd = xd, c.yd = yd, c.nc = nc, c.nt = T[t].nt, c.es = T[t].es, c.il = il;
                        for (int fs = 0; fs < 2; fs++) {
                            c.fillset = fs;
                            c.storage = S_PLAIN;
                            add_plan(&c);
                            if (fs != (xd + yd + t) % 2 && !thorough)
                                continue;
                            for (int s = S_RLE; s <= S_SKPHUFF; s++) {
                                if (!thorough && s == S_SKPHUFF && t != 1)
                                    continue;
                                c.storage = s;
                                add_plan(&c);
                            }
                            for (int cx = 1; cx <= xd + 1; cx++)
                                for (int cy = 1; cy <= yd + 1; cy++) {
                                    if (!thorough && (cx + cy + il) % 2 && xd * yd > 2)
                                        continue;
                                    c.storage = S_CHUNK, c.cx = cx, c.cy = cy, c.cache = (cx + cy) % 2;
                                    add_plan(&c);
                                    if (thorough || (cx == 2 && cy == 2)) {
                                        c.storage = S_CHUNKDEFLATE;
                                        add_plan(&c);
                                    }
                                }
                            c.cx = c.cy = 0;
                        }
                    }
    mc_round_begin("every image configuration x region-write histories x region reads in all buffer interlaces");
    mc_foreach(NPLAN, plan_case, NULL, 1, 600);
    mc_round_end();
    mc_round_begin("palettes: 3 write interlaces x 3 read interlaces");
    mc_foreach(9, lut_case, NULL, 1, 120);
    mc_round_end();
    mc_count("evaluations", mc_get("histories") + 9);
    mc_rule("GR images of every size up to 3x3, ncomp %s, %d number types, created with each of the three interlaces, stored plain, RLE, deflate, skipping-Huffman, "
            "chunked with every chunk shape in [1,n+1]^2 and chunked+deflate, with and without a FillValue attribute. Per configuration: every region made of one "
            "arithmetic progression per axis (strides up to 3, stride NULL) as a single write (buffer laid out in the interlace GRgetiminfo reports), followed by "
            "whole-image reads in all three buffer interlaces and every region read; ordered pairs of region writes, a third cut by GRend/Hclose/reopen; everything "
            "re-read after reopen. Non-chunked compressed rasters are written whole only (coder contract). Palettes: 256x3 written in each interlace and read in each. "
            "distinct = configurations completed.",
            thorough ? "1..4" : "1 and 3", ntypes);
    return 0;
}
