/* C10 - attributes and descriptive metadata are returned exactly as last set.
 * Fork-snapshot exploration of attribute/metadata edit histories over SD file/dataset/dimension objects (incl. shared and
 * prefix-named dimensions), GR file/image, Vdata, Vdata field and Vgroup, across reopen, against an ordered attribute model. */
#include "../engine/mc.h"
#include "../engine/vfs.h"
#include "hdf.h"
#include "mfhdf.h"
#include <stdio.h>
#include <stdlib.h>
#include <string.h>

#define PATH "/vmem/c10.hdf"
#define MAXA 12
#define MAXV 4104

typedef struct {
    char  name[320];
    int32 nt;
    int   count;
    int   shrunk; /* re-set with a smaller count at least once */
    uint8 val[MAXV];
} attr_t;
typedef struct {
    int    n;
    attr_t a[MAXA];
} alist;

/* ------------------------------------------------------------------ generic helpers */
static const struct {
    int32 nt;
    int   sz;
} ATY[] = {{DFNT_CHAR8, 1}, {DFNT_INT16, 2}, {DFNT_FLOAT64, 8}, {DFNT_INT8, 1}, {DFNT_INT32, 4}, {DFNT_FLOAT32, 4}, {DFNT_UINT16, 2}, {DFNT_UINT8, 1}};
#define NATY 8
static int
tsize(int32 nt)
{
    for (int i = 0; i < NATY; i++)
        if (ATY[i].nt == nt)
            return ATY[i].sz;
    return DFKNTsize(nt);
}
static const char *
aname(int i, char *buf)
{
    if (i == 0)
        return "a";
    if (i == 1)
        return "ab";
    if (i == 2) {
        /* long, but inside every documented name limit (those are C20's subject) */
        for (int k = 0; k < 60; k++)
            buf[k] = (char)('a' + k % 26);
        buf[0]   = 'L';
        buf[60] = 0;
        return buf;
    }
    return "abc";
}
static void
fillval(uint8 *v, int bytes, int seed, int32 nt)
{
    for (int i = 0; i < bytes; i++)
        v[i] = (uint8)(0x41 + (seed * 17 + i * 3) % 50);
    if (nt == DFNT_FLOAT64 || nt == DFNT_FLOAT32) {
        int s = tsize(nt);
        for (int i = s - 1; i < bytes; i += s)
            v[i] = 0x40;
    }
}
static attr_t *
afind(alist *l, const char *name)
{
    for (int i = 0; i < l->n; i++)
        if (strcmp(l->a[i].name, name) == 0)
            return &l->a[i];
    return NULL;
}
static attr_t *
aset(alist *l, const char *name, int32 nt, int count, const void *val)
{
    attr_t *a = afind(l, name);
    if (!a) {
        if (l->n >= MAXA)
            return NULL;
        a = &l->a[l->n++];
        memset(a, 0, sizeof *a);
        snprintf(a->name, sizeof a->name, "%s", name);
    }
    if (count < a->count)
        a->shrunk = 1;
    a->nt = nt, a->count = count;
    memcpy(a->val, val, (size_t)(count * tsize(nt)));
    return a;
}
static uint64_t
ahash(uint64_t h, const alist *l)
{
    h = mc_hash_i(h, l->n);
    for (int i = 0; i < l->n; i++) {
        h = mc_hash(h, l->a[i].name, strlen(l->a[i].name));
        h = mc_hash_i(h, l->a[i].nt * 10000 + l->a[i].count);
        h = mc_hash(h, l->a[i].val, (size_t)(l->a[i].count * tsize(l->a[i].nt)));
    }
    return h;
}

/* ================================================================== SD scenario */
enum { SO_FILE, SO_SDS0, SO_SDS1, SO_DIM0, SO_DIM1, SO_DIM2, SO_N };
static const char *SONAME[] = {"file", "sds0", "sds1", "sds0.dim0", "sds0.dim1", "sds1.dim0"};
enum { O_SETATTR, O_DIMNAME, O_DIMSCALE, O_DIMSTRS, O_DATASTRS, O_CAL, O_RANGE, O_FILLV, O_CREATE1, O_REOPEN, O_WRITE };
static const char *opname[] = {"setattr", "setdimname", "setdimscale", "setdimstrs", "setdatastrs", "setcal", "setrange", "setfillvalue", "create-sds1", "reopen", "writedata"};

typedef struct {
    char  name[16];
    int   size;
    alist at;
    int   has_scale;
    int32 scale_nt;
    uint8 scale[16];
    int   cv_seq; /* 0, or the rank in which this dimension got its coordinate variable (scale, strings or attribute
                     first set): the library keeps variables in creation order and that order is part of the state
                     the remaining history runs on, so it is part of the key */
} mdim;

static struct {
    alist at[3]; /* file, sds0, sds1 */
    mdim  dim[3];
    int   ndim;
    int   slot[3]; /* SO_DIM0.. -> index into dim[] */
    int   sds1;
    int   readonly, nops, ndds, ncv;
} S;
static int32 sd = FAIL, sds[2] = {FAIL, FAIL};

static int32
sd_id(int obj)
{
    switch (obj) {
        case SO_FILE: return sd;
        case SO_SDS0: return sds[0];
        case SO_SDS1: return sds[1];
        case SO_DIM0: return SDgetdimid(sds[0], 0);
        case SO_DIM1: return SDgetdimid(sds[0], 1);
        default: return SDgetdimid(sds[1], 0);
    }
}
static alist *
sd_alist(int obj)
{
    if (obj <= SO_SDS1)
        return &S.at[obj];
    return &S.dim[S.slot[obj - SO_DIM0]].at;
}

static int
check_alist(int32 id, const alist *l, int nreported, const char *what, const char *where)
{
    if (nreported != l->n) {
        mc_violation("attr:count", "%s: %s reports %d attributes, model %d", where, what, nreported, l->n);
        return 1;
    }
    static uint8 buf[MAXV + 16];
    for (int i = 0; i < l->n; i++) {
        char  name[400] = "";
        int32 nt = -1, cnt = -1;
        if (SDattrinfo(id, i, name, &nt, &cnt) == FAIL) {
            mc_violation("attr:info-failed", "%s: SDattrinfo(%s, index %d) failed", where, what, i);
            return 1;
        }
        const attr_t *a = &l->a[i];
        if (strcmp(name, a->name) != 0 || nt != a->nt || cnt != a->count) {
            name[40] = 0;
            mc_violation("attr:info", "%s: %s attribute #%d is (\"%s\", type %d, count %d), model (\"%.40s\", %d, %d)", where, what, i, name, (int)nt, (int)cnt,
                         a->name, (int)a->nt, a->count);
            return 1;
        }
        int bytes = a->count * tsize(a->nt);
        memset(buf, 0xEE, (size_t)bytes + 8);
        if (SDreadattr(id, i, buf) == FAIL || memcmp(buf, a->val, (size_t)bytes) != 0) {
            mc_violation("attr:value", "%s: %s attribute \"%.40s\" (index %d) does not read back the values last set", where, what, a->name, i);
            return 1;
        }
        if (buf[bytes] != 0xEE) {
            mc_violation("attr:overrun", "%s: SDreadattr wrote past %d bytes", where, bytes);
            return 1;
        }
        if (SDfindattr(id, a->name) != i) {
            mc_violation("attr:find", "%s: SDfindattr(%s,\"%.40s\")=%d, index is %d", where, what, a->name, (int)SDfindattr(id, a->name), i);
            return 1;
        }
    }
    if (SDfindattr(id, "no-such-attribute") != FAIL) {
        mc_violation("attr:find-ghost", "%s: SDfindattr finds an attribute that was never set on %s", where, what);
        return 1;
    }
    return 0;
}

static int
sd_observe(const char *where)
{
    int32 nds = -1, nga = -1;
    if (SDfileinfo(sd, &nds, &nga) == FAIL) {
        mc_violation("fileinfo", "%s: SDfileinfo failed", where);
        return 1;
    }
    /* datasets: sds0, sds1 and one coordinate variable per dimension that has a scale or attributes */
    if (check_alist(sd, &S.at[SO_FILE], nga, "file", where))
        return 1;
    for (int k = 0; k < 1 + S.sds1; k++) {
        char  name[80];
        int32 rank, dims[4], nt, na = -1;
        if (SDgetinfo(sds[k], name, &rank, dims, &nt, &na) == FAIL || strcmp(name, k ? "sds1" : "sds0") != 0) {
            mc_violation("getinfo", "%s: SDgetinfo(sds%d) failed or wrong name", where, k);
            return 1;
        }
        if (check_alist(sds[k], &S.at[SO_SDS0 + k], na, k ? "sds1" : "sds0", where))
            return 1;
        /* name / index / reference lookups are mutually consistent */
        int32 idx = SDnametoindex(sd, name);
        int32 ref = SDidtoref(sds[k]);
        if (idx == FAIL || ref == FAIL || SDreftoindex(sd, ref) != idx) {
            mc_violation("lookup", "%s: SDnametoindex/SDidtoref/SDreftoindex disagree for %s (index %d ref %d back %d)", where, name, (int)idx, (int)ref,
                         (int)SDreftoindex(sd, ref));
            return 1;
        }
        int32 again = SDselect(sd, idx);
        char  n2[80];
        int32 r2, d2[4], t2, a2;
        if (again == FAIL || SDgetinfo(again, n2, &r2, d2, &t2, &a2) == FAIL || strcmp(n2, name) != 0) {
            mc_violation("lookup:select", "%s: SDselect(SDnametoindex(\"%s\")) designates another dataset", where, name);
            return 1;
        }
    }
    for (int o = SO_DIM0; o <= SO_DIM2; o++) {
        if (o == SO_DIM2 && !S.sds1)
            continue;
        mdim *d  = &S.dim[S.slot[o - SO_DIM0]];
        int32 id = sd_id(o);
        char  name[80];
        int32 size = -1, nt = -1, na = -1;
        if (id == FAIL || SDdiminfo(id, name, &size, &nt, &na) == FAIL) {
            mc_violation("diminfo:failed", "%s: SDdiminfo(%s) failed", where, SONAME[o]);
            return 1;
        }
        if (strcmp(name, d->name) != 0 || size != d->size || nt != (d->has_scale ? d->scale_nt : 0)) {
            mc_violation("diminfo", "%s: SDdiminfo(%s) reports (\"%s\", size %d, type %d), model (\"%s\", %d, %d)", where, SONAME[o], name, (int)size, (int)nt,
                         d->name, d->size, d->has_scale ? (int)d->scale_nt : 0);
            return 1;
        }
        if (check_alist(id, &d->at, na, SONAME[o], where))
            return 1;
        if (d->has_scale) {
            uint8 sc[32];
            memset(sc, 0xEE, sizeof sc);
            int bytes = d->size * tsize(d->scale_nt);
            if (SDgetdimscale(id, sc) == FAIL || memcmp(sc, d->scale, (size_t)bytes) != 0) {
                mc_violation("dimscale", "%s: SDgetdimscale(%s) does not return the scale last set", where, SONAME[o]);
                return 1;
            }
        }
        /* predefined strings must agree with the attribute view */
        char          l[64] = "?", u[64] = "?", f[64] = "?";
        const attr_t *al = afind(&d->at, "long_name");
        if (SDgetdimstrs(id, l, u, f, 63) != FAIL && al && (int)strlen(l) != al->count && strncmp(l, (const char *)al->val, (size_t)al->count) != 0) {
            mc_violation("dimstrs", "%s: SDgetdimstrs(%s) label \"%s\" differs from the long_name attribute", where, SONAME[o], l);
            return 1;
        }
    }
    return 0;
}

static int
sd_apply(const mc_op *op)
{
    S.nops++;
    char nb[320];
    switch (op->code) {
        case O_SETATTR: {
            int         obj = op->a[0];
            const char *nm  = aname(op->a[1], nb);
            int32       nt  = ATY[op->a[2]].nt;
            int         cnt = op->a[3];
            static uint8 v[MAXV];
            fillval(v, cnt * tsize(nt), S.nops, nt);
            int rc = SDsetattr(sd_id(obj), nm, nt, cnt, v);
            if (S.readonly) {
                if (rc != FAIL)
                    mc_count("setattr_on_readonly_accepted", 1);
                return 2; /* read-only behaviour belongs to C14: stop here */
            }
            if (rc == FAIL) {
                mc_violation("setattr:failed", "SDsetattr(%s,\"%.30s\",type %d,count %d) failed", SONAME[obj], nm, (int)nt, cnt);
                return 1;
            }
            aset(sd_alist(obj), nm, nt, cnt, v);
            if (obj >= SO_DIM0 && !S.dim[S.slot[obj - SO_DIM0]].cv_seq)
                S.dim[S.slot[obj - SO_DIM0]].cv_seq = ++S.ncv;
            break;
        }
        case O_DIMNAME: {
            int         o  = op->a[0];
            const char *nm = op->a[1] == 0 ? "x" : op->a[1] == 1 ? "xy" : "z";
            mdim       *d  = &S.dim[S.slot[o - SO_DIM0]];
            int         rc = SDsetdimname(sd_id(o), nm);
            /* does a different dimension with that name exist? */
            int other = -1;
            for (int k = 0; k < S.ndim; k++)
                if (k != S.slot[o - SO_DIM0] && strcmp(S.dim[k].name, nm) == 0) {
                    int used = 0;
                    for (int q = 0; q < 3; q++)
                        if (S.slot[q] == k && (q < 2 || S.sds1))
                            used = 1;
                    if (used)
                        other = k;
                }
            if (other >= 0) {
                if (S.dim[other].size != d->size) {
                    if (rc != FAIL) {
                        mc_violation("dimname:size-mismatch-accepted", "SDsetdimname onto a dimension of another size succeeded");
                        return 1;
                    }
                    break;
                }
                if (rc == FAIL) {
                    mc_violation("dimname:share-failed", "SDsetdimname onto an existing dimension of the same size failed");
                    return 1;
                }
                S.slot[o - SO_DIM0] = other; /* both now designate one dimension */
                break;
            }
            if (rc == FAIL) {
                mc_violation("dimname:failed", "SDsetdimname(%s,\"%s\") failed", SONAME[o], nm);
                return 1;
            }
            snprintf(d->name, sizeof d->name, "%s", nm);
            break;
        }
        case O_DIMSCALE: {
            int   o  = op->a[0];
            mdim *d  = &S.dim[S.slot[o - SO_DIM0]];
            int32 nt = op->a[1] ? DFNT_FLOAT32 : DFNT_INT16;
            uint8 v[32];
            fillval(v, d->size * tsize(nt), S.nops, nt);
            if (op->a[2]) {
                /* a scale of the wrong length is refused, and the refusal leaves the dimension as it was */
                if (SDsetdimscale(sd_id(o), d->size + 1, nt, v) != FAIL) {
                    mc_violation("dimscale:wrong-count-accepted", "SDsetdimscale(%s) with %d values for a dimension of size %d succeeded", SONAME[o], d->size + 1, d->size);
                    return 1;
                }
                break;
            }
            if (SDsetdimscale(sd_id(o), d->size, nt, v) == FAIL) {
                if (d->has_scale && d->scale_nt != nt)
                    mc_violation("dimscale:failed@number-type-of-existing-scale-changed", "SDsetdimscale(%s) with number type %d failed on a dimension whose scale has type %d", SONAME[o],
                                 (int)nt, (int)d->scale_nt);
                else
                    mc_violation("dimscale:failed", "SDsetdimscale(%s) failed", SONAME[o]);
                return 1;
            }
            d->has_scale = 1, d->scale_nt = nt;
            memcpy(d->scale, v, (size_t)(d->size * tsize(nt)));
            if (!d->cv_seq)
                d->cv_seq = ++S.ncv;
            break;
        }
        case O_DIMSTRS: {
            int   o = op->a[0];
            mdim *d = &S.dim[S.slot[o - SO_DIM0]];
            char  l[8], u[8];
            snprintf(l, sizeof l, "L%d", S.nops % 10);
            snprintf(u, sizeof u, "U%d", S.nops % 7);
            if (SDsetdimstrs(sd_id(o), l, u, NULL) == FAIL) {
                mc_violation("dimstrs:failed", "SDsetdimstrs(%s) failed", SONAME[o]);
                return 1;
            }
            aset(&d->at, "long_name", DFNT_CHAR8, (int)strlen(l), l);
            aset(&d->at, "units", DFNT_CHAR8, (int)strlen(u), u);
            if (!d->cv_seq)
                d->cv_seq = ++S.ncv;
            break;
        }
        case O_DATASTRS: {
            int  k = op->a[0];
            char l[8], f[8];
            snprintf(l, sizeof l, "l%d", S.nops % 10);
            snprintf(f, sizeof f, "f%d", S.nops % 7);
            if (SDsetdatastrs(sds[k], l, NULL, f, "cs") == FAIL) {
                mc_violation("datastrs:failed", "SDsetdatastrs failed");
                return 1;
            }
            aset(&S.at[SO_SDS0 + k], "long_name", DFNT_CHAR8, (int)strlen(l), l);
            aset(&S.at[SO_SDS0 + k], "format", DFNT_CHAR8, (int)strlen(f), f);
            aset(&S.at[SO_SDS0 + k], "coordsys", DFNT_CHAR8, 2, "cs");
            char gl[64] = "", gu[64] = "", gf[64] = "", gc[64] = "";
            if (SDgetdatastrs(sds[k], gl, gu, gf, gc, 63) == FAIL || strcmp(gl, l) != 0 || strcmp(gf, f) != 0 || strcmp(gc, "cs") != 0) {
                mc_violation("datastrs:readback", "SDgetdatastrs returns (\"%s\",\"%s\",\"%s\",\"%s\") after setting (\"%s\",NULL,\"%s\",\"cs\")", gl, gu, gf, gc, l, f);
                return 1;
            }
            break;
        }
        case O_CAL: {
            int     k = op->a[0];
            float64 c[4] = {1.5 + S.nops, 0.25, -3.0, 0.5};
            int32   nt   = DFNT_INT16;
            if (SDsetcal(sds[k], c[0], c[1], c[2], c[3], nt) == FAIL) {
                mc_violation("cal:failed", "SDsetcal failed");
                return 1;
            }
            aset(&S.at[SO_SDS0 + k], "scale_factor", DFNT_FLOAT64, 1, &c[0]);
            aset(&S.at[SO_SDS0 + k], "scale_factor_err", DFNT_FLOAT64, 1, &c[1]);
            aset(&S.at[SO_SDS0 + k], "add_offset", DFNT_FLOAT64, 1, &c[2]);
            aset(&S.at[SO_SDS0 + k], "add_offset_err", DFNT_FLOAT64, 1, &c[3]);
            aset(&S.at[SO_SDS0 + k], "calibrated_nt", DFNT_INT32, 1, &nt);
            float64 g[4];
            int32   gnt;
            if (SDgetcal(sds[k], &g[0], &g[1], &g[2], &g[3], &gnt) == FAIL || memcmp(g, c, sizeof c) != 0 || gnt != nt) {
                mc_violation("cal:readback", "SDgetcal does not return the calibration just set");
                return 1;
            }
            break;
        }
        case O_RANGE: {
            int   k = op->a[0];
            int16 r[2] = {(int16)(100 + S.nops), (int16)(-100 - S.nops)}; /* max, min */
            if (SDsetrange(sds[k], &r[0], &r[1]) == FAIL) {
                mc_violation("range:failed", "SDsetrange failed");
                return 1;
            }
            int16 stored[2] = {r[1], r[0]}; /* valid_range = (min, max) */
            aset(&S.at[SO_SDS0 + k], "valid_range", DFNT_INT16, 2, stored);
            int16 gmax, gmin;
            if (SDgetrange(sds[k], &gmax, &gmin) == FAIL || gmax != r[0] || gmin != r[1]) {
                mc_violation("range:readback", "SDgetrange returns (%d,%d) after setting (%d,%d)", gmax, gmin, r[0], r[1]);
                return 1;
            }
            break;
        }
        case O_FILLV: {
            int   k = op->a[0];
            int16 f = (int16)(-7 - S.nops);
            if (SDsetfillvalue(sds[k], &f) == FAIL) {
                mc_violation("fillvalue:failed", "SDsetfillvalue failed");
                return 1;
            }
            aset(&S.at[SO_SDS0 + k], "_FillValue", DFNT_INT16, 1, &f);
            int16 g;
            if (SDgetfillvalue(sds[k], &g) == FAIL || g != f) {
                mc_violation("fillvalue:readback", "SDgetfillvalue returns %d after setting %d", g, f);
                return 1;
            }
            break;
        }
        case O_CREATE1: {
            int32 dims[1] = {3};
            sds[1]        = SDcreate(sd, "sds1", DFNT_INT16, 1, dims);
            if (sds[1] == FAIL) {
                mc_violation("create:failed", "SDcreate of a second dataset failed");
                return 1;
            }
            S.sds1 = 1;
            mdim *d = &S.dim[S.ndim];
            memset(d, 0, sizeof *d);
            int32 id = SDgetdimid(sds[1], 0);
            char  nm[80];
            int32 sz, nt, na;
            if (id == FAIL || SDdiminfo(id, nm, &sz, &nt, &na) == FAIL)
                return 1;
            snprintf(d->name, sizeof d->name, "%s", nm); /* default name "fakeDimN": taken from the library */
            d->size   = 3;
            S.slot[2] = S.ndim++;
            break;
        }
        case O_WRITE: {
            int16 v[6] = {1, 2, 3, 4, 5, 6};
            int32 st[2] = {0, 0}, cn[2] = {3, 2};
            if (SDwritedata(sds[0], st, NULL, cn, v) == FAIL) {
                mc_violation("write:failed", "SDwritedata failed");
                return 1;
            }
            break;
        }
        case O_REOPEN: {
            if (S.sds1)
                SDendaccess(sds[1]);
            SDendaccess(sds[0]);
            if (SDend(sd) == FAIL) {
                mc_violation("sdend:failed", "SDend failed");
                return 1;
            }
            sd = SDstart(PATH, op->a[0] ? DFACC_RDWR : DFACC_READ);
            if (sd == FAIL) {
                mc_violation("reopen:failed", "SDstart failed");
                return 1;
            }
            S.readonly = !op->a[0];
            sds[0]     = SDselect(sd, SDnametoindex(sd, "sds0"));
            if (S.sds1)
                sds[1] = SDselect(sd, SDnametoindex(sd, "sds1"));
            if (sds[0] == FAIL || (S.sds1 && sds[1] == FAIL)) {
                mc_violation("reopen:select", "datasets not found by name after reopen");
                return 1;
            }
            break;
        }
    }
    char where[40];
    snprintf(where, sizeof where, "after %s", opname[op->code]);
    return sd_observe(where);
}

static int
sd_enum(mc_op *out, int max)
{
    int n = 0;
#define ADD(c, a0, a1, a2, a3)                                                                                                       \
    do {                                                                                                                             \
        if (n < max) {                                                                                                               \
            memset(&out[n], 0, sizeof out[n]);                                                                                       \
            out[n].code = c;                                                                                                         \
            out[n].a[0] = a0, out[n].a[1] = a1, out[n].a[2] = a2, out[n].a[3] = a3;                                                  \
            n++;                                                                                                                     \
        }                                                                                                                            \
    } while (0)
    int thorough = mc_is_thorough();
    if (!S.readonly) {
        int objs[6] = {SO_FILE, SO_SDS0, SO_DIM0, SO_SDS1, SO_DIM1, SO_DIM2};
        for (int k = 0; k < (thorough ? 6 : 4); k++) {
            int o = objs[k];
            if ((o == SO_SDS1 || o == SO_DIM2) && !S.sds1)
                continue;
            alist *l = sd_alist(o);
            if (l->n >= MAXA - 6)
                continue;
            /* a new name, and a replacement of the same name with another type/count */
            ADD(O_SETATTR, o, 0, 1, 2);             /* "a"  int16 x2 */
            ADD(O_SETATTR, o, 1, 0, 5);             /* "ab" char8 x5 (prefix-related name) */
            if (afind(l, "a")) {
                ADD(O_SETATTR, o, 0, 2, 1);         /* "a" -> float64 x1 */
                if (o == SO_SDS0 || o == SO_FILE || thorough)
                    ADD(O_SETATTR, o, 0, 6, 2);     /* "a" -> uint16 x2 (an unsigned type replacing an existing attribute) */
            }
            if (thorough || o == SO_SDS0) {
                ADD(O_SETATTR, o, 2, 0, 3);         /* 300-character name */
                ADD(O_SETATTR, o, 0, 1, 1100);      /* large count */
            }
        }
        for (int o = SO_DIM0; o <= SO_DIM2; o++) {
            if (o == SO_DIM2 && !S.sds1)
                continue;
            mdim *d = &S.dim[S.slot[o - SO_DIM0]];
            /* renaming only while the dimension has nothing attached (renaming a dimension that already owns a coordinate
               variable is not defined by the interface) */
            if (!d->has_scale && d->at.n == 0) {
                ADD(O_DIMNAME, o, 0, 0, 0);
                ADD(O_DIMNAME, o, 1, 0, 0);
                if (thorough)
                    ADD(O_DIMNAME, o, 2, 0, 0);
            }
            ADD(O_DIMSCALE, o, 0, 0, 0);
            if (thorough)
                ADD(O_DIMSCALE, o, 1, 0, 0);
            if (thorough || o == SO_DIM0)
                ADD(O_DIMSCALE, o, 1, 1, 0); /* other number type, one value too many: must be refused without effect */
            if (thorough || o != SO_DIM1)
                ADD(O_DIMSTRS, o, 0, 0, 0);
        }
        for (int k = 0; k < 1 + S.sds1; k++) {
            if (thorough || k == 0)
                ADD(O_DATASTRS, k, 0, 0, 0);
            ADD(O_RANGE, k, 0, 0, 0);
            if (thorough) {
                ADD(O_CAL, k, 0, 0, 0);
                ADD(O_FILLV, k, 0, 0, 0);
            }
        }
        if (!S.sds1)
            ADD(O_CREATE1, 0, 0, 0, 0);
        ADD(O_WRITE, 0, 0, 0, 0);
    }
    ADD(O_REOPEN, 1, 0, 0, 0);
    ADD(O_REOPEN, 0, 0, 0, 0);
    return n;
}

static int
sd_dev(const mc_op *op)
{
    return op->code == O_REOPEN || op->code == O_CREATE1 || op->code == O_WRITE;
}
static void
sd_fmt(const mc_op *op, char *buf, size_t n)
{
    switch (op->code) {
        case O_SETATTR: snprintf(buf, n, "setattr(%s,name#%d,type %d,count %d)", SONAME[op->a[0]], op->a[1], (int)ATY[op->a[2]].nt, op->a[3]); break;
        case O_DIMNAME: snprintf(buf, n, "setdimname(%s,\"%s\")", SONAME[op->a[0]], op->a[1] == 0 ? "x" : op->a[1] == 1 ? "xy" : "z"); break;
        case O_DIMSCALE:
            snprintf(buf, n, "setdimscale(%s,%s%s)", SONAME[op->a[0]], op->a[1] ? "float32" : "int16", op->a[2] ? ",one value too many" : "");
            break;
        case O_DIMSTRS: snprintf(buf, n, "%s(%s)", opname[op->code], SONAME[op->a[0]]); break;
        case O_REOPEN: snprintf(buf, n, "reopen(%s)", op->a[0] ? "RDWR" : "READ"); break;
        case O_CREATE1:
        case O_WRITE: snprintf(buf, n, "%s()", opname[op->code]); break;
        default: snprintf(buf, n, "%s(sds%d)", opname[op->code], op->a[0]);
    }
}
static uint64_t
sd_key(void)
{
    uint64_t h = mc_hash_i(MC_H0, S.sds1 * 4 + S.readonly * 2 + S.ndds);
    for (int i = 0; i < 3; i++)
        h = ahash(h, &S.at[i]);
    for (int i = 0; i < S.ndim; i++) {
        h = mc_hash(h, S.dim[i].name, strlen(S.dim[i].name));
        h = ahash(h, &S.dim[i].at);
        h = mc_hash_i(h, S.dim[i].has_scale * 100 + S.dim[i].scale_nt);
        h = mc_hash_i(h, S.dim[i].cv_seq);
        h = mc_hash(h, S.dim[i].scale, sizeof S.dim[i].scale);
    }
    h = mc_hash(h, S.slot, sizeof S.slot);
    h = mc_hash_i(h, (long)vfs_hash_all());
    return h;
}
static void
sd_terminal(void)
{
    if (S.sds1)
        SDendaccess(sds[1]);
    SDendaccess(sds[0]);
    if (SDend(sd) == FAIL) {
        mc_violation("terminal:sdend", "SDend failed");
        return;
    }
    sd = SDstart(PATH, DFACC_READ);
    if (sd == FAIL) {
        mc_violation("terminal:reopen", "SDstart(READ) failed");
        return;
    }
    S.readonly = 1;
    sds[0]     = SDselect(sd, SDnametoindex(sd, "sds0"));
    if (S.sds1)
        sds[1] = SDselect(sd, SDnametoindex(sd, "sds1"));
    if (sds[0] == FAIL || (S.sds1 && sds[1] == FAIL)) {
        mc_violation("terminal:select", "datasets not found by name after SDend/SDstart");
        return;
    }
    sd_observe("after SDend/SDstart(read-only)");
    SDend(sd);
}
static int
sd_setup(int ndds)
{
    memset(&S, 0, sizeof S);
    S.ndds = ndds;
    vfs_remove_file(PATH);
    if (ndds) {
        int32 f = Hopen(PATH, DFACC_CREATE, (int16)ndds);
        Hclose(f);
        sd = SDstart(PATH, DFACC_RDWR);
    }
    else
        sd = SDstart(PATH, DFACC_CREATE);
    int32 dims[2] = {3, 2};
    sds[0]        = sd == FAIL ? FAIL : SDcreate(sd, "sds0", DFNT_INT16, 2, dims);
    if (sds[0] == FAIL)
        return -1;
    for (int k = 0; k < 2; k++) {
        char  nm[80];
        int32 sz, nt, na;
        if (SDdiminfo(SDgetdimid(sds[0], k), nm, &sz, &nt, &na) == FAIL)
            return -1;
        snprintf(S.dim[k].name, sizeof S.dim[k].name, "%s", nm);
        S.dim[k].size = dims[k];
        S.slot[k]     = k;
    }
    S.ndim = 2;
    return sd_observe("start state") ? -1 : 0;
}
static mc_harness HSD = {sd_enum, sd_apply, sd_key, sd_terminal, sd_fmt, sd_dev};

/* ================================================================== GR / Vdata / Vgroup scenario */
enum { VO_GRFILE, VO_RI, VO_VS, VO_VSF, VO_VG, VO_N };
static const char *VONAME[] = {"GR file", "raster image", "Vdata", "Vdata field 0", "Vgroup"};
static struct {
    alist at[VO_N];
    int   readonly, nops;
    int32 vsref, vgref;
} V;
static int32 fid = FAIL, gr = FAIL, ri = FAIL, vs = FAIL, vg = FAIL;

static int
v_nattrs(int o)
{
    int32 a, b;
    switch (o) {
        case VO_GRFILE: return GRfileinfo(gr, &a, &b) == FAIL ? -1 : (int)b;
        case VO_RI: {
            char  nm[80];
            int32 nc, nt, il, d[2], na;
            return GRgetiminfo(ri, nm, &nc, &nt, &il, d, &na) == FAIL ? -1 : (int)na;
        }
        case VO_VS: return VSfnattrs(vs, _HDF_VDATA);
        case VO_VSF: return VSfnattrs(vs, 0);
        default: return Vnattrs(vg);
    }
}
static int
v_info(int o, int i, char *name, int32 *nt, int32 *cnt)
{
    int32 sz;
    switch (o) {
        case VO_GRFILE: return GRattrinfo(gr, i, name, nt, cnt);
        case VO_RI: return GRattrinfo(ri, i, name, nt, cnt);
        case VO_VS: return VSattrinfo(vs, _HDF_VDATA, i, name, nt, cnt, &sz);
        case VO_VSF: return VSattrinfo(vs, 0, i, name, nt, cnt, &sz);
        default: return Vattrinfo(vg, i, name, nt, cnt, &sz);
    }
}
static int
v_get(int o, int i, void *buf)
{
    switch (o) {
        case VO_GRFILE: return GRgetattr(gr, i, buf);
        case VO_RI: return GRgetattr(ri, i, buf);
        case VO_VS: return VSgetattr(vs, _HDF_VDATA, i, buf);
        case VO_VSF: return VSgetattr(vs, 0, i, buf);
        default: return Vgetattr(vg, i, buf);
    }
}
static int
v_find(int o, const char *name)
{
    switch (o) {
        case VO_GRFILE: return GRfindattr(gr, name);
        case VO_RI: return GRfindattr(ri, name);
        case VO_VS: return VSfindattr(vs, _HDF_VDATA, name);
        case VO_VSF: return VSfindattr(vs, 0, name);
        default: return Vfindattr(vg, name);
    }
}
static int
v_set(int o, const char *name, int32 nt, int cnt, const void *v)
{
    switch (o) {
        case VO_GRFILE: return GRsetattr(gr, name, nt, cnt, v);
        case VO_RI: return GRsetattr(ri, name, nt, cnt, v);
        case VO_VS: return VSsetattr(vs, _HDF_VDATA, name, nt, cnt, v);
        case VO_VSF: return VSsetattr(vs, 0, name, nt, cnt, v);
        default: return Vsetattr(vg, name, nt, cnt, v);
    }
}

static int
v_observe(const char *where)
{
    static uint8 buf[MAXV + 16];
    for (int o = 0; o < VO_N; o++) {
        alist *l = &V.at[o];
        int    n = v_nattrs(o);
        if (n != l->n) {
            mc_violation("v:attr:count", "%s: %s reports %d attributes, model %d", where, VONAME[o], n, l->n);
            return 1;
        }
        for (int i = 0; i < l->n; i++) {
            char  name[400] = "";
            int32 nt = -1, cnt = -1;
            attr_t *a = &l->a[i];
            int irc = v_info(o, i, name, &nt, &cnt);
            if (irc != FAIL && o <= VO_RI && strcmp(name, a->name) == 0 && nt == a->nt && cnt > a->count && a->shrunk) {
                mc_violation("gr:attr:shrunk-count-not-persisted", "%s: %s attribute \"%.30s\" was re-set with a smaller count (%d) but reports count %d again after "
                                                                  "the file was reopened", where, VONAME[o], a->name, a->count, (int)cnt);
                return 1;
            }
            if (irc == FAIL || strcmp(name, a->name) != 0 || nt != a->nt || cnt != a->count) {
                name[40] = 0;
                mc_violation("v:attr:info", "%s: %s attribute #%d is (\"%s\", type %d, count %d), model (\"%.40s\", %d, %d)", where, VONAME[o], i, name, (int)nt,
                             (int)cnt, a->name, (int)a->nt, a->count);
                return 1;
            }
            int bytes = a->count * tsize(a->nt);
            memset(buf, 0xEE, (size_t)bytes + 8);
            if (v_get(o, i, buf) == FAIL || memcmp(buf, a->val, (size_t)bytes) != 0) {
                mc_violation("v:attr:value", "%s: %s attribute \"%.40s\" (index %d) does not read back the values last set", where, VONAME[o], a->name, i);
                return 1;
            }
            if (buf[bytes] != 0xEE) {
                mc_violation("v:attr:overrun", "%s: attribute read wrote past %d bytes (%s)", where, bytes, VONAME[o]);
                return 1;
            }
            if (v_find(o, a->name) != i) {
                mc_violation("v:attr:find", "%s: find-by-name of \"%.40s\" on %s gives %d, index is %d", where, a->name, VONAME[o], v_find(o, a->name), i);
                return 1;
            }
        }
        if (v_find(o, "no-such-attribute") != FAIL) {
            mc_violation("v:attr:find-ghost", "%s: %s finds an attribute that was never set", where, VONAME[o]);
            return 1;
        }
    }
    if (VSnattrs(vs) != V.at[VO_VS].n + V.at[VO_VSF].n) {
        mc_violation("v:vsnattrs", "%s: VSnattrs=%d, model %d", where, VSnattrs(vs), V.at[VO_VS].n + V.at[VO_VSF].n);
        return 1;
    }
    return 0;
}

static int
v_open_objects(int write)
{
    gr = GRstart(fid);
    ri = gr == FAIL ? FAIL : GRselect(gr, 0);
    if (Vstart(fid) == FAIL)
        return -1;
    vs = VSattach(fid, V.vsref, write ? "w" : "r");
    vg = Vattach(fid, V.vgref, write ? "w" : "r");
    return (ri == FAIL || vs == FAIL || vg == FAIL) ? -1 : 0;
}
static int
v_close_objects(void)
{
    int rc = 0;
    rc |= VSdetach(vs) == FAIL;
    rc |= Vdetach(vg) == FAIL;
    rc |= Vend(fid) == FAIL;
    rc |= GRendaccess(ri) == FAIL;
    rc |= GRend(gr) == FAIL;
    return rc;
}

static int
v_apply(const mc_op *op)
{
    V.nops++;
    char nb[320];
    if (op->code == O_SETATTR) {
        int         o   = op->a[0];
        const char *nm  = aname(op->a[1], nb);
        int32       nt  = ATY[op->a[2]].nt;
        int         cnt = op->a[3];
        static uint8 v[MAXV];
        fillval(v, cnt * tsize(nt), V.nops, nt);
        attr_t *old = afind(&V.at[o], nm);
        int     rc  = v_set(o, nm, nt, cnt, v);
        if (V.readonly)
            return 2;
        int vfamily = o >= VO_VS;
        if (old && vfamily && (old->nt != nt || old->count != cnt)) {
            /* Vdata / Vgroup attributes: changing type or count of an existing attribute must fail and keep the old value */
            if (rc != FAIL) {
                mc_violation("v:setattr:type-change-accepted", "%s: re-setting \"%.30s\" with another type/count succeeded", VONAME[o], nm);
                return 1;
            }
        }
        else if (old && !vfamily && old->nt != nt && rc == FAIL) {
            /* GR forbids changing the number type of an existing attribute: refused, old value must stay (checked below) */
            mc_count("gr_type_change_refused", 1);
        }
        else {
            if (rc == FAIL) {
                mc_violation("v:setattr:failed", "setting attribute \"%.30s\" (type %d, count %d) on %s failed", nm, (int)nt, cnt, VONAME[o]);
                return 1;
            }
            aset(&V.at[o], nm, nt, cnt, v);
        }
    }
    else { /* O_REOPEN */
        if (v_close_objects() || Hclose(fid) == FAIL) {
            mc_violation("v:close", "detaching/closing failed");
            return 1;
        }
        fid = Hopen(PATH, op->a[0] ? DFACC_RDWR : DFACC_READ, 0);
        if (fid == FAIL) {
            mc_violation("v:reopen", "Hopen failed");
            return 1;
        }
        V.readonly = !op->a[0];
        if (v_open_objects(op->a[0])) {
            mc_violation("v:reopen:objects", "objects cannot be opened after reopen");
            return 1;
        }
    }
    return v_observe(op->code == O_SETATTR ? "after setattr" : "after reopen");
}
static int
v_enum(mc_op *out, int max)
{
    int n        = 0;
    int thorough = mc_is_thorough();
    if (!V.readonly)
        for (int o = 0; o < VO_N; o++) {
            alist *l = &V.at[o];
            if (l->n >= MAXA - 2)
                continue;
            ADD(O_SETATTR, o, 0, 1, 2);
            ADD(O_SETATTR, o, 1, 0, 5);
            if (afind(l, "a")) {
                ADD(O_SETATTR, o, 0, 2, 1); /* other type and count */
                ADD(O_SETATTR, o, 0, 1, 3); /* same type, other count */
            }
            if (thorough || o == VO_RI || o == VO_VG || o == 0 /* the GR file itself */) {
                ADD(O_SETATTR, o, 2, 0, 3);
                ADD(O_SETATTR, o, 0, 1, 1100); /* 2200 bytes: beyond the 2048-byte attribute cache of GR */
            }
        }
    ADD(O_REOPEN, 1, 0, 0, 0);
    ADD(O_REOPEN, 0, 0, 0, 0);
    return n;
}
static void
v_fmt(const mc_op *op, char *buf, size_t n)
{
    if (op->code == O_SETATTR)
        snprintf(buf, n, "setattr(%s,name#%d,type %d,count %d)", VONAME[op->a[0]], op->a[1], (int)ATY[op->a[2]].nt, op->a[3]);
    else
        snprintf(buf, n, "reopen(%s)", op->a[0] ? "RDWR" : "READ");
}
static uint64_t
v_key(void)
{
    uint64_t h = mc_hash_i(MC_H0, 77 + V.readonly);
    for (int o = 0; o < VO_N; o++)
        h = ahash(h, &V.at[o]);
    return mc_hash_i(h, (long)vfs_hash_all());
}
static void
v_terminal(void)
{
    if (v_close_objects() || Hclose(fid) == FAIL) {
        mc_violation("v:terminal:close", "detaching/closing failed");
        return;
    }
    fid = Hopen(PATH, DFACC_READ, 0);
    if (fid == FAIL || v_open_objects(0)) {
        mc_violation("v:terminal:reopen", "reopen failed");
        return;
    }
    v_observe("after close and reopen(read-only)");
}
static int
v_setup(void)
{
    memset(&V, 0, sizeof V);
    vfs_remove_file(PATH);
    fid = Hopen(PATH, DFACC_CREATE, 16);
    if (fid == FAIL)
        return -1;
    gr            = GRstart(fid);
    int32 dims[2] = {2, 2};
    ri            = GRcreate(gr, "img", 1, DFNT_UINT8, MFGR_INTERLACE_PIXEL, dims);
    uint8 px[4]   = {1, 2, 3, 4};
    int32 st[2]   = {0, 0};
    if (ri == FAIL || GRwriteimage(ri, st, NULL, dims, px) == FAIL)
        return -1;
    Vstart(fid);
    vs = VSattach(fid, -1, "w");
    int16 rec[2] = {5, 6};
    if (vs == FAIL || VSfdefine(vs, "f0", DFNT_INT16, 1) == FAIL || VSsetfields(vs, "f0") == FAIL || VSwrite(vs, (uint8 *)rec, 2, FULL_INTERLACE) != 2)
        return -1;
    VSsetname(vs, "tbl");
    V.vsref = VSQueryref(vs);
    vg      = Vattach(fid, -1, "w");
    if (vg == FAIL)
        return -1;
    Vsetname(vg, "grp");
    V.vgref = VQueryref(vg);
    return v_observe("start state") ? -1 : 0;
}
static int
v_dev(const mc_op *op)
{
    return op->code == O_REOPEN;
}
static mc_harness HV = {v_enum, v_apply, v_key, v_terminal, v_fmt, v_dev};

typedef struct {
    int scen, ndds, depth, dev;
} cfg_t;
static void
root(void *arg)
{
    cfg_t *c      = arg;
    int    cfg[2] = {c->scen, c->ndds};
    mc_set_config(cfg, 2, "scenario=%s ndds=%d", c->scen ? "GR/Vdata/Vgroup" : "SD", c->ndds);
    if (c->scen == 0) {
        if (sd_setup(c->ndds)) {
            mc_violation("prologue", "SD prologue failed or start state disagrees with the model");
            return;
        }
        mc_explore(&HSD, c->depth, c->dev);
    }
    else {
        if (v_setup()) {
            mc_violation("prologue", "GR/V prologue failed or start state disagrees with the model");
            return;
        }
        mc_explore(&HV, c->depth, c->dev);
    }
}

int
C10_main(const char *tier, const char *replay)
{
    if (replay) {
        int   cfg[32], ncfg, nops;
        mc_op ops[MC_MAXDEPTH];
        if (mc_load_replay(replay, cfg, &ncfg, ops, &nops, MC_MAXDEPTH) || ncfg < 2)
            return 2;
        mc_set_config(cfg, 2, "scenario=%s ndds=%d", cfg[0] ? "GR/Vdata/Vgroup" : "SD", cfg[1]);
        printf("replay C10: scenario %d, %d ops\n", cfg[0], nops);
        if (cfg[0] == 0) {
            if (sd_setup(cfg[1]))
                return 0;
            mc_replay_ops(&HSD, ops, nops);
        }
        else {
            if (v_setup())
                return 0;
            mc_replay_ops(&HV, ops, nops);
        }
        return 0;
    }
    int          thorough = strcmp(tier, "thorough") == 0;
    static cfg_t cfgs[4];
    int          dmax = thorough ? 5 : 3;
    for (int depth = thorough ? 3 : dmax; depth <= dmax; depth++) {
        char label[48];
        snprintf(label, sizeof label, "depth %d", depth);
        mc_round_begin(label);
        cfgs[0] = (cfg_t){0, 0, depth, thorough ? 3 : 2};
        cfgs[1] = (cfg_t){0, 4, depth, thorough ? 3 : 2};
        cfgs[2] = (cfg_t){1, 0, depth + 1, thorough ? 2 : 1};
        for (int i = 0; i < 3; i++)
            mc_spawn_root(root, &cfgs[(i + mc_seed()) % 3], 3);
        mc_wait_roots();
        mc_round_end();
        if (mc_deadline_hit())
            break;
    }
    return 0;
}
