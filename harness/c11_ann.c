/* C11 - annotations stay attached to their objects and keep their text.
 * Fork-snapshot exploration of create/write/rewrite/endaccess/reopen histories through the multi-file AN interface (and the
 * single-file DFAN calls on the closed file) against a set-of-annotations model. */
#include "../engine/mc.h"
#include "../engine/vfs.h"
#include "hdf.h"
#include <stdio.h>
#include <stdlib.h>
#include <string.h>

#define PATH "/vmem/c11.hdf"
/* target objects are addressed by a small index: 1 -> (1000,1), 2 -> (1000,2), 3 -> (1001,1): the third has the reference
   number of the first and another tag */
#define TTAG(k) ((uint16)((k) == 3 ? 1001 : 1000))
#define TREF(k) ((uint16)((k) == 3 ? 1 : (k)))
#define MAXANN 6
#define MAXT 320

enum { O_CREATE, O_REWRITE, O_ENDACCESS, O_REOPEN, O_DFAN };
static const char *opname[] = {"create+write", "rewrite", "endaccess", "reopen", "dfan-put"};
static const char *TNAME[]  = {"data-label", "data-desc", "file-label", "file-desc"};
static const ann_type TY[]  = {AN_DATA_LABEL, AN_DATA_DESC, AN_FILE_LABEL, AN_FILE_DESC};

typedef struct {
    int    type; /* 0..3 */
    uint16 ttag, tref;
    int    len;
    uint8  txt[MAXT];
    uint16 atag, aref; /* identity */
    int32  id;         /* live ann id or FAIL */
} ann_t;
static struct {
    ann_t a[MAXANN];
    int   n;
    int   nops, readonly;
} M;
static int32 fid = FAIL, an = FAIL;

static int
make_text(int variant, int isdesc, int seed, uint8 *out)
{
    int len;
    switch (variant) {
        case 0: len = 1; break;
        case 1: len = 5; break;
        case 2: len = 12; break;
        case 3: len = 300; break;
        default: len = 7; break;
    }
    for (int i = 0; i < len; i++)
        out[i] = (uint8)('A' + (seed * 5 + i * 3) % 26);
    if (isdesc && variant == 2)
        out[4] = 0; /* embedded NUL in a description */
    return len;
}

static int
read_check(int32 id, const ann_t *m, const char *where, const char *via)
{
    static uint8 buf[MAXT + 16];
    int32        l = ANannlen(id);
    if (l != m->len) {
        mc_violation("annlen", "%s: %s via %s: ANannlen=%d, text written has %d bytes", where, TNAME[m->type], via, (int)l, m->len);
        return 1;
    }
    int islabel = m->type == 0 || m->type == 2;
    memset(buf, 0xEE, sizeof buf);
    if (ANreadann(id, (char *)buf, m->len + (islabel ? 1 : 0)) == FAIL) {
        mc_violation("readann:failed", "%s: %s via %s: ANreadann failed", where, TNAME[m->type], via);
        return 1;
    }
    if (memcmp(buf, m->txt, (size_t)m->len) != 0) {
        int j = 0;
        while (buf[j] == m->txt[j])
            j++;
        mc_violation("readann:text", "%s: %s via %s: byte %d of the text reads 0x%02x, written 0x%02x (length %d)", where, TNAME[m->type], via, j, buf[j], m->txt[j],
                     m->len);
        return 1;
    }
    if (buf[m->len + (islabel ? 1 : 0)] != 0xEE) {
        mc_violation("readann:overrun", "%s: ANreadann wrote past maxlen", where);
        return 1;
    }
    uint16 t = 0, r = 0;
    if (ANid2tagref(id, &t, &r) == FAIL || t != m->atag || r != m->aref) {
        mc_violation("identity", "%s: %s via %s: ANid2tagref gives (%u,%u), the annotation was created as (%u,%u)", where, TNAME[m->type], via, t, r, m->atag, m->aref);
        return 1;
    }
    return 0;
}

static int
observe(const char *where)
{
    int32 cnt[4] = {0, 0, 0, 0}, nfl, nfd, nol, nod;
    for (int i = 0; i < M.n; i++)
        cnt[M.a[i].type]++;
    if (ANfileinfo(an, &nfl, &nfd, &nol, &nod) == FAIL) {
        mc_violation("fileinfo:failed", "%s: ANfileinfo failed", where);
        return 1;
    }
    if (nfl != cnt[2] || nfd != cnt[3] || nol != cnt[0] || nod != cnt[1]) {
        mc_violation("fileinfo", "%s: ANfileinfo reports %d/%d/%d/%d (file labels/file descs/obj labels/obj descs), model %d/%d/%d/%d", where, (int)nfl, (int)nfd,
                     (int)nol, (int)nod, (int)cnt[2], (int)cnt[3], (int)cnt[0], (int)cnt[1]);
        return 1;
    }
    /* by index within each type: each existing annotation exactly once */
    for (int t = 0; t < 4; t++) {
        int seen[MAXANN] = {0};
        for (int idx = 0; idx < cnt[t]; idx++) {
            int32 id = ANselect(an, idx, TY[t]);
            if (id == FAIL) {
                mc_violation("select:failed", "%s: ANselect(%d,%s) failed with %d annotations of that type", where, idx, TNAME[t], (int)cnt[t]);
                return 1;
            }
            uint16 tg = 0, rf = 0;
            ANid2tagref(id, &tg, &rf);
            int k = -1;
            for (int i = 0; i < M.n; i++)
                if (M.a[i].type == t && M.a[i].atag == tg && M.a[i].aref == rf)
                    k = i;
            if (k < 0 || seen[k]) {
                mc_violation("select:identity", "%s: ANselect(%d,%s) gives (%u,%u) which is %s", where, idx, TNAME[t], tg, rf,
                             k < 0 ? "not an existing annotation" : "returned twice");
                return 1;
            }
            seen[k] = 1;
            if (read_check(id, &M.a[k], where, "ANselect"))
                return 1;
            uint16 gt = 0, gr = 0;
            if (ANget_tagref(an, idx, TY[t], &gt, &gr) == FAIL || gt != tg || gr != rf) {
                mc_violation("get_tagref", "%s: ANget_tagref(%d,%s) disagrees with ANselect+ANid2tagref", where, idx, TNAME[t]);
                return 1;
            }
            int32 id2 = ANtagref2id(an, tg, rf);
            if (id2 == FAIL || read_check(id2, &M.a[k], where, "ANtagref2id"))
                return 1;
            ANendaccess(id);
        }
        if (ANselect(an, cnt[t], TY[t]) != FAIL) {
            mc_violation("select:beyond", "%s: ANselect(index %d,%s) succeeded with only %d annotations", where, (int)cnt[t], TNAME[t], (int)cnt[t]);
            return 1;
        }
    }
    /* per target object */
    const uint16 targets[3][2] = {{1000, 1}, {1000, 2}, {1001, 1}};
    for (int t = 0; t < 2; t++)
        for (int g = 0; g < 3; g++) {
            int want = 0;
            for (int i = 0; i < M.n; i++)
                if (M.a[i].type == t && M.a[i].ttag == targets[g][0] && M.a[i].tref == targets[g][1])
                    want++;
            int n = ANnumann(an, TY[t], targets[g][0], targets[g][1]);
            if (n != want) {
                mc_violation("numann", "%s: ANnumann(%s,%u,%u)=%d, model %d", where, TNAME[t], targets[g][0], targets[g][1], n, want);
                return 1;
            }
            int32 list[MAXANN + 2];
            if (want > 0) {
                int got = ANannlist(an, TY[t], targets[g][0], targets[g][1], list);
                if (got != want) {
                    mc_violation("annlist:count", "%s: ANannlist(%s,%u,%u) returned %d ids, model %d", where, TNAME[t], targets[g][0], targets[g][1], got, want);
                    return 1;
                }
                for (int j = 0; j < got; j++) {
                    uint16 tg = 0, rf = 0;
                    ANid2tagref(list[j], &tg, &rf);
                    int k = -1;
                    for (int i = 0; i < M.n; i++)
                        if (M.a[i].type == t && M.a[i].atag == tg && M.a[i].aref == rf && M.a[i].ttag == targets[g][0] && M.a[i].tref == targets[g][1])
                            k = i;
                    if (k < 0) {
                        mc_violation("annlist:wrong-object", "%s: ANannlist(%s,%u,%u) lists annotation (%u,%u) which does not belong to that object", where, TNAME[t],
                                     targets[g][0], targets[g][1], tg, rf);
                        return 1;
                    }
                    if (read_check(list[j], &M.a[k], where, "ANannlist"))
                        return 1;
                }
            }
        }
    return 0;
}

static int
apply(const mc_op *op)
{
    M.nops++;
    switch (op->code) {
        case O_CREATE: {
            int    t = op->a[0];
            uint16 tt = TTAG(op->a[1]), tr = TREF(op->a[1]);
            int32  id = t < 2 ? ANcreate(an, tt, tr, TY[t]) : ANcreatef(an, TY[t]);
            if (M.readonly) {
                if (id != FAIL && ANwriteann(id, "x", 1) != FAIL)
                    mc_count("create_on_readonly_accepted", 1);
                return 2;
            }
            if (id == FAIL) {
                mc_violation("create:failed", "ANcreate%s(%s) failed", t < 2 ? "" : "f", TNAME[t]);
                return 1;
            }
            ann_t *m = &M.a[M.n];
            memset(m, 0, sizeof *m);
            m->type = t, m->ttag = t < 2 ? tt : 0, m->tref = t < 2 ? tr : 0;
            m->len  = make_text(op->a[2], t == 1 || t == 3, M.nops, m->txt);
            if (ANwriteann(id, (char *)m->txt, m->len) == FAIL) {
                mc_violation("write:failed", "ANwriteann(%s, %d bytes) on a new annotation failed", TNAME[t], m->len);
                return 1;
            }
            if (ANid2tagref(id, &m->atag, &m->aref) == FAIL) {
                mc_violation("id2tagref:failed", "ANid2tagref on a new annotation failed");
                return 1;
            }
            for (int i = 0; i < M.n; i++)
                if (M.a[i].atag == m->atag && M.a[i].aref == m->aref) {
                    mc_violation("identity:collision", "new %s received tag/ref (%u,%u) which belongs to an existing annotation", TNAME[t], m->atag, m->aref);
                    return 1;
                }
            m->id = id;
            M.n++;
            break;
        }
        case O_REWRITE: {
            ann_t *m  = &M.a[op->a[0]];
            int32  id = m->id;
            if (id == FAIL) {
                id = ANtagref2id(an, m->atag, m->aref);
                if (id == FAIL) {
                    mc_violation("tagref2id:failed", "ANtagref2id(%u,%u) of an existing annotation failed", m->atag, m->aref);
                    return 1;
                }
                m->id = id;
            }
            uint8 nt[MAXT];
            int   nl = make_text(op->a[1], m->type == 1 || m->type == 3, M.nops, nt);
            int   rc = ANwriteann(id, (char *)nt, nl);
            if (M.readonly) {
                if (rc != FAIL)
                    mc_count("rewrite_on_readonly_accepted", 1);
                return 2;
            }
            if (rc == FAIL) {
                mc_violation(nl > m->len ? "rewrite:longer-failed" : nl < m->len ? "rewrite:shorter-failed" : "rewrite:equal-failed",
                             "ANwriteann(%s) rewriting %d bytes with %d bytes failed", TNAME[m->type], m->len, nl);
                return 1;
            }
            m->len = nl;
            memcpy(m->txt, nt, (size_t)nl);
            break;
        }
        case O_ENDACCESS: {
            ann_t *m = &M.a[op->a[0]];
            if (ANendaccess(m->id) == FAIL) {
                mc_violation("endaccess:failed", "ANendaccess failed");
                return 1;
            }
            m->id = FAIL;
            break;
        }
        case O_REOPEN:
            if (ANend(an) == FAIL || Hclose(fid) == FAIL) {
                mc_violation("close:failed", "ANend/Hclose failed");
                return 1;
            }
            for (int i = 0; i < M.n; i++)
                M.a[i].id = FAIL;
            fid = Hopen(PATH, op->a[0] ? DFACC_RDWR : DFACC_READ, 0);
            an  = fid == FAIL ? FAIL : ANstart(fid);
            if (an == FAIL) {
                mc_violation("reopen:failed", "Hopen/ANstart failed");
                return 1;
            }
            M.readonly = !op->a[0];
            break;
        case O_DFAN: {
            /* single-file interface on the closed file, then reopen */
            if (ANend(an) == FAIL || Hclose(fid) == FAIL) {
                mc_violation("close:failed", "ANend/Hclose failed");
                return 1;
            }
            for (int i = 0; i < M.n; i++)
                M.a[i].id = FAIL;
            ann_t *m = &M.a[M.n];
            memset(m, 0, sizeof *m);
            if (op->a[0] >= 2) {
                /* file label / file description added through the single-file interface; the description is given by
                   address and length: it holds a NUL byte and the caller's buffer goes on behind it */
                int32 f2 = Hopen(PATH, DFACC_RDWR, 0);
                uint8 buf[32];
                int   rc2;
                m->type = op->a[0], m->id = FAIL;
                if (op->a[0] == 2) {
                    m->len = make_text(1, 0, M.nops, m->txt);
                    m->txt[m->len] = 0;
                    rc2 = f2 == FAIL ? FAIL : DFANaddfid(f2, (char *)m->txt);
                    m->atag = DFTAG_FID;
                }
                else {
                    m->len = make_text(2, 1, M.nops, buf);
                    memset(buf + m->len, 'Z', sizeof buf - (size_t)m->len);
                    memcpy(m->txt, buf, (size_t)m->len);
                    rc2 = f2 == FAIL ? FAIL : DFANaddfds(f2, (char *)buf, m->len);
                    m->atag = DFTAG_FD;
                }
                if (rc2 == FAIL || Hclose(f2) == FAIL) {
                    mc_violation("dfan:addf-failed", "DFANaddf%s failed", op->a[0] == 2 ? "id" : "ds");
                    return 1;
                }
                m->aref = DFANlastref();
                M.n++;
                fid = Hopen(PATH, DFACC_RDWR, 0);
                an  = fid == FAIL ? FAIL : ANstart(fid);
                if (an == FAIL) {
                    mc_violation("reopen:failed", "Hopen/ANstart after DFAN failed");
                    return 1;
                }
                M.readonly = 0;
                break;
            }
            m->type = op->a[0], m->ttag = TTAG(op->a[1]), m->tref = TREF(op->a[1]);
            m->id   = FAIL;
            m->len  = make_text(1, 0, M.nops, m->txt);
            m->txt[m->len] = 0;
            int rc = op->a[0] == 0 ? DFANputlabel(PATH, TTAG(op->a[1]), TREF(op->a[1]), (char *)m->txt) : DFANputdesc(PATH, TTAG(op->a[1]), TREF(op->a[1]), (char *)m->txt, m->len);
            if (rc == FAIL) {
                mc_violation("dfan:put-failed", "DFANput%s failed", op->a[0] == 0 ? "label" : "desc");
                return 1;
            }
            m->aref = DFANlastref();
            m->atag = op->a[0] == 0 ? DFTAG_DIL : DFTAG_DIA;
            /* DFAN replaces an existing annotation of that object instead of adding a second one */
            int replaced = -1;
            for (int i = 0; i < M.n; i++)
                if (M.a[i].type == m->type && M.a[i].ttag == m->ttag && M.a[i].tref == m->tref && M.a[i].aref == m->aref)
                    replaced = i;
            if (replaced >= 0) {
                M.a[replaced].len = m->len;
                memcpy(M.a[replaced].txt, m->txt, (size_t)m->len);
            }
            else
                M.n++;
            /* and must read the same through DFAN */
            char  back[64];
            int32 l = op->a[0] == 0 ? DFANgetlablen(PATH, TTAG(op->a[1]), TREF(op->a[1])) : DFANgetdesclen(PATH, TTAG(op->a[1]), TREF(op->a[1]));
            memset(back, 0, sizeof back);
            if (op->a[0] == 0)
                DFANgetlabel(PATH, TTAG(op->a[1]), TREF(op->a[1]), back, 63);
            else
                DFANgetdesc(PATH, TTAG(op->a[1]), TREF(op->a[1]), back, 63);
            (void)l;
            fid = Hopen(PATH, DFACC_RDWR, 0);
            an  = fid == FAIL ? FAIL : ANstart(fid);
            if (an == FAIL) {
                mc_violation("reopen:failed", "Hopen/ANstart after DFAN failed");
                return 1;
            }
            M.readonly = 0;
            break;
        }
    }
    char where[40];
    snprintf(where, sizeof where, "after %s", opname[op->code]);
    return observe(where);
}

static int
enum_ops(mc_op *out, int max)
{
    int n = 0;
#define ADD(c, a0, a1, a2)                                                                                                           \
    do {                                                                                                                             \
        if (n < max) {                                                                                                               \
            memset(&out[n], 0, sizeof out[n]);                                                                                       \
            out[n].code = c;                                                                                                         \
            out[n].a[0] = a0, out[n].a[1] = a1, out[n].a[2] = a2;                                                                    \
            n++;                                                                                                                     \
        }                                                                                                                            \
    } while (0)
    int thorough = mc_is_thorough();
    if (M.n < MAXANN - 1 && !M.readonly) {
        ADD(O_CREATE, 0, 1, 1); /* label of (100,1) */
        ADD(O_CREATE, 1, 1, 2); /* description of (100,1) with embedded NUL */
        ADD(O_CREATE, 0, 2, 0); /* label of (100,2): same ref number pattern, other object */
        ADD(O_CREATE, 0, 3, 1); /* label of the object with the first one's ref and another tag */
        ADD(O_CREATE, 2, 0, 1); /* file label */
        ADD(O_CREATE, 3, 0, 3); /* long file description */
        if (thorough) {
            ADD(O_CREATE, 1, 2, 3);
            ADD(O_CREATE, 3, 0, 2);
        }
    }
    for (int i = 0; i < M.n; i++) {
        if (!M.readonly) {
            ADD(O_REWRITE, i, 0, 0); /* shorter */
            ADD(O_REWRITE, i, 3, 0); /* longer */
            if (thorough) {
                ADD(O_REWRITE, i, 1, 0);
                ADD(O_REWRITE, i, 2, 0);
            }
        }
        if (M.a[i].id != FAIL)
            ADD(O_ENDACCESS, i, 0, 0);
    }
    ADD(O_REOPEN, 1, 0, 0);
    ADD(O_REOPEN, 0, 0, 0);
    if (!M.readonly && M.n < MAXANN - 1) {
        ADD(O_DFAN, 0, 2, 0);
        ADD(O_DFAN, 1, 2, 0);
        /* two objects with the same reference number and different tags */
        ADD(O_DFAN, 0, 1, 0);
        ADD(O_DFAN, 0, 3, 0);
        ADD(O_DFAN, 3, 0, 0); /* file description through DFANaddfds */
        if (thorough)
            ADD(O_DFAN, 2, 0, 0); /* file label through DFANaddfid */
        if (thorough) {
            ADD(O_DFAN, 1, 1, 0);
            ADD(O_DFAN, 1, 3, 0);
        }
    }
    return n;
}
static int
dev_cost(const mc_op *op)
{
    return op->code == O_REOPEN || op->code == O_DFAN;
}
static void
fmt_op(const mc_op *op, char *buf, size_t n)
{
    switch (op->code) {
        case O_CREATE: snprintf(buf, n, "create(%s,target ref %d,text#%d)", TNAME[op->a[0]], op->a[1], op->a[2]); break;
        case O_REWRITE: snprintf(buf, n, "rewrite(ann%d,text#%d)", op->a[0], op->a[1]); break;
        case O_ENDACCESS: snprintf(buf, n, "endaccess(ann%d)", op->a[0]); break;
        case O_REOPEN: snprintf(buf, n, "reopen(%s)", op->a[0] ? "RDWR" : "READ"); break;
        default: snprintf(buf, n, "DFANput%s(100,%d)", op->a[0] ? "desc" : "label", op->a[1]);
    }
}
static uint64_t
key(void)
{
    uint64_t h = mc_hash_i(MC_H0, M.n * 2 + M.readonly);
    for (int i = 0; i < M.n; i++) {
        h = mc_hash_i(h, M.a[i].type * 100000 + (M.a[i].ttag - 1000) * 50000 + M.a[i].tref * 1000 + M.a[i].len);
        h = mc_hash(h, M.a[i].txt, (size_t)M.a[i].len);
        h = mc_hash_i(h, M.a[i].atag * 70000 + M.a[i].aref);
        h = mc_hash_i(h, M.a[i].id != FAIL);
    }
    return mc_hash_i(h, (long)vfs_hash_all());
}
static void
terminal(void)
{
    if (ANend(an) == FAIL || Hclose(fid) == FAIL) {
        mc_violation("terminal:close", "ANend/Hclose failed");
        return;
    }
    fid = Hopen(PATH, DFACC_READ, 0);
    an  = fid == FAIL ? FAIL : ANstart(fid);
    if (an == FAIL) {
        mc_violation("terminal:reopen", "reopen failed");
        return;
    }
    observe("after ANend, close and reopen(read-only)");
    ANend(an);
    Hclose(fid);
}
static int
setup(int ndds)
{
    memset(&M, 0, sizeof M);
    vfs_remove_file(PATH);
    fid = Hopen(PATH, DFACC_CREATE, (int16)ndds);
    if (fid == FAIL)
        return -1;
    uint8 d[4] = {1, 2, 3, 4};
    Hputelement(fid, 1000, 1, d, 4);
    Hputelement(fid, 1000, 2, d, 4);
    Hputelement(fid, 1001, 1, d, 4);
    an = ANstart(fid);
    return an == FAIL ? -1 : observe("start state");
}
static mc_harness H = {enum_ops, apply, key, terminal, fmt_op, dev_cost};
typedef struct {
    int ndds, depth, dev;
} cfg_t;
static void
root(void *arg)
{
    cfg_t *c = arg;
    int    cfg[1] = {c->ndds};
    mc_set_config(cfg, 1, "ndds=%d", c->ndds);
    if (setup(c->ndds)) {
        mc_violation("prologue", "prologue failed");
        return;
    }
    mc_explore(&H, c->depth, c->dev);
}
int
C11_main(const char *tier, const char *replay)
{
    if (replay) {
        int   cfg[32], ncfg, nops;
        mc_op ops[MC_MAXDEPTH];
        if (mc_load_replay(replay, cfg, &ncfg, ops, &nops, MC_MAXDEPTH) || ncfg < 1)
            return 2;
        mc_set_config(cfg, 1, "ndds=%d", cfg[0]);
        printf("replay C11: ndds=%d, %d ops\n", cfg[0], nops);
        if (setup(cfg[0]))
            return 0;
        mc_replay_ops(&H, ops, nops);
        return 0;
    }
    int          thorough = strcmp(tier, "thorough") == 0;
    static cfg_t cfgs[2];
    int          dmax = thorough ? 7 : 5;
    for (int depth = thorough ? 3 : dmax; depth <= dmax; depth++) {
        char label[48];
        snprintf(label, sizeof label, "depth %d", depth);
        mc_round_begin(label);
        cfgs[0] = (cfg_t){4, depth, thorough ? 2 : 1};
        cfgs[1] = (cfg_t){16, depth, thorough ? 2 : 1};
        for (int i = 0; i < 2; i++)
            mc_spawn_root(root, &cfgs[(i + mc_seed()) % 2], 2);
        mc_wait_roots();
        mc_round_end();
        if (mc_deadline_hit())
            break;
    }
    return 0;
}
