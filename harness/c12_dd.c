/* C12 - the tag/ref directory is a faithful persistent map; new refs are never in use.
 * Fork-snapshot exploration of create/define/delete/dup/reuse/newref/cache/sync/reopen histories over the
 * public H interface against a plain table model. */
#include "../engine/mc.h"
#include "../engine/vfs.h"
#include "../engine/fmtcheck.h"
#include "hdf.h"
#include <stdio.h>
#include <stdlib.h>
#include <string.h>

#define PATH "/vmem/c12.hdf"
/* the two tags of the alphabet: (100,101), or - tag sets 1 and 2 - user-defined tags (0x8000 and above, where bit 0x4000 has
   no meaning and no special variant exists) next to a low tag or next to each other */
static uint16 g_t1 = 100, g_t2 = 101;
#define T1 g_t1
#define T2 g_t2
static const uint16 TAGSET[3][2] = {{100, 101}, {100, 0x9000}, {0x8001, 0xC001}};
#define MAXE 48

enum { OP_PUT, OP_DEFINE, OP_DEL, OP_DUP, OP_REUSE, OP_NEWREF, OP_TAGNEWREF, OP_CACHE, OP_SYNC, OP_REOPEN, OP_HLCREATE, OP_DELMISSING };
static const char *opname[] = {"put", "define", "del", "dup", "reuse", "newref", "tagnewref", "cache", "sync", "reopen", "hlcreate", "delmissing"};

typedef struct {
    uint16 tag, ref; /* base tag */
    int32  len;      /* -1 = defined without data */
    int    special;
    int    grp;      /* alias group (Hdupdd): members share one stored extent */
    uint8  data[16];
} ent;

static struct {
    ent   e[MAXE];
    int   n;
    int   cache;
    int   ndds;
    int   start; /* start-state id */
    int   nops;  /* ops applied so far: seeds data */
    int   hi;    /* proxy for the hidden max-ref counter */
    int   poisoned;
    int   ngrp;
} M;
static int32 fid = FAIL;

static const uint16 REFS[] = {1, 2, 3, 65534, 65535};
#define NREFS 5

static ent *
find(uint16 tag, uint16 ref)
{
    for (int i = 0; i < M.n; i++)
        if (M.e[i].tag == tag && M.e[i].ref == ref)
            return &M.e[i];
    return NULL;
}
static ent *
add(uint16 tag, uint16 ref)
{
    if (M.n >= MAXE)
        return NULL;
    ent *e = &M.e[M.n++];
    memset(e, 0, sizeof *e);
    e->tag = tag;
    e->ref = ref;
    e->len = -1;
    return e;
}
static void
del(ent *e)
{
    *e = M.e[--M.n];
}
static int
ref_used_anywhere(uint16 ref)
{
    for (int i = 0; i < M.n; i++)
        if (M.e[i].ref == ref)
            return 1;
    return 0;
}
static uint16
base(uint16 t)
{
    return (t & 0x8000) ? t : (uint16)(t & ~0x4000);
}

/* ---------------------------------------------------------------- observation */
typedef struct {
    uint16 tag, ref;
    int32  off, len;
} seen_t;

static int
enumerate(uint16 stag, uint16 sref, int dir, seen_t *out, int max)
{
    uint16 ft = 0, fr = 0;
    int32  off, len;
    int    n = 0;
    while (Hfind(fid, stag, sref, &ft, &fr, &off, &len, dir) == SUCCEED) {
        if (n < max) {
            out[n].tag = ft;
            out[n].ref = fr;
            out[n].off = off;
            out[n].len = len;
        }
        n++;
        if (n > max + 4)
            break;
    }
    return n;
}

static int
seen_cmp(const void *a, const void *b)
{
    const seen_t *x = a, *y = b;
    if (x->tag != y->tag)
        return x->tag < y->tag ? -1 : 1;
    if (x->ref != y->ref)
        return x->ref < y->ref ? -1 : 1;
    return 0;
}

#define MAXSEEN 4096
static seen_t allfwd[MAXSEEN];
static int    nallfwd;

/* compare everything observable with the model; where = label for signatures */
static int
observe(const char *where)
{
    int    bad = 0;
    static seen_t f[MAXSEEN], b[MAXSEEN];
    /* (1) point queries over the small universe */
    const uint16 tags[2] = {T1, T2};
    for (int t = 0; t < 2; t++) {
        int cnt = 0;
        for (int i = 0; i < M.n; i++)
            if (M.e[i].tag == tags[t])
                cnt++;
        int32 hn = Hnumber(fid, tags[t]);
        if (hn != cnt) {
            mc_violation("number:tag", "%s: Hnumber(tag %u)=%d but %d objects of that tag exist", where, tags[t], (int)hn, cnt);
            bad = 1;
        }
        for (int r = 0; r < NREFS + M.n; r++) {
            uint16 ref = r < NREFS ? REFS[r] : M.e[r - NREFS].ref;
            ent   *e   = find(tags[t], ref);
            int    ex  = Hexist(fid, tags[t], ref) == SUCCEED;
            if (ex != (e != NULL)) {
                mc_violation(e ? "exist:missing" : "exist:ghost", "%s: Hexist(%u,%u)=%d, model says %s", where, tags[t], ref, ex,
                             e ? "exists" : "absent");
                bad = 1;
                continue;
            }
            if (!e)
                continue;
            int32 hl = Hlength(fid, tags[t], ref);
            if (hl != e->len) {
                mc_violation("length", "%s: Hlength(%u,%u)=%d, model %d (special=%d)", where, tags[t], ref, (int)hl, (int)e->len,
                             e->special);
                bad = 1;
            }
            if (e->len > 0) {
                uint8 buf[64];
                memset(buf, 0xEE, sizeof buf);
                int32 g = Hgetelement(fid, tags[t], ref, buf);
                if (g != e->len || memcmp(buf, e->data, (size_t)e->len) != 0) {
                    mc_violation("content", "%s: Hgetelement(%u,%u)=%d data %02x%02x%02x.. expected len %d data %02x%02x%02x..", where,
                                 tags[t], ref, (int)g, buf[0], buf[1], buf[2], (int)e->len, e->data[0], e->data[1], e->data[2]);
                    bad = 1;
                }
            }
        }
    }
    /* (2) wildcard enumerations, both directions */
    struct {
        uint16 t, r;
    } pats[4 + NREFS];
    int np = 0;
    pats[np].t = DFTAG_WILDCARD, pats[np++].r = DFREF_WILDCARD;
    pats[np].t = T1, pats[np++].r = DFREF_WILDCARD;
    pats[np].t = T2, pats[np++].r = DFREF_WILDCARD;
    for (int r = 0; r < NREFS; r++)
        pats[np].t = DFTAG_WILDCARD, pats[np++].r = REFS[r];
    for (int p = 0; p < np; p++) {
        int nf = enumerate(pats[p].t, pats[p].r, DF_FORWARD, f, MAXSEEN);
        int nb = enumerate(pats[p].t, pats[p].r, DF_BACKWARD, b, MAXSEEN);
        if (nf > MAXSEEN || nb > MAXSEEN) {
            mc_violation("find:runaway", "%s: wildcard search (%u,%u) does not terminate (>%d results)", where, pats[p].t, pats[p].r, MAXSEEN);
            return 1;
        }
        if (p == 0) {
            memcpy(allfwd, f, (size_t)nf * sizeof *f);
            nallfwd = nf;
        }
        qsort(f, (size_t)nf, sizeof *f, seen_cmp);
        qsort(b, (size_t)nb, sizeof *b, seen_cmp);
        for (int i = 1; i < nf; i++)
            if (seen_cmp(&f[i], &f[i - 1]) == 0) {
                mc_violation("find:dup", "%s: forward search (%u,%u) returned (%u,%u) twice", where, pats[p].t, pats[p].r, f[i].tag, f[i].ref);
                bad = 1;
            }
        if (nf != nb || memcmp(f, b, (size_t)nf * sizeof *f) != 0) {
            mc_violation("find:fwd!=bwd", "%s: search (%u,%u) forward found %d entries, backward %d (or different sets)", where, pats[p].t,
                         pats[p].r, nf, nb);
            bad = 1;
        }
        /* restricted to tracked tags: must equal the model's matching set */
        int want = 0, got = 0;
        for (int i = 0; i < M.n; i++)
            if ((pats[p].t == DFTAG_WILDCARD || pats[p].t == M.e[i].tag) && (pats[p].r == DFREF_WILDCARD || pats[p].r == M.e[i].ref))
                want++;
        for (int i = 0; i < nf; i++) {
            uint16 bt = base(f[i].tag);
            if (bt != T1 && bt != T2)
                continue;
            got++;
            ent *e = find(bt, f[i].ref);
            if (!e) {
                mc_violation("find:ghost", "%s: search (%u,%u) reports (%u,%u) which does not exist", where, pats[p].t, pats[p].r, f[i].tag, f[i].ref);
                bad = 1;
            }
            else if (!e->special && f[i].len != e->len) {
                mc_violation("find:length", "%s: search reports (%u,%u) with length %d, model %d", where, f[i].tag, f[i].ref, (int)f[i].len,
                             (int)e->len);
                bad = 1;
            }
        }
        if (got != want) {
            mc_violation("find:count", "%s: search (%u,%u) reports %d tracked entries, model has %d", where, pats[p].t, pats[p].r, got, want);
            bad = 1;
        }
        if (p == 0) {
            int32 hn = Hnumber(fid, DFTAG_WILDCARD);
            if (hn != nf) {
                mc_violation("number:all", "%s: Hnumber(*)=%d but enumeration finds %d entries", where, (int)hn, nf);
                bad = 1;
            }
        }
    }
    return bad;
}

/* ---------------------------------------------------------------- ops */
static void
fill(uint8 *d, int len, int seed)
{
    for (int i = 0; i < len; i++)
        d[i] = (uint8)(seed * 16 + i + 1);
}

static int
used_in_file(uint16 ref)
{
    for (int i = 0; i < nallfwd; i++)
        if (allfwd[i].ref == ref)
            return 1;
    return 0;
}
static int
used_for_tag(uint16 tag, uint16 ref)
{
    for (int i = 0; i < nallfwd; i++)
        if (base(allfwd[i].tag) == tag && allfwd[i].ref == ref)
            return 1;
    return 0;
}

static int
do_put(uint16 tag, uint16 ref, int len, int viaopname)
{
    uint8 d[16];
    (void)viaopname;
    fill(d, len, M.nops);
    ent  *e = find(tag, ref);
    int32 r = Hputelement(fid, tag, ref, d, len);
    if (!e) {
        if (r != len) {
            mc_violation("put:new-failed", "Hputelement(%u,%u,len %d) on a free tag/ref returned %d", tag, ref, len, (int)r);
            return 1;
        }
        e      = add(tag, ref);
        e->len = len;
        memcpy(e->data, d, (size_t)len);
    }
    else if (e->len == -1) {
        if (r != len) {
            mc_violation("put:defined-failed", "Hputelement(%u,%u,len %d) on a defined-but-empty element returned %d", tag, ref, len, (int)r);
            return 1;
        }
        e->len = len;
        memcpy(e->data, d, (size_t)len);
    }
    else if (len <= e->len && !e->special) {
        if (r != len) {
            mc_violation("put:overwrite-failed", "Hputelement(%u,%u,len %d) over an element of length %d returned %d", tag, ref, len, (int)e->len,
                         (int)r);
            return 1;
        }
        memcpy(e->data, d, (size_t)len);
        if (e->grp)
            for (int i = 0; i < M.n; i++)
                if (M.e[i].grp == e->grp && &M.e[i] != e)
                    memcpy(M.e[i].data, d, (size_t)(len < M.e[i].len ? len : M.e[i].len));
    }
    else {
        /* growing an existing element through Hputelement: contract silent -> follow */
        if (r == len) {
            memcpy(e->data, d, (size_t)len);
            if (len > e->len)
                e->len = len;
        }
        mc_count(r == len ? "put_grow_ok" : "put_grow_refused", 1);
    }
    if (ref > M.hi)
        M.hi = ref;
    return 0;
}

static int
apply(const mc_op *op)
{
    uint16 tag = (uint16)op->a[0], ref = (uint16)op->a[1];
    M.nops++;
    vfs_api_seq++;
    switch (op->code) {
        case OP_PUT:
            if (do_put(tag, ref, op->a[2], 0))
                return 1;
            break;
        case OP_DEFINE: {
            int32 aid = Hstartaccess(fid, tag, ref, DFACC_WRITE);
            if (aid == FAIL) {
                mc_violation("define:failed", "Hstartaccess(%u,%u,WRITE) on a free tag/ref failed", tag, ref);
                return 1;
            }
            if (Hendaccess(aid) == FAIL) {
                mc_violation("define:endaccess", "Hendaccess failed");
                return 1;
            }
            add(tag, ref);
            if (ref > M.hi)
                M.hi = ref;
            break;
        }
        case OP_DEL: {
            ent *e = find(tag, ref);
            int  r = Hdeldd(fid, tag, ref);
            if (r != SUCCEED) {
                mc_violation("del:failed", "Hdeldd(%u,%u) on an existing entry failed", tag, ref);
                return 1;
            }
            del(e);
            break;
        }
        case OP_DELMISSING: {
            int r = Hdeldd(fid, tag, ref);
            if (r != FAIL) {
                mc_violation("del:missing-succeeded", "Hdeldd(%u,%u) on a non-existent entry returned success", tag, ref);
                return 1;
            }
            break;
        }
        case OP_DUP: {
            uint16 ot = (uint16)op->a[2], orf = (uint16)op->a[3];
            ent   *o = find(ot, orf), *n = find(tag, ref);
            int    r = Hdupdd(fid, tag, ref, ot, orf);
            if (n) {
                if (r != FAIL) {
                    mc_violation("dup:onto-existing", "Hdupdd onto the existing (%u,%u) returned success", tag, ref);
                    return 1;
                }
                break;
            }
            if (r != SUCCEED) {
                mc_violation("dup:failed", "Hdupdd((%u,%u) <- (%u,%u)) failed", tag, ref, ot, orf);
                return 1;
            }
            n = add(tag, ref);
            o = find(ot, orf);
            n->len = o->len;
            if (!o->grp)
                o->grp = ++M.ngrp;
            n->grp = o->grp;
            memcpy(n->data, o->data, sizeof n->data);
            if (ref > M.hi)
                M.hi = ref;
            break;
        }
        case OP_REUSE: {
            ent *e = find(tag, ref);
            int  r = HDreuse_tagref(fid, tag, ref);
            if (r != SUCCEED) {
                mc_violation("reuse:failed", "HDreuse_tagref(%u,%u) failed", tag, ref);
                return 1;
            }
            e->len = -1;
            e->grp = 0;
            if (do_put(tag, ref, op->a[2], 1))
                return 1;
            break;
        }
        case OP_NEWREF: {
            /* snapshot of the directory before the call: allfwd is current (observe ran after last op) */
            uint16 r = Hnewref(fid);
            if (r == 0) {
                /* allowed only if every ref 1..65535 is used file-wide: impossible in these bounded states */
                mc_violation("newref:zero", "Hnewref returned 0 although free reference numbers exist");
                return 1;
            }
            if (used_in_file(r) || ref_used_anywhere(r)) {
                mc_violation("newref:in-use", "Hnewref returned %u which is in use in the file", r);
                return 1;
            }
            mc_count(r < M.hi ? "newref_wrapped" : "newref_next", 1);
            if (do_put(T1, r, 2, 0))
                return 1;
            break;
        }
        case OP_TAGNEWREF: {
            uint16 r = Htagnewref(fid, tag);
            int    free_exists = 0;
            /* is any ref free for this tag? (bounded states: at most MAXE used) */
            free_exists = 1;
            if (r == 0) {
                if (free_exists) {
                    mc_violation("tagnewref:zero", "Htagnewref(%u) returned 0 although free reference numbers exist for the tag", tag);
                    return 1;
                }
                break;
            }
            if (used_for_tag(tag, r) || find(tag, r)) {
                mc_violation("tagnewref:in-use", "Htagnewref(%u) returned %u which is in use for that tag", tag, r);
                return 1;
            }
            if (do_put(tag, r, 2, 0))
                return 1;
            break;
        }
        case OP_CACHE:
            if (Hcache(fid, op->a[0]) == FAIL) {
                mc_violation("cache:failed", "Hcache(%d) failed", op->a[0]);
                return 1;
            }
            M.cache = op->a[0];
            break;
        case OP_SYNC:
            if (Hsync(fid) == FAIL) {
                mc_violation("sync:failed", "Hsync failed");
                return 1;
            }
            break;
        case OP_REOPEN:
            if (Hclose(fid) == FAIL) {
                mc_violation("close:failed", "Hclose failed");
                return 1;
            }
            fid = Hopen(PATH, DFACC_RDWR, 0);
            if (fid == FAIL) {
                mc_violation("reopen:failed", "Hopen(RDWR) of the file just closed failed");
                return 1;
            }
            M.cache = 1; /* default */
            M.hi    = 0;
            break;
        case OP_HLCREATE: {
            uint8 d[16];
            fill(d, 3, M.nops);
            int32 aid = HLcreate(fid, tag, ref, 4, 2);
            if (aid == FAIL) {
                mc_violation("hlcreate:failed", "HLcreate(%u,%u) on a free tag/ref failed", tag, ref);
                return 1;
            }
            if (Hwrite(aid, 3, d) != 3 || Hendaccess(aid) == FAIL) {
                mc_violation("hlcreate:write", "write/endaccess on new linked-block element failed");
                return 1;
            }
            ent *e     = add(tag, ref);
            e->len     = 3;
            e->special = 1;
            memcpy(e->data, d, 3);
            if (ref > M.hi)
                M.hi = ref;
            break;
        }
    }
    char where[64];
    snprintf(where, sizeof where, "after %s", opname[op->code]);
    if (observe(where))
        return 1;
    if (op->code == OP_REOPEN) {
        for (int i = 0; i < nallfwd; i++)
            if (allfwd[i].ref > M.hi)
                M.hi = allfwd[i].ref;
    }
    return 0;
}

static int
enum_ops(mc_op *out, int max)
{
    int          n      = 0;
    const uint16 tags[2] = {T1, T2};
#define ADD(c, a0, a1, a2, a3)                                                                                                       \
    do {                                                                                                                             \
        if (n < max) {                                                                                                               \
            memset(&out[n], 0, sizeof out[n]);                                                                                       \
            out[n].code = c;                                                                                                         \
            out[n].a[0] = a0;                                                                                                        \
            out[n].a[1] = a1;                                                                                                        \
            out[n].a[2] = a2;                                                                                                        \
            out[n].a[3] = a3;                                                                                                        \
            n++;                                                                                                                     \
        }                                                                                                                            \
    } while (0)
    if (M.n < MAXE - 4) {
        /* create: T1 over refs {1,2,65535}, T2 over {1,65535} -- colliding refs across tags on purpose */
        const uint16 r1[] = {1, 2, 65535}, r2[] = {1, 65535};
        for (int i = 0; i < 3; i++)
            if (!find(T1, r1[i]))
                ADD(OP_PUT, T1, r1[i], 3, 0);
        for (int i = 0; i < 2; i++)
            if (!find(T2, r2[i]))
                ADD(OP_PUT, T2, r2[i], 5, 0);
        if (!find(T1, 3))
            ADD(OP_DEFINE, T1, 3, 0, 0);
        if (!find(T2, 2) && T2 < 0x8000)
            ADD(OP_HLCREATE, T2, 2, 0, 0);
        if (!find(T1, 65534) && T1 < 0x8000)
            ADD(OP_HLCREATE, T1, 65534, 0, 0);
        ADD(OP_NEWREF, 0, 0, 0, 0);
        ADD(OP_TAGNEWREF, T1, 0, 0, 0);
        ADD(OP_TAGNEWREF, T2, 0, 0, 0);
    }
    for (int i = 0; i < M.n; i++) {
        ent *e = &M.e[i];
        ADD(OP_DEL, e->tag, e->ref, 0, 0);
        if (!e->special && e->len > 0) {
            ADD(OP_PUT, e->tag, e->ref, 2, 0); /* overwrite shorter */
            ADD(OP_REUSE, e->tag, e->ref, 7, 0);
            /* duplicate onto the other tag with same ref, or same tag ref 3 */
            uint16 ot = e->tag == T1 ? T2 : T1;
            if (!find(ot, e->ref))
                ADD(OP_DUP, ot, e->ref, e->tag, e->ref);
        }
    }
    if (M.n > 0 && !find(T2, 3))
        ADD(OP_DELMISSING, T2, 3, 0, 0);
    if (M.n >= 2)
        ADD(OP_DUP, M.e[0].tag, M.e[0].ref, M.e[1].tag, M.e[1].ref); /* onto existing: must fail */
    ADD(OP_CACHE, !M.cache, 0, 0, 0);
    ADD(OP_SYNC, 0, 0, 0, 0);
    ADD(OP_REOPEN, 0, 0, 0, 0);
    (void)tags;
    return n;
}

static int
dev_cost(const mc_op *op)
{
    return op->code == OP_CACHE || op->code == OP_REOPEN || op->code == OP_SYNC;
}

static void
fmt_op(const mc_op *op, char *buf, size_t n)
{
    switch (op->code) {
        case OP_DUP: snprintf(buf, n, "dup((%d,%d)<-(%d,%d))", op->a[0], op->a[1], op->a[2], op->a[3]); break;
        case OP_PUT:
        case OP_REUSE: snprintf(buf, n, "%s(%d,%d,len %d)", opname[op->code], op->a[0], op->a[1], op->a[2]); break;
        case OP_CACHE: snprintf(buf, n, "cache(%d)", op->a[0]); break;
        case OP_NEWREF:
        case OP_SYNC:
        case OP_REOPEN: snprintf(buf, n, "%s()", opname[op->code]); break;
        case OP_TAGNEWREF: snprintf(buf, n, "tagnewref(%d)", op->a[0]); break;
        default: snprintf(buf, n, "%s(%d,%d)", opname[op->code], op->a[0], op->a[1]);
    }
}

static int
ent_cmp(const void *a, const void *b)
{
    const ent *x = a, *y = b;
    if (x->tag != y->tag)
        return x->tag < y->tag ? -1 : 1;
    return x->ref < y->ref ? -1 : x->ref > y->ref;
}

static uint64_t
key(void)
{
    ent tmp[MAXE];
    memcpy(tmp, M.e, sizeof tmp);
    qsort(tmp, (size_t)M.n, sizeof tmp[0], ent_cmp);
    uint64_t h = MC_H0;
    h          = mc_hash_i(h, M.ndds);
    h          = mc_hash_i(h, M.start);
    h          = mc_hash_i(h, M.cache);
    h          = mc_hash_i(h, M.hi);
    for (int i = 0; i < M.n; i++) {
        h = mc_hash_i(h, tmp[i].tag);
        h = mc_hash_i(h, tmp[i].ref);
        h = mc_hash_i(h, tmp[i].len);
        h = mc_hash_i(h, tmp[i].special);
        h = mc_hash(h, tmp[i].data, sizeof tmp[i].data);
    }
    /* the library's own view of slot order and placement (in-memory when caching) */
    h = mc_hash(h, allfwd, (size_t)nallfwd * sizeof allfwd[0]);
    h = mc_hash_i(h, (long)vfs_hash_all());
    return h;
}

static void
terminal(void)
{
    if (Hclose(fid) == FAIL) {
        mc_violation("terminal:close", "Hclose failed with no access elements attached");
        return;
    }
    fid = FAIL;
    /* independent structural validation of what is on "disk" */
    vfile *vf = vfs_lookup(PATH);
    long   sz;
    uint8 *bytes = vfs_dup_bytes(vf, &sz);
    fc_file fc;
    memset(&fc, 0, sizeof fc);
    if (fc_parse(&fc, bytes, sz) != 0) {
        mc_violation("terminal:format", "closed file is not well-formed: %s", fc.err[0]);
    }
    else {
        /* the independent reader must see exactly the model's tracked entries */
        int got = 0;
        for (int i = 0; i < fc.ndd; i++) {
            uint16 bt = fc_base(fc.dd[i].tag);
            if (bt != T1 && bt != T2)
                continue;
            got++;
            ent *e = find(bt, fc.dd[i].ref);
            if (!e)
                mc_violation("terminal:disk-ghost", "closed file contains (%u,%u) which was deleted or never created", fc.dd[i].tag, fc.dd[i].ref);
            else if (!e->special && fc.dd[i].len != e->len)
                mc_violation("terminal:disk-length", "closed file has (%u,%u) with length %d, model %d", bt, fc.dd[i].ref, fc.dd[i].len, (int)e->len);
            else if (!e->special && e->len > 0 && memcmp(bytes + fc.dd[i].off, e->data, (size_t)e->len) != 0)
                mc_violation("terminal:disk-content", "closed file has wrong bytes for (%u,%u)", bt, fc.dd[i].ref);
        }
        if (got != M.n)
            mc_violation("terminal:disk-count", "closed file contains %d tracked entries, model has %d", got, M.n);
        mc_count(fc.nblk > 1 ? "files_multi_ddblock" : "files_single_ddblock", 1);
    }
    fc_free(&fc);
    free(bytes);
    fid = Hopen(PATH, DFACC_READ, 0);
    if (fid == FAIL) {
        mc_violation("terminal:reopen", "Hopen(READ) of the closed file failed");
        return;
    }
    observe("after close+reopen(read-only)");
    Hclose(fid);
}

/* ---------------------------------------------------------------- start states */
static int
setup(int ndds, int cache, int start)
{
    memset(&M, 0, sizeof M);
    M.ndds  = ndds;
    M.start = start;
    g_t1 = TAGSET[start / 10 % 3][0], g_t2 = TAGSET[start / 10 % 3][1];
    start %= 10;
    vfs_remove_file(PATH);
    Hcache(CACHE_ALL_FILES, 1);
    fid = Hopen(PATH, DFACC_CREATE, (int16)ndds);
    if (fid == FAIL) {
        mc_harness_error("cannot create %s", PATH);
        return -1;
    }
    M.cache = 1;
    if (!cache) {
        Hcache(fid, 0);
        M.cache = 0;
    }
    nallfwd = 0;
    mc_op op;
    memset(&op, 0, sizeof op);
    switch (start) {
        case 0: break;
        case 1: /* counter one below the top */
            op.code = OP_PUT, op.a[0] = T2, op.a[1] = 65534, op.a[2] = 5;
            apply(&op);
            break;
        case 2: /* counter at the top, low refs used by both tags */
            op.code = OP_PUT, op.a[0] = T2, op.a[1] = 65535, op.a[2] = 5;
            apply(&op);
            op.a[0] = T1, op.a[1] = 1, op.a[2] = 3;
            apply(&op);
            op.a[0] = T2, op.a[1] = 2;
            apply(&op);
            break;
        case 3: /* first DD block nearly full so that the next creations cross into a new block */
            for (int i = 0; i < ndds - 2; i++) {
                op.code = OP_PUT, op.a[0] = T2, op.a[1] = 10 + i, op.a[2] = 2;
                apply(&op);
            }
            break;
        case 4: /* the first block is full and a second one, holding only an alias (no data behind it), ends the file */
            for (int i = 0; i < ndds - 1; i++) {
                op.code = OP_PUT, op.a[0] = T2, op.a[1] = 10 + i, op.a[2] = 2;
                apply(&op);
            }
            op.code = OP_DUP, op.a[0] = T1, op.a[1] = 50, op.a[2] = T2, op.a[3] = 10;
            apply(&op);
            break;
    }
    M.nops = 0;
    observe("start state");
    return 0;
}


/* ---------------------------------------------------------------- bulk wrap-around cases */
/* States that need ~65535 objects cannot be reached by short histories; they are built directly and the
 * allocator contract is checked on them: a new ref is non-zero and unused, 0 only when none is free. */
static void
bulk_case(long idx, void *ctx)
{
    (void)ctx;
    int cfg[2] = {(int)idx, 0};
    mc_set_config(cfg, 1, "bulk case %ld", idx);
    int cache = (idx & 1) == 0;
    int kind  = (int)(idx / 2);
    mc_set_case("bulk kind=%d cache=%d", kind, cache);
    vfs_remove_file(PATH);
    Hcache(CACHE_ALL_FILES, 1);
    fid = Hopen(PATH, DFACC_CREATE, 512);
    if (fid == FAIL) {
        mc_harness_error("bulk: create failed");
        return;
    }
    if (!cache)
        Hcache(fid, 0);
    uint8 d[2] = {1, 2};
    if (kind == 0) {
        /* T1 uses refs 1..65534: the only free ref for the tag is 65535 */
        for (int r = 1; r <= 65534; r++)
            if (Hputelement(fid, T1, (uint16)r, d, 2) != 2) {
                mc_violation("bulk:put", "Hputelement(T1,%d) failed while filling the tag", r);
                return;
            }
        uint16 r = Htagnewref(fid, T1);
        if (r != 65535)
            mc_violation("bulk:tagnewref-last", "refs 1..65534 of the tag are in use: Htagnewref returned %u, the only free ref is 65535", r);
        if (Hputelement(fid, T1, 65535, d, 2) != 2)
            mc_violation("bulk:put-65535", "Hputelement(T1,65535) failed");
        r = Htagnewref(fid, T1);
        if (r != 0)
            mc_violation("bulk:tagnewref-full", "all 65535 refs of the tag are in use: Htagnewref returned %u instead of 0", r);
        /* another tag is unaffected */
        r = Htagnewref(fid, T2);
        if (r == 0)
            mc_violation("bulk:tagnewref-other", "Htagnewref(T2) returned 0 although T2 has no objects");
        if (Hnumber(fid, T1) != 65535)
            mc_violation("bulk:number", "Hnumber(T1)=%d, expected 65535", (int)Hnumber(fid, T1));
        /* free one in the middle: it must be the one handed out */
        if (Hdeldd(fid, T1, 40000) != SUCCEED)
            mc_violation("bulk:del", "Hdeldd(T1,40000) failed");
        r = Htagnewref(fid, T1);
        if (r != 40000)
            mc_violation("bulk:tagnewref-hole", "only ref 40000 of the tag is free: Htagnewref returned %u", r);
    }
    else if (kind == 1) {
        /* file-wide: every ref 1..65535 is used by some tag */
        for (int r = 1; r <= 65535; r++)
            if (Hputelement(fid, (uint16)(r <= 30000 ? T1 : T2), (uint16)r, d, 2) != 2) {
                mc_violation("bulk:put", "Hputelement(%d) failed while filling the file", r);
                return;
            }
        uint16 r = Hnewref(fid);
        if (r != 0)
            mc_violation("bulk:newref-full", "every ref is in use by some tag: Hnewref returned %u instead of 0", r);
        if (Hdeldd(fid, T2, 50000) != SUCCEED || Hdeldd(fid, T1, 7) != SUCCEED)
            mc_violation("bulk:del", "Hdeldd failed");
        r = Hnewref(fid);
        if (r != 7 && r != 50000)
            mc_violation("bulk:newref-hole", "only refs 7 and 50000 are free: Hnewref returned %u", r);
        if (r && Hputelement(fid, T1, r, d, 2) != 2)
            mc_violation("bulk:put-hole", "Hputelement on the newly issued ref %u failed", r);
        uint16 r2 = Hnewref(fid);
        if (r2 == r || (r2 != 7 && r2 != 50000))
            mc_violation("bulk:newref-hole2", "after using %u the only free ref is the other hole: Hnewref returned %u", r, r2);
    }
    else {
        /* counter at the top with the low refs taken by one tag only: general allocator must skip them */
        if (Hputelement(fid, T2, 65535, d, 2) != 2)
            return;
        for (int r = 1; r <= 300; r++)
            Hputelement(fid, T1, (uint16)r, d, 2);
        uint16 r = Hnewref(fid);
        if (r != 301)
            mc_violation("bulk:newref-wrap", "refs 1..300 and 65535 in use, counter wrapped: Hnewref returned %u, expected the lowest free ref 301", r);
    }
    /* persistence of the full directory */
    int32 nall = Hnumber(fid, DFTAG_WILDCARD);
    if (Hclose(fid) == FAIL) {
        mc_violation("bulk:close", "Hclose failed");
        return;
    }
    fid = Hopen(PATH, DFACC_READ, 0);
    if (fid == FAIL) {
        mc_violation("bulk:reopen", "Hopen of a file with %d descriptors failed", (int)nall);
        return;
    }
    if (Hnumber(fid, DFTAG_WILDCARD) != nall)
        mc_violation("bulk:reopen-number", "Hnumber(*) %d before close, %d after reopen", (int)nall, (int)Hnumber(fid, DFTAG_WILDCARD));
    Hclose(fid);
    mc_count("bulk_cases", 1);
}

typedef struct {
    int ndds, cache, start, depth, dev;
} cfg_t;

static mc_harness H = {enum_ops, apply, key, terminal, fmt_op, dev_cost};

static void
root(void *arg)
{
    cfg_t *c      = arg;
    int    cfg[3] = {c->ndds, c->cache, c->start};
    mc_set_config(cfg, 3, "ndds=%d cache=%s start=%d", c->ndds, c->cache ? "on" : "off", c->start);
    if (setup(c->ndds, c->cache, c->start))
        return;
    mc_explore(&H, c->depth, c->dev);
}

/* the per-tag table of used reference numbers grows in steps: n consecutive numbers of one tag, then one far beyond them in a
   single step; afterwards every number is still known as used / unused, also after reopening */
static void
jump_case(long idx, void *ctx)
{
    (void)ctx;
    static const int NN[6] = {100, 130, 250, 513, 1000, 1027};
    static const int JJ[5] = {600, 1500, 5000, 40000, 65535};
    int n = NN[idx % 6], jump = JJ[idx / 6 % 5];
    int cfg[1] = {1000 + (int)idx};
    mc_set_config(cfg, 1, "reference-number jump case %ld", idx);
    mc_set_case("tag 100 under reference numbers 1..%d, then %d in one step (Hdupdd), then Htagnewref / Hdeldd / Hnumber, reopen", n, jump);
    if (jump <= n)
        return;
    vfs_remove_file(PATH);
    fid = Hopen(PATH, DFACC_CREATE, 16);
    uint8 d[2] = {1, 2};
    for (int r = 1; r <= n; r++)
        if (Hputelement(fid, 100, (uint16)r, d, 2) != 2) {
            mc_violation("jump:put", "Hputelement(100,%d) failed", r);
            return;
        }
    if (Hdupdd(fid, 100, (uint16)jump, 100, 1) == FAIL) {
        mc_violation("jump:dup", "Hdupdd onto reference number %d failed", jump);
        return;
    }
    for (int phase = 0; phase < 2; phase++) {
        if (phase == 1 && (Hclose(fid) == FAIL || (fid = Hopen(PATH, DFACC_RDWR, 0)) == FAIL)) {
            mc_violation("jump:reopen", "close/reopen failed");
            return;
        }
        const char *when = phase ? "after reopen" : "same session";
        if (Hnumber(fid, 100) != n + 1)
            mc_violation("jump:number", "%s: Hnumber(100) = %d, %d objects exist", when, (int)Hnumber(fid, 100), n + 1);
        for (int r = 1; r <= n; r++)
            if (Hexist(fid, 100, (uint16)r) == FAIL) {
                mc_violation("jump:exist", "%s: (100,%d) is reported missing", when, r);
                break;
            }
        uint16 nr = Htagnewref(fid, 100);
        if (nr == 0 || (nr <= n) || nr == jump || Hexist(fid, 100, nr) != FAIL)
            mc_violation("jump:tagnewref-in-use", "%s: Htagnewref(100) returns %u, which is %s", when, nr, nr == 0 ? "no number although free ones exist" : "in use");
    }
    /* delete the three highest of the consecutive ones: each must succeed once and be gone */
    for (int r = n; r > n - 3; r--) {
        if (Hdeldd(fid, 100, (uint16)r) == FAIL)
            mc_violation("jump:del", "Hdeldd(100,%d) of an existing object failed", r);
        if (Hexist(fid, 100, (uint16)r) != FAIL)
            mc_violation("jump:del-still-there", "(100,%d) still exists after Hdeldd", r);
    }
    if (Hnumber(fid, 100) != n + 1 - 3)
        mc_violation("jump:number", "after three deletions Hnumber(100) = %d, expected %d", (int)Hnumber(fid, 100), n - 2);
    if (Hclose(fid) == FAIL)
        mc_violation("jump:close", "Hclose failed");
    fid = FAIL;
    mc_count("jump_cases", 1);
}

int
C12_main(const char *tier, const char *replay)
{
    if (replay) {
        int   cfg[32], ncfg, nops;
        mc_op ops[MC_MAXDEPTH];
        if (mc_load_replay(replay, cfg, &ncfg, ops, &nops, MC_MAXDEPTH) == 0 && ncfg == 1) {
            if (cfg[0] >= 1000)
                jump_case(cfg[0] - 1000, NULL);
            else
                bulk_case(cfg[0], NULL);
            return 0;
        }
        if (ncfg < 3) {
            fprintf(stderr, "bad replay file\n");
            return 2;
        }
        mc_set_config(cfg, 3, "ndds=%d cache=%s start=%d", cfg[0], cfg[1] ? "on" : "off", cfg[2]);
        printf("replay C12: ndds=%d cache=%d start=%d, %d ops\n", cfg[0], cfg[1], cfg[2], nops);
        if (setup(cfg[0], cfg[1], cfg[2]))
            return 2;
        mc_replay_ops(&H, ops, nops);
        return 0;
    }
    int thorough = strcmp(tier, "thorough") == 0;
    static cfg_t cfgs[128];
    int          ncfg = 0;
    const int    ndds_q[] = {4, 5}, ndds_t[] = {4, 5, 6, 7, 16};
    const int   *nd       = thorough ? ndds_t : ndds_q;
    int          nnd      = thorough ? 5 : 2;
    int          dmax     = thorough ? 7 : 4;
    /* the bulk cases first: the deepening search below may use up the whole time allowance */
    mc_foreach(6, bulk_case, NULL, 1, 300);
    mc_foreach(30, jump_case, NULL, 1, 300);
    for (int depth = thorough ? 3 : dmax; depth <= dmax; depth++) {
        char label[64];
        snprintf(label, sizeof label, "depth %d", depth);
        mc_round_begin(label);
        ncfg = 0;
        for (int i = 0; i < nnd; i++)
            for (int cache = 1; cache >= 0; cache--)
                for (int sx = 0; sx < 9; sx++) {
                    /* start states 0-4 with tags (100,101); 0 and 2 again with user-defined tags (tag sets 1 and 2: +10, +20) */
                    static const int SX[9] = {0, 1, 2, 3, 4, 10, 12, 20, 22};
                    int    start = SX[sx];
                    if (!thorough && sx >= 5 && (i > 0 || (sx != 5 && sx != 8)))
                        continue; /* quick: tag set 1 from the empty file, tag set 2 from the start state with refs in use, ndds 4 */
                    cfg_t *c = &cfgs[ncfg++];
                    c->ndds  = nd[i];
                    c->cache = cache;
                    c->start = start;
                    c->depth = start % 10 == 0 ? depth : (depth > 2 ? depth - 1 : depth);
                    c->dev   = thorough ? 2 : 1;
                }
        /* VERIF_SEED only rotates the scheduling order of configurations */
        int rot = mc_seed() % ncfg;
        for (int i = 0; i < ncfg; i++)
            mc_spawn_root(root, &cfgs[(i + rot) % ncfg], 4);
        mc_wait_roots();
        mc_round_end();
        if (mc_deadline_hit())
            break;
    }
    return 0;
}
