/* C13 - handles are safe: valid ones never alias, stale ones are always rejected.
 * Fork-snapshot exploration of acquire / use / release histories over every id value ever issued (double release, use after
 * release, ids of another kind, never-issued values), per interface family, against a handle-table model; ASan as oracle;
 * after full teardown a canonical mini-workload must behave exactly as in a pristine process. */
#include "../engine/mc.h"
#include "../engine/vfs.h"
#include "hdf.h"
#include "mfhdf.h"
#include <stdio.h>
#include <stdlib.h>
#include <string.h>

#define PATH "/vmem/c13.hdf"
#define PATH2 "/vmem/c13b.hdf"
#define MAXID 10

enum { K_FILE, K_AID, K_BIT, K_VG, K_VS, K_GR, K_RI, K_LUT, K_AN, K_ANN, K_SD, K_SDS, K_DIM, K_N };
static const char *KN[] = {"file", "aid", "bitid", "vgroup", "vdata", "gr", "ri", "lut", "an", "ann", "sd", "sds", "dim"};

typedef struct {
    int   kind, obj, live, parent; /* parent = index of the issuing interface entry, -1 none */
    int   mode;
    int32 id;
} ent_t;
static struct {
    ent_t e[MAXID];
    int   n;
    int   fam;
    int   vstarted[MAXID]; /* per file entry */
    int   nops;
} M;
static int32 g_refs[8]; /* refs of prologue objects: vgA,vgB,vsA,vsB */
static uint64_t g_pristine;
static int      g_after_end; /* an interface was ended while ids issued under it were outstanding: the branch stops after the probe */

/* ------------------------------------------------------------------ canonical mini workload */
static uint64_t
mini_workload(void)
{
    uint64_t h = MC_H0;
    vfs_remove_file(PATH2);
    int32 f = Hopen(PATH2, DFACC_CREATE, 4);
    h       = mc_hash_i(h, f != FAIL);
    uint8 d[5] = {9, 8, 7, 6, 5};
    h = mc_hash_i(h, Hputelement(f, 1000, 1, d, 5));
    h = mc_hash_i(h, Vstart(f));
    int32 vs = VSattach(f, -1, "w");
    h        = mc_hash_i(h, vs != FAIL);
    h        = mc_hash_i(h, VSfdefine(vs, "q", DFNT_INT16, 1));
    h        = mc_hash_i(h, VSsetfields(vs, "q"));
    int16 v[2] = {3, 4};
    h = mc_hash_i(h, VSwrite(vs, (uint8 *)v, 2, FULL_INTERLACE));
    h = mc_hash_i(h, VSQueryref(vs));
    h = mc_hash_i(h, VSdetach(vs));
    int32 vg = Vattach(f, -1, "w");
    h        = mc_hash_i(h, Vsetname(vg, "w"));
    h        = mc_hash_i(h, VQueryref(vg));
    h        = mc_hash_i(h, Vdetach(vg));
    h        = mc_hash_i(h, Vend(f));
    int32 gr = GRstart(f);
    int32 dims[2] = {2, 1};
    int32 ri = GRcreate(gr, "m", 1, DFNT_UINT8, 0, dims);
    int32 st[2] = {0, 0};
    h = mc_hash_i(h, GRwriteimage(ri, st, NULL, dims, d));
    h = mc_hash_i(h, GRendaccess(ri));
    h = mc_hash_i(h, GRend(gr));
    int32 an = ANstart(f);
    int32 a  = ANcreatef(an, AN_FILE_LABEL);
    h        = mc_hash_i(h, ANwriteann(a, "lbl", 3));
    h        = mc_hash_i(h, ANendaccess(a));
    h        = mc_hash_i(h, ANend(an));
    h        = mc_hash_i(h, Hclose(f));
    int32 sd = SDstart(PATH2, DFACC_RDWR);
    int32 dm = 2;
    int32 s  = SDcreate(sd, "s", DFNT_INT16, 1, &dm);
    int32 z  = 0;
    h = mc_hash_i(h, SDwritedata(s, &z, NULL, &dm, v));
    h = mc_hash_i(h, SDendaccess(s));
    h = mc_hash_i(h, SDend(sd));
    vfile *vf = vfs_lookup(PATH2);
    h         = mc_hash_i(h, vf ? (long)vfs_hash_file(vf) : -1);
    return h;
}

/* ------------------------------------------------------------------ prologue: one file holding two objects of every kind */
static int
prologue(void)
{
    vfs_remove_file(PATH);
    int32 f = Hopen(PATH, DFACC_CREATE, 16);
    if (f == FAIL)
        return -1;
    uint8 d[8] = {1, 2, 3, 4, 5, 6, 7, 8};
    Hputelement(f, 1000, 1, d, 3);
    {
        /* the second element is stored in linked blocks: access ids on it share one special-information record */
        int32 la = HLcreate(f, 1000, 2, 2, 2);
        if (la == FAIL || Hwrite(la, 5, d) != 5 || Hendaccess(la) == FAIL)
            return -1;
    }
    Vstart(f);
    for (int k = 0; k < 2; k++) {
        int32 vs = VSattach(f, -1, "w");
        VSsetname(vs, k ? "vsB" : "vsA");
        VSfdefine(vs, "x", DFNT_INT16, 1);
        VSsetfields(vs, "x");
        int16 v[3] = {1, 2, 3};
        VSwrite(vs, (uint8 *)v, 2 + k, FULL_INTERLACE);
        g_refs[2 + k] = VSQueryref(vs);
        VSdetach(vs);
        int32 vg = Vattach(f, -1, "w");
        Vsetname(vg, k ? "vgB" : "vgA");
        Vaddtagref(vg, 1000, 1 + k);
        g_refs[k] = VQueryref(vg);
        Vdetach(vg);
    }
    Vend(f);
    int32 gr = GRstart(f);
    for (int k = 0; k < 2; k++) {
        int32 dims[2] = {2 + k, 1};
        int32 ri      = GRcreate(gr, k ? "riB" : "riA", 1, DFNT_UINT8, 0, dims);
        int32 st[2]   = {0, 0};
        GRwriteimage(ri, st, NULL, dims, d);
        uint8 pal[768];
        memset(pal, k + 1, sizeof pal);
        GRwritelut(GRgetlutid(ri, 0), 3, DFNT_UINT8, 0, 256, pal);
        GRendaccess(ri);
    }
    GRend(gr);
    int32 an = ANstart(f);
    for (int k = 0; k < 2; k++) {
        int32 a = ANcreate(an, 1000, (uint16)(1 + k), AN_DATA_LABEL);
        ANwriteann(a, k ? "labelBB" : "lblA", k ? 7 : 4);
        ANendaccess(a);
    }
    ANend(an);
    if (Hclose(f) == FAIL)
        return -1;
    int32 sd = SDstart(PATH, DFACC_RDWR);
    for (int k = 0; k < 2; k++) {
        int32 dm = 2 + k, z = 0;
        int16 v[3] = {7, 8, 9};
        int32 s    = SDcreate(sd, k ? "sdB" : "sdA", DFNT_INT16, 1, &dm);
        SDwritedata(s, &z, NULL, &dm, v);
        SDendaccess(s);
    }
    return SDend(sd) == FAIL ? -1 : 0;
}

/* ------------------------------------------------------------------ per-kind primitives */
/* use: 1 = succeeded and designates object `obj`; 2 = succeeded but designates another object; 0 = returned its failure value */
static int
use_id(int kind, int32 id, int obj)
{
    char  name[256] = "";
    int32 a, b, c, dd[4];
    switch (kind) {
        case K_FILE: {
            char *fn = NULL;
            int   acc, att;
            if (Hfidinquire(id, &fn, &acc, &att) == FAIL)
                return 0;
            return strcmp(fn, PATH) == 0 ? 1 : 2;
        }
        case K_AID: {
            uint16 t = 0, r = 0;
            int32  len = -1;
            if (Hinquire(id, NULL, &t, &r, &len, NULL, NULL, NULL, NULL) == FAIL)
                return 0;
            /* the linked-block element may be reported with its special tag */
            return ((t == 1000 || t == (1000 | 0x4000)) && r == 1 + obj && len == (obj ? 5 : 3)) ? 1 : 2;
        }
        case K_BIT: {
            int b1 = Hgetbit(id);
            return b1 == FAIL ? 0 : 1;
        }
        case K_VG:
            if (Vgetname(id, name) == FAIL)
                return 0;
            return strcmp(name, obj ? "vgB" : "vgA") == 0 ? 1 : 2;
        case K_VS:
            if (VSinquire(id, &a, &b, NULL, &c, name) == FAIL)
                return 0;
            return (strcmp(name, obj ? "vsB" : "vsA") == 0 && a == 2 + obj) ? 1 : 2;
        case K_GR:
            if (GRfileinfo(id, &a, &b) == FAIL)
                return 0;
            return a == 2 ? 1 : 2;
        case K_RI:
            if (GRgetiminfo(id, name, &a, &b, &c, dd, &dd[2]) == FAIL)
                return 0;
            return (strcmp(name, obj ? "riB" : "riA") == 0 && dd[0] == 2 + obj) ? 1 : 2;
        case K_LUT:
            if (GRgetlutinfo(id, &a, &b, &c, &dd[0]) == FAIL)
                return 0;
            return (a == 3 && dd[0] == 256) ? 1 : 2;
        case K_AN:
            if (ANfileinfo(id, &a, &b, &c, &dd[0]) == FAIL)
                return 0;
            return c == 2 ? 1 : 2;
        case K_ANN: {
            int32 l = ANannlen(id);
            if (l == FAIL)
                return 0;
            return l == (obj ? 7 : 4) ? 1 : 2;
        }
        case K_SD:
            if (SDfileinfo(id, &a, &b) == FAIL)
                return 0;
            return a == 2 ? 1 : 2;
        case K_SDS:
            if (SDgetinfo(id, name, &a, dd, &b, &c) == FAIL)
                return 0;
            return (strcmp(name, obj ? "sdB" : "sdA") == 0 && dd[0] == 2 + obj) ? 1 : 2;
        case K_DIM:
            if (SDdiminfo(id, name, &a, &b, &c) == FAIL)
                return 0;
            return a == 2 + obj ? 1 : 2;
    }
    return 0;
}

static int
release_id(int kind, int32 id)
{
    switch (kind) {
        case K_FILE: return Hclose(id);
        case K_AID: return Hendaccess(id);
        case K_BIT: return Hendbitaccess(id, 0);
        case K_VG: return Vdetach(id);
        case K_VS: return VSdetach(id);
        case K_GR: return GRend(id);
        case K_RI: return GRendaccess(id);
        case K_LUT: return SUCCEED; /* palette ids have no release call */
        case K_AN: return ANend(id);
        case K_ANN: return ANendaccess(id);
        case K_SD: return SDend(id);
        case K_SDS: return SDendaccess(id);
        case K_DIM: return SUCCEED;
    }
    return FAIL;
}

/* does the release call of this kind invalidate the id value? */
static int
invalidating(int kind)
{
    return kind != K_ANN && kind != K_SDS && kind != K_DIM && kind != K_LUT && kind != K_AN;
}

enum { O_ACQ, O_USE, O_REL, O_CROSS_USE, O_CROSS_REL, O_NEVER, O_VSTART, O_VEND };
static const char *opname[] = {"acquire", "use", "release", "use-as-other-kind", "release-as-other-kind", "never-issued", "Vstart", "Vend"};

static int
find_live(int kind, int obj)
{
    for (int i = 0; i < M.n; i++)
        if (M.e[i].kind == kind && M.e[i].live && (obj < 0 || M.e[i].obj == obj))
            return i;
    return -1;
}
static int
count_live(int kind)
{
    int c = 0;
    for (int i = 0; i < M.n; i++)
        c += M.e[i].kind == kind && M.e[i].live;
    return c;
}
static int
live_children(int p)
{
    int c = 0;
    for (int i = 0; i < M.n; i++)
        c += M.e[i].live && M.e[i].parent == p;
    return c;
}

static int32
acquire(int kind, int obj, int mode, int parent)
{
    int32 pid = parent >= 0 ? M.e[parent].id : FAIL;
    switch (kind) {
        case K_FILE: return Hopen(PATH, mode ? DFACC_RDWR : DFACC_READ, 0);
        case K_AID: return mode ? Hstartwrite(pid, 1000, (uint16)(1 + obj), obj ? 5 : 3) : Hstartread(pid, 1000, (uint16)(1 + obj));
        case K_BIT: return Hstartbitread(pid, 1000, (uint16)(1 + obj));
        case K_VG: return Vattach(pid, g_refs[obj], mode ? "w" : "r");
        case K_VS: return VSattach(pid, g_refs[2 + obj], mode ? "w" : "r");
        case K_GR: return GRstart(pid);
        case K_RI: return GRselect(pid, obj);
        case K_LUT: return GRgetlutid(pid, 0);
        case K_AN: return ANstart(pid);
        case K_ANN: {
            /* the label of object `obj` (index order within a type is not part of the interface) */
            int32 list[4];
            if (ANannlist(pid, AN_DATA_LABEL, 1000, (uint16)(1 + obj), list) != 1)
                return FAIL;
            return list[0];
        }
        case K_SD: return SDstart(PATH, mode ? DFACC_RDWR : DFACC_READ);
        case K_SDS: return SDselect(pid, obj);
        case K_DIM: return SDgetdimid(pid, 0);
    }
    return FAIL;
}

static int
apply(const mc_op *op)
{
    M.nops++;
    char sig[96];
    switch (op->code) {
        case O_ACQ: {
            int   kind = op->a[0], obj = op->a[1], mode = op->a[2], parent = op->a[3];
            int32 id = acquire(kind, obj, mode, parent);
            int   file_ro = 0;
            if (parent >= 0 && M.e[parent].kind == K_FILE)
                file_ro = 0;
            (void)file_ro;
            if (id == FAIL) {
                /* write-mode attach of an object that is already attached elsewhere may be refused by the interface: contract silent */
                int already = 0, already_w = 0;
                for (int i = 0; i < M.n; i++)
                    if (M.e[i].live && M.e[i].kind == kind && M.e[i].obj == obj) {
                        already = 1;
                        if (M.e[i].mode)
                            already_w = 1;
                    }
                /* ... and so may any further attachment of an object that is attached for writing ("being written, unstable") */
                if ((mode && already) || (kind == K_AID && mode && already) || already_w) {
                    mc_count("second_write_attachment_refused", 1);
                    break;
                }
                /* Hopen(RDWR) after the file is already open read-only etc. is allowed to succeed or fail */
                snprintf(sig, sizeof sig, "acquire:failed:%s", KN[kind]);
                mc_violation(sig, "acquiring a %s (object %d, mode %d) failed although its parent interface is live", KN[kind], obj, mode);
                return 1;
            }
            /* a re-issued id value is live again by definition; otherwise it must not collide with another live id of the same value */
            int slot = -1;
            for (int i = 0; i < M.n; i++)
                if (M.e[i].id == id && M.e[i].kind == kind) {
                    if (M.e[i].live && M.e[i].obj != obj && invalidating(kind)) {
                        snprintf(sig, sizeof sig, "alias:%s", KN[kind]);
                        mc_violation(sig, "new %s id 0x%x equals the live id of another object", KN[kind], (unsigned)id);
                        return 1;
                    }
                    slot = i;
                }
            if (slot < 0) {
                if (M.n >= MAXID)
                    return 2;
                slot = M.n++;
            }
            M.e[slot] = (ent_t){kind, obj, 1, parent, mode, id};
            if (use_id(kind, id, obj) != 1) {
                snprintf(sig, sizeof sig, "fresh-id-wrong-object:%s", KN[kind]);
                mc_violation(sig, "a freshly issued %s id does not designate the object it was issued for", KN[kind]);
                return 1;
            }
            break;
        }
        case O_USE: {
            ent_t *e = &M.e[op->a[0]];
            int    r = use_id(e->kind, e->id, e->obj);
            if (e->live) {
                if (r != 1) {
                    snprintf(sig, sizeof sig, r == 0 ? "live-id-rejected:%s" : "live-id-wrong-object:%s", KN[e->kind]);
                    mc_violation(sig, "a live %s id %s", KN[e->kind], r == 0 ? "was rejected" : "designates another object");
                    return 1;
                }
            }
            else if (r != 0 && (e->kind == K_SDS || e->kind == K_DIM)) {
                /* positional value re-validated by another open of the file */
            }
            else if (r != 0) {
                snprintf(sig, sizeof sig, "stale-id-accepted:%s", KN[e->kind]);
                mc_violation(sig, "a released %s id (0x%x) was accepted by an inquiry call", KN[e->kind], (unsigned)e->id);
                return 1;
            }
            break;
        }
        case O_REL: {
            int    idx = op->a[0];
            ent_t *e   = &M.e[idx];
            int    kids = live_children(idx);
            int    lastfile = e->kind == K_FILE && count_live(K_FILE) == 1;
            int    rc = release_id(e->kind, e->id);
            if (!e->live) {
                if (rc != FAIL && invalidating(e->kind)) {
                    snprintf(sig, sizeof sig, "double-release-accepted:%s", KN[e->kind]);
                    mc_violation(sig, "releasing an already released %s id returned success", KN[e->kind]);
                    return 1;
                }
                break;
            }
            if (e->kind == K_FILE && lastfile && (kids > 0 || count_live(K_AID) + count_live(K_BIT) + count_live(K_VS) > 0)) {
                /* closing the last file id with access elements attached must fail and leave everything usable */
                int attached = count_live(K_AID) + count_live(K_BIT) + count_live(K_VS) + count_live(K_VG);
                if (rc != FAIL && attached > 0 && (count_live(K_AID) + count_live(K_BIT) + count_live(K_VS)) > 0) {
                    mc_violation("close-with-attached-accepted", "Hclose succeeded while access elements were still attached");
                    return 1;
                }
                if (rc == FAIL)
                    break; /* refused: nothing changed (verified by the observations below) */
            }
            if (rc == FAIL) {
                snprintf(sig, sizeof sig, "release:failed:%s", KN[e->kind]);
                mc_violation(sig, "releasing a live %s id failed", KN[e->kind]);
                return 1;
            }
            if (invalidating(e->kind))
                e->live = 0;
            /* ending an interface invalidates every id issued under it */
            if (e->kind == K_FILE || e->kind == K_GR || e->kind == K_AN || e->kind == K_SD || e->kind == K_RI) {
                int had = 0;
                for (int i = 0; i < M.n; i++)
                    if (M.e[i].parent == idx) {
                        had |= M.e[i].live;
                        M.e[i].live = 0;
                        for (int j = 0; j < M.n; j++)
                            if (M.e[j].parent == i) {
                                had |= M.e[j].live;
                                M.e[j].live = 0;
                            }
                    }
                if (had && e->kind != K_RI) {
                    char ctx[48];
                    snprintf(ctx, sizeof ctx, "children-after-%s-end", KN[e->kind]);
                    g_after_end = 1;
                    mc_set_context(ctx);
                    mc_count("interface_ended_with_children_outstanding", 1);
                }
            }
            break;
        }
        case O_CROSS_USE: {
            ent_t *e = &M.e[op->a[0]];
            int    r = use_id(op->a[1], e->id, 0);
            if (r != 0) {
                snprintf(sig, sizeof sig, "foreign-id-accepted:%s-as-%s", KN[e->kind], KN[op->a[1]]);
                mc_violation(sig, "a %s id was accepted by the %s inquiry call", KN[e->kind], KN[op->a[1]]);
                return 1;
            }
            break;
        }
        case O_CROSS_REL: {
            ent_t *e = &M.e[op->a[0]];
            int    rc = release_id(op->a[1], e->id);
            if (rc != FAIL && invalidating(op->a[1])) {
                snprintf(sig, sizeof sig, "foreign-release-accepted:%s-as-%s", KN[e->kind], KN[op->a[1]]);
                mc_violation(sig, "a %s id was accepted by the %s release call", KN[e->kind], KN[op->a[1]]);
                return 1;
            }
            break;
        }
        case O_NEVER: {
            static const int32 consts[3] = {0, 0x7fffffff, 12345678};
            int32              id = op->a[1] < 3 ? consts[op->a[1]] : M.e[op->a[2]].id + (op->a[1] == 3 ? 1 : -1);
            for (int i = 0; i < M.n; i++)
                if (M.e[i].id == id)
                    return 0; /* happens to be an issued value */
            if (use_id(op->a[0], id, 0) != 0) {
                snprintf(sig, sizeof sig, "never-issued-id-accepted:%s", KN[op->a[0]]);
                mc_violation(sig, "the %s inquiry call accepted the never-issued id 0x%x", KN[op->a[0]], (unsigned)id);
                return 1;
            }
            if (invalidating(op->a[0]) && op->a[0] != K_FILE && release_id(op->a[0], id) != FAIL) {
                snprintf(sig, sizeof sig, "never-issued-id-released:%s", KN[op->a[0]]);
                mc_violation(sig, "the %s release call accepted the never-issued id 0x%x", KN[op->a[0]], (unsigned)id);
                return 1;
            }
            break;
        }
        case O_VSTART:
            if (Vstart(M.e[op->a[0]].id) == FAIL) {
                mc_violation("vstart:failed", "Vstart on a live file id failed");
                return 1;
            }
            M.vstarted[op->a[0]] = 1;
            break;
        case O_VEND:
            if (Vend(M.e[op->a[0]].id) == FAIL) {
                mc_violation("vend:failed", "Vend on a live file id failed");
                return 1;
            }
            M.vstarted[op->a[0]] = 0;
            for (int i = 0; i < M.n; i++)
                if (M.e[i].parent == op->a[0] && (M.e[i].kind == K_VG || M.e[i].kind == K_VS)) {
                    if (M.e[i].live) {
                        g_after_end = 1;
                        mc_set_context("children-after-Vend");
                        mc_count("interface_ended_with_children_outstanding", 1);
                    }
                    M.e[i].live = 0;
                }
            break;
    }
    /* every live id still designates its object; every dead id of an invalidating kind is rejected */
    for (int i = 0; i < M.n; i++) {
        ent_t *e = &M.e[i];
        int    r = use_id(e->kind, e->id, e->obj);
        /* a dead id whose value has been re-issued for the same kind is live again: skip */
        if (e->live && r != 1) {
            snprintf(sig, sizeof sig, r == 0 ? "live-id-rejected:%s" : "live-id-wrong-object:%s", KN[e->kind]);
            mc_violation(sig, "after %s: a live %s id (entry %d) %s", opname[op->code], KN[e->kind], i, r == 0 ? "is rejected" : "designates another object");
            return 1;
        }
        if (!e->live && (e->kind == K_SDS || e->kind == K_DIM))
            continue; /* positional ids: valid again as soon as any file occupies the slot */
        if (!e->live && invalidating(e->kind) && r != 0) {
            snprintf(sig, sizeof sig, "stale-id-accepted:%s%s", KN[e->kind], g_after_end ? ":outstanding-when-interface-ended" : "");
            mc_violation(sig, "after %s: the %s id (entry %d) %s is accepted by an inquiry call", opname[op->code], KN[e->kind], i,
                         g_after_end ? "that was outstanding when its interface was ended" : "that was released");
            return 1;
        }
    }
    if (g_after_end)
        return 2; /* the situation has been probed once; do not build further history on it */
    return 0;
}

static int
enum_ops(mc_op *out, int max)
{
    int n = 0;
#define ADD(c, a0, a1, a2, a3)                                                                                                       \
    do {                                                                                                                             \
        if (n < max) {                                                                                                               \
            memset(&out[n], 0, sizeof out[n]);                                                                                       \
            out[n].code = c;                                                                                                         \
            out[n].a[0] = a0, out[n].a[1] = a1, out[n].a[2] = a2, out[n].a[3] = a3;                                                  \
            n++;                                                                                                                     \
        }                                                                                                                            \
    } while (0)
    int thorough = mc_is_thorough();
    int room     = M.n < MAXID - 1;
    int f0       = find_live(K_FILE, -1);
    if (M.fam != 3 && room && count_live(K_FILE) < 2) {
        ADD(O_ACQ, K_FILE, 0, 1, -1);
        ADD(O_ACQ, K_FILE, 0, 0, -1);
    }
    if (M.fam == 0 && f0 >= 0) {
        for (int i = 0; i < M.n; i++) {
            if (!(M.e[i].live && M.e[i].kind == K_FILE))
                continue;
            if (!M.vstarted[i])
                ADD(O_VSTART, i, 0, 0, 0);
            else if (thorough || live_children(i) > 0)
                ADD(O_VEND, i, 0, 0, 0);
            if (!room)
                continue;
            if (count_live(K_AID) < 2) {
                ADD(O_ACQ, K_AID, 0, 0, i);
                ADD(O_ACQ, K_AID, 1, M.e[i].mode, i);
                if (thorough)
                    ADD(O_ACQ, K_AID, 0, M.e[i].mode, i); /* same object, second handle */
            }
            if (count_live(K_BIT) < 1 && thorough)
                ADD(O_ACQ, K_BIT, 1, 0, i);
            if (M.vstarted[i]) {
                if (count_live(K_VG) < 2) {
                    ADD(O_ACQ, K_VG, 0, 0, i);
                    ADD(O_ACQ, K_VG, count_live(K_VG) ? 0 : 1, M.e[i].mode, i); /* second acquisition also on the same object */
                }
                if (count_live(K_VS) < 2) {
                    ADD(O_ACQ, K_VS, 0, 0, i);
                    ADD(O_ACQ, K_VS, count_live(K_VS) ? 0 : 1, 0, i);
                    if (M.e[i].mode)
                        ADD(O_ACQ, K_VS, 0, 1, i); /* write attachment, also next to a live read attachment of the same Vdata */
                }
            }
        }
    }
    if (M.fam == 1 && f0 >= 0 && room) {
        int g = find_live(K_GR, -1);
        if (g < 0)
            ADD(O_ACQ, K_GR, 0, 0, f0);
        else {
            if (count_live(K_RI) < 2) {
                ADD(O_ACQ, K_RI, 0, 0, g);
                ADD(O_ACQ, K_RI, 1, 0, g);
            }
            int r = find_live(K_RI, -1);
            if (r >= 0 && count_live(K_LUT) < 1)
                ADD(O_ACQ, K_LUT, M.e[r].obj, 0, r);
        }
    }
    if (M.fam == 2 && f0 >= 0 && room) {
        int a = find_live(K_AN, -1);
        if (a < 0)
            ADD(O_ACQ, K_AN, 0, 0, f0);
        else if (count_live(K_ANN) < 2) {
            ADD(O_ACQ, K_ANN, 0, 0, a);
            ADD(O_ACQ, K_ANN, 1, 0, a);
        }
    }
    if (M.fam == 3 && room) {
        int s = find_live(K_SD, -1);
        if (count_live(K_SD) < 2) {
            ADD(O_ACQ, K_SD, 0, 1, -1);
            if (thorough)
                ADD(O_ACQ, K_SD, 0, 0, -1);
        }
        if (s >= 0) {
            ADD(O_ACQ, K_SDS, 0, 0, s);
            ADD(O_ACQ, K_SDS, 1, 0, s);
            int d = find_live(K_SDS, -1);
            if (d >= 0)
                ADD(O_ACQ, K_DIM, M.e[d].obj, 0, d);
        }
    }
    static const int others[4][4] = {{K_VG, K_VS, K_AID, K_FILE}, {K_RI, K_GR, K_VG, K_AID}, {K_ANN, K_AN, K_FILE, K_VS}, {K_SDS, K_SD, K_DIM, K_VG}};
    for (int i = 0; i < M.n; i++) {
        /* closing one of several ids of a file while ids issued through it are outstanding: the interface does not say whether
           those stay usable (the file stays open through the other id), so this is not in the alphabet */
        if (!(M.e[i].kind == K_FILE && M.e[i].live && count_live(K_FILE) > 1 && (live_children(i) > 0 || M.vstarted[i])))
            ADD(O_REL, i, 0, 0, 0);
        if (!M.e[i].live || thorough)
            ADD(O_USE, i, 0, 0, 0);
        /* (the H-level calls do not share one id check, so family 0 tries all four foreign kinds in the quick tier too) */
        for (int k = 0; k < ((thorough || M.fam == 0) ? 4 : 2); k++) {
            int ok = others[M.fam][k];
            if (ok == M.e[i].kind)
                continue;
            /* SD dataset and dimension ids are positional values of one id space: a dataset id is not a foreign value for the other */
            if ((M.e[i].kind == K_SDS || M.e[i].kind == K_DIM || M.e[i].kind == K_SD) && (ok == K_SDS || ok == K_DIM || ok == K_SD))
                continue;
            if ((M.e[i].kind == K_AN || M.e[i].kind == K_FILE) && (ok == K_AN || ok == K_FILE))
                continue; /* the annotation interface id is the file id */
            if ((M.e[i].kind == K_LUT || M.e[i].kind == K_RI) && (ok == K_LUT || ok == K_RI))
                continue; /* a palette id is the id of its image */
            ADD(O_CROSS_USE, i, ok, 0, 0);
            if (ok != K_FILE && ok != K_GR && ok != K_AN && ok != K_SD)
                ADD(O_CROSS_REL, i, ok, 0, 0);
        }
    }
    {
        int kinds[4] = {others[M.fam][0], others[M.fam][1], K_FILE, K_AID};
        for (int k = 0; k < 2; k++) {
            ADD(O_NEVER, kinds[k], 1, 0, 0);
            if (M.n > 0 && M.fam != 3 && M.fam != 2) /* SD ids are positional, and the AN interface registers an id for every annotation
                                                        of the file: id+-1 is a legitimate neighbour there, not a never-issued value */
                ADD(O_NEVER, kinds[k], 3, M.n - 1, 0);
            if (thorough) {
                ADD(O_NEVER, kinds[k], 0, 0, 0);
                ADD(O_NEVER, kinds[k], 2, 0, 0);
                if (M.n > 0 && M.fam != 3 && M.fam != 2)
                    ADD(O_NEVER, kinds[k], 4, M.n - 1, 0);
            }
        }
    }
    return n;
}

static int
dev_cost(const mc_op *op)
{
    if (op->code == O_CROSS_USE || op->code == O_CROSS_REL || op->code == O_NEVER)
        return 1;
    if (op->code == O_USE || (op->code == O_REL && !M.e[op->a[0]].live))
        return 1;
    return 0;
}
static void
fmt_op(const mc_op *op, char *buf, size_t n)
{
    switch (op->code) {
        case O_ACQ: snprintf(buf, n, "acquire(%s,object %d,mode %d,parent entry %d)", KN[op->a[0]], op->a[1], op->a[2], op->a[3]); break;
        case O_USE:
        case O_REL: snprintf(buf, n, "%s(entry %d)", opname[op->code], op->a[0]); break;
        case O_CROSS_USE:
        case O_CROSS_REL: snprintf(buf, n, "%s(entry %d,as %s)", opname[op->code], op->a[0], KN[op->a[1]]); break;
        case O_NEVER: snprintf(buf, n, "never-issued(%s,variant %d)", KN[op->a[0]], op->a[1]); break;
        default: snprintf(buf, n, "%s(entry %d)", opname[op->code], op->a[0]);
    }
}
static uint64_t
key(void)
{
    uint64_t h = mc_hash_i(MC_H0, M.fam * 100 + M.n);
    for (int i = 0; i < M.n; i++)
        h = mc_hash_i(h, M.e[i].kind * 10000 + M.e[i].obj * 1000 + M.e[i].live * 100 + (M.e[i].parent + 1) * 4 + M.e[i].mode);
    h = mc_hash(h, M.vstarted, sizeof M.vstarted);
    return mc_hash_i(h, (long)vfs_hash_all());
}

static void
terminal(void)
{
    /* release everything that is still live, children first; then the library must behave as in a pristine process */
    for (int pass = 0; pass < 4; pass++)
        for (int i = M.n - 1; i >= 0; i--) {
            ent_t *e = &M.e[i];
            if (!e->live || live_children(i) > 0)
                continue;
            if (e->kind == K_FILE && M.vstarted[i]) {
                Vend(e->id);
                M.vstarted[i] = 0;
            }
            int rc = release_id(e->kind, e->id);
            if (rc == FAIL && invalidating(e->kind)) {
                char sig[80];
                snprintf(sig, sizeof sig, "teardown:release-failed:%s", KN[e->kind]);
                mc_violation(sig, "during teardown releasing a live %s id failed", KN[e->kind]);
                return;
            }
            e->live = 0;
        }
    uint64_t h = mini_workload();
    if (h != g_pristine)
        mc_violation("state-retained-after-teardown", "after every handle was released, a canonical workload (new file, Vdata, Vgroup, image, annotation, SDS) "
                                                      "returns different results or produces different file bytes than in a pristine process");
}

typedef struct {
    int fam, depth, dev;
} cfg_t;
static const char *FAMN[] = {"H+V", "GR", "AN", "SD"};
static mc_harness  H = {enum_ops, apply, key, terminal, fmt_op, dev_cost};

static int
setup(int fam)
{
    memset(&M, 0, sizeof M);
    M.fam = fam;
    return prologue();
}
static void
root(void *arg)
{
    cfg_t *c = arg;
    int    cfg[1] = {c->fam};
    mc_set_config(cfg, 1, "family=%s", FAMN[c->fam]);
    if (setup(c->fam)) {
        mc_violation("prologue", "prologue failed");
        return;
    }
    mc_explore(&H, c->depth, c->dev);
}

/* ids of one file handed to a two-id call together with an id of ANOTHER open file: they designate objects of a different
   file and must be refused (Vinsert is the call of the interfaces that takes two object ids) */
#define PATH2 "/vmem/c13_other.hdf"
static void
crossfile_case(long idx, void *ctx)
{
    (void)ctx;
    int elem = (int)(idx % 2), dir = (int)(idx / 2 % 2), pmode = (int)(idx / 4 % 2);
    int cfg[4] = {-2, elem, dir, pmode};
    mc_set_config(cfg, 4, "family=two files");
    mc_set_case("Vinsert(vgroup of file %s, %s of file %s)%s", dir ? "B" : "A", elem ? "Vdata" : "Vgroup", dir ? "A" : "B", pmode ? ", both files also hold a same-numbered object" : "");
    if (prologue())
        return;
    vfs_copy(PATH, PATH2);
    int32 fa = Hopen(dir ? PATH2 : PATH, DFACC_RDWR, 0), fb = Hopen(dir ? PATH : PATH2, DFACC_RDWR, 0);
    if (fa == FAIL || fb == FAIL || Vstart(fa) == FAIL || Vstart(fb) == FAIL) {
        mc_harness_error("cannot open the two files");
        return;
    }
    int32 parent = Vattach(fa, g_refs[0], "w");
    int32 other  = elem ? VSattach(fb, g_refs[2 + pmode], "r") : Vattach(fb, g_refs[1], "r");
    int32 same   = elem ? VSattach(fa, g_refs[2], "r") : Vattach(fa, g_refs[1], "r");
    int32 n0     = Vntagrefs(parent);
    if (parent == FAIL || other == FAIL || same == FAIL) {
        mc_harness_error("cannot attach the objects");
        return;
    }
    int32 rc = Vinsert(parent, other);
    if (rc != FAIL)
        mc_violation(elem ? "foreign-file-id-accepted:Vinsert:vdata" : "foreign-file-id-accepted:Vinsert:vgroup",
                     "Vinsert accepted the id of a %s that belongs to another open file (returned %d)", elem ? "Vdata" : "Vgroup", (int)rc);
    else if (Vntagrefs(parent) != n0)
        mc_violation("refused-call-changed-state:Vinsert", "Vinsert refused the foreign id but the parent now has %d members instead of %d", (int)Vntagrefs(parent), (int)n0);
    /* control: the same kind of object of the parent's own file is accepted */
    rc = Vinsert(parent, same);
    if (rc == FAIL)
        mc_violation("legal-call-refused:Vinsert", "Vinsert refused an object of the parent's own file");
    if (elem) {
        VSdetach(other);
        VSdetach(same);
    }
    else {
        Vdetach(other);
        Vdetach(same);
    }
    Vdetach(parent);
    Vend(fa);
    Vend(fb);
    if (Hclose(fa) == FAIL || Hclose(fb) == FAIL)
        mc_violation("close-failed:two-files", "closing the two files failed");
    mc_count("crossfile_cases", 1);
}

/* two files whose (long) paths agree in a long prefix: ids of the two never stand for the same file */
static void
longpath_case(long idx, void *ctx)
{
    (void)ctx;
    static const int DIFF[] = {40, 200, 255, 256, 257, 299};
    int dp = DIFF[idx % 6], order = (int)(idx / 6 % 2), second_create = (int)(idx / 12 % 2);
    int cfg[4] = {-3, (int)(idx % 6), order, second_create};
    mc_set_config(cfg, 4, "family=long paths");
    mc_set_case("two 300-character paths that first differ at character %d; the %s one is opened first%s", dp, order ? "second" : "first",
                second_create ? ", the other is created while it is open" : "");
    char pa[320], pb[320];
    memset(pa, 'x', 300);
    memcpy(pa, "/vmem/", 6);
    pa[300] = 0;
    memcpy(pb, pa, 301);
    pa[dp] = 'A';
    pb[dp] = 'B';
    vfs_remove_file(pa);
    vfs_remove_file(pb);
    uint8 da[4] = {1, 2, 3, 4}, db[6] = {9, 8, 7, 6, 5, 4}, got[8];
    const char *p1 = order ? pb : pa, *p2 = order ? pa : pb;
    const uint8 *d1 = order ? db : da, *d2 = order ? da : db;
    int          l1 = order ? 6 : 4, l2 = order ? 4 : 6;
    int32 f1 = Hopen(p1, DFACC_CREATE, 4);
    if (f1 == FAIL || Hputelement(f1, 300, 1, d1, l1) != l1) {
        mc_violation("longpath:create", "creating a file under a 300-character path failed");
        return;
    }
    int32 f2;
    if (second_create) {
        f2 = Hopen(p2, DFACC_CREATE, 4);
        if (f2 == FAIL) {
            mc_violation("longpath:second-create-refused", "creating the second file while the first is open failed (paths differ at character %d)", dp);
            Hclose(f1);
            return;
        }
        if (Hputelement(f2, 300, 1, d2, l2) != l2)
            mc_violation("longpath:put", "writing to the second file failed");
    }
    else {
        if (Hclose(f1) == FAIL)
            mc_violation("longpath:close", "Hclose failed");
        f2 = Hopen(p2, DFACC_CREATE, 4);
        if (f2 == FAIL || Hputelement(f2, 300, 1, d2, l2) != l2 || Hclose(f2) == FAIL) {
            mc_violation("longpath:create", "creating the second file failed");
            return;
        }
        f1 = Hopen(p1, DFACC_READ, 0);
        f2 = Hopen(p2, DFACC_READ, 0);
        if (f1 == FAIL || f2 == FAIL) {
            mc_violation("longpath:open", "opening the two files failed");
            return;
        }
    }
    if (f1 == f2)
        mc_violation("longpath:same-id", "the two files got the same id");
    char *n1 = NULL, *n2 = NULL;
    intn  a1, a2, t1, t2;
    if (Hfidinquire(f1, &n1, &a1, &t1) == FAIL || Hfidinquire(f2, &n2, &a2, &t2) == FAIL || !n1 || !n2 || strcmp(n1, p1) || strcmp(n2, p2))
        mc_violation("longpath:inquire-name", "Hfidinquire does not report the path each id was opened with");
    memset(got, 0, sizeof got);
    if (Hlength(f1, 300, 1) != l1 || Hgetelement(f1, 300, 1, got) != l1 || memcmp(got, d1, (size_t)l1))
        mc_violation("longpath:wrong-file:first", "the id of the first file does not show that file's element (length %d, expected %d)", (int)Hlength(f1, 300, 1), l1);
    memset(got, 0, sizeof got);
    if (Hlength(f2, 300, 1) != l2 || Hgetelement(f2, 300, 1, got) != l2 || memcmp(got, d2, (size_t)l2))
        mc_violation("longpath:wrong-file:second", "the id of the second file does not show that file's element (length %d, expected %d)", (int)Hlength(f2, 300, 1), l2);
    if (Hclose(f1) == FAIL || Hclose(f2) == FAIL)
        mc_violation("longpath:close", "closing the two files failed");
    vfs_remove_file(pa);
    vfs_remove_file(pb);
    mc_count("longpath_cases", 1);
}

/* two open files that hold an element under the SAME tag/ref in special storage: access ids (and data set ids) of the two
   files, alive together, each deliver their own file's data */
#define PATHA "/vmem/c13_A.hdf"
#define PATHB "/vmem/c13_B.hdf"
static void
twofile_special_case(long idx, void *ctx)
{
    (void)ctx;
    static const char *KIND[] = {"linked blocks", "external file", "RLE-compressed", "chunked data set", "unlimited data set", "external data set"};
    int kind = (int)(idx % 6), order = (int)(idx / 6 % 2), rorder = (int)(idx / 12 % 2);
    int cfg[4] = {-4, kind, order, rorder};
    mc_set_config(cfg, 4, "family=two files, same tag/ref");
    mc_set_case("%s under the same tag/ref in files A and B; %s opened first, %s read first, both ids alive", KIND[kind], order ? "B" : "A", rorder ? "second-opened" : "first-opened");
    const char *path[2] = {PATHA, PATHB};
    const char *extn[2] = {"/vmem/c13_extA.dat", "/vmem/c13_extB.dat"};
    uint8       d[2][16];
    int         len[2] = {12, 10};
    for (int i = 0; i < 16; i++)
        d[0][i] = (uint8)(1 + i), d[1][i] = (uint8)(101 + i);
    for (int x = 0; x < 2; x++) {
        vfs_remove_file(path[x]);
        vfs_remove_file(extn[x]);
        if (kind < 3) {
            int32 f = Hopen(path[x], DFACC_CREATE, 4), a = FAIL;
            if (kind == 0)
                a = HLcreate(f, 1000, 7, 4, 2);
            else if (kind == 1)
                a = HXcreate(f, 1000, 7, extn[x], 0, 0);
            else {
                model_info mi;
                comp_info  ci;
                memset(&mi, 0, sizeof mi);
                memset(&ci, 0, sizeof ci);
                a = HCcreate(f, 1000, 7, COMP_MODEL_STDIO, &mi, COMP_CODE_RLE, &ci);
            }
            if (f == FAIL || a == FAIL || Hwrite(a, len[x], d[x]) != len[x] || Hendaccess(a) == FAIL || Hclose(f) == FAIL) {
                mc_harness_error("cannot build file %d of the two-file case", x);
                return;
            }
        }
        else {
            int32 S = SDstart(path[x], DFACC_CREATE), dm[1] = {kind == 4 ? SD_UNLIMITED : len[x]};
            int32 s = SDcreate(S, "d", DFNT_UINT8, 1, dm), z = 0, c = len[x];
            HDF_CHUNK_DEF cd;
            memset(&cd, 0, sizeof cd);
            cd.chunk_lengths[0] = 4;
            int rc = 0;
            if (kind == 3)
                rc = SDsetchunk(s, cd, HDF_CHUNK);
            if (kind == 5)
                rc = SDsetexternalfile(s, extn[x], 0);
            if (S == FAIL || s == FAIL || rc == FAIL || SDwritedata(s, &z, NULL, &c, d[x]) == FAIL || SDendaccess(s) == FAIL || SDend(S) == FAIL) {
                mc_harness_error("cannot build SD file %d of the two-file case", x);
                return;
            }
        }
    }
    int   first = order, second = !order;
    uint8 got[2][32];
    memset(got, 0xEE, sizeof got);
    if (kind < 3) {
        int32 f[2], a[2];
        f[first]  = Hopen(path[first], DFACC_READ, 0);
        f[second] = Hopen(path[second], DFACC_READ, 0);
        a[first]  = Hstartread(f[first], 1000, 7);
        a[second] = Hstartread(f[second], 1000, 7);
        if (f[0] == FAIL || f[1] == FAIL || a[0] == FAIL || a[1] == FAIL) {
            mc_violation("twofile:open", "opening the two files and starting a read on element (1000,7) of each failed");
            return;
        }
        if (a[0] == a[1])
            mc_violation("twofile:same-id", "the two access ids are equal");
        for (int pass = 0; pass < 2; pass++) {
            int   x = (pass == 0) == (rorder == 0) ? first : second;
            int32 l = -1;
            if (Hinquire(a[x], NULL, NULL, NULL, &l, NULL, NULL, NULL, NULL) == FAIL || l != len[x])
                mc_violation("twofile:wrong-object:length", "the access id of file %c reports an element of %d bytes, that file holds %d (%s)", 'A' + x, (int)l, len[x], KIND[kind]);
            /* in two pieces, the other file's id is used in between */
            int32 r1 = Hread(a[x], 5, got[x]);
            int32 l2 = -1;
            Hinquire(a[!x], NULL, NULL, NULL, &l2, NULL, NULL, NULL, NULL);
            int32 r2 = Hread(a[x], len[x] - 5, got[x] + 5);
            if (r1 != 5 || r2 != len[x] - 5 || memcmp(got[x], d[x], (size_t)len[x]))
                mc_violation("twofile:wrong-object:data", "the access id of file %c does not deliver that file's element (%s; first bytes read %u %u, stored %u %u)", 'A' + x, KIND[kind],
                             got[x][0], got[x][1], d[x][0], d[x][1]);
        }
        if (Hendaccess(a[first]) == FAIL || Hendaccess(a[second]) == FAIL || Hclose(f[first]) == FAIL || Hclose(f[second]) == FAIL)
            mc_violation("twofile:close", "releasing the two access ids and files failed");
    }
    else {
        int32 S[2], s[2];
        S[first]  = SDstart(path[first], DFACC_READ);
        S[second] = SDstart(path[second], DFACC_READ);
        s[first]  = SDselect(S[first], 0);
        s[second] = SDselect(S[second], 0);
        if (S[0] == FAIL || S[1] == FAIL || s[0] == FAIL || s[1] == FAIL) {
            mc_violation("twofile:open", "opening the two SD files and selecting data set 0 of each failed");
            return;
        }
        for (int pass = 0; pass < 3; pass++) {
            int   x = (pass != 1) == (rorder == 0) ? first : second;
            int32 st = pass == 2 ? 5 : 0, c = pass == 2 ? len[x] - 5 : 5;
            if (SDreaddata(s[x], &st, NULL, &c, got[x] + st) == FAIL)
                mc_violation("twofile:read-failed", "SDreaddata through the id of file %c failed (%s)", 'A' + x, KIND[kind]);
        }
        /* the id read in passes 0 and 2 has been read completely, the other one its first 5 bytes */
        int full = rorder == 0 ? first : second, part = !full;
        if (memcmp(got[full], d[full], (size_t)len[full]) || memcmp(got[part], d[part], 5))
            mc_violation("twofile:wrong-object:data", "data set ids of two files alive together: file %c's id does not deliver that file's data (%s)",
                         memcmp(got[full], d[full], (size_t)len[full]) ? 'A' + full : 'A' + part, KIND[kind]);
        if (SDendaccess(s[first]) == FAIL || SDendaccess(s[second]) == FAIL || SDend(S[first]) == FAIL || SDend(S[second]) == FAIL)
            mc_violation("twofile:close", "releasing the two data sets and files failed");
    }
    for (int x = 0; x < 2; x++) {
        vfs_remove_file(path[x]);
        vfs_remove_file(extn[x]);
    }
    mc_count("twofile_special_cases", 1);
}

/* a nested open of a path that is already open read-only asks for write access and the operating system refuses to open the
   file for writing: the call fails, and the ids issued before it behave as if it had never been made */
static void
failed_nested_open_case(long idx, void *ctx)
{
    (void)ctx;
    int mode2 = (int)(idx % 2), withaid = (int)(idx / 2 % 2), twice = (int)(idx / 4 % 2);
    int cfg[4] = {-5, mode2, withaid, twice};
    mc_set_config(cfg, 4, "family=failed nested open");
    mc_set_case("file open read-only%s; Hopen(%s) of the same path fails in fopen%s; then release", withaid ? " with an access element attached" : "", mode2 ? "DFACC_RDWR" : "DFACC_WRITE",
                twice ? " (tried twice)" : "");
    if (prologue())
        return;
    int32 f = Hopen(PATH, DFACC_READ, 0), aid = withaid ? Hstartread(f, 1000, 1) : FAIL;
    if (f == FAIL || (withaid && aid == FAIL)) {
        mc_harness_error("cannot open the file read-only");
        return;
    }
    for (int k = 0; k <= twice; k++) {
        vfs_fault_set(0, 0, 1, 1u << VK_FOPEN);
        int32 f2 = Hopen(PATH, mode2 ? DFACC_RDWR : DFACC_WRITE, 0);
        vfs_fault_clear();
        if (f2 != FAIL) {
            mc_violation("nested-open:accepted-without-write-access", "Hopen for writing succeeded although the file could not be opened for writing");
            Hclose(f2);
        }
    }
    uint8 b[8] = {0};
    if (withaid) {
        /* the file cannot be closed out from under the attached element */
        if (Hclose(f) != FAIL) {
            mc_violation("close-with-attached-element-accepted@after-failed-nested-open", "after a failed nested open, Hclose of the only file id succeeded although an access element is attached");
            return;
        }
        if (Hread(aid, 3, b) != 3 || b[0] != 1 || b[2] != 3)
            mc_violation("valid-id-unusable@after-failed-nested-open", "the access element attached before the failed nested open no longer reads its data");
        if (Hendaccess(aid) == FAIL)
            mc_violation("teardown:release-failed:aid", "Hendaccess failed after the failed nested open");
    }
    if (Hgetelement(f, 1000, 1, b) != 3)
        mc_violation("valid-id-unusable@after-failed-nested-open", "the file id issued before the failed nested open no longer works");
    if (Hclose(f) == FAIL)
        mc_violation("teardown:release-failed:file", "Hclose of the only file id failed after the failed nested open");
    /* nothing is left behind: the path can be created afresh, and a pristine workload behaves as in a fresh process */
    int32 g = Hopen(PATH, DFACC_CREATE, 4);
    if (g == FAIL)
        mc_violation("state-retained-after-release:create-refused", "after every id has been released, Hopen(DFACC_CREATE) of the path is refused (the file is still held open)");
    else
        Hclose(g);
    if (mini_workload() != g_pristine)
        mc_violation("state-retained-after-release:workload-differs", "after a failed nested open and full release, the canonical workload behaves differently from a pristine process");
    mc_count("failed_nested_open_cases", 1);
}

int
C13_main(const char *tier, const char *replay)
{
    g_pristine = mini_workload();
    if (mini_workload() != g_pristine) {
        mc_harness_error("mini workload is not deterministic");
        return 0;
    }
    if (replay) {
        int   cfg[32], ncfg, nops;
        mc_op ops[MC_MAXDEPTH];
        if (mc_load_replay(replay, cfg, &ncfg, ops, &nops, MC_MAXDEPTH) || ncfg < 1)
            return 2;
        if (cfg[0] == -2) {
            crossfile_case(cfg[1] + 2 * cfg[2] + 4 * cfg[3], NULL);
            return 0;
        }
        if (cfg[0] == -3) {
            longpath_case(cfg[1] + 6 * cfg[2] + 12 * cfg[3], NULL);
            return 0;
        }
        if (cfg[0] == -4) {
            twofile_special_case(cfg[1] + 6 * cfg[2] + 12 * cfg[3], NULL);
            return 0;
        }
        if (cfg[0] == -5) {
            failed_nested_open_case(cfg[1] + 2 * cfg[2] + 4 * cfg[3], NULL);
            return 0;
        }
        mc_set_config(cfg, 1, "family=%s", FAMN[cfg[0]]);
        printf("replay C13: family %s, %d ops\n", FAMN[cfg[0]], nops);
        if (setup(cfg[0]))
            return 0;
        mc_replay_ops(&H, ops, nops);
        return 0;
    }
    int          thorough = strcmp(tier, "thorough") == 0;
    static cfg_t cfgs[4];
    int          dmax = thorough ? 8 : 6;
    /* the enumerated cases first: the deepening search below may use up the whole time allowance */
    mc_round_begin("ids of two open files in one call");
    mc_foreach(8, crossfile_case, NULL, 1, 120);
    mc_round_end();
    mc_round_begin("two files under long paths with a common prefix");
    mc_foreach(24, longpath_case, NULL, 1, 120);
    mc_round_end();
    mc_round_begin("two open files with a special element under the same tag/ref, ids alive together");
    mc_foreach(24, twofile_special_case, NULL, 1, 120);
    mc_round_end();
    mc_round_begin("a nested open for writing that the operating system refuses");
    mc_foreach(8, failed_nested_open_case, NULL, 1, 120);
    mc_round_end();
    for (int depth = thorough ? 4 : dmax; depth <= dmax; depth++) {
        char label[48];
        snprintf(label, sizeof label, "depth %d", depth);
        mc_round_begin(label);
        for (int f = 0; f < 4; f++) {
            cfgs[f] = (cfg_t){f, depth, thorough ? 3 : 2};
        }
        for (int f = 0; f < 4; f++)
            mc_spawn_root(root, &cfgs[(f + mc_seed()) % 4], 4);
        mc_wait_roots();
        mc_round_end();
        if (mc_deadline_hit())
            break;
    }
    return 0;
}
