/* C14 - read-only access never alters a file; write requests through it are refused.
 * Every program of <= depth calls over the mutating + reading API, issued on handles obtained with DFACC_READ on a corpus
 * file, is executed; after EVERY call the bytes of the file and of every external file must be unchanged, calls that would
 * have to write data or create a stored object must report failure, and ASan must stay silent. */
#include "../engine/mc.h"
#include "../engine/vfs.h"
#include "../engine/fmtcheck.h"
#include "hdf.h"
#include "mfhdf.h"
#include <stdio.h>
#include <stdlib.h>
#include <string.h>

#define PATH "/vmem/c14.hdf"
#define EXT1 "/vmem/c14_a.ext"
#define EXT2 "/vmem/c14_b.ext"
#define NEWX "/vmem/c14_new.ext"

static int32 fid, gr, ri, ricr, vse, an, ann, sd, sds0, sds1, sdsx, sdsc, vs, vg, aid, aidl, aidx;
static int32 g_vsref, g_vgref, g_vseref;
static uint64_t g_hm, g_he1, g_he2;
static uint64_t g_h0;     /* hash of all files right after the corpus was closed */
static uint64_t g_digest; /* content digest of the corpus */

/* ------------------------------------------------------------------ corpus */
static int
build_corpus(void)
{
    vfs_remove_file(PATH);
    vfs_remove_file(EXT1);
    vfs_remove_file(EXT2);
    vfs_remove_file(NEWX);
    int32 f = Hopen(PATH, DFACC_CREATE, 16);
    if (f == FAIL)
        return -1;
    uint8 d[32];
    for (int i = 0; i < 32; i++)
        d[i] = (uint8)(i * 7 + 1);
    Hputelement(f, 1000, 1, d, 6); /* plain */
    int32 a = HLcreate(f, 1000, 2, 4, 2); /* linked blocks */
    Hwrite(a, 11, d);
    Hendaccess(a);
    a = HXcreate(f, 1000, 3, EXT1, 2, 0); /* external */
    Hwrite(a, 9, d);
    Hendaccess(a);
    comp_info  ci;
    model_info mi;
    memset(&ci, 0, sizeof ci);
    memset(&mi, 0, sizeof mi);
    a = HCcreate(f, 1000, 4, COMP_MODEL_STDIO, &mi, COMP_CODE_RLE, &ci); /* compressed */
    Hwrite(a, 12, d);
    Hendaccess(a);
    Vstart(f);
    int32 v = VSattach(f, -1, "w");
    VSsetname(v, "tbl");
    VSfdefine(v, "x", DFNT_INT16, 1);
    VSfdefine(v, "y", DFNT_FLOAT32, 1);
    VSsetfields(v, "x,y");
    uint8 rec[3 * 6];
    memcpy(rec, d, sizeof rec);
    VSwrite(v, rec, 3, FULL_INTERLACE);
    int32 av = 5;
    VSsetattr(v, _HDF_VDATA, "va", DFNT_INT32, 1, &av);
    g_vsref = VSQueryref(v);
    {
        /* a Vdata that has neither fields nor records yet */
        int32 e = VSattach(f, -1, "w");
        VSsetname(e, "empty");
        g_vseref = VSQueryref(e);
        VSdetach(e);
    }
    int32 g = Vattach(f, -1, "w");
    Vsetname(g, "grp");
    Vsetclass(g, "cls");
    Vinsert(g, v);
    Vaddtagref(g, 1000, 1);
    Vsetattr(g, "ga", DFNT_INT32, 1, &av);
    g_vgref = VQueryref(g);
    int32 g2 = Vattach(f, -1, "w");
    Vsetname(g2, "inner");
    Vinsert(g, g2);
    Vdetach(g2);
    VSdetach(v);
    Vdetach(g);
    Vend(f);
    int32 G = GRstart(f);
    int32 dims[2] = {3, 2};
    int32 r = GRcreate(G, "img", 1, DFNT_UINT8, 0, dims);
    int32 st[2] = {0, 0};
    GRwriteimage(r, st, NULL, dims, d);
    uint8 pal[768];
    memset(pal, 3, sizeof pal);
    GRwritelut(GRgetlutid(r, 0), 3, DFNT_UINT8, 0, 256, pal);
    GRsetattr(r, "ra", DFNT_INT32, 1, &av);
    GRendaccess(r);
    GRend(G);
    int32 A = ANstart(f);
    int32 l = ANcreatef(A, AN_FILE_LABEL);
    ANwriteann(l, "file label", 10);
    ANendaccess(l);
    l = ANcreate(A, 1000, 1, AN_DATA_DESC);
    ANwriteann(l, "desc one", 8);
    ANendaccess(l);
    ANend(A);
    if (Hclose(f) == FAIL)
        return -1;
    {
        /* an old-style run-length compressed raster (written by the DFR8 interface): GR reads and writes it through a
           driver of its own */
        uint8 r8[12];
        for (int i = 0; i < 12; i++)
            r8[i] = (uint8)(40 + i / 3);
        DFR8restart();
        if (DFR8addimage(PATH, r8, 4, 3, COMP_RLE) == FAIL)
            return -1;
    }
    int32 S = SDstart(PATH, DFACC_RDWR);
    int32 sdim[2] = {3, 2}, sst[2] = {0, 0};
    int16 sv[8] = {1, 2, 3, 4, 5, 6, 7, 8};
    int32 s = SDcreate(S, "plain", DFNT_INT16, 2, sdim);
    SDwritedata(s, sst, NULL, sdim, sv);
    SDsetattr(s, "sa", DFNT_INT32, 1, &av);
    SDsetdimname(SDgetdimid(s, 0), "row");
    SDsetdimscale(SDgetdimid(s, 0), 3, DFNT_INT16, sv);
    SDendaccess(s);
    int32 udim[2] = {SD_UNLIMITED, 2}, ucn[2] = {2, 2};
    s = SDcreate(S, "unl", DFNT_INT16, 2, udim);
    SDwritedata(s, sst, NULL, ucn, sv);
    SDendaccess(s);
    s = SDcreate(S, "chunked", DFNT_INT16, 2, sdim);
    HDF_CHUNK_DEF cd;
    memset(&cd, 0, sizeof cd);
    cd.comp.chunk_lengths[0] = 2, cd.comp.chunk_lengths[1] = 2;
    cd.comp.comp_type           = COMP_CODE_DEFLATE;
    cd.comp.cinfo.deflate.level = 6;
    SDsetchunk(s, cd, HDF_CHUNK | HDF_COMP);
    SDwritedata(s, sst, NULL, sdim, sv);
    SDendaccess(s);
    s = SDcreate(S, "extern", DFNT_INT16, 2, sdim);
    SDsetexternalfile(s, EXT2, 0);
    SDwritedata(s, sst, NULL, sdim, sv);
    SDendaccess(s);
    SDsetattr(S, "title", DFNT_CHAR8, 3, "abc");
    return SDend(S) == FAIL ? -1 : 0;
}

/* digest of everything stored, read through the library */
static uint64_t
corpus_digest(const char *path, char *why, size_t nwhy)
{
    uint64_t h = MC_H0;
    uint8    b[1024];
    why[0]     = 0;
    int32 f = Hopen(path, DFACC_READ, 0);
    if (f == FAIL) {
        snprintf(why, nwhy, "Hopen failed");
        return 0;
    }
    for (int r = 1; r <= 4; r++) {
        memset(b, 0, sizeof b);
        int32 n = Hgetelement(f, 1000, (uint16)r, b);
        if (n == FAIL) {
            snprintf(why, nwhy, "element (1000,%d) unreadable", r);
            Hclose(f);
            return 0;
        }
        h = mc_hash(h, b, (size_t)n);
    }
    Vstart(f);
    int32 v = VSattach(f, g_vsref, "r");
    memset(b, 0, sizeof b);
    if (v == FAIL || VSsetfields(v, "x,y") == FAIL || VSread(v, b, 3, FULL_INTERLACE) != 3) {
        snprintf(why, nwhy, "Vdata unreadable");
        Hclose(f);
        return 0;
    }
    h = mc_hash(h, b, 18);
    int32 av = 0;
    VSgetattr(v, _HDF_VDATA, 0, &av);
    h = mc_hash_i(h, av);
    VSdetach(v);
    int32 g = Vattach(f, g_vgref, "r");
    int32 tg[8], rf[8];
    char  nm[64] = "";
    if (g == FAIL || Vntagrefs(g) != 3 || Vgettagrefs(g, tg, rf, 8) != 3 || Vgetname(g, nm) == FAIL) {
        snprintf(why, nwhy, "Vgroup unreadable or changed");
        Hclose(f);
        return 0;
    }
    h = mc_hash(h, tg, 12);
    h = mc_hash(h, rf, 12);
    h = mc_hash(h, nm, strlen(nm));
    Vdetach(g);
    Vend(f);
    int32 G = GRstart(f), r = GRselect(G, 0), st[2] = {0, 0}, dims[2] = {3, 2};
    memset(b, 0, sizeof b);
    if (r == FAIL || GRreadimage(r, st, NULL, dims, b) == FAIL) {
        snprintf(why, nwhy, "image unreadable");
        Hclose(f);
        return 0;
    }
    h = mc_hash(h, b, 6);
    memset(b, 0, sizeof b);
    GRreadlut(GRgetlutid(r, 0), b);
    h = mc_hash(h, b, 768);
    GRendaccess(r);
    GRend(G);
    int32 A = ANstart(f), nfl, nfd, nol, nod;
    ANfileinfo(A, &nfl, &nfd, &nol, &nod);
    h = mc_hash_i(h, nfl * 1000 + nfd * 100 + nol * 10 + nod);
    int32 l = ANselect(A, 0, AN_FILE_LABEL);
    memset(b, 0, sizeof b);
    ANreadann(l, (char *)b, 32);
    h = mc_hash(h, b, 10);
    ANend(A);
    if (Hclose(f) == FAIL) {
        snprintf(why, nwhy, "Hclose after reading failed");
        return 0;
    }
    int32 S = SDstart(path, DFACC_READ);
    int32 nds = 0, nat = 0;
    SDfileinfo(S, &nds, &nat);
    h = mc_hash_i(h, nds * 100 + nat);
    static const char *names[4] = {"plain", "unl", "chunked", "extern"};
    for (int k = 0; k < 4; k++) {
        int32 s = SDselect(S, SDnametoindex(S, names[k]));
        int32 sst[2] = {0, 0}, cn[2] = {k == 1 ? 2 : 3, 2};
        int16 v16[8] = {0};
        if (s == FAIL || SDreaddata(s, sst, NULL, cn, v16) == FAIL) {
            snprintf(why, nwhy, "SDS '%s' unreadable", names[k]);
            SDend(S);
            return 0;
        }
        h = mc_hash(h, v16, (size_t)(cn[0] * 2 * 2));
        SDendaccess(s);
    }
    SDend(S);
    return h ? h : 1;
}

static int
open_readonly(void)
{
    fid = Hopen(PATH, DFACC_READ, 0);
    if (fid == FAIL)
        return -1;
    aid  = Hstartread(fid, 1000, 1);
    aidl = Hstartread(fid, 1000, 2);
    aidx = Hstartread(fid, 1000, 3);
    Vstart(fid);
    vs  = VSattach(fid, g_vsref, "r");
    vse = VSattach(fid, g_vseref, "r");
    vg  = Vattach(fid, g_vgref, "r");
    gr  = GRstart(fid);
    ri  = GRselect(gr, 0);
    {
        /* the 4x3 image is the old-style compressed one */
        int32 n_img = 0, n_at = 0;
        GRfileinfo(gr, &n_img, &n_at);
        ricr = FAIL;
        for (int i = 0; i < n_img && ricr == FAIL; i++) {
            int32 r = GRselect(gr, i), nc, nt, il, dm[2], na;
            char  nm[80];
            if (r != FAIL && GRgetiminfo(r, nm, &nc, &nt, &il, dm, &na) != FAIL && dm[0] == 4 && dm[1] == 3)
                ricr = r;
            else if (r != FAIL && r != ri)
                GRendaccess(r);
        }
    }
    an  = ANstart(fid);
    ann = ANselect(an, 0, AN_FILE_LABEL);
    sd  = SDstart(PATH, DFACC_READ);
    sds0 = SDselect(sd, SDnametoindex(sd, "plain"));
    sds1 = SDselect(sd, SDnametoindex(sd, "unl"));
    sdsx = SDselect(sd, SDnametoindex(sd, "extern"));
    sdsc = SDselect(sd, SDnametoindex(sd, "chunked"));
    return (aid == FAIL || vs == FAIL || vse == FAIL || vg == FAIL || ri == FAIL || ricr == FAIL || ann == FAIL || sds0 == FAIL || sds1 == FAIL || sdsx == FAIL) ? -1 : 0;
}

/* ------------------------------------------------------------------ the alphabet */
/* each call returns 1 if the library reported success, 0 if it returned its failure value */
static uint8        B[4096];
static int32        i32[8];
static const int16  W16[8] = {91, 92, 93, 94, 95, 96, 97, 98};
static int32        ST[2] = {0, 0}, CN[2] = {1, 2}, D2[2] = {2, 2}, D43[2] = {4, 3};
static HDF_CHUNK_DEF CD;
static comp_info     CI;
static model_info    MI;

#define C(name, mustfail, expr)                                                                                                      \
    static int call_##name(void)                                                                                                     \
    {                                                                                                                                \
        return (expr) != FAIL;                                                                                                       \
    }
#include "c14_calls.inc"
#undef C
typedef struct {
    const char *name;
    int         must_fail; /* 1: would have to write data or create a stored object */
    int (*fn)(void);
} call_t;
static const call_t CALLS[] = {
#define C(name, mustfail, expr) {#name, mustfail, call_##name},
#include "c14_calls.inc"
#undef C
};
#define NCALLS ((int)(sizeof CALLS / sizeof CALLS[0]))

static int g_mut_only;

static int
check_unchanged(const char *after)
{
    uint64_t h = vfs_hash_all();
    if (h != g_h0) {
        char sig[96];
        snprintf(sig, sizeof sig, "file-changed:%s", after);
        const char *which = "the HDF file";
        vfile      *m = vfs_lookup(PATH), *e1 = vfs_lookup(EXT1), *e2 = vfs_lookup(EXT2);
        if (vfs_lookup(NEWX))
            which = "a new external file was created";
        else if (!e1 || vfs_hash_file(e1) != g_he1)
            which = "external file " EXT1;
        else if (!e2 || vfs_hash_file(e2) != g_he2)
            which = "external file " EXT2;
        else if (m && vfs_hash_file(m) == g_hm)
            which = "an unexpected file";
        mc_violation(sig, "after %s on read-only handles the stored bytes changed: %s", after, which);
        return 1;
    }
    /* a write attempted on a stream opened read-only is rejected by stdio and changes no byte: counted, not a violation */
    for (int i = 0; i < VFS_MAXFILES; i++) {
        vfile *f = vfs_file(i);
        if (f && f->ro_writes) {
            mc_count("write_attempts_rejected_by_stdio", f->ro_writes);
            f->ro_writes = 0;
        }
    }
    return 0;
}

static int
apply(const mc_op *op)
{
    const call_t *c  = &CALLS[op->code];
    int           ok = c->fn();
    if (ok && c->must_fail) {
        char sig[96];
        snprintf(sig, sizeof sig, "write-request-accepted:%s", c->name);
        mc_violation(sig, "%s through a read-only handle reported success; it would have to write data or create a stored object", c->name);
        /* not fatal for the exploration: the bytes are what matters from here on */
    }
    mc_count(ok ? "calls_succeeded" : "calls_refused", 1);
    return check_unchanged(c->name);
}

static int
enum_ops(mc_op *out, int max)
{
    int n = 0;
    for (int i = 0; i < NCALLS && n < max; i++) {
        if (g_mut_only && !CALLS[i].must_fail)
            continue;
        memset(&out[n], 0, sizeof out[n]);
        out[n++].code = i;
    }
    return n;
}
static void
fmt_op(const mc_op *op, char *buf, size_t n)
{
    snprintf(buf, n, "%s", CALLS[op->code].name);
}
static uint64_t g_tracehash = MC_H0;
static uint64_t
key(void)
{
    /* in-memory library state is not observable without side effects: every trace is its own state */
    char tr[1024];
    mc_current_trace(tr, sizeof tr);
    return mc_hash(MC_H0 ^ g_tracehash, tr, strlen(tr));
}
static void
terminal(void)
{
    /* release everything (this is where deferred metadata writes would happen) and verify once more */
    Hendaccess(aid);
    Hendaccess(aidl);
    Hendaccess(aidx);
    VSdetach(vs);
    VSdetach(vse);
    Vdetach(vg);
    Vend(fid);
    GRendaccess(ri);
    GRendaccess(ricr);
    GRend(gr);
    ANendaccess(ann);
    ANend(an);
    SDendaccess(sds0);
    SDendaccess(sds1);
    SDendaccess(sdsx);
    SDendaccess(sdsc);
    SDend(sd);
    Hclose(fid);
    if (check_unchanged("release-and-close"))
        return;
    char     why[120];
    uint64_t dg = corpus_digest(PATH, why, sizeof why);
    if (dg != g_digest)
        mc_violation("content-changed-after-readonly-session", "after a read-only session the stored content reads back differently: %s", why[0] ? why : "digest differs");
}
static mc_harness H = {enum_ops, apply, key, terminal, fmt_op, NULL};

typedef struct {
    int mut_only, depth;
} cfg_t;
static void
root(void *arg)
{
    cfg_t *c = arg;
    int    cfg[1] = {c->mut_only};
    mc_set_config(cfg, 1, "alphabet=%s", c->mut_only ? "mutating calls only" : "all calls");
    g_mut_only  = c->mut_only;
    g_tracehash = mc_hash_i(MC_H0, c->mut_only * 7 + c->depth);
    if (open_readonly()) {
        mc_violation("prologue", "opening the corpus read-only failed");
        return;
    }
    if (check_unchanged("opening-read-only"))
        return;
    mc_explore(&H, c->depth, 99);
}

/* second family: open for writing, look, close without requesting any change */
static void
write_open_case(long idx, void *ctx)
{
    (void)ctx;
    int cfg[2] = {-1, (int)idx};
    mc_set_config(cfg, 2, "write-mode open/close without edits, variant %ld", idx);
    mc_set_case("open with %s, %s, close", idx & 1 ? "DFACC_RDWR" : "DFACC_WRITE", idx & 2 ? "attach/select/read objects" : "no access");
    char why[120];
    if (idx < 4) {
        int32 f = Hopen(PATH, idx & 1 ? DFACC_RDWR : DFACC_WRITE, 0);
        if (f == FAIL) {
            mc_violation("wopen:failed", "Hopen for writing failed");
            return;
        }
        if (idx & 2) {
            uint8 b[64];
            Hgetelement(f, 1000, 2, b);
            Vstart(f);
            int32 v = VSattach(f, g_vsref, "w");
            int32 g = Vattach(f, g_vgref, "w");
            VSdetach(v);
            Vdetach(g);
            Vend(f);
            int32 G = GRstart(f), r = GRselect(G, 0);
            GRendaccess(r);
            GRend(G);
            int32 A = ANstart(f);
            ANend(A);
        }
        if (Hclose(f) == FAIL) {
            mc_violation("wopen:close", "Hclose failed");
            return;
        }
    }
    else {
        int32 S = SDstart(PATH, DFACC_RDWR);
        if (S == FAIL) {
            mc_violation("wopen:sdstart", "SDstart(RDWR) failed");
            return;
        }
        if (idx & 1) {
            int32 s = SDselect(S, 0);
            int16 v16[8];
            int32 st[2] = {0, 0}, cn[2] = {3, 2};
            SDreaddata(s, st, NULL, cn, v16);
            SDendaccess(s);
        }
        if (SDend(S) == FAIL) {
            mc_violation("wopen:sdend", "SDend failed");
            return;
        }
    }
    vfile *vf = vfs_lookup(PATH);
    long   sz;
    uint8 *bytes = vfs_dup_bytes(vf, &sz);
    fc_file fc;
    memset(&fc, 0, sizeof fc);
    if (fc_parse(&fc, bytes, sz) != 0)
        mc_violation("wopen:format", "file not well-formed after a write-mode open/close: %s", fc.err[0]);
    fc_free(&fc);
    free(bytes);
    uint64_t dg = corpus_digest(PATH, why, sizeof why);
    if (dg != g_digest)
        mc_violation("wopen:content-changed", "a write-mode open/close without edits changed the stored content: %s", why[0] ? why : "digest differs");
    mc_count("write_open_cases", 1);
}

/* third family: one object of a given storage kind in a file of its own; the file is opened for WRITING, the object is only
   read (not at all / in part / with a backward step / completely), everything is closed; the object must then read back with
   the values stored, and the file must be well-formed */
#define WPATH "/vmem/c14w.hdf"
#define WEXT "/vmem/c14w.ext"
#define NWKIND 14
#define NWPAT 6
static const char *WKIND[NWKIND] = {"SDS plain",   "SDS RLE",      "SDS deflate",         "SDS skipping-Huffman", "SDS n-bit",   "SDS chunked", "SDS chunked+deflate",
                                    "SDS unlimited", "SDS external", "image plain",         "image RLE",            "image deflate", "image chunked",
                                    "SDS unlimited, shorter than another unlimited one"};
static const char *WPAT[NWPAT]   = {"selected and released only", "the first 10 values read", "rows 15-16 read", "the last row read", "row 30 read, then row 2", "read completely"};
static void
write_session_case(long idx, void *ctx)
{
    (void)ctx;
    int kind = (int)(idx % NWKIND), pat = (int)(idx / NWKIND % NWPAT), mode = (int)(idx / (NWKIND * NWPAT));
    int cfg[4] = {-2, kind, pat, mode};
    mc_set_config(cfg, 4, "write-mode session that only reads");
    mc_set_case("%s (40 x 250 bytes), file opened with %s, %s, closed", WKIND[kind], kind < 9 ? "SDstart(DFACC_RDWR)" : mode ? "Hopen(DFACC_WRITE)" : "Hopen(DFACC_RDWR)", WPAT[pat]);
    if (kind == 13) {
        /* records 0-3 exist in "short", 0-9 in "long": a read of record 6 of "short" (refused or not) must not make it longer */
        static const int32 REC[NWPAT] = {-1, 0, 3, 4, 6, 9};
        int32 rec = REC[pat], udm[2] = {SD_UNLIMITED, 5}, st[2] = {0, 0}, cn[2] = {10, 5};
        uint8 lv[50], sv[20], bk[64];
        for (int i = 0; i < 50; i++)
            lv[i] = (uint8)(100 + i), sv[i % 20] = (uint8)(7 + i % 20);
        mc_set_case("two unlimited data sets (10 and 4 records), file opened with SDstart(DFACC_RDWR), %s, closed", rec < 0 ? "nothing read" : rec < 4 ? "an existing record of the short one read" : "a record beyond the end of the short one (but not of the long one) read");
        vfs_remove_file(WPATH);
        int32 S = SDstart(WPATH, DFACC_CREATE), l = SDcreate(S, "long", DFNT_UINT8, 2, udm), sh = SDcreate(S, "short", DFNT_UINT8, 2, udm);
        int   bad = S == FAIL || l == FAIL || sh == FAIL || SDwritedata(l, st, NULL, cn, lv) == FAIL;
        cn[0]     = 4;
        bad       = bad || SDwritedata(sh, st, NULL, cn, sv) == FAIL || SDendaccess(l) == FAIL || SDendaccess(sh) == FAIL || SDend(S) == FAIL;
        if (bad) {
            mc_harness_error("cannot build the file with two unlimited data sets");
            return;
        }
        S  = SDstart(WPATH, DFACC_RDWR);
        sh = S == FAIL ? FAIL : SDselect(S, SDnametoindex(S, "short"));
        if (sh == FAIL) {
            mc_violation("wsession:open", "SDstart(DFACC_RDWR)/SDselect failed");
            return;
        }
        if (rec >= 0) {
            st[0] = rec, cn[0] = 1;
            int32 rc = SDreaddata(sh, st, NULL, cn, bk);
            if (rec < 4 && (rc == FAIL || memcmp(bk, sv + rec * 5, 5)))
                mc_violation("wsession:read", "reading record %d of the short data set inside the write-mode session fails or returns other values", (int)rec);
        }
        if (SDendaccess(sh) == FAIL || SDend(S) == FAIL) {
            mc_violation("wsession:close", "SDendaccess/SDend failed");
            return;
        }
        S  = SDstart(WPATH, DFACC_READ);
        sh = S == FAIL ? FAIL : SDselect(S, SDnametoindex(S, "short"));
        l  = S == FAIL ? FAIL : SDselect(S, SDnametoindex(S, "long"));
        char  nm[64];
        int32 rk, d1[2] = {0, 0}, d2[2] = {0, 0}, nt, na;
        st[0] = 0, cn[0] = 4;
        memset(bk, 0xEE, sizeof bk);
        if (sh == FAIL || l == FAIL || SDgetinfo(sh, nm, &rk, d1, &nt, &na) == FAIL || SDgetinfo(l, nm, &rk, d2, &nt, &na) == FAIL || d1[0] != 4 || d2[0] != 10 ||
            SDreaddata(sh, st, NULL, cn, bk) == FAIL || memcmp(bk, sv, 20))
            mc_violation("wsession:content-changed:sds", "two unlimited data sets: after a write-mode session in which the short one was only read (%s) it has %d records (stored: 4), the long one %d (stored: 10), or its values differ",
                         rec < 0 ? "not at all" : rec < 4 ? "inside" : "beyond its end", (int)d1[0], (int)d2[0]);
        if (S != FAIL)
            SDend(S);
        mc_count("write_session_cases", 1);
        mc_outcome(mc_hash_i(mc_hash_i(MC_H0, -2), idx));
        return;
    }
    static uint8 v[40 * 250], back[40 * 250 + 8];
    for (int i = 0; i < 40 * 250; i++)
        v[i] = (uint8)(kind == 4 ? ((i / 3 + i / 250) & 0x3F) : (i / 7 + (i % 13 == 0 ? i : 0))); /* runs and noise */
    vfs_remove_file(WPATH);
    vfs_remove_file(WEXT);
    int32     dm[2] = {40, 250}, st0[2] = {0, 0};
    comp_info ci;
    memset(&ci, 0, sizeof ci);
    int ok = 1;
    if (kind < 9) {
        int32 S = SDstart(WPATH, DFACC_CREATE), udm[2] = {kind == 7 ? SD_UNLIMITED : 40, 250};
        int32 s = SDcreate(S, "w", DFNT_UINT8, 2, udm);
        HDF_CHUNK_DEF cd;
        memset(&cd, 0, sizeof cd);
        switch (kind) {
            case 1: ok = SDsetcompress(s, COMP_CODE_RLE, &ci) != FAIL; break;
            case 2:
                ci.deflate.level = 6;
                ok               = SDsetcompress(s, COMP_CODE_DEFLATE, &ci) != FAIL;
                break;
            case 3:
                ci.skphuff.skp_size = 1;
                ok                  = SDsetcompress(s, COMP_CODE_SKPHUFF, &ci) != FAIL;
                break;
            case 4: ok = SDsetnbitdataset(s, 5, 6, 0, 0) != FAIL; break;
            case 5:
                cd.chunk_lengths[0] = 7, cd.chunk_lengths[1] = 64;
                ok                  = SDsetchunk(s, cd, HDF_CHUNK) != FAIL;
                break;
            case 6:
                cd.comp.chunk_lengths[0] = 7, cd.comp.chunk_lengths[1] = 64;
                cd.comp.comp_type           = COMP_CODE_DEFLATE;
                cd.comp.cinfo.deflate.level = 6;
                ok                          = SDsetchunk(s, cd, HDF_CHUNK | HDF_COMP) != FAIL;
                break;
            case 8: ok = SDsetexternalfile(s, WEXT, 0) != FAIL; break;
        }
        if (S == FAIL || s == FAIL || !ok || SDwritedata(s, st0, NULL, dm, v) == FAIL || SDendaccess(s) == FAIL || SDend(S) == FAIL) {
            mc_harness_error("cannot build the %s file", WKIND[kind]);
            return;
        }
    }
    else {
        int32 f = Hopen(WPATH, DFACC_CREATE, 0), G = GRstart(f), gd[2] = {250, 40}; /* GR: x (fastest) first */
        int32 r = GRcreate(G, "w", 1, DFNT_UINT8, MFGR_INTERLACE_PIXEL, gd);
        HDF_CHUNK_DEF cd;
        memset(&cd, 0, sizeof cd);
        switch (kind) {
            case 10: ok = GRsetcompress(r, COMP_CODE_RLE, &ci) != FAIL; break;
            case 11:
                ci.deflate.level = 6;
                ok               = GRsetcompress(r, COMP_CODE_DEFLATE, &ci) != FAIL;
                break;
            case 12:
                cd.chunk_lengths[0] = 50, cd.chunk_lengths[1] = 8;
                ok                  = GRsetchunk(r, cd, HDF_CHUNK) != FAIL;
                break;
        }
        if (f == FAIL || r == FAIL || !ok || GRwriteimage(r, st0, NULL, gd, v) == FAIL || GRendaccess(r) == FAIL || GRend(G) == FAIL || Hclose(f) == FAIL) {
            mc_harness_error("cannot build the %s file", WKIND[kind]);
            return;
        }
    }
    uint64_t ext0 = kind == 8 ? vfs_hash_file(vfs_lookup(WEXT)) : 0;
    /* the session: open for writing, read only */
    static const int32 PST[NWPAT][2][2] = {{{0, 0}, {0, 0}}, {{0, 0}, {0, 0}}, {{15, 0}, {0, 0}}, {{39, 0}, {0, 0}}, {{30, 0}, {2, 0}}, {{0, 0}, {0, 0}}};
    static const int32 PCN[NWPAT][2][2] = {{{0, 0}, {0, 0}}, {{1, 10}, {0, 0}}, {{2, 250}, {0, 0}}, {{1, 250}, {0, 0}}, {{1, 250}, {1, 250}}, {{40, 250}, {0, 0}}};
    if (kind < 9) {
        int32 S = SDstart(WPATH, DFACC_RDWR), s = S == FAIL ? FAIL : SDselect(S, 0);
        if (s == FAIL) {
            mc_violation("wsession:open", "SDstart(DFACC_RDWR)/SDselect failed");
            return;
        }
        for (int q = 0; q < 2; q++)
            if (PCN[pat][q][0]) {
                int32 a[2] = {PST[pat][q][0], PST[pat][q][1]}, c[2] = {PCN[pat][q][0], PCN[pat][q][1]};
                memset(back, 0xEE, sizeof back);
                if (SDreaddata(s, a, NULL, c, back) == FAIL || memcmp(back, v + a[0] * 250 + a[1], (size_t)(c[0] * c[1])))
                    mc_violation("wsession:read", "%s: the read inside the write-mode session fails or returns other values than stored", WKIND[kind]);
            }
        if (SDendaccess(s) == FAIL || SDend(S) == FAIL) {
            mc_violation("wsession:close", "SDendaccess/SDend failed");
            return;
        }
    }
    else {
        int32 f = Hopen(WPATH, mode ? DFACC_WRITE : DFACC_RDWR, 0), G = f == FAIL ? FAIL : GRstart(f), r = G == FAIL ? FAIL : GRselect(G, 0);
        if (r == FAIL) {
            mc_violation("wsession:open", "Hopen for writing/GRstart/GRselect failed");
            return;
        }
        for (int q = 0; q < 2; q++)
            if (PCN[pat][q][0]) {
                int32 a[2] = {PST[pat][q][1], PST[pat][q][0]}, c[2] = {PCN[pat][q][1], PCN[pat][q][0]}; /* x first */
                memset(back, 0xEE, sizeof back);
                if (GRreadimage(r, a, NULL, c, back) == FAIL || memcmp(back, v + a[1] * 250 + a[0], (size_t)(c[0] * c[1])))
                    mc_violation("wsession:read", "%s: the read inside the write-mode session fails or returns other values than stored", WKIND[kind]);
            }
        if (GRendaccess(r) == FAIL || GRend(G) == FAIL || Hclose(f) == FAIL) {
            mc_violation("wsession:close", "GRendaccess/GRend/Hclose failed");
            return;
        }
    }
    /* afterwards */
    {
        vfile  *vf = vfs_lookup(WPATH);
        long    sz;
        uint8  *bytes = vfs_dup_bytes(vf, &sz);
        fc_file fc;
        memset(&fc, 0, sizeof fc);
        if (fc_parse(&fc, bytes, sz) != 0)
            mc_violation("wsession:format", "file not well-formed after the session: %s", fc.err[0]);
        fc_free(&fc);
        free(bytes);
    }
    if (kind == 8 && vfs_hash_file(vfs_lookup(WEXT)) != ext0)
        mc_violation("wsession:external-file-changed", "the external file changed although nothing was written");
    memset(back, 0xEE, sizeof back);
    int rc;
    if (kind < 9) {
        int32 S = SDstart(WPATH, DFACC_READ), s = S == FAIL ? FAIL : SDselect(S, 0);
        rc      = s == FAIL ? FAIL : SDreaddata(s, st0, NULL, dm, back);
        if (S != FAIL)
            SDend(S);
    }
    else {
        int32 f = Hopen(WPATH, DFACC_READ, 0), G = f == FAIL ? FAIL : GRstart(f), r = G == FAIL ? FAIL : GRselect(G, 0), gd[2] = {250, 40};
        rc      = r == FAIL ? FAIL : GRreadimage(r, st0, NULL, gd, back);
        if (G != FAIL)
            GRend(G);
        if (f != FAIL)
            Hclose(f);
    }
    if (rc == FAIL || memcmp(back, v, sizeof v)) {
        long first = 0;
        while (rc != FAIL && first < (long)sizeof v && back[first] == v[first])
            first++;
        char sig[100];
        snprintf(sig, sizeof sig, "wsession:content-changed:%s", kind < 9 ? "sds" : "image");
        mc_violation(sig, "%s: after a write-mode session in which it was only read (%s) the object %s", WKIND[kind], WPAT[pat],
                     rc == FAIL ? "cannot be read" : "reads back with other values than were stored");
        (void)first;
    }
    mc_count("write_session_cases", 1);
    mc_outcome(mc_hash_i(mc_hash_i(MC_H0, -2), idx));
}

int
C14_main(const char *tier, const char *replay)
{
    memset(&CD, 0, sizeof CD);
    CD.chunk_lengths[0] = 2, CD.chunk_lengths[1] = 2;
    memset(&CI, 0, sizeof CI);
    memset(&MI, 0, sizeof MI);
    if (build_corpus()) {
        mc_harness_error("cannot build the corpus");
        return 0;
    }
    char why[120];
    g_digest = corpus_digest(PATH, why, sizeof why);
    if (!g_digest) {
        mc_harness_error("corpus unreadable: %s", why);
        return 0;
    }
    g_h0 = vfs_hash_all();
    g_hm  = vfs_hash_file(vfs_lookup(PATH));
    g_he1 = vfs_hash_file(vfs_lookup(EXT1));
    g_he2 = vfs_hash_file(vfs_lookup(EXT2));
    if (corpus_digest(PATH, why, sizeof why) != g_digest || vfs_hash_all() != g_h0) {
        mc_violation("reading-changed-file", "reading the whole corpus through read-only handles changed the stored bytes");
        return 0;
    }
    if (replay) {
        int   cfg[32], ncfg, nops;
        mc_op ops[MC_MAXDEPTH];
        if (mc_load_replay(replay, cfg, &ncfg, ops, &nops, MC_MAXDEPTH) || ncfg < 1)
            return 2;
        if (cfg[0] == -1) {
            write_open_case(cfg[1], NULL);
            return 0;
        }
        if (cfg[0] == -2 && ncfg >= 4) {
            write_session_case(cfg[1] + (long)NWKIND * (cfg[2] + (long)NWPAT * cfg[3]), NULL);
            return 0;
        }
        g_mut_only = cfg[0];
        printf("replay C14: %d calls on read-only handles\n", nops);
        if (open_readonly())
            return 0;
        mc_replay_ops(&H, ops, nops);
        return 0;
    }
    int          thorough = strcmp(tier, "thorough") == 0;
    static cfg_t cfgs[2];
    mc_round_begin(thorough ? "depth 2 over all calls, depth 3 over write requests" : "depth 2 over all calls, depth 2 over write requests");
    cfgs[0] = (cfg_t){0, 2};
    cfgs[1] = (cfg_t){1, thorough ? 3 : 2};
    mc_spawn_root(root, &cfgs[0], 2);
    mc_spawn_root(root, &cfgs[1], 2);
    mc_wait_roots();
    mc_round_end();
    mc_round_begin("write-mode open/close without edits");
    mc_foreach(6, write_open_case, NULL, 1, 120);
    mc_round_end();
    mc_round_begin("write-mode sessions that only read one object of every storage kind");
    mc_foreach(2L * NWKIND * NWPAT, write_session_case, NULL, 1, 120);
    mc_round_end();
    mc_count("alphabet_calls", NCALLS);
    return 0;
}
