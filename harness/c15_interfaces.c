/* C15 - all interfaces agree on the content of the same objects.
 * Case enumeration: every ordered interface pair (A writes, B reads) x every object in a small generated alphabet of shapes,
 * number types, interlaces, lossless compressions, scale masks, palettes and annotation kinds.  The reference for each case is
 * what was handed to interface A (a plain array in memory); interface A's own read-back must return it too (so that a
 * disagreement is pinned on the right side), interface B must return identical values, dimensions and type.
 * Plus the checked-in legacy files of the repository, read through the old and the new interface of each kind and compared. */
#include "../engine/mc.h"
#include "../engine/vfs.h"
#include "hdf.h"
#include "mfhdf.h"
#include "nc_priv.h"
#include <dirent.h>
#include <stdarg.h>
#include <stdio.h>
#include <stdlib.h>
#include <string.h>

#define PATH "/vmem/c15.hdf"
static char g_case[240];

static void
setcase(const char *fmt, ...)
{
    va_list ap;
    va_start(ap, fmt);
    vsnprintf(g_case, sizeof g_case, fmt, ap);
    va_end(ap);
    mc_set_case("%s", g_case);
}
static char g_sigsuffix[80];
#define DISAGREE(sig, ...)                                                                                                           \
    do {                                                                                                                             \
        char m_[600];                                                                                                                \
        snprintf(m_, sizeof m_, __VA_ARGS__);                                                                                        \
        char s_[200];                                                                                                                \
        snprintf(s_, sizeof s_, "%s%s", sig, g_sigsuffix);                                                                           \
        mc_violation(s_, "%s: %s", g_case, m_);                                                                                     \
    } while (0)

static const int32 NTS[] = {DFNT_INT8, DFNT_UINT8, DFNT_INT16, DFNT_UINT16, DFNT_INT32, DFNT_FLOAT32, DFNT_FLOAT64,
                            DFNT_LINT16, DFNT_LINT32, DFNT_LFLOAT32, DFNT_LFLOAT64}; /* little-endian storage as well */
#define NNT 11
#define ESZ(nt) DFKNTsize((((int32)(nt)) & ~DFNT_LITEND) | DFNT_NATIVE)
static const int32 SHAPES[][4] = {{1, 5, 0, 0}, {2, 3, 4, 0}, {2, 1, 6, 0}, {3, 2, 3, 4}, {3, 3, 1, 2}}; /* rank, dims */
#define NSHAPE 5

/* deterministic values of a number type */
static void
fill_values(int32 nt, long n, void *out, int salt)
{
    for (long i = 0; i < n; i++) {
        long v = (i * 7 + salt * 13) % 101 - 20;
        switch (nt & ~DFNT_LITEND) {
            case DFNT_INT8: ((int8 *)out)[i] = (int8)v; break;
            case DFNT_UINT8: ((uint8 *)out)[i] = (uint8)(v + 20); break;
            case DFNT_INT16: ((int16 *)out)[i] = (int16)(v * 300); break;
            case DFNT_UINT16: ((uint16 *)out)[i] = (uint16)((v + 20) * 600); break;
            case DFNT_INT32: ((int32 *)out)[i] = (int32)(v * 70001); break;
            case DFNT_FLOAT32: ((float32 *)out)[i] = (float32)v * 0.25f; break;
            case DFNT_FLOAT64: ((float64 *)out)[i] = (float64)v * 0.125; break;
        }
    }
}
static long
nelem(int rank, const int32 *d)
{
    long n = 1;
    for (int i = 0; i < rank; i++)
        n *= d[i];
    return n;
}

/* ================================================================== SDS: DFSD <-> SD */
typedef struct {
    int32 nt, rank, dims[3];
    int   mask;   /* bit i: dimension i has a scale */
    int   extras; /* strings, range, fill value */
    uint8 data[24 * 8];
    uint8 scale[3][6 * 8];
} sds_t;

static void
make_sds(sds_t *s, int shape, int nt, int mask, int extras, int salt)
{
    memset(s, 0, sizeof *s);
    s->nt   = NTS[nt];
    s->rank = SHAPES[shape][0];
    for (int i = 0; i < s->rank; i++)
        s->dims[i] = SHAPES[shape][1 + i];
    s->mask   = mask & ((1 << s->rank) - 1);
    s->extras = extras;
    fill_values(s->nt, nelem(s->rank, s->dims), s->data, salt);
    for (int i = 0; i < s->rank; i++)
        fill_values(s->nt, s->dims[i], s->scale[i], salt + 5 + i);
}

static int
dfsd_write(const sds_t *s, int append)
{
    DFSDclear();
    if (DFSDsetdims(s->rank, (int32 *)s->dims) == FAIL || DFSDsetNT(s->nt) == FAIL)
        return -1;
    for (int i = 0; i < s->rank; i++)
        if (s->mask & (1 << i))
            if (DFSDsetdimscale(i + 1, s->dims[i], (VOIDP)s->scale[i]) == FAIL)
                return -1;
    if (s->extras) {
        DFSDsetdatastrs("label", "unit", "fmt", "coords");
        DFSDsetdimstrs(1, "dl", "du", "df");
        DFSDsetrange((VOIDP)(s->data + ESZ(s->nt)), (VOIDP)s->data);
    }
    int rc = append ? DFSDadddata(PATH, s->rank, (int32 *)s->dims, (VOIDP)s->data) : DFSDputdata(PATH, s->rank, (int32 *)s->dims, (VOIDP)s->data);
    return rc == FAIL ? -1 : 0;
}
static int
sd_write(const sds_t *s, int create, const char *name)
{
    int32 S = SDstart(PATH, create ? DFACC_CREATE : DFACC_RDWR);
    if (S == FAIL)
        return -1;
    int32 id = SDcreate(S, name, s->nt, s->rank, (int32 *)s->dims), st[3] = {0, 0, 0};
    int   rc = id == FAIL ? -1 : 0;
    if (!rc && SDwritedata(id, st, NULL, (int32 *)s->dims, (VOIDP)s->data) == FAIL)
        rc = -1;
    for (int i = 0; i < s->rank && !rc; i++)
        if (s->mask & (1 << i))
            if (SDsetdimscale(SDgetdimid(id, i), s->dims[i], s->nt, (VOIDP)s->scale[i]) == FAIL)
                rc = -1;
    if (!rc && s->extras) {
        SDsetdatastrs(id, "label", "unit", "fmt", "coords");
        SDsetdimstrs(SDgetdimid(id, 0), "dl", "du", "df");
        SDsetrange(id, (VOIDP)(s->data + ESZ(s->nt)), (VOIDP)s->data);
    }
    if (id != FAIL)
        SDendaccess(id);
    if (SDend(S) == FAIL)
        rc = -1;
    return rc;
}

/* read through DFSD and compare with s.
 * strict (DFSD wrote it): the idx-th data set, with scales, strings, range and fill value.
 * not strict (SD wrote it): SD stores an old-style description next to its own so that DFSD programs can read the data; DFSD
 * also lists SD's coordinate variables as data sets, so the data set is searched for; values, dimensions and type must agree,
 * metadata the compatibility record does not carry is not demanded, but whatever DFSD does return must be what was written. */
static void
dfsd_check(const sds_t *s, int idx, const char *who, int strict)
{
    int32 rank = 0, dims[8] = {0}, nt = 0;
    uint8 buf[24 * 8 + 8];
    int   esz = ESZ(s->nt), found = 0;
    long  nb  = nelem(s->rank, s->dims) * esz;
    DFSDrestart();
    if (strict) {
        for (int i = 0; i <= idx; i++)
            if (DFSDgetdims(PATH, &rank, dims, 8) == FAIL) {
                DISAGREE("sds:dfsd-cannot-see-dataset", "%s: DFSDgetdims fails for data set %d", who, i);
                return;
            }
        DFSDgetNT(&nt);
        if (rank != s->rank || memcmp(dims, s->dims, sizeof(int32) * (size_t)rank) || nt != s->nt) {
            DISAGREE("sds:dfsd-shape-or-type", "%s: DFSD sees rank %d dims %d,%d,%d type %d; written rank %d dims %d,%d,%d type %d", who, (int)rank, (int)dims[0],
                     (int)dims[1], (int)dims[2], (int)nt, (int)s->rank, (int)s->dims[0], (int)s->dims[1], (int)s->dims[2], (int)s->nt);
            return;
        }
        memset(buf, 0xEE, sizeof buf);
        if (DFSDgetdata(PATH, rank, dims, buf) == FAIL || memcmp(buf, s->data, (size_t)nb)) {
            DISAGREE("sds:dfsd-data", "%s: DFSDgetdata differs from the values written", who);
            return;
        }
        found = 1;
    }
    else {
        int n = DFSDndatasets((char *)PATH);
        DFSDrestart();
        for (int i = 0; i < n && !found; i++) {
            if (DFSDgetdims(PATH, &rank, dims, 8) == FAIL)
                break;
            DFSDgetNT(&nt);
            if (rank != s->rank || memcmp(dims, s->dims, sizeof(int32) * (size_t)rank) || nt != s->nt)
                continue;
            memset(buf, 0xEE, sizeof buf);
            if (DFSDgetdata(PATH, rank, dims, buf) != FAIL && !memcmp(buf, s->data, (size_t)nb))
                found = 1;
        }
        if (!found) {
            DISAGREE("sds:dfsd-data", "%s: none of the %d data sets DFSD lists has the rank, dimensions, type and values that were written", who, n);
            return;
        }
    }
    for (int i = 0; i < rank; i++) {
        uint8 sc[6 * 8 + 8];
        memset(sc, 0xEE, sizeof sc);
        int32 rc  = DFSDgetdimscale(i + 1, dims[i], sc);
        int   has = (s->mask >> i) & 1;
        if (has && rc != FAIL && memcmp(sc, s->scale[i], (size_t)(dims[i] * esz)))
            DISAGREE("sds:dfsd-dimscale", "%s: DFSDgetdimscale(dim %d) returns other values than written (scale mask %d)", who, i + 1, s->mask);
        if (has && rc == FAIL && strict)
            DISAGREE("sds:dfsd-dimscale", "%s: DFSDgetdimscale(dim %d) fails (scale mask %d)", who, i + 1, s->mask);
        if (!has && rc != FAIL)
            DISAGREE("sds:dfsd-dimscale-phantom", "%s: DFSDgetdimscale(dim %d) returns a scale although none was written (scale mask %d)", who, i + 1, s->mask);
    }
    if (s->extras && strict) {
        char l[256] = "", u[256] = "", f[256] = "", c[256] = "";
        DFSDgetdatastrs(l, u, f, c);
        if (strcmp(l, "label") || strcmp(u, "unit") || strcmp(f, "fmt"))
            DISAGREE("sds:dfsd-datastrs", "%s: DFSDgetdatastrs returns '%s','%s','%s'", who, l, u, f);
        uint8 mx[8], mn[8];
        if (DFSDgetrange(mx, mn) == FAIL || memcmp(mx, s->data + esz, (size_t)esz) || memcmp(mn, s->data, (size_t)esz))
            DISAGREE("sds:dfsd-range", "%s: DFSDgetrange differs from the range written", who);
    }
}
/* read through SD: the idx-th non-coordinate data set */
static void
sd_check(const sds_t *s, int idx, const char *who)
{
    int32 S = SDstart(PATH, DFACC_READ);
    if (S == FAIL) {
        DISAGREE("sds:sd-cannot-open", "%s: SDstart fails", who);
        return;
    }
    int32 nds = 0, na = 0, id = FAIL;
    SDfileinfo(S, &nds, &na);
    for (int k = 0, seen = 0; k < nds; k++) {
        int32 t = SDselect(S, k);
        if (t == FAIL)
            continue;
        if (!SDiscoordvar(t) && seen++ == idx) {
            id = t;
            break;
        }
        SDendaccess(t);
    }
    if (id == FAIL) {
        DISAGREE("sds:sd-cannot-see-dataset", "%s: SD sees %d variables, none is data set %d", who, (int)nds, idx);
        SDend(S);
        return;
    }
    char  nm[H4_MAX_NC_NAME + 1];
    int32 rank = 0, dims[H4_MAX_VAR_DIMS] = {0}, nt = 0, nat = 0, st[3] = {0, 0, 0};
    SDgetinfo(id, nm, &rank, dims, &nt, &nat);
    if (rank != s->rank || memcmp(dims, s->dims, sizeof(int32) * (size_t)rank) || nt != s->nt) {
        DISAGREE("sds:sd-shape-or-type", "%s: SD sees rank %d dims %d,%d,%d type %d; written rank %d dims %d,%d,%d type %d", who, (int)rank, (int)dims[0], (int)dims[1],
                 (int)dims[2], (int)nt, (int)s->rank, (int)s->dims[0], (int)s->dims[1], (int)s->dims[2], (int)s->nt);
    }
    else {
        uint8 buf[24 * 8 + 8];
        int   esz = ESZ(nt);
        long  nb  = nelem(rank, dims) * esz;
        memset(buf, 0xEE, sizeof buf);
        if (SDreaddata(id, st, NULL, dims, buf) == FAIL || memcmp(buf, s->data, (size_t)nb))
            DISAGREE("sds:sd-data", "%s: SDreaddata differs from the values written", who);
        for (int i = 0; i < rank; i++) {
            int32 did = SDgetdimid(id, i), sz = 0, snt = 0, sna = 0;
            char  dn[H4_MAX_NC_NAME + 1];
            uint8 sc[6 * 8 + 8];
            memset(sc, 0xEE, sizeof sc);
            SDdiminfo(did, dn, &sz, &snt, &sna);
            int has = (s->mask >> i) & 1;
            if (has) {
                if (snt != s->nt || SDgetdimscale(did, sc) == FAIL || memcmp(sc, s->scale[i], (size_t)(dims[i] * esz)))
                    DISAGREE("sds:sd-dimscale", "%s: SDgetdimscale(dim %d) %s (scale mask %d)", who, i, snt != s->nt ? "reports no scale / another type" : "returns other values than written",
                             s->mask);
            }
            else if (snt != 0)
                DISAGREE("sds:sd-dimscale-phantom", "%s: SDdiminfo(dim %d) reports a scale of type %d although none was written (scale mask %d)", who, i, (int)snt, s->mask);
        }
        if (s->extras) {
            char l[256] = "", u[256] = "", f[256] = "", c[256] = "";
            if (SDgetdatastrs(id, l, u, f, c, 255) == FAIL || strcmp(l, "label") || strcmp(u, "unit") || strcmp(f, "fmt"))
                DISAGREE("sds:sd-datastrs", "%s: SDgetdatastrs returns '%s','%s','%s'", who, l, u, f);
            uint8 mx[8], mn[8];
            if (SDgetrange(id, mx, mn) == FAIL || memcmp(mx, s->data + esz, (size_t)esz) || memcmp(mn, s->data, (size_t)esz))
                DISAGREE("sds:sd-range", "%s: SDgetrange differs from the range written", who);
            char dl[256] = "", du[256] = "", df[256] = "";
            if (SDgetdimstrs(SDgetdimid(id, 0), dl, du, df, 255) == FAIL || strcmp(dl, "dl") || strcmp(du, "du"))
                DISAGREE((s->mask & 1) ? "sds:sd-dimstrs" : "sds:sd-dimstrs@dimension-without-scale", "%s: SDgetdimstrs returns '%s','%s','%s'", who, dl, du, df);
        }
    }
    SDendaccess(id);
    SDend(S);
}

static void
case_sds(long idx, void *ctx)
{
    (void)ctx;
    /* idx -> direction(2) x shape(5) x nt(7) x mask(8) x extras(2); second data set appended for half of them */
    int dir = (int)(idx % 2), shape = (int)(idx / 2 % NSHAPE), nt = (int)(idx / 10 % NNT), mask = (int)(idx / (10 * NNT) % 8), extras = (int)(idx / (80 * NNT) % 2);
    int rank = SHAPES[shape][0];
    if (mask >= (1 << rank))
        return;
    int cfg[6] = {0, dir, shape, nt, mask, extras};
    mc_set_config(cfg, 6, "family=sds");
    sds_t a, b;
    make_sds(&a, shape, nt, mask, extras, 1);
    make_sds(&b, (shape + 1) % NSHAPE, nt, (mask * 5 + 3) & 7, 0, 2);
    setcase("SDS %s: rank %d dims %d,%d,%d type %d scale mask %d%s, followed by a second data set", dir ? "written by SD, read by DFSD" : "written by DFSD, read by SD", (int)a.rank,
            (int)a.dims[0], (int)a.dims[1], (int)a.dims[2], (int)a.nt, a.mask, extras ? " +strings/range" : "");
    vfs_remove_file(PATH);
    if (dir == 0) {
        if (dfsd_write(&a, 0) || dfsd_write(&b, 1)) {
            mc_violation("sds:dfsd-write-failed", "%s: DFSD refused a legal data set", g_case);
            return;
        }
        dfsd_check(&a, 0, "writer's own view", 1);
        dfsd_check(&b, 1, "writer's own view", 1);
        sd_check(&a, 0, "other interface");
        sd_check(&b, 1, "other interface");
    }
    else {
        if (sd_write(&a, 1, "first") || sd_write(&b, 0, "second")) {
            mc_violation("sds:sd-write-failed", "%s: SD refused a legal data set", g_case);
            return;
        }
        sd_check(&a, 0, "writer's own view");
        sd_check(&b, 1, "writer's own view");
        dfsd_check(&a, 0, "other interface", 0);
        dfsd_check(&b, 1, "other interface", 0);
    }
    mc_outcome(mc_hash(mc_hash_i(MC_H0, dir), a.data, sizeof a.data)); /* what the readers had to return */
    if (idx % 97 == 0)
        mc_sample("%s", g_case);
    mc_count("sds_cases", 1);
}

/* record variables written by SD (two unlimited data sets with different record counts, optionally extended in a second
   session) must be seen by DFSD with their own record count and values */
static void
case_recvar(long idx, void *ctx)
{
    (void)ctx;
    static const int CNT[][2] = {{5, 2}, {2, 5}, {3, 3}, {1, 4}};
    int nt = (int)(idx % NNT), c = (int)(idx / NNT % 4), second = (int)(idx / (NNT * 4) % 2);
    int cfg[4] = {6, nt, c, second};
    mc_set_config(cfg, 4, "family=recvar");
    setcase("two unlimited data sets of type %d written by SD with %d and %d records%s, read by DFSD", (int)NTS[nt], CNT[c][0], CNT[c][1], second ? ", the first one extended by one record in a second session" : "");
    vfs_remove_file(PATH);
    sds_t a, b;
    memset(&a, 0, sizeof a);
    memset(&b, 0, sizeof b);
    a.nt = b.nt = NTS[nt];
    a.rank = b.rank = 2;
    a.dims[0] = CNT[c][0] + (second ? 1 : 0), a.dims[1] = 4;
    b.dims[0] = CNT[c][1], b.dims[1] = 3;
    fill_values(a.nt, nelem(2, a.dims), a.data, 3);
    fill_values(b.nt, nelem(2, b.dims), b.data, 8);
    int32 S = SDstart(PATH, DFACC_CREATE), st[2] = {0, 0};
    int32 da[2] = {SD_UNLIMITED, 4}, db[2] = {SD_UNLIMITED, 3}, ca[2] = {CNT[c][0], 4}, cb[2] = {CNT[c][1], 3};
    int32 ia = SDcreate(S, "rec_a", a.nt, 2, da), ib = SDcreate(S, "rec_b", b.nt, 2, db);
    int   rc = (ia == FAIL || ib == FAIL) ? -1 : 0;
    if (!rc && (SDwritedata(ia, st, NULL, ca, a.data) == FAIL || SDwritedata(ib, st, NULL, cb, b.data) == FAIL))
        rc = -1;
    SDendaccess(ia);
    SDendaccess(ib);
    if (SDend(S) == FAIL)
        rc = -1;
    if (!rc && second) {
        S  = SDstart(PATH, DFACC_RDWR);
        ia = SDselect(S, SDnametoindex(S, "rec_a"));
        int32 s2[2] = {CNT[c][0], 0}, c2[2] = {1, 4};
        if (SDwritedata(ia, s2, NULL, c2, a.data + (long)CNT[c][0] * 4 * ESZ(a.nt)) == FAIL)
            rc = -1;
        SDendaccess(ia);
        if (SDend(S) == FAIL)
            rc = -1;
    }
    if (rc) {
        mc_violation("recvar:sd-write-failed", "%s: SD refused a legal record variable", g_case);
        return;
    }
    snprintf(g_sigsuffix, sizeof g_sigsuffix, second ? "@record-variable-extended-in-a-later-session" : "@record-variable");
    sd_check(&a, 0, "writer's own view");
    sd_check(&b, 1, "writer's own view");
    dfsd_check(&a, 0, "other interface", 0);
    dfsd_check(&b, 1, "other interface", 0);
    mc_outcome(mc_hash(mc_hash_i(MC_H0, 600 + c * 2 + second), a.data, sizeof a.data));
    mc_count("recvar_cases", 1);
}

/* ================================================================== images: DFR8 / DF24 <-> GR */
/* canonical image: pix[y][x][c] */
static void
to_il(const uint8 *canon, uint8 *out, int xd, int yd, int nc, int il)
{
    for (int y = 0; y < yd; y++)
        for (int x = 0; x < xd; x++)
            for (int c = 0; c < nc; c++) {
                uint8 v = canon[(y * xd + x) * nc + c];
                if (il == 0)
                    out[(y * xd + x) * nc + c] = v;
                else if (il == 1)
                    out[(y * nc + c) * xd + x] = v;
                else
                    out[(c * yd + y) * xd + x] = v;
            }
}
static const int IMGDIMS[][2] = {{4, 3}, {1, 5}, {7, 1}, {6, 6}};

static void
gr_check_image(int index, const uint8 *canon, int xd, int yd, int nc, const uint8 *pal, const char *who)
{
    int32 f = Hopen(PATH, DFACC_READ, 0), G = f == FAIL ? FAIL : GRstart(f);
    if (G == FAIL) {
        DISAGREE("img:gr-cannot-open", "%s: GRstart fails", who);
        if (f != FAIL)
            Hclose(f);
        return;
    }
    int32 nimg = 0, na = 0;
    GRfileinfo(G, &nimg, &na);
    int32 ri = index < nimg ? GRselect(G, index) : FAIL;
    if (ri == FAIL)
        DISAGREE("img:gr-cannot-see-image", "%s: GR sees %d images, wanted image %d", who, (int)nimg, index);
    else {
        char  nm[H4_MAX_GR_NAME + 1];
        int32 gnc = 0, nt = 0, il = 0, dm[2] = {0, 0}, nat = 0, st[2] = {0, 0};
        GRgetiminfo(ri, nm, &gnc, &nt, &il, dm, &nat);
        if (gnc != nc || dm[0] != xd || dm[1] != yd || (nt != DFNT_UINT8 && nt != DFNT_UCHAR8))
            DISAGREE("img:gr-shape-or-type", "%s: GR sees %dx%d with %d components type %d; written %dx%d with %d components of uint8", who, (int)dm[0], (int)dm[1], (int)gnc, (int)nt,
                     xd, yd, nc);
        else
            for (int ril = 0; ril < (nc > 1 ? 3 : 1); ril++) {
                uint8 got[8 * 8 * 3 + 8], want[8 * 8 * 3 + 8];
                memset(got, 0xEE, sizeof got);
                GRreqimageil(ri, ril);
                to_il(canon, want, xd, yd, nc, ril);
                if (GRreadimage(ri, st, NULL, dm, got) == FAIL || memcmp(got, want, (size_t)(xd * yd * nc)))
                    DISAGREE(il ? "img:gr-pixels@image-stored-with-line-or-plane-interlace" : "img:gr-pixels", "%s: GRreadimage (requested interlace %d, stored interlace %d) differs from the pixels written", who, ril, (int)il);
            }
        if (pal) {
            uint8 gp[768];
            memset(gp, 0xEE, sizeof gp);
            int32 lut = GRgetlutid(ri, 0), pnc = 0, pnt = 0, pil = 0, pne = 0;
            if (lut == FAIL || GRgetlutinfo(lut, &pnc, &pnt, &pil, &pne) == FAIL || pnc != 3 || pne != 256 || GRreadlut(lut, gp) == FAIL || memcmp(gp, pal, 768))
                DISAGREE("img:gr-palette", "%s: GRreadlut differs from the palette written (ncomp %d entries %d)", who, (int)pnc, (int)pne);
        }
        GRendaccess(ri);
    }
    GRend(G);
    Hclose(f);
}

static void
case_img(long idx, void *ctx)
{
    (void)ctx;
    /* writer: 0 DFR8, 1 GR(1 comp), 2 DF24, 3 GR(3 comp);  dims(4) x compression/interlace variant(3) x palette(2) */
    int w = (int)(idx % 4), dm = (int)(idx / 4 % 4), var = (int)(idx / 16 % 3), withpal = (int)(idx / 48 % 2);
    int xd = IMGDIMS[dm][0], yd = IMGDIMS[dm][1], nc = (w >= 2) ? 3 : 1;
    if (nc == 3 && withpal)
        return;
    int cfg[5] = {1, w, dm, var, withpal};
    mc_set_config(cfg, 5, "family=img");
    uint8 canon[8 * 8 * 3], buf[8 * 8 * 3 + 8], pal[768];
    for (int i = 0; i < xd * yd * nc; i++)
        canon[i] = (uint8)((i * 37 + 11 + (i / 5) * 3) & 0xff);
    if (var == 1) /* runs, so that RLE really compresses */
        for (int i = 0; i < xd * yd * nc; i++)
            canon[i] = (uint8)(i / 5 + 1);
    for (int i = 0; i < 768; i++)
        pal[i] = (uint8)(255 - (i * 3) % 256);
    static const char *W[] = {"DFR8", "GR (1 component)", "DF24", "GR (3 components)"};
    setcase("%dx%d image written by %s, variant %d%s; a second image follows", xd, yd, W[w], var, withpal ? ", with palette" : "");
    vfs_remove_file(PATH);
    /* second image: different size */
    int   x2 = yd + 1, y2 = xd;
    uint8 canon2[8 * 8 * 3];
    for (int i = 0; i < x2 * y2 * nc; i++)
        canon2[i] = (uint8)(200 - i);
    int32 rc = 0;
    if (w == 0) {
        DFR8restart();
        if (withpal)
            DFR8setpalette(pal);
        rc = DFR8putimage(PATH, canon, xd, yd, var == 1 ? COMP_RLE : 0);
        if (rc != FAIL)
            rc = DFR8addimage(PATH, canon2, x2, y2, 0);
    }
    else if (w == 2) {
        DF24restart();
        DF24setil(var);
        to_il(canon, buf, xd, yd, 3, var);
        rc = DF24putimage(PATH, buf, xd, yd);
        if (rc != FAIL) {
            uint8 b2[8 * 8 * 3];
            to_il(canon2, b2, x2, y2, 3, var);
            rc = DF24addimage(PATH, b2, x2, y2);
        }
    }
    else {
        int32 f = Hopen(PATH, DFACC_CREATE, 0), G = GRstart(f), d1[2] = {xd, yd}, d2[2] = {x2, y2}, st[2] = {0, 0};
        int   il = nc == 3 ? var : 0;
        int32 ri = GRcreate(G, "one", nc, DFNT_UINT8, il, d1);
        comp_info ci;
        memset(&ci, 0, sizeof ci);
        ci.deflate.level = 5;
        if (nc == 1 && var == 1)
            GRsetcompress(ri, COMP_CODE_RLE, &ci);
        if (nc == 1 && var == 2)
            GRsetcompress(ri, COMP_CODE_DEFLATE, &ci);
        to_il(canon, buf, xd, yd, nc, il);
        /* GRwriteimage takes data in the interlace of the image */
        rc = GRwriteimage(ri, st, NULL, d1, buf);
        if (withpal && rc != FAIL)
            rc = GRwritelut(GRgetlutid(ri, 0), 3, DFNT_UINT8, 0, 256, pal);
        GRendaccess(ri);
        ri = GRcreate(G, "two", nc, DFNT_UINT8, il, d2);
        uint8 b2[8 * 8 * 3];
        to_il(canon2, b2, x2, y2, nc, il);
        if (rc != FAIL)
            rc = GRwriteimage(ri, st, NULL, d2, b2);
        GRendaccess(ri);
        if (GRend(G) == FAIL || Hclose(f) == FAIL)
            rc = FAIL;
    }
    if (rc == FAIL) {
        mc_violation("img:write-failed", "%s: the writing interface refused a legal image", g_case);
        return;
    }
    /* new interface */
    gr_check_image(0, canon, xd, yd, nc, withpal ? pal : NULL, w == 1 || w == 3 ? "writer's own view" : "other interface");
    gr_check_image(1, canon2, x2, y2, nc, NULL, w == 1 || w == 3 ? "writer's own view" : "other interface");
    /* old interface */
    const char *who = (w == 0 || w == 2) ? "writer's own view" : "other interface";
    if (nc == 1) {
        DFR8restart();
        int32 gx = 0, gy = 0;
        int   ispal = -1;
        uint8 gp[768];
        memset(buf, 0xEE, sizeof buf);
        memset(gp, 0xEE, sizeof gp);
        if (DFR8getdims(PATH, &gx, &gy, &ispal) == FAIL || gx != xd || gy != yd)
            DISAGREE("img:dfr8-shape", "%s: DFR8getdims reports %dx%d for the first image, written %dx%d", who, (int)gx, (int)gy, xd, yd);
        else if (DFR8getimage(PATH, buf, xd, yd, gp) == FAIL || memcmp(buf, canon, (size_t)(xd * yd)))
            DISAGREE("img:dfr8-pixels", "%s: DFR8getimage differs from the pixels written", who);
        else if (withpal && (!ispal || memcmp(gp, pal, 768)))
            DISAGREE("img:dfr8-palette", "%s: DFR8getimage returns %s", who, ispal ? "another palette than written" : "no palette");
        uint8 b2[8 * 8 + 8];
        if (DFR8getdims(PATH, &gx, &gy, &ispal) == FAIL || gx != x2 || gy != y2)
            DISAGREE("img:dfr8-shape", "%s: DFR8getdims reports %dx%d for the second image, written %dx%d", who, (int)gx, (int)gy, x2, y2);
        else if (DFR8getimage(PATH, b2, x2, y2, NULL) == FAIL || memcmp(b2, canon2, (size_t)(x2 * y2)))
            DISAGREE("img:dfr8-pixels", "%s: DFR8getimage (second image) differs from the pixels written", who);
        if (withpal) {
            uint8 pp[768];
            DFPrestart();
            if (DFPgetpal(PATH, pp) == FAIL || memcmp(pp, pal, 768))
                DISAGREE("img:dfp-palette", "%s: DFPgetpal differs from the palette written with the image", who);
        }
    }
    else {
        DF24restart();
        for (int ril = 0; ril < 3; ril++) {
            int32 gx = 0, gy = 0;
            int   gil = -1;
            uint8 want[8 * 8 * 3];
            DF24restart();
            memset(buf, 0xEE, sizeof buf);
            if (DF24getdims(PATH, &gx, &gy, &gil) == FAIL || gx != xd || gy != yd) {
                DISAGREE("img:df24-shape", "%s: DF24getdims reports %dx%d, written %dx%d", who, (int)gx, (int)gy, xd, yd);
                break;
            }
            DF24reqil(ril);
            to_il(canon, want, xd, yd, 3, ril);
            if (DF24getimage(PATH, buf, xd, yd) == FAIL || memcmp(buf, want, (size_t)(xd * yd * 3)))
                DISAGREE("img:df24-pixels", "%s: DF24getimage (requested interlace %d, stored %d) differs from the pixels written", who, ril, gil);
        }
    }
    mc_outcome(mc_hash(mc_hash_i(MC_H0, 100 + w * 10 + var), canon, (size_t)(xd * yd * nc)));
    if (idx % 23 == 0)
        mc_sample("%s", g_case);
    mc_count("image_cases", 1);
}

/* 8-bit images written through GR next to an image that is not 8-bit (so that reference numbers of raster groups and of
   image data drift apart), optionally followed by a second GR session that changes the metadata of one 8-bit image:
   DFR8 sees exactly the 8-bit images, each once, with the pixels written */
static void
case_mixedimg(long idx, void *ctx)
{
    (void)ctx;
    int lead = (int)(idx % 2), step = (int)(idx / 2 % 4);
    int cfg[3] = {8, lead, step};
    mc_set_config(cfg, 3, "family=mixedimg");
    static const char *SN[] = {"", "; second session: attribute on the first 8-bit image", "; second session: attribute on the second 8-bit image",
                               "; second session: palette for the first 8-bit image"};
    setcase("GR writes %stwo 8-bit images%s, read through DFR8", lead ? "a 16-bit image and then " : "", SN[step]);
    vfs_remove_file(PATH);
    uint8  p1[12], p2[6], pal[768], buf[16];
    uint16 wide[4] = {1000, 2000, 3000, 4000};
    for (int i = 0; i < 12; i++)
        p1[i] = (uint8)(10 + i * 3);
    for (int i = 0; i < 6; i++)
        p2[i] = (uint8)(200 - i * 7);
    for (int i = 0; i < 768; i++)
        pal[i] = (uint8)(i * 5 + 1);
    int32 f = Hopen(PATH, DFACC_CREATE, 0), G = GRstart(f), st[2] = {0, 0}, rc = 0;
    int32 dw[2] = {2, 2}, d1[2] = {4, 3}, d2[2] = {3, 2};
    if (lead) {
        int32 ri = GRcreate(G, "wide", 1, DFNT_UINT16, 0, dw);
        if (GRwriteimage(ri, st, NULL, dw, wide) == FAIL)
            rc = FAIL;
        GRendaccess(ri);
    }
    int32 ri = GRcreate(G, "one", 1, DFNT_UINT8, 0, d1);
    if (GRwriteimage(ri, st, NULL, d1, p1) == FAIL)
        rc = FAIL;
    GRendaccess(ri);
    ri = GRcreate(G, "two", 1, DFNT_UINT8, 0, d2);
    if (GRwriteimage(ri, st, NULL, d2, p2) == FAIL)
        rc = FAIL;
    GRendaccess(ri);
    if (GRend(G) == FAIL || Hclose(f) == FAIL || rc == FAIL) {
        mc_violation("mixedimg:write-failed", "%s: GR refused legal images", g_case);
        return;
    }
    if (step) {
        f  = Hopen(PATH, DFACC_RDWR, 0);
        G  = GRstart(f);
        ri = GRselect(G, GRnametoindex(G, step == 2 ? "two" : "one"));
        int32 av = 7;
        if (step == 3)
            rc = GRwritelut(GRgetlutid(ri, 0), 3, DFNT_UINT8, 0, 256, pal);
        else
            rc = GRsetattr(ri, "note", DFNT_INT32, 1, &av);
        GRendaccess(ri);
        if (GRend(G) == FAIL || Hclose(f) == FAIL || rc == FAIL) {
            mc_violation("mixedimg:second-session-failed", "%s: the second GR session failed", g_case);
            return;
        }
    }
    /* GR's own view */
    gr_check_image(lead + 0, p1, 4, 3, 1, step == 3 ? pal : NULL, "writer's own view");
    gr_check_image(lead + 1, p2, 3, 2, 1, NULL, "writer's own view");
    /* DFR8 */
    int n = DFR8nimages(PATH);
    if (n != 2)
        DISAGREE("mixedimg:dfr8-count", "DFR8nimages reports %d images, the file holds 2 8-bit images", n);
    DFR8restart();
    const uint8 *want[2] = {p1, p2};
    const int    wx[2] = {4, 3}, wy[2] = {3, 2};
    for (int k = 0; k < 2; k++) {
        int32 gx = 0, gy = 0;
        int   ispal = -1;
        memset(buf, 0xEE, sizeof buf);
        if (DFR8getdims(PATH, &gx, &gy, &ispal) == FAIL) {
            DISAGREE("mixedimg:dfr8-sequence", "DFR8getdims fails for 8-bit image #%d of 2", k + 1);
            break;
        }
        if (gx != wx[k] || gy != wy[k]) {
            DISAGREE("mixedimg:dfr8-shape", "DFR8getdims reports %dx%d for 8-bit image #%d, written %dx%d", (int)gx, (int)gy, k + 1, wx[k], wy[k]);
            break;
        }
        if (DFR8getimage(PATH, buf, wx[k], wy[k], NULL) == FAIL || memcmp(buf, want[k], (size_t)(wx[k] * wy[k])))
            DISAGREE("mixedimg:dfr8-pixels", "DFR8getimage of 8-bit image #%d differs from the pixels written", k + 1);
    }
    mc_outcome(mc_hash_i(mc_hash_i(MC_H0, 800 + lead), step));
    mc_count("mixedimg_cases", 1);
}

/* several palettes in one file: written through GR (one per image) or through DFP, read sequentially through DFP and through GR */
static void
case_palettes(long idx, void *ctx)
{
    (void)ctx;
    int w = (int)(idx % 2), n = 1 + (int)(idx / 2 % 4);
    int cfg[3] = {7, w, n};
    mc_set_config(cfg, 3, "family=palettes");
    setcase("%d palettes written by %s, read one after another by DFPgetpal%s", n, w ? "DFP" : "GR (one per 8-bit image)", w ? "" : " and by GRreadlut");
    vfs_remove_file(PATH);
    uint8 pal[4][768];
    for (int k = 0; k < n; k++)
        for (int i = 0; i < 768; i++)
            pal[k][i] = (uint8)((i * (k + 3) + 17 * k) & 0xff);
    int32 rc = 0;
    if (w == 0) {
        int32 f = Hopen(PATH, DFACC_CREATE, 0), G = GRstart(f), d[2] = {3, 2}, st[2] = {0, 0};
        uint8 px[6] = {1, 2, 3, 4, 5, 6};
        for (int k = 0; k < n && rc != FAIL; k++) {
            char nm[16];
            snprintf(nm, sizeof nm, "img%d", k);
            int32 ri = GRcreate(G, nm, 1, DFNT_UINT8, 0, d);
            px[0]    = (uint8)(10 + k);
            rc       = GRwriteimage(ri, st, NULL, d, px);
            if (rc != FAIL)
                rc = GRwritelut(GRgetlutid(ri, 0), 3, DFNT_UINT8, 0, 256, pal[k]);
            GRendaccess(ri);
        }
        if (GRend(G) == FAIL || Hclose(f) == FAIL)
            rc = FAIL;
    }
    else
        for (int k = 0; k < n && rc != FAIL; k++)
            rc = k == 0 ? DFPputpal(PATH, pal[k], 0, "w") : DFPaddpal(PATH, pal[k]);
    if (rc == FAIL) {
        mc_violation("pal:write-failed", "%s: the writing interface refused a legal palette", g_case);
        return;
    }
    DFPrestart();
    int np = DFPnpals(PATH);
    if (np != n)
        DISAGREE("pal:dfp-count", "DFPnpals reports %d palettes, %d were written", np, n);
    DFPrestart();
    for (int k = 0; k < n; k++) {
        uint8 got[768];
        memset(got, 0xEE, sizeof got);
        if (DFPgetpal(PATH, got) == FAIL) {
            DISAGREE("pal:dfp-sequence", "DFPgetpal #%d fails although %d palettes were written", k, n);
            break;
        }
        int which = -1;
        for (int j = 0; j < n; j++)
            if (!memcmp(got, pal[j], 768))
                which = j;
        if (which != k)
            DISAGREE("pal:dfp-sequence", "DFPgetpal #%d returns %s", k, which < 0 ? "a palette that was never written" : "a palette that was already returned / out of order");
    }
    if (w == 0) {
        int32 f = Hopen(PATH, DFACC_READ, 0), G = GRstart(f);
        for (int k = 0; k < n; k++) {
            int32 ri = GRselect(G, k);
            uint8 got[768];
            memset(got, 0xEE, sizeof got);
            if (ri == FAIL || GRreadlut(GRgetlutid(ri, 0), got) == FAIL || memcmp(got, pal[k], 768))
                DISAGREE("pal:gr-lut", "GRreadlut of image %d differs from the palette written", k);
            if (ri != FAIL)
                GRendaccess(ri);
        }
        GRend(G);
        Hclose(f);
    }
    mc_outcome(mc_hash(mc_hash_i(MC_H0, 700 + w * 10 + n), pal[n - 1], 768));
    mc_count("palette_cases", 1);
}

/* ================================================================== annotations: DFAN <-> AN */
static void
case_ann(long idx, void *ctx)
{
    (void)ctx;
    int w = (int)(idx % 2), kind = (int)(idx / 2 % 4), len = (int)(idx / 8 % 3);
    int cfg[4] = {2, w, kind, len};
    mc_set_config(cfg, 4, "family=ann");
    static const char *K[] = {"data label", "data description", "file label", "file description"};
    static const int   LEN[] = {1, 17, 300};
    char               text[400], text2[400];
    for (int i = 0; i < LEN[len]; i++)
        text[i] = (char)('a' + (i * 7) % 26), text2[i] = (char)('A' + (i * 3) % 26);
    text[LEN[len]] = text2[LEN[len]] = 0;
    text2[0] = 'Z';
    setcase("%s of %d characters written by %s, plus one on a second object", K[kind], LEN[len], w ? "AN" : "DFAN");
    vfs_remove_file(PATH);
    int32 f = Hopen(PATH, DFACC_CREATE, 0);
    uint8 d[4] = {1, 2, 3, 4};
    Hputelement(f, 1000, 1, d, 4);
    Hputelement(f, 1000, 2, d, 4);
    int32 rc = 0;
    if (w == 0) {
        if (kind >= 2) {
            rc = kind == 2 ? DFANaddfid(f, text) : DFANaddfds(f, text, (int32)strlen(text));
            if (rc != FAIL)
                rc = kind == 2 ? DFANaddfid(f, text2) : DFANaddfds(f, text2, (int32)strlen(text2));
            Hclose(f);
        }
        else {
            Hclose(f);
            rc = kind == 0 ? DFANputlabel(PATH, 1000, 1, text) : DFANputdesc(PATH, 1000, 1, text, (int32)strlen(text));
            if (rc != FAIL)
                rc = kind == 0 ? DFANputlabel(PATH, 1000, 2, text2) : DFANputdesc(PATH, 1000, 2, text2, (int32)strlen(text2));
        }
    }
    else {
        static const ann_type T[] = {AN_DATA_LABEL, AN_DATA_DESC, AN_FILE_LABEL, AN_FILE_DESC};
        int32 A = ANstart(f);
        for (int k = 0; k < 2 && rc != FAIL; k++) {
            int32 a = kind >= 2 ? ANcreatef(A, T[kind]) : ANcreate(A, 1000, (uint16)(1 + k), T[kind]);
            rc      = a == FAIL ? FAIL : ANwriteann(a, k ? text2 : text, (int32)strlen(text));
            if (a != FAIL)
                ANendaccess(a);
        }
        ANend(A);
        Hclose(f);
    }
    if (rc == FAIL) {
        mc_violation("ann:write-failed", "%s: the writing interface refused a legal annotation", g_case);
        return;
    }
    /* AN view */
    {
        static const ann_type T[] = {AN_DATA_LABEL, AN_DATA_DESC, AN_FILE_LABEL, AN_FILE_DESC};
        const char *who = w ? "writer's own view" : "other interface";
        f               = Hopen(PATH, DFACC_READ, 0);
        int32 A = ANstart(f), n[4] = {0, 0, 0, 0};
        ANfileinfo(A, &n[2], &n[3], &n[0], &n[1]);
        if (n[kind] != 2)
            DISAGREE("ann:an-count", "%s: ANfileinfo counts %d annotations of this kind, 2 were written", who, (int)n[kind]);
        /* the index order of file annotations is not part of the interface: both texts must be there, each once */
        int seen[2] = {0, 0};
        for (int k = 0; k < 2; k++) {
            int32 a = FAIL;
            if (kind >= 2)
                a = ANselect(A, k, T[kind]);
            else {
                int32 ids[4];
                if (ANnumann(A, T[kind], 1000, (uint16)(1 + k)) == 1 && ANannlist(A, T[kind], 1000, (uint16)(1 + k), ids) == 1)
                    a = ids[0];
            }
            char got[400];
            memset(got, 0, sizeof got);
            if (a == FAIL || ANreadann(a, got, (int32)sizeof got - 1) == FAIL) {
                DISAGREE("ann:an-text", "%s: AN returns nothing for annotation %d", who, k);
                continue;
            }
            int m = !strcmp(got, text) ? 0 : !strcmp(got, text2) ? 1 : -1;
            if (m < 0 || ANannlen(a) != (int32)strlen(m ? text2 : text) || (kind < 2 && m != k))
                DISAGREE("ann:an-text", "%s: AN returns another text/length for annotation %d", who, k);
            else
                seen[m]++;
        }
        if (seen[0] > 1 || seen[1] > 1)
            DISAGREE("ann:an-text", "%s: AN returns the same annotation twice", who);
        ANend(A);
        Hclose(f);
    }
    /* DFAN view */
    {
        const char *who = w ? "other interface" : "writer's own view";
        char        got[400];
        if (kind == 0) {
            /* the list view: one slot of maxlen bytes per object, each label cut to maxlen-1 characters and terminated inside
               its own slot (exactly-sized heap buffer) */
            static const int ML[3] = {310, 16, 2};
            for (int q = 0; q < 3; q++) {
                int    maxlen = ML[q];
                uint16 refs[2] = {0, 0};
                char  *lst = malloc((size_t)2 * maxlen);
                memset(lst, 0x7E, (size_t)2 * maxlen);
                int n = DFANlablist(PATH, 1000, refs, lst, 2, maxlen, 1);
                if (n != 2)
                    DISAGREE("ann:dfan-lablist-count", "%s: DFANlablist(maxlen %d) lists %d objects of tag 1000, 2 exist", who, maxlen, n);
                else
                    for (int i = 0; i < 2; i++) {
                        const char *want = refs[i] == 1 ? text : refs[i] == 2 ? text2 : NULL;
                        size_t      wl   = want ? strlen(want) : 0;
                        if (wl > (size_t)maxlen - 1)
                            wl = (size_t)maxlen - 1;
                        const char *slot = lst + (size_t)i * maxlen;
                        if (!want || memchr(slot, 0, (size_t)maxlen) == NULL || strlen(slot) != wl || strncmp(slot, want, wl)) {
                            DISAGREE("ann:dfan-lablist-text", "%s: DFANlablist(maxlen %d): slot %d (object 1000/%u) does not hold the first %d characters of its label, terminated inside the slot",
                                     who, maxlen, i, refs[i], (int)wl);
                            break;
                        }
                    }
                free(lst);
            }
        }
        if (kind < 2)
            for (int k = 0; k < 2; k++) {
                const char *want = k ? text2 : text;
                memset(got, 0, sizeof got);
                int32 l  = kind == 0 ? DFANgetlablen(PATH, 1000, (uint16)(1 + k)) : DFANgetdesclen(PATH, 1000, (uint16)(1 + k));
                int32 r2 = kind == 0 ? DFANgetlabel(PATH, 1000, (uint16)(1 + k), got, (int32)sizeof got) : DFANgetdesc(PATH, 1000, (uint16)(1 + k), got, (int32)sizeof got);
                if (l != (int32)strlen(want) || r2 == FAIL || strncmp(got, want, strlen(want)))
                    DISAGREE("ann:dfan-text", "%s: DFAN returns length %d and %s for annotation %d", who, (int)l, r2 == FAIL ? "failure" : "another text", k);
            }
        else {
            f = Hopen(PATH, DFACC_READ, 0);
            for (int k = 0; k < 2; k++) {
                const char *want = k ? text2 : text;
                memset(got, 0, sizeof got);
                int32 l  = kind == 2 ? DFANgetfidlen(f, k == 0) : DFANgetfdslen(f, k == 0);
                int32 r2 = kind == 2 ? DFANgetfid(f, got, (int32)sizeof got, k == 0) : DFANgetfds(f, got, (int32)sizeof got, k == 0);
                if (l != (int32)strlen(want) || r2 == FAIL || strncmp(got, want, strlen(want)))
                    DISAGREE("ann:dfan-text", "%s: DFAN returns length %d and %s for file annotation %d", who, (int)l, r2 == FAIL ? "failure" : "another text", k);
            }
            Hclose(f);
        }
    }
    mc_outcome(mc_hash(mc_hash_i(MC_H0, 200 + kind), text, strlen(text)));
    if (idx % 7 == 0)
        mc_sample("%s", g_case);
    mc_count("annotation_cases", 1);
}

/* ================================================================== netCDF-style calls <-> SD on the same file */
static void
case_nc(long idx, void *ctx)
{
    (void)ctx;
    int w = (int)(idx % 2), t = (int)(idx / 2 % 5), rec = (int)(idx / 10 % 2), rank = 1 + (int)(idx / 20 % 2);
    int cfg[5] = {3, w, t, rec, rank};
    mc_set_config(cfg, 5, "family=nc");
    static const nc_type NCT[] = {NC_BYTE, NC_SHORT, NC_LONG, NC_FLOAT, NC_DOUBLE};
    static const int32   HT[]  = {DFNT_INT8, DFNT_INT16, DFNT_INT32, DFNT_FLOAT32, DFNT_FLOAT64};
    setcase("rank-%d %s variable of type %d written by %s calls", rank, rec ? "record" : "fixed-size", (int)HT[t], w ? "SD" : "netCDF-style");
    vfs_remove_file(PATH);
    long  d0 = 3, d1 = 4;
    long  n = rank == 1 ? d0 : d0 * d1;
    uint8 data[12 * 8], got[12 * 8 + 8];
    fill_values(HT[t], n, data, 4);
    int32 av[2] = {11, -12};
    ncopts     = 0;
    if (w == 0) {
        int id = nccreate(PATH, NC_CLOBBER);
        if (id < 0) {
            mc_violation("nc:create-failed", "%s: nccreate fails", g_case);
            return;
        }
        int dims[2];
        dims[0] = ncdimdef(id, "time", rec ? NC_UNLIMITED : d0);
        dims[1] = ncdimdef(id, "x", d1);
        int v   = ncvardef(id, "var", NCT[t], rank, dims);
        ncattput(id, v, "att", NC_LONG, 2, av);
        ncattput(id, NC_GLOBAL, "gatt", NC_CHAR, 5, "hello");
        int32 one = 1;
        ncattput(id, v, "att2", NC_LONG, 1, &one);
        ncattput(id, NC_GLOBAL, "gatt2", NC_CHAR, 4, "abcd");
        ncendef(id);
        long st[2] = {0, 0}, cn[2] = {d0, d1};
        int  rc    = ncvarput(id, v, st, cn, data);
        /* in data mode an attribute may be given a new value of another type as long as it does not grow */
        float   f25   = 2.5f;
        int16   s2[2] = {11, 12};
        if (ncattput(id, v, "att2", NC_FLOAT, 1, &f25) < 0 || ncattput(id, NC_GLOBAL, "gatt2", NC_SHORT, 2, s2) < 0)
            rc = -1;
        if (ncclose(id) < 0 || rc < 0 || v < 0) {
            mc_violation("nc:write-failed", "%s: the netCDF-style calls refused a legal variable", g_case);
            return;
        }
    }
    else {
        int32 S = SDstart(PATH, DFACC_CREATE), dm[2] = {rec ? SD_UNLIMITED : (int32)d0, (int32)d1}, st[2] = {0, 0}, cn[2] = {(int32)d0, (int32)d1};
        int32 s = SDcreate(S, "var", HT[t], rank, dm);
        SDsetdimname(SDgetdimid(s, 0), "time");
        if (rank == 2)
            SDsetdimname(SDgetdimid(s, 1), "x");
        int32 rc = SDwritedata(s, st, NULL, cn, data);
        SDsetattr(s, "att", DFNT_INT32, 2, av);
        SDsetattr(S, "gatt", DFNT_CHAR8, 5, "hello");
        float32 f25   = 2.5f;
        int16   s2[2] = {11, 12};
        SDsetattr(s, "att2", DFNT_FLOAT32, 1, &f25);
        SDsetattr(S, "gatt2", DFNT_INT16, 2, s2);
        SDendaccess(s);
        if (SDend(S) == FAIL || rc == FAIL) {
            mc_violation("nc:write-failed", "%s: SD refused a legal variable", g_case);
            return;
        }
    }
    /* SD view */
    {
        const char *who = w ? "writer's own view" : "other interface";
        int32       S = SDstart(PATH, DFACC_READ), s = S == FAIL ? FAIL : SDselect(S, SDnametoindex(S, "var"));
        if (s == FAIL)
            DISAGREE("nc:sd-cannot-see-variable", "%s: SD does not find the variable", who);
        else {
            char  nm[H4_MAX_NC_NAME + 1];
            int32 rk = 0, dm[H4_MAX_VAR_DIMS] = {0}, nt = 0, na = 0, st[2] = {0, 0}, cn[2] = {(int32)d0, (int32)d1};
            SDgetinfo(s, nm, &rk, dm, &nt, &na);
            if (rk != rank || nt != HT[t] || dm[0] != d0 || (rank == 2 && dm[1] != d1) || (SDisrecord(s) != 0) != (rec != 0))
                DISAGREE("nc:sd-shape-or-type", "%s: SD sees rank %d dims %d,%d type %d record=%d", who, (int)rk, (int)dm[0], (int)dm[1], (int)nt, (int)SDisrecord(s));
            else {
                memset(got, 0xEE, sizeof got);
                if (SDreaddata(s, st, NULL, cn, got) == FAIL || memcmp(got, data, (size_t)(n * DFKNTsize(HT[t] | DFNT_NATIVE))))
                    DISAGREE("nc:sd-data", "%s: SDreaddata differs from the values written", who);
                int32 ai = SDfindattr(s, "att"), ant = 0, acn = 0, gv[2] = {0, 0};
                char  an[H4_MAX_NC_NAME + 1];
                if (ai == FAIL || SDattrinfo(s, ai, an, &ant, &acn) == FAIL || ant != DFNT_INT32 || acn != 2 || SDreadattr(s, ai, gv) == FAIL || gv[0] != av[0] || gv[1] != av[1])
                    DISAGREE("nc:sd-attribute", "%s: SD sees attribute type %d count %d values %d,%d", who, (int)ant, (int)acn, (int)gv[0], (int)gv[1]);
                {
                    /* the attributes that were given a value of another type after the definitions were complete */
                    int32   a2 = SDfindattr(s, "att2"), g2 = SDfindattr(S, "gatt2"), t2 = 0, c2 = 0;
                    float32 fgot = 0;
                    int16   sgot[2] = {0, 0};
                    if (a2 == FAIL || SDattrinfo(s, a2, an, &t2, &c2) == FAIL || t2 != DFNT_FLOAT32 || c2 != 1 || SDreadattr(s, a2, &fgot) == FAIL || fgot != 2.5f)
                        DISAGREE("nc:sd-attribute-retyped", "%s: SD sees the re-put variable attribute as type %d count %d value %g (float32 x1 2.5 was put)", who, (int)t2, (int)c2, (double)fgot);
                    t2 = c2 = 0;
                    if (g2 == FAIL || SDattrinfo(S, g2, an, &t2, &c2) == FAIL || t2 != DFNT_INT16 || c2 != 2 || SDreadattr(S, g2, sgot) == FAIL || sgot[0] != 11 || sgot[1] != 12)
                        DISAGREE("nc:sd-attribute-retyped", "%s: SD sees the re-put global attribute as type %d count %d values %d,%d (int16 x2 11,12 was put)", who, (int)t2, (int)c2, sgot[0],
                                 sgot[1]);
                }
                char gs[16] = "";
                ai          = SDfindattr(S, "gatt");
                if (ai == FAIL || SDreadattr(S, ai, gs) == FAIL || strncmp(gs, "hello", 5))
                    DISAGREE("nc:sd-global-attribute", "%s: SD global attribute reads '%s'", who, gs);
            }
            SDendaccess(s);
        }
        if (S != FAIL)
            SDend(S);
    }
    /* netCDF-style view */
    {
        const char *who = w ? "other interface" : "writer's own view";
        int         id  = ncopen(PATH, NC_NOWRITE);
        int         v   = id < 0 ? -1 : ncvarid(id, "var");
        if (v < 0)
            DISAGREE("nc:nc-cannot-see-variable", "%s: ncvarid does not find the variable", who);
        else {
            char    nm[H4_MAX_NC_NAME + 1];
            nc_type ty = 0;
            int     nd = 0, dims[H4_MAX_VAR_DIMS], na = 0;
            long    l0 = 0, l1 = 0, st[2] = {0, 0}, cn[2] = {d0, d1};
            ncvarinq(id, v, nm, &ty, &nd, dims, &na);
            ncdiminq(id, dims[0], nm, &l0);
            if (nd == 2)
                ncdiminq(id, dims[1], nm, &l1);
            if (nd != rank || ty != NCT[t] || l0 != d0 || (rank == 2 && l1 != d1))
                DISAGREE("nc:nc-shape-or-type", "%s: ncvarinq/ncdiminq see rank %d dims %ld,%ld type %d", who, nd, l0, l1, (int)ty);
            else {
                memset(got, 0xEE, sizeof got);
                if (ncvarget(id, v, st, cn, got) < 0 || memcmp(got, data, (size_t)(n * DFKNTsize(HT[t] | DFNT_NATIVE))))
                    DISAGREE("nc:nc-data", "%s: ncvarget differs from the values written", who);
            }
        }
        if (id >= 0)
            ncclose(id);
    }
    mc_outcome(mc_hash(mc_hash_i(MC_H0, 300 + w), data, (size_t)n));
    if (idx % 11 == 0)
        mc_sample("%s", g_case);
    mc_count("nc_cases", 1);
}

/* ================================================================== SD / GR objects seen through Vgroup/Vdata calls */
static void
case_vview(long idx, void *ctx)
{
    (void)ctx;
    int t = (int)(idx % 4), cnt = 1 + (int)(idx / 4 % 3);
    int cfg[3] = {4, t, cnt};
    mc_set_config(cfg, 3, "family=vview");
    static const int32 AT[] = {DFNT_INT32, DFNT_FLOAT64, DFNT_CHAR8, DFNT_INT16};
    setcase("SD data set + attribute of type %d x %d and GR image + attribute, looked at through Vgroup/Vdata calls", (int)AT[t], cnt);
    vfs_remove_file(PATH);
    uint8 aval[3 * 8];
    fill_values(AT[t] == DFNT_CHAR8 ? DFNT_INT8 : AT[t], cnt, aval, 9);
    if (AT[t] == DFNT_CHAR8)
        for (int i = 0; i < cnt; i++)
            aval[i] = (uint8)('p' + i);
    int32 S = SDstart(PATH, DFACC_CREATE), dm[2] = {2, 3}, st[2] = {0, 0};
    int16 v[6] = {1, 2, 3, 4, 5, 6};
    int32 s = SDcreate(S, "dataset_one", DFNT_INT16, 2, dm);
    SDwritedata(s, st, NULL, dm, v);
    SDsetattr(s, "my_attr", AT[t], cnt, aval);
    SDsetdimname(SDgetdimid(s, 0), "rows");
    int32 sref = SDidtoref(s);
    SDendaccess(s);
    SDend(S);
    int32 f = Hopen(PATH, DFACC_RDWR, 0), G = GRstart(f), gd[2] = {3, 2};
    int32 ri = GRcreate(G, "image_one", 1, DFNT_UINT8, 0, gd);
    uint8 px[6] = {9, 8, 7, 6, 5, 4};
    GRwriteimage(ri, st, NULL, gd, px);
    GRsetattr(ri, "img_attr", AT[t], cnt, aval);
    uint16 rref = GRidtoref(ri);
    GRendaccess(ri);
    GRend(G);
    Vstart(f);
    /* SD data set = Vgroup named like it, class Var0.0, found by the reference SDidtoref gave */
    (void)sref;
    int32 vgref = Vfind(f, "dataset_one");
    int32 vg    = vgref > 0 ? Vattach(f, vgref, "r") : FAIL;
    char  nm[256] = "", cl[256] = "";
    if (vg == FAIL || Vgetname(vg, nm) == FAIL || Vgetclass(vg, cl) == FAIL || strcmp(nm, "dataset_one") || strcmp(cl, "Var0.0"))
        DISAGREE("vview:sds-vgroup", "no Vgroup named like the data set with class Var0.0 (found name '%s' class '%s')", nm, cl);
    else {
        /* its attribute is a Vdata named like the attribute, class Attr0.0, one field VALUES */
        int   found = 0, n = Vntagrefs(vg);
        int32 datatag = 0, dataref = 0;
        for (int i = 0; i < n; i++) {
            int32 tg, rf;
            Vgettagref(vg, i, &tg, &rf);
            if (tg == DFTAG_SD)
                datatag = tg, dataref = rf;
            if (tg != DFTAG_VH)
                continue;
            int32 vs = VSattach(f, rf, "r");
            char  vn[VSNAMELENMAX + 1] = "", vc[VSNAMELENMAX + 1] = "";
            VSgetname(vs, vn);
            VSgetclass(vs, vc);
            if (!strcmp(vn, "my_attr") && !strcmp(vc, "Attr0.0")) {
                found = 1;
                uint8 got[64];
                int32 nrec = 0, il, sz;
                char  fl[256];
                VSinquire(vs, &nrec, &il, fl, &sz, vn);
                VSsetfields(vs, fl);
                int32 ord = VFfieldorder(vs, 0), ft = VFfieldtype(vs, 0);
                memset(got, 0xEE, sizeof got);
                VSread(vs, got, nrec, FULL_INTERLACE);
                long total = (long)nrec * ord;
                if (ft != AT[t] || total != cnt || memcmp(got, aval, (size_t)(cnt * DFKNTsize(AT[t] | DFNT_NATIVE))))
                    DISAGREE("vview:sds-attribute", "attribute Vdata has type %d, %d x %d values; SDsetattr wrote type %d x %d (or values differ)", (int)ft, (int)nrec, (int)ord, (int)AT[t], cnt);
            }
            VSdetach(vs);
        }
        if (!found)
            DISAGREE("vview:sds-attribute-missing", "no Vdata named like the attribute (class Attr0.0) in the data set's Vgroup");
        int16 raw[6];
        if (!datatag || Hgetelement(f, (uint16)datatag, (uint16)dataref, (uint8 *)raw) != 12)
            DISAGREE("vview:sds-data-element", "the data element listed in the data set's Vgroup does not hold 12 bytes");
        else
            for (int i = 0; i < 6; i++)
                if ((int16)((((uint8 *)raw)[2 * i] << 8) | ((uint8 *)raw)[2 * i + 1]) != v[i]) {
                    DISAGREE("vview:sds-data", "raw data element value %d differs from what SDwritedata stored", i);
                    break;
                }
    }
    if (vg != FAIL)
        Vdetach(vg);
    vg = Vattach(f, rref, "r");
    nm[0] = cl[0] = 0;
    if (vg == FAIL || Vgetname(vg, nm) == FAIL || Vgetclass(vg, cl) == FAIL || strcmp(nm, "image_one") || strcmp(cl, "RI0.0"))
        DISAGREE("vview:image-vgroup", "Vgroup with the reference from GRidtoref has name '%s' class '%s'", nm, cl);
    else {
        int n = Vntagrefs(vg), okdata = 0;
        for (int i = 0; i < n; i++) {
            int32 tg, rf;
            uint8 got[8];
            Vgettagref(vg, i, &tg, &rf);
            if (tg == DFTAG_RI && Hgetelement(f, DFTAG_RI, (uint16)rf, got) == 6 && !memcmp(got, px, 6))
                okdata = 1;
        }
        if (!okdata)
            DISAGREE("vview:image-data", "no RI element with the pixels written is listed in the image's Vgroup");
    }
    if (vg != FAIL)
        Vdetach(vg);
    Vend(f);
    Hclose(f);
    mc_outcome(mc_hash(mc_hash_i(MC_H0, 400 + t), aval, (size_t)cnt));
    mc_count("vview_cases", 1);
}

/* ================================================================== checked-in legacy files: old interface vs new interface */
static char g_legacy[128][300];
static int  g_nlegacy;
static void
scan_dir(const char *dir)
{
    DIR *d = opendir(dir);
    if (!d)
        return;
    struct dirent *e;
    char           names[256][128];
    int            n = 0;
    while ((e = readdir(d)) && n < 256) {
        size_t l = strlen(e->d_name);
        if (l > 4 && l < 120 && (!strcmp(e->d_name + l - 4, ".hdf") || !strcmp(e->d_name + l - 4, ".dat")))
            strcpy(names[n++], e->d_name);
    }
    closedir(d);
    for (int i = 0; i < n; i++) /* deterministic order */
        for (int j = i + 1; j < n; j++)
            if (strcmp(names[i], names[j]) > 0) {
                char t[128];
                strcpy(t, names[i]);
                strcpy(names[i], names[j]);
                strcpy(names[j], t);
            }
    for (int i = 0; i < n && g_nlegacy < 128; i++)
        snprintf(g_legacy[g_nlegacy++], 300, "%s/%s", dir, names[i]);
}

static void
case_legacy(long idx, void *ctx)
{
    (void)ctx;
    int cfg[2] = {5, (int)idx};
    mc_set_config(cfg, 2, "family=legacy");
    const char *real = g_legacy[idx];
    const char *base = strrchr(real, '/') + 1;
    setcase("checked-in file %s", real + strlen(getenv("VERIF_REPO") ? getenv("VERIF_REPO") : "/repo") + 1);
    vfs_remove_file(PATH);
    if (vfs_import(real, PATH) != 0 || !Hishdf(PATH)) {
        mc_count("legacy_not_hdf", 1);
        return;
    }
    snprintf(g_sigsuffix, sizeof g_sigsuffix, ":%s", base);
    /* --- 8-bit rasters: every image DFR8 returns must be among the 1-component uint8 images GR presents, and vice versa */
    int32 f = Hopen(PATH, DFACC_READ, 0);
    if (f == FAIL)
        return;
    int32 G = GRstart(f), nimg = 0, na = 0;
    if (G != FAIL)
        GRfileinfo(G, &nimg, &na);
    uint64_t grh[512];
    int      ngr8 = 0, ngr24 = 0, nlossy = 0;
    uint64_t gr24h[512];
    int32    lossy[512][3]; /* images in lossy compression (JPEG, IMCOMP) are excluded from value equality */
    for (int k = 0; k < nimg && k < 500; k++) {
        int32 ri = GRselect(G, k);
        char  nm[H4_MAX_GR_NAME + 1];
        int32 nc, nt, il, dm[2], nat, st[2] = {0, 0};
        if (ri == FAIL)
            continue;
        if (GRgetiminfo(ri, nm, &nc, &nt, &il, dm, &nat) != FAIL && (nt == DFNT_UINT8 || nt == DFNT_UCHAR8) && (nc == 1 || nc == 3) && (long)dm[0] * dm[1] < 4000000) {
            comp_coder_t ct = COMP_CODE_NONE;
            GRgetcomptype(ri, &ct);
            if (ct == COMP_CODE_JPEG || ct == COMP_CODE_IMCOMP || ct == COMP_CODE_INVALID) {
                lossy[nlossy][0] = dm[0], lossy[nlossy][1] = dm[1], lossy[nlossy][2] = nc;
                nlossy++;
            }
            else {
                uint8 *b = calloc(1, (size_t)(dm[0] * dm[1] * nc) + 8);
                GRreqimageil(ri, 0);
                if (GRreadimage(ri, st, NULL, dm, b) != FAIL) {
                    uint64_t h = mc_hash(mc_hash_i(mc_hash_i(MC_H0, dm[0]), dm[1]), b, (size_t)(dm[0] * dm[1] * nc));
                    if (nc == 1)
                        grh[ngr8++] = h;
                    else
                        gr24h[ngr24++] = h;
                }
                free(b);
            }
        }
        GRendaccess(ri);
    }
    if (G != FAIL)
        GRend(G);
    Hclose(f);
    DFR8restart();
    int n8 = DFR8nimages(PATH);
    for (int k = 0; k < n8 && k < 500; k++) {
        int32 x, y;
        int   ispal;
        if (DFR8getdims(PATH, &x, &y, &ispal) == FAIL)
            break;
        uint8 *b = calloc(1, (size_t)(x * y) + 8), pal[768];
        if (DFR8getimage(PATH, b, x, y, pal) != FAIL) {
            uint64_t h = mc_hash(mc_hash_i(mc_hash_i(MC_H0, x), y), b, (size_t)(x * y));
            int      found = 0;
            for (int i = 0; i < ngr8; i++)
                if (grh[i] == h)
                    found = 1;
            for (int i = 0; i < nlossy; i++)
                if (lossy[i][0] == x && lossy[i][1] == y && lossy[i][2] == 1)
                    found = 1;
            if (!found)
                DISAGREE("legacy:raster8-not-in-gr", "8-bit image %d (%dx%d) returned by DFR8getimage is not among the %d single-component images GR presents with identical pixels", k, (int)x,
                         (int)y, ngr8);
            mc_count("legacy_raster8", 1);
        }
        free(b);
    }
    DF24restart();
    int n24 = DF24nimages(PATH);
    for (int k = 0; k < n24 && k < 100; k++) {
        int32 x, y;
        int   il;
        if (DF24getdims(PATH, &x, &y, &il) == FAIL)
            break;
        uint8 *b = calloc(1, (size_t)(x * y * 3) + 8);
        DF24reqil(0);
        if (DF24getimage(PATH, b, x, y) != FAIL) {
            uint64_t h = mc_hash(mc_hash_i(mc_hash_i(MC_H0, x), y), b, (size_t)(x * y * 3));
            int      found = 0;
            for (int i = 0; i < ngr24; i++)
                if (gr24h[i] == h)
                    found = 1;
            for (int i = 0; i < nlossy; i++)
                if (lossy[i][0] == x && lossy[i][1] == y && lossy[i][2] == 3)
                    found = 1;
            if (!found)
                DISAGREE("legacy:raster24-not-in-gr", "24-bit image %d (%dx%d) returned by DF24getimage is not among the %d three-component images GR presents with identical pixels", k, (int)x,
                         (int)y, ngr24);
            mc_count("legacy_raster24", 1);
        }
        free(b);
    }
    /* --- scientific data sets: every data set DFSD returns must be presented identically by SD */
    int32 S = SDstart(PATH, DFACC_READ), nds = 0, nga = 0;
    uint64_t sdh[1024], rech[256];
    int      nsd = 0, nrec = 0;
    if (S != FAIL) {
        SDfileinfo(S, &nds, &nga);
        for (int k = 0; k < nds && nsd < 1000; k++) {
            int32 s = SDselect(S, k);
            char  nm[H4_MAX_NC_NAME + 1];
            int32 rk, dm[H4_MAX_VAR_DIMS], nt, nat, st[H4_MAX_VAR_DIMS] = {0};
            if (s == FAIL)
                continue;
            if (SDgetinfo(s, nm, &rk, dm, &nt, &nat) != FAIL && !SDiscoordvar(s) && SDisrecord(s) && nrec < 256) {
                /* the record count of an old file's two descriptions is whatever its writer left there: compared for
                   generated files (family sds), not for checked-in ones */
                uint64_t h = mc_hash_i(mc_hash_i(MC_H0, rk), nt & ~DFNT_LITEND);
                rech[nrec++] = mc_hash(h, dm + 1, sizeof(int32) * (size_t)(rk - 1));
            }
            else if (SDgetinfo(s, nm, &rk, dm, &nt, &nat) != FAIL && !SDiscoordvar(s)) {
                long ne = nelem(rk, dm);
                if (ne > 0 && ne < 2000000) {
                    uint8 *b = calloc(1, (size_t)(ne * ESZ(nt)) + 8);
                    if (SDreaddata(s, st, NULL, dm, b) != FAIL) {
                        uint64_t h = mc_hash_i(mc_hash_i(MC_H0, rk), nt & ~DFNT_LITEND);
                        h          = mc_hash(h, dm, sizeof(int32) * (size_t)rk);
                        sdh[nsd++] = mc_hash(h, b, (size_t)(ne * ESZ(nt)));
                    }
                    free(b);
                }
            }
            SDendaccess(s);
        }
        SDend(S);
    }
    DFSDrestart();
    int nd = DFSDndatasets((char *)PATH);
    for (int k = 0; k < nd && k < 300; k++) {
        int32 rk, dm[H4_MAX_VAR_DIMS], nt;
        if (DFSDgetdims(PATH, &rk, dm, H4_MAX_VAR_DIMS) == FAIL)
            break;
        DFSDgetNT(&nt);
        long ne = nelem(rk, dm);
        {
            uint64_t h = mc_hash_i(mc_hash_i(MC_H0, rk), nt & ~DFNT_LITEND);
            h          = mc_hash(h, dm + 1, sizeof(int32) * (size_t)(rk - 1));
            int isrec  = 0;
            for (int i = 0; i < nrec; i++)
                if (rech[i] == h)
                    isrec = 1;
            if (isrec)
                continue;
        }
        if (ne <= 0 || ne >= 2000000)
            continue;
        uint8 *b = calloc(1, (size_t)(ne * ESZ(nt)) + 8);
        if (DFSDgetdata(PATH, rk, dm, b) != FAIL) {
            uint64_t h = mc_hash_i(mc_hash_i(MC_H0, rk), nt & ~DFNT_LITEND);
            h          = mc_hash(h, dm, sizeof(int32) * (size_t)rk);
            h          = mc_hash(h, b, (size_t)(ne * ESZ(nt)));
            int found  = 0;
            for (int i = 0; i < nsd; i++)
                if (sdh[i] == h)
                    found = 1;
            if (!found)
                DISAGREE("legacy:sds-not-in-sd", "data set %d (rank %d, type %d) returned by DFSDgetdata is not among the %d data sets SD presents with identical shape, type and values", k,
                         (int)rk, (int)nt, nsd);
            mc_count("legacy_sds", 1);
        }
        free(b);
    }
    mc_outcome(mc_hash_i(mc_hash_i(mc_hash_i(mc_hash_i(MC_H0, 500 + idx), ngr8), ngr24), nsd));
    if (idx % 13 == 0)
        mc_sample("%s", g_case);
    mc_count("legacy_files", 1);
}

/* ================================================================== driver */
/* many data sets in one file (the tables that pair each old-style description with its twin grow past their first size):
   both interfaces list the same number of data sets, in the same order, with the same values */
static void
case_manysds(long idx, void *ctx)
{
    (void)ctx;
    static const int NN[] = {99, 100, 101, 130, 260};
    int   n = NN[idx % 5], isf = (int)(idx / 5 % 2), dir = (int)(idx / 10 % 2);
    int32 nt = isf ? DFNT_FLOAT32 : DFNT_INT16;
    int   cfg[4] = {9, (int)(idx % 5), isf, dir};
    mc_set_config(cfg, 4, "family=manysds");
    setcase("%d %s data sets of 3 values %s", n, isf ? "float32" : "int16", dir ? "written by SD, read by DFSD" : "written by DFSD, read by SD");
    vfs_remove_file(PATH);
    int32 dm = 3, z = 0;
    uint8 v[3 * 8], got[3 * 8 + 8];
    int   esz = ESZ(nt);
    if (dir == 0) {
        for (int i = 0; i < n; i++) {
            fill_values(nt, 3, v, i);
            DFSDclear();
            if (DFSDsetdims(1, &dm) == FAIL || DFSDsetNT(nt) == FAIL || (i ? DFSDadddata(PATH, 1, &dm, v) : DFSDputdata(PATH, 1, &dm, v)) == FAIL) {
                mc_violation("manysds:dfsd-write-failed", "%s: DFSD refused data set %d", g_case, i);
                return;
            }
        }
    }
    else {
        int32 S = SDstart(PATH, DFACC_CREATE);
        for (int i = 0; i < n; i++) {
            char nm[24];
            snprintf(nm, sizeof nm, "d%03d", i);
            fill_values(nt, 3, v, i);
            int32 id = SDcreate(S, nm, nt, 1, &dm);
            if (id == FAIL || SDwritedata(id, &z, NULL, &dm, v) == FAIL || SDendaccess(id) == FAIL) {
                mc_violation("manysds:sd-write-failed", "%s: SD refused data set %d", g_case, i);
                return;
            }
        }
        if (SDend(S) == FAIL) {
            mc_violation("manysds:sd-write-failed", "%s: SDend failed", g_case);
            return;
        }
    }
    /* DFSD view */
    int nd = DFSDndatasets((char *)PATH);
    if (nd != n)
        DISAGREE("manysds:dfsd-count", "DFSDndatasets reports %d data sets", nd);
    DFSDrestart();
    for (int i = 0; i < n && i < nd; i++) {
        int32 rank = 0, dims[4] = {0}, t = 0;
        memset(got, 0xEE, sizeof got);
        fill_values(nt, 3, v, i);
        if (DFSDgetdims(PATH, &rank, dims, 4) == FAIL || DFSDgetNT(&t) == FAIL || rank != 1 || dims[0] != 3 || t != nt || DFSDgetdata(PATH, 1, dims, got) == FAIL ||
            memcmp(got, v, (size_t)(3 * esz))) {
            DISAGREE("manysds:dfsd-order-or-data", "the %d-th data set DFSD delivers is not the %d-th one written", i, i);
            break;
        }
    }
    /* SD view */
    int32 S = SDstart(PATH, DFACC_READ), nds = 0, na = 0;
    if (S == FAIL) {
        DISAGREE("manysds:sd-cannot-open", "SDstart fails");
        return;
    }
    SDfileinfo(S, &nds, &na);
    /* as in sd_check: coordinate variables (SD lists one per dimension it promotes) are not data sets */
    int seen = 0, bad = -1;
    for (int k = 0; k < nds; k++) {
        int32 id = SDselect(S, k), rank = 0, dims[4] = {0}, t = 0, nat = 0;
        char  nm[H4_MAX_NC_NAME + 1];
        if (id == FAIL)
            continue;
        if (SDiscoordvar(id)) {
            SDendaccess(id);
            continue;
        }
        memset(got, 0xEE, sizeof got);
        fill_values(nt, 3, v, seen);
        if (bad < 0 && seen < n &&
            (SDgetinfo(id, nm, &rank, dims, &t, &nat) == FAIL || rank != 1 || dims[0] != 3 || t != nt || SDreaddata(id, &z, NULL, &dm, got) == FAIL || memcmp(got, v, (size_t)(3 * esz))))
            bad = seen;
        seen++;
        SDendaccess(id);
    }
    if (seen != n)
        DISAGREE("manysds:sd-count", "SD presents %d data sets (coordinate variables not counted)", seen);
    if (bad >= 0)
        DISAGREE("manysds:sd-order-or-data", "the %d-th data set SD presents is not the %d-th one written", bad, bad);
    SDend(S);
    mc_outcome(mc_hash_i(mc_hash_i(MC_H0, 9), idx));
    mc_count("manysds_cases", 1);
}

typedef struct {
    const char *name;
    void (*fn)(long, void *);
    long n;
} fam_t;
static fam_t FAM[] = {
    {"sds", case_sds, 2 * NSHAPE * NNT * 8 * 2}, {"img", case_img, 4 * 4 * 3 * 2}, {"ann", case_ann, 2 * 4 * 3}, {"nc", case_nc, 2 * 5 * 2 * 2}, {"vview", case_vview, 12}, {"legacy", case_legacy, 0}, {"recvar", case_recvar, NNT * 4 * 2}, {"palettes", case_palettes, 8}, {"mixedimg", case_mixedimg, 8}, {"manysds", case_manysds, 20},
};
#define NFAM 10

int
C15_main(const char *tier, const char *replay)
{
    (void)tier;
    const char *repo = getenv("VERIF_REPO") ? getenv("VERIF_REPO") : "/repo";
    static const char *DIRS[] = {"hdf/test/test_files", "hdf/util/testfiles", "mfhdf/hdp/testfiles", "mfhdf/hdiff/testfiles", "mfhdf/hdfimport", "HDF4Examples/C/GR/testfiles", "HDF4Examples/C/AN/testfiles"};
    for (unsigned i = 0; i < sizeof DIRS / sizeof DIRS[0]; i++) {
        char p[300];
        snprintf(p, sizeof p, "%s/%s", repo, DIRS[i]);
        scan_dir(p);
    }
    FAM[5].n = g_nlegacy;
    if (replay) {
        int   cfg[32], ncfg, nops;
        mc_op ops[MC_MAXDEPTH];
        if (mc_load_replay(replay, cfg, &ncfg, ops, &nops, MC_MAXDEPTH) || ncfg < 2)
            return 2;
        long idx = 0;
        switch (cfg[0]) {
            case 0: idx = cfg[1] + 2 * (cfg[2] + NSHAPE * (cfg[3] + NNT * (cfg[4] + 8L * cfg[5]))); break;
            case 1: idx = cfg[1] + 4 * (cfg[2] + 4 * (cfg[3] + 3 * cfg[4])); break;
            case 2: idx = cfg[1] + 2 * (cfg[2] + 4 * cfg[3]); break;
            case 3: idx = cfg[1] + 2 * (cfg[2] + 5 * (cfg[3] + 2 * (cfg[4] - 1))); break;
            case 4: idx = cfg[1] + 4 * (cfg[2] - 1); break;
            case 5: idx = cfg[1]; break;
            case 6: idx = cfg[1] + (long)NNT * (cfg[2] + 4 * cfg[3]); break;
            case 7: idx = cfg[1] + 2 * (cfg[2] - 1); break;
            case 8: idx = cfg[1] + 2 * cfg[2]; break;
            case 9: idx = cfg[1] + 5 * (cfg[2] + 2 * cfg[3]); break;
        }
        FAM[cfg[0]].fn(idx, NULL);
        printf("replay C15: %s\n", g_case);
        return 0;
    }
    mc_rule("every ordered interface pair x every object of the generated alphabet: SDS 2 directions x 5 shapes x 7 types x all scale masks x extras; images 4 writers x 4 sizes x 3 "
            "compression/interlace variants x palette; annotations 2 writers x 4 kinds x 3 lengths; netCDF-style vs SD 2 directions x 5 types x record/fixed x rank; Vgroup/Vdata views; "
            "%d checked-in files",
            g_nlegacy);
    for (int i = 0; i < NFAM; i++) {
        mc_round_begin(FAM[i].name);
        mc_foreach(FAM[i].n, FAM[i].fn, NULL, 1, 300);
        mc_round_end();
    }
    return 0;
}
