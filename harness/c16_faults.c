/* C16 - I/O failures are reported, never silently swallowed, never corrupt memory.
 * For each workload: a fault-free run yields the indexed list of stdio calls; then for EVERY index k, every
 * applicable fault variant and {single, sticky} the workload is re-run in a fresh process with the k-th call failing.
 * Oracle: no crash / ASan report / use of a closed stream / hang; and if every API call reported success then all
 * outputs and the final file bytes equal the fault-free run. */
#include "../engine/mc.h"
#include "../engine/vfs.h"
#include "hdf.h"
#include "mfhdf.h"
#include <stdio.h>
#include <stdlib.h>
#include <string.h>

#define F1 "/vmem/c16.hdf"
#define FX "/vmem/c16.ext"

/* ---------------------------------------------------------------- run record */
static int         any_fail;      /* some API call returned its failure value */
static uint64_t    outdig;        /* digest of every output buffer of successful read calls */
static const char *cur_api = "";
static const char *fault_api;     /* API call during which the injected fault first fired */
static const char *fault_api2;    /* ... and the one during which the second fault of a pair fired */
static char        first_fail_api[40];

/* The calls of a workload up to and including its first Hclose / SDend are a workload of their own (the writing
   session): when they all succeed although a fault has fired, the file must be what the fault-free run has at that point -
   whatever a later session of the same workload reports. */
static int      phase_done, phase_fail;
static long     phase_fired;
static uint64_t phase_hash;

static void
api(const char *name)
{
    if (vfs_fault.fired && !fault_api)
        fault_api = cur_api; /* fired during the previous call */
    if (vfs_fault.fired2 && !fault_api2)
        fault_api2 = cur_api;
    if (!phase_done && (!strcmp(cur_api, "Hclose") || !strcmp(cur_api, "SDend"))) {
        phase_done  = 1;
        phase_fail  = any_fail;
        phase_fired = vfs_fault.fired;
        phase_hash  = vfs_hash_all();
    }
    cur_api = name;
}
#define CK(name, failcond)                                                                                                           \
    do {                                                                                                                             \
        if (failcond) {                                                                                                              \
            if (!any_fail)                                                                                                           \
                snprintf(first_fail_api, sizeof first_fail_api, "%s", name);                                                         \
            any_fail = 1;                                                                                                            \
        }                                                                                                                            \
    } while (0)
#define OUT(p, n) (outdig = mc_hash(outdig, (p), (size_t)(n)))

static void
fill(uint8 *d, int n, int seed)
{
    for (int i = 0; i < n; i++)
        d[i] = (uint8)(seed * 31 + i * 7 + 3);
}

/* ---------------------------------------------------------------- workloads */
static void
w_h_basic(int cache, int ndds)
{
    uint8 d[64];
    api("Hopen");
    int32 fid = Hopen(F1, DFACC_CREATE, (int16)ndds);
    CK("Hopen", fid == FAIL);
    if (fid == FAIL)
        return;
    if (!cache) {
        api("Hcache");
        CK("Hcache", Hcache(fid, 0) == FAIL);
    }
    for (int i = 0; i < 6; i++) {
        fill(d, 10, i);
        api("Hputelement");
        CK("Hputelement", Hputelement(fid, 300, (uint16)(i + 1), d, 10) != 10);
    }
    api("Hsync");
    CK("Hsync", Hsync(fid) == FAIL);
    for (int i = 0; i < 6; i += 2) {
        memset(d, 0, sizeof d);
        api("Hgetelement");
        int32 r = Hgetelement(fid, 300, (uint16)(i + 1), d);
        CK("Hgetelement", r == FAIL);
        if (r != FAIL)
            OUT(d, 10);
    }
    api("Hdeldd");
    CK("Hdeldd", Hdeldd(fid, 300, 2) == FAIL);
    api("Hclose");
    CK("Hclose", Hclose(fid) == FAIL);
}

static void
w_h_append_promote(int cache)
{
    uint8 d[64];
    api("Hopen");
    int32 fid = Hopen(F1, DFACC_CREATE, 4);
    CK("Hopen", fid == FAIL);
    if (fid == FAIL)
        return;
    if (!cache) {
        api("Hcache");
        CK("Hcache", Hcache(fid, 0) == FAIL);
    }
    fill(d, 8, 1);
    api("Hputelement");
    CK("Hputelement", Hputelement(fid, 300, 1, d, 8) != 8);
    api("Hputelement");
    CK("Hputelement", Hputelement(fid, 300, 2, d, 5) != 5);
    /* element 1 is not last: growing it promotes it to linked blocks */
    api("Hstartaccess");
    int32 aid = Hstartaccess(fid, 300, 1, DFACC_WRITE | DFACC_APPENDABLE);
    CK("Hstartaccess", aid == FAIL);
    if (aid != FAIL) {
        api("HLsetblockinfo");
        HLsetblockinfo(aid, 4, 2);
        api("Hseek");
        CK("Hseek", Hseek(aid, 0, DF_END) == FAIL);
        fill(d, 11, 2);
        api("Hwrite");
        CK("Hwrite", Hwrite(aid, 11, d) != 11);
        api("Hendaccess");
        CK("Hendaccess", Hendaccess(aid) == FAIL);
    }
    /* element 2 is last: in-place append */
    api("Hstartaccess");
    aid = Hstartaccess(fid, 300, 2, DFACC_WRITE | DFACC_APPENDABLE);
    CK("Hstartaccess", aid == FAIL);
    if (aid != FAIL) {
        api("Hseek");
        CK("Hseek", Hseek(aid, 0, DF_END) == FAIL);
        api("Hwrite");
        CK("Hwrite", Hwrite(aid, 6, d) != 6);
        api("Hendaccess");
        CK("Hendaccess", Hendaccess(aid) == FAIL);
    }
    for (int r = 1; r <= 2; r++) {
        memset(d, 0, sizeof d);
        api("Hgetelement");
        int32 n = Hgetelement(fid, 300, (uint16)r, d);
        CK("Hgetelement", n == FAIL);
        if (n != FAIL)
            OUT(d, n);
    }
    api("Hclose");
    CK("Hclose", Hclose(fid) == FAIL);
}

static void
w_h_special(int kind)
{
    uint8 d[200];
    api("Hopen");
    int32 fid = Hopen(F1, DFACC_CREATE, 16);
    CK("Hopen", fid == FAIL);
    if (fid == FAIL)
        return;
    int32 aid = FAIL;
    if (kind == 0) {
        api("HLcreate");
        aid = HLcreate(fid, 300, 1, 5, 2);
        CK("HLcreate", aid == FAIL);
    }
    else if (kind == 1) {
        api("HXcreate");
        aid = HXcreate(fid, 300, 1, FX, 3, 0);
        CK("HXcreate", aid == FAIL);
    }
    else {
        comp_info  ci;
        model_info mi;
        memset(&ci, 0, sizeof ci);
        memset(&mi, 0, sizeof mi);
        ci.deflate.level = 6;
        api("HCcreate");
        aid = HCcreate(fid, 300, 1, COMP_MODEL_STDIO, &mi, kind == 2 ? COMP_CODE_RLE : COMP_CODE_DEFLATE, &ci);
        CK("HCcreate", aid == FAIL);
    }
    if (aid != FAIL) {
        for (int i = 0; i < 3; i++) {
            fill(d, 9, i);
            if (kind >= 2)
                memset(d + 2, 7, 5);
            api("Hwrite");
            CK("Hwrite", Hwrite(aid, 9, d) != 9);
        }
        api("Hendaccess");
        CK("Hendaccess", Hendaccess(aid) == FAIL);
    }
    api("Hclose");
    CK("Hclose", Hclose(fid) == FAIL);
    api("Hopen");
    fid = Hopen(F1, DFACC_READ, 0);
    CK("Hopen", fid == FAIL);
    if (fid == FAIL)
        return;
    api("Hstartread");
    aid = Hstartread(fid, 300, 1);
    CK("Hstartread", aid == FAIL);
    if (aid != FAIL) {
        memset(d, 0, sizeof d);
        api("Hread");
        int32 n = Hread(aid, 10, d);
        CK("Hread", n == FAIL);
        if (n != FAIL)
            OUT(d, n);
        api("Hread");
        n = Hread(aid, 0, d);
        CK("Hread", n == FAIL);
        if (n != FAIL)
            OUT(d, n);
        api("Hendaccess");
        CK("Hendaccess", Hendaccess(aid) == FAIL);
    }
    api("Hclose");
    CK("Hclose", Hclose(fid) == FAIL);
}

static void
w_v(int append)
{
    api("Hopen");
    int32 fid = Hopen(F1, DFACC_CREATE, 4);
    CK("Hopen", fid == FAIL);
    if (fid == FAIL)
        return;
    api("Vstart");
    CK("Vstart", Vstart(fid) == FAIL);
    api("VSattach");
    int32 vs = VSattach(fid, -1, "w");
    CK("VSattach", vs == FAIL);
    int32 vsref = 0;
    if (vs != FAIL) {
        api("VSsetname");
        CK("VSsetname", VSsetname(vs, "tbl") == FAIL);
        api("VSfdefine");
        CK("VSfdefine", VSfdefine(vs, "a", DFNT_INT16, 1) == FAIL);
        CK("VSfdefine", VSfdefine(vs, "b", DFNT_FLOAT32, 2) == FAIL);
        api("VSsetfields");
        CK("VSsetfields", VSsetfields(vs, "a,b") == FAIL);
        uint8 rec[3 * 10];
        fill(rec, sizeof rec, 4);
        api("VSwrite");
        CK("VSwrite", VSwrite(vs, rec, 3, FULL_INTERLACE) != 3);
        int32 v = 77;
        api("VSsetattr");
        CK("VSsetattr", VSsetattr(vs, _HDF_VDATA, "att", DFNT_INT32, 1, &v) == FAIL);
        vsref = VSQueryref(vs);
    }
    api("Vattach");
    int32 vg = Vattach(fid, -1, "w");
    CK("Vattach", vg == FAIL);
    if (vg != FAIL) {
        api("Vsetname");
        CK("Vsetname", Vsetname(vg, "grp") == FAIL);
        if (vs != FAIL) {
            api("Vinsert");
            CK("Vinsert", Vinsert(vg, vs) == FAIL);
        }
        api("Vaddtagref");
        CK("Vaddtagref", Vaddtagref(vg, 300, 9) == FAIL);
    }
    if (append && vs != FAIL) {
        /* something else lands behind the Vdata, then it grows: linked blocks */
        uint8 d[6] = {1, 2, 3, 4, 5, 6};
        api("Hputelement");
        CK("Hputelement", Hputelement(fid, 300, 9, d, 6) != 6);
        uint8 rec[2 * 10];
        fill(rec, sizeof rec, 9);
        api("VSseek");
        CK("VSseek", VSseek(vs, 3) == FAIL);
        api("VSwrite");
        CK("VSwrite", VSwrite(vs, rec, 2, FULL_INTERLACE) != 2);
    }
    if (vs != FAIL) {
        api("VSdetach");
        CK("VSdetach", VSdetach(vs) == FAIL);
    }
    if (vg != FAIL) {
        api("Vdetach");
        CK("Vdetach", Vdetach(vg) == FAIL);
    }
    api("Vend");
    CK("Vend", Vend(fid) == FAIL);
    api("Hclose");
    CK("Hclose", Hclose(fid) == FAIL);
    /* read back */
    api("Hopen");
    fid = Hopen(F1, DFACC_READ, 0);
    CK("Hopen", fid == FAIL);
    if (fid == FAIL)
        return;
    api("Vstart");
    CK("Vstart", Vstart(fid) == FAIL);
    api("VSattach");
    vs = vsref ? VSattach(fid, vsref, "r") : FAIL;
    CK("VSattach", vs == FAIL);
    if (vs != FAIL) {
        uint8 rec[8 * 10];
        memset(rec, 0, sizeof rec);
        api("VSsetfields");
        CK("VSsetfields", VSsetfields(vs, "a,b") == FAIL);
        api("VSread");
        int32 n = VSread(vs, rec, append ? 5 : 3, FULL_INTERLACE);
        CK("VSread", n == FAIL);
        if (n != FAIL)
            OUT(rec, n * 10);
        int32 v = 0;
        api("VSgetattr");
        int r = VSgetattr(vs, _HDF_VDATA, 0, &v);
        CK("VSgetattr", r == FAIL);
        if (r != FAIL)
            OUT(&v, 4);
        api("VSdetach");
        CK("VSdetach", VSdetach(vs) == FAIL);
    }
    api("Vend");
    CK("Vend", Vend(fid) == FAIL);
    api("Hclose");
    CK("Hclose", Hclose(fid) == FAIL);
}

static void
w_sd(int layout)
{
    /* layout: 0 contiguous, 1 unlimited, 2 chunked, 3 chunked+deflate, 4 compressed (deflate), 5 external,
       6 RLE, 7 skipping Huffman, 8 n-bit, 9 n-bit with sign extension */
    api("SDstart");
    int32 sd = SDstart(F1, DFACC_CREATE);
    CK("SDstart", sd == FAIL);
    if (sd == FAIL)
        return;
    int32 dims[2] = {layout == 1 ? SD_UNLIMITED : 4, 3};
    api("SDcreate");
    int32 sds = SDcreate(sd, "data", DFNT_INT16, 2, dims);
    CK("SDcreate", sds == FAIL);
    if (sds != FAIL) {
        if (layout == 2 || layout == 3) {
            HDF_CHUNK_DEF cd;
            memset(&cd, 0, sizeof cd);
            cd.comp.chunk_lengths[0]         = 3;
            cd.comp.chunk_lengths[1]         = 2;
            cd.comp.comp_type                = COMP_CODE_DEFLATE;
            cd.comp.cinfo.deflate.level      = 6;
            api("SDsetchunk");
            CK("SDsetchunk", SDsetchunk(sds, cd, layout == 3 ? (HDF_CHUNK | HDF_COMP) : HDF_CHUNK) == FAIL);
        }
        else if (layout == 4) {
            comp_info ci;
            memset(&ci, 0, sizeof ci);
            ci.deflate.level = 6;
            api("SDsetcompress");
            CK("SDsetcompress", SDsetcompress(sds, COMP_CODE_DEFLATE, &ci) == FAIL);
        }
        else if (layout == 6 || layout == 7) {
            comp_info ci;
            memset(&ci, 0, sizeof ci);
            ci.skphuff.skp_size = 2;
            api("SDsetcompress");
            CK("SDsetcompress", SDsetcompress(sds, layout == 6 ? COMP_CODE_RLE : COMP_CODE_SKPHUFF, &ci) == FAIL);
        }
        else if (layout == 8 || layout == 9) {
            api("SDsetnbitdataset");
            CK("SDsetnbitdataset", SDsetnbitdataset(sds, 11, 12, layout == 9, FALSE) == FAIL);
        }
        else if (layout == 5) {
            api("SDsetexternalfile");
            CK("SDsetexternalfile", SDsetexternalfile(sds, FX, 0) == FAIL);
        }
        api("SDsetattr");
        float32 a[2] = {1.5f, -2.0f};
        CK("SDsetattr", SDsetattr(sds, "cal", DFNT_FLOAT32, 2, a) == FAIL);
        api("SDsetdimname");
        int32 dim = SDgetdimid(sds, 1);
        CK("SDsetdimname", dim == FAIL || SDsetdimname(dim, "x") == FAIL);
        int16 scale[3] = {10, 20, 30};
        api("SDsetdimscale");
        CK("SDsetdimscale", dim == FAIL || SDsetdimscale(dim, 3, DFNT_INT16, scale) == FAIL);
        int16 v[12];
        for (int i = 0; i < 12; i++)
            v[i] = (int16)((layout == 9 && (i & 1)) ? -(100 + i) : 100 + i);
        int32 st[2] = {0, 0}, cnt[2] = {4, 3};
        api("SDwritedata");
        CK("SDwritedata", SDwritedata(sds, st, NULL, cnt, v) == FAIL);
        api("SDendaccess");
        CK("SDendaccess", SDendaccess(sds) == FAIL);
    }
    api("SDsetattr(file)");
    CK("SDsetattr(file)", SDsetattr(sd, "title", DFNT_CHAR8, 5, "hello") == FAIL);
    api("SDend");
    CK("SDend", SDend(sd) == FAIL);
    /* reopen, extend/overwrite, read */
    api("SDstart");
    sd = SDstart(F1, DFACC_RDWR);
    CK("SDstart", sd == FAIL);
    if (sd == FAIL)
        return;
    api("SDselect");
    sds = SDselect(sd, 0);
    CK("SDselect", sds == FAIL);
    if (sds != FAIL) {
        int16 w[3] = {-1, -2, -3};
        int32 st[2] = {layout == 1 ? 5 : 2, 0}, cnt[2] = {1, 3};
        if (layout != 4 && layout < 6) { /* rewriting inside a compressed non-chunked dataset is not a supported operation */
            api("SDwritedata");
            CK("SDwritedata", SDwritedata(sds, st, NULL, cnt, w) == FAIL);
        }
        int16 r[24];
        memset(r, 0, sizeof r);
        int32 st0[2] = {0, 0}, cn0[2] = {layout == 1 ? 6 : 4, 3};
        api("SDreaddata");
        int rc = SDreaddata(sds, st0, NULL, cn0, r);
        CK("SDreaddata", rc == FAIL);
        if (rc != FAIL)
            OUT(r, cn0[0] * 3 * 2);
        float32 a[2] = {0, 0};
        api("SDreadattr");
        rc = SDreadattr(sds, 0, a);
        CK("SDreadattr", rc == FAIL);
        if (rc != FAIL)
            OUT(a, sizeof a);
        api("SDendaccess");
        CK("SDendaccess", SDendaccess(sds) == FAIL);
    }
    api("SDend");
    CK("SDend", SDend(sd) == FAIL);
}

static void
w_gr(int chunked)
{
    api("Hopen");
    int32 fid = Hopen(F1, DFACC_CREATE, 16);
    CK("Hopen", fid == FAIL);
    if (fid == FAIL)
        return;
    api("GRstart");
    int32 gr = GRstart(fid);
    CK("GRstart", gr == FAIL);
    if (gr != FAIL) {
        int32 dims[2] = {4, 3};
        api("GRcreate");
        int32 ri = GRcreate(gr, "img", 3, DFNT_UINT8, MFGR_INTERLACE_PIXEL, dims);
        CK("GRcreate", ri == FAIL);
        if (ri != FAIL) {
            if (chunked >= 2) {
                comp_info ci;
                memset(&ci, 0, sizeof ci);
                ci.deflate.level = 6;
                api("GRsetcompress");
                CK("GRsetcompress", GRsetcompress(ri, chunked == 2 ? COMP_CODE_RLE : COMP_CODE_DEFLATE, &ci) == FAIL);
            }
            else if (chunked) {
                HDF_CHUNK_DEF cd;
                memset(&cd, 0, sizeof cd);
                cd.chunk_lengths[0] = 2;
                cd.chunk_lengths[1] = 2;
                api("GRsetchunk");
                CK("GRsetchunk", GRsetchunk(ri, cd, HDF_CHUNK) == FAIL);
            }
            uint8 pix[36];
            fill(pix, 36, 5);
            int32 st[2] = {0, 0};
            api("GRwriteimage");
            CK("GRwriteimage", GRwriteimage(ri, st, NULL, dims, pix) == FAIL);
            uint8 pal[768];
            fill(pal, 768, 6);
            api("GRgetlutid");
            int32 lut = GRgetlutid(ri, 0);
            CK("GRgetlutid", lut == FAIL);
            if (lut != FAIL) {
                api("GRwritelut");
                CK("GRwritelut", GRwritelut(lut, 3, DFNT_UINT8, MFGR_INTERLACE_PIXEL, 256, pal) == FAIL);
            }
            int32 av = 5;
            api("GRsetattr");
            CK("GRsetattr", GRsetattr(ri, "k", DFNT_INT32, 1, &av) == FAIL);
            api("GRendaccess");
            CK("GRendaccess", GRendaccess(ri) == FAIL);
        }
        api("GRend");
        CK("GRend", GRend(gr) == FAIL);
    }
    api("Hclose");
    CK("Hclose", Hclose(fid) == FAIL);
    api("Hopen");
    fid = Hopen(F1, DFACC_READ, 0);
    CK("Hopen", fid == FAIL);
    if (fid == FAIL)
        return;
    api("GRstart");
    gr = GRstart(fid);
    CK("GRstart", gr == FAIL);
    if (gr != FAIL) {
        api("GRselect");
        int32 ri = GRselect(gr, 0);
        CK("GRselect", ri == FAIL);
        if (ri != FAIL) {
            uint8 pix[36];
            memset(pix, 0, sizeof pix);
            int32 st[2] = {0, 0}, dims[2] = {4, 3};
            api("GRreadimage");
            int rc = GRreadimage(ri, st, NULL, dims, pix);
            CK("GRreadimage", rc == FAIL);
            if (rc != FAIL)
                OUT(pix, 36);
            uint8 pal[768];
            memset(pal, 0, sizeof pal);
            int32 lut = GRgetlutid(ri, 0);
            api("GRreadlut");
            rc = lut == FAIL ? FAIL : GRreadlut(lut, pal);
            CK("GRreadlut", rc == FAIL);
            if (rc != FAIL)
                OUT(pal, 768);
            api("GRendaccess");
            CK("GRendaccess", GRendaccess(ri) == FAIL);
        }
        api("GRend");
        CK("GRend", GRend(gr) == FAIL);
    }
    api("Hclose");
    CK("Hclose", Hclose(fid) == FAIL);
}

static void
w_an(void)
{
    api("Hopen");
    int32 fid = Hopen(F1, DFACC_CREATE, 4);
    CK("Hopen", fid == FAIL);
    if (fid == FAIL)
        return;
    api("ANstart");
    int32 an = ANstart(fid);
    CK("ANstart", an == FAIL);
    if (an != FAIL) {
        api("ANcreatef");
        int32 a = ANcreatef(an, AN_FILE_LABEL);
        CK("ANcreatef", a == FAIL);
        if (a != FAIL) {
            api("ANwriteann");
            CK("ANwriteann", ANwriteann(a, "label one", 9) == FAIL);
            api("ANendaccess");
            CK("ANendaccess", ANendaccess(a) == FAIL);
        }
        api("ANcreate");
        a = ANcreate(an, 300, 1, AN_DATA_DESC);
        CK("ANcreate", a == FAIL);
        if (a != FAIL) {
            api("ANwriteann");
            CK("ANwriteann", ANwriteann(a, "a longer description", 20) == FAIL);
            api("ANwriteann");
            CK("ANwriteann", ANwriteann(a, "short", 5) == FAIL);
            api("ANendaccess");
            CK("ANendaccess", ANendaccess(a) == FAIL);
        }
        int32 list[4];
        api("ANannlist");
        int n = ANannlist(an, AN_DATA_DESC, 300, 1, list);
        CK("ANannlist", n == FAIL);
        if (n > 0) {
            char txt[32];
            memset(txt, 0, sizeof txt);
            api("ANreadann");
            int rc = ANreadann(list[0], txt, 31);
            CK("ANreadann", rc == FAIL);
            if (rc != FAIL)
                OUT(txt, 31);
        }
        api("ANend");
        CK("ANend", ANend(an) == FAIL);
    }
    api("Hclose");
    CK("Hclose", Hclose(fid) == FAIL);
}

static void
w_h_reopen(int cache)
{
    uint8 d[64];
    api("Hopen");
    int32 fid = Hopen(F1, DFACC_CREATE, 4);
    CK("Hopen", fid == FAIL);
    if (fid == FAIL)
        return;
    for (int i = 0; i < 5; i++) {
        fill(d, 12, i);
        api("Hputelement");
        CK("Hputelement", Hputelement(fid, 300, (uint16)(i + 1), d, 12) != 12);
    }
    api("Hclose");
    CK("Hclose", Hclose(fid) == FAIL);
    /* second session: read-write on the existing file */
    api("Hopen");
    fid = Hopen(F1, DFACC_RDWR, 0);
    CK("Hopen", fid == FAIL);
    if (fid == FAIL)
        return;
    if (!cache) {
        api("Hcache");
        CK("Hcache", Hcache(fid, 0) == FAIL);
    }
    fill(d, 12, 9);
    api("Hputelement");
    CK("Hputelement", Hputelement(fid, 300, 2, d, 12) != 12); /* overwrite in place */
    api("Hputelement");
    CK("Hputelement", Hputelement(fid, 301, 1, d, 7) != 7); /* new element, new descriptor block */
    api("Hdeldd");
    CK("Hdeldd", Hdeldd(fid, 300, 4) == FAIL);
    api("Hdupdd");
    CK("Hdupdd", Hdupdd(fid, 302, 1, 300, 1) == FAIL);
    api("Hdeldd");
    CK("Hdeldd", Hdeldd(fid, 300, 5) == FAIL);
    fill(d, 20, 11);
    api("Hputelement");
    CK("Hputelement", Hputelement(fid, 300, 5, d, 20) != 20); /* the reference number is used again for longer data */
    api("Hclose");
    CK("Hclose", Hclose(fid) == FAIL);
    /* third session: read everything */
    api("Hopen");
    fid = Hopen(F1, DFACC_READ, 0);
    CK("Hopen", fid == FAIL);
    if (fid == FAIL)
        return;
    static const uint16 TR[][2] = {{300, 1}, {300, 2}, {300, 3}, {300, 5}, {301, 1}, {302, 1}};
    for (int i = 0; i < 6; i++) {
        memset(d, 0, sizeof d);
        api("Hlength");
        int32 len = Hlength(fid, TR[i][0], TR[i][1]);
        CK("Hlength", len == FAIL);
        api("Hgetelement");
        int32 r = Hgetelement(fid, TR[i][0], TR[i][1], d);
        CK("Hgetelement", r == FAIL);
        if (r != FAIL)
            OUT(d, r);
    }
    api("Hnumber");
    int32 nn = Hnumber(fid, DFTAG_WILDCARD);
    CK("Hnumber", nn == FAIL);
    if (nn != FAIL)
        OUT(&nn, 4);
    api("Hclose");
    CK("Hclose", Hclose(fid) == FAIL);
}

static void
w_v_attrs(void)
{
    api("Hopen");
    int32 fid = Hopen(F1, DFACC_CREATE, 16);
    CK("Hopen", fid == FAIL);
    if (fid == FAIL)
        return;
    api("Vstart");
    CK("Vstart", Vstart(fid) == FAIL);
    api("Vattach");
    int32 vg = Vattach(fid, -1, "w");
    CK("Vattach", vg == FAIL);
    int32 vgref = 0;
    if (vg != FAIL) {
        vgref = VQueryref(vg);
        api("Vsetname");
        CK("Vsetname", Vsetname(vg, "many") == FAIL);
        api("Vsetclass");
        CK("Vsetclass", Vsetclass(vg, "cls") == FAIL);
        for (int i = 0; i < 20; i++) {
            api("Vaddtagref");
            CK("Vaddtagref", Vaddtagref(vg, 300, (int32)(i + 1)) == FAIL);
        }
        int16 av[3] = {1, -2, 3};
        api("Vsetattr");
        CK("Vsetattr", Vsetattr(vg, "ga", DFNT_INT16, 3, av) == FAIL);
        api("Vsetattr");
        CK("Vsetattr", Vsetattr(vg, "gb", DFNT_CHAR8, 4, "text") == FAIL);
    }
    api("VSattach");
    int32 vs = VSattach(fid, -1, "w");
    CK("VSattach", vs == FAIL);
    int32 vsref = 0;
    if (vs != FAIL) {
        vsref = VSQueryref(vs);
        api("VSfdefine");
        CK("VSfdefine", VSfdefine(vs, "p", DFNT_UINT8, 2) == FAIL);
        CK("VSfdefine", VSfdefine(vs, "q", DFNT_INT32, 1) == FAIL);
        api("VSsetfields");
        CK("VSsetfields", VSsetfields(vs, "p,q") == FAIL);
        uint8 rec[4 * 6];
        fill(rec, sizeof rec, 2);
        api("VSwrite");
        CK("VSwrite", VSwrite(vs, rec, 4, FULL_INTERLACE) != 4);
        float32 fa = 2.5f;
        api("VSsetattr");
        CK("VSsetattr", VSsetattr(vs, 1, "fa", DFNT_FLOAT32, 1, &fa) == FAIL);
        api("VSsetattr");
        CK("VSsetattr", VSsetattr(vs, 0, "fb", DFNT_UINT8, 2, rec) == FAIL);
        api("VSdetach");
        CK("VSdetach", VSdetach(vs) == FAIL);
    }
    if (vg != FAIL) {
        api("Vdetach");
        CK("Vdetach", Vdetach(vg) == FAIL);
    }
    api("Vend");
    CK("Vend", Vend(fid) == FAIL);
    api("Hclose");
    CK("Hclose", Hclose(fid) == FAIL);
    api("Hopen");
    fid = Hopen(F1, DFACC_READ, 0);
    CK("Hopen", fid == FAIL);
    if (fid == FAIL)
        return;
    api("Vstart");
    CK("Vstart", Vstart(fid) == FAIL);
    api("Vattach");
    vg = vgref ? Vattach(fid, vgref, "r") : FAIL;
    CK("Vattach", vg == FAIL);
    if (vg != FAIL) {
        int32 tags[32], refs[32];
        memset(tags, 0, sizeof tags);
        memset(refs, 0, sizeof refs);
        api("Vgettagrefs");
        int32 n = Vgettagrefs(vg, tags, refs, 32);
        CK("Vgettagrefs", n == FAIL);
        if (n != FAIL) {
            OUT(tags, sizeof tags);
            OUT(refs, sizeof refs);
        }
        int16 av[3] = {0, 0, 0};
        api("Vgetattr");
        int r = Vgetattr(vg, 0, av);
        CK("Vgetattr", r == FAIL);
        if (r != FAIL)
            OUT(av, sizeof av);
        api("Vdetach");
        CK("Vdetach", Vdetach(vg) == FAIL);
    }
    api("VSattach");
    vs = vsref ? VSattach(fid, vsref, "r") : FAIL;
    CK("VSattach", vs == FAIL);
    if (vs != FAIL) {
        float32 fa = 0;
        api("VSgetattr");
        int r = VSgetattr(vs, 1, 0, &fa);
        CK("VSgetattr", r == FAIL);
        if (r != FAIL)
            OUT(&fa, 4);
        uint8 rec[4 * 6];
        memset(rec, 0, sizeof rec);
        api("VSsetfields");
        CK("VSsetfields", VSsetfields(vs, "q") == FAIL);
        api("VSread");
        int32 n = VSread(vs, rec, 4, FULL_INTERLACE);
        CK("VSread", n == FAIL);
        if (n != FAIL)
            OUT(rec, n * 4);
        api("VSdetach");
        CK("VSdetach", VSdetach(vs) == FAIL);
    }
    api("Vend");
    CK("Vend", Vend(fid) == FAIL);
    api("Hclose");
    CK("Hclose", Hclose(fid) == FAIL);
}

static void
w_legacy(int which)
{
    /* single-file interfaces: every call opens and closes the file itself */
    uint8 img[8 * 6 * 3], pal[768], buf[8 * 6 * 3];
    fill(img, sizeof img, 3);
    fill(pal, sizeof pal, 8);
    if (which == 0) { /* DFR8 */
        DFR8restart();
        api("DFR8setpalette");
        CK("DFR8setpalette", DFR8setpalette(pal) == FAIL);
        api("DFR8putimage");
        CK("DFR8putimage", DFR8putimage(F1, img, 8, 6, COMP_NONE) == FAIL);
        api("DFR8addimage");
        CK("DFR8addimage", DFR8addimage(F1, img + 48, 8, 6, COMP_RLE) == FAIL);
        for (int i = 0; i < 2; i++) {
            int32 w = 0, h = 0;
            int   ispal = 0;
            api("DFR8getdims");
            int r = DFR8getdims(F1, &w, &h, &ispal);
            CK("DFR8getdims", r == FAIL);
            if (r == FAIL)
                break;
            memset(buf, 0, sizeof buf);
            memset(pal, 0, sizeof pal);
            api("DFR8getimage");
            r = DFR8getimage(F1, buf, 8, 6, pal);
            CK("DFR8getimage", r == FAIL);
            if (r != FAIL) {
                OUT(buf, 48);
                OUT(pal, 768);
            }
        }
    }
    else if (which == 1) { /* DF24 */
        DF24restart();
        api("DF24setil");
        CK("DF24setil", DF24setil(DFIL_PIXEL) == FAIL);
        api("DF24putimage");
        CK("DF24putimage", DF24putimage(F1, img, 8, 6) == FAIL);
        api("DF24setil");
        CK("DF24setil", DF24setil(DFIL_PLANE) == FAIL);
        api("DF24addimage");
        CK("DF24addimage", DF24addimage(F1, img, 8, 6) == FAIL);
        DF24restart();
        for (int i = 0; i < 2; i++) {
            int32 w = 0, h = 0;
            int   il = 0;
            api("DF24getdims");
            int r = DF24getdims(F1, &w, &h, &il);
            CK("DF24getdims", r == FAIL);
            if (r == FAIL)
                break;
            memset(buf, 0, sizeof buf);
            api("DF24getimage");
            r = DF24getimage(F1, buf, 8, 6);
            CK("DF24getimage", r == FAIL);
            if (r != FAIL)
                OUT(buf, sizeof buf);
        }
    }
    else if (which == 2) { /* DFSD */
        int32   dims[2] = {3, 4};
        float32 v[12], scale[4] = {1, 2, 3, 4}, out[12];
        for (int i = 0; i < 12; i++)
            v[i] = (float32)(i * 1.5);
        DFSDrestart();
        DFSDclear();
        api("DFSDsetdims");
        CK("DFSDsetdims", DFSDsetdims(2, dims) == FAIL);
        api("DFSDsetNT");
        CK("DFSDsetNT", DFSDsetNT(DFNT_FLOAT32) == FAIL);
        api("DFSDsetdatastrs");
        CK("DFSDsetdatastrs", DFSDsetdatastrs("lab", "unit", "fmt", "coord") == FAIL);
        api("DFSDsetdimscale");
        CK("DFSDsetdimscale", DFSDsetdimscale(2, 4, scale) == FAIL);
        api("DFSDputdata");
        CK("DFSDputdata", DFSDputdata(F1, 2, dims, v) == FAIL);
        api("DFSDadddata");
        CK("DFSDadddata", DFSDadddata(F1, 2, dims, v) == FAIL);
        DFSDrestart();
        for (int i = 0; i < 2; i++) {
            int   rank = 0;
            int32 sz[2] = {0, 0};
            api("DFSDgetdims");
            int r = DFSDgetdims(F1, &rank, sz, 2);
            CK("DFSDgetdims", r == FAIL);
            if (r == FAIL)
                break;
            memset(out, 0, sizeof out);
            api("DFSDgetdata");
            r = DFSDgetdata(F1, 2, dims, out);
            CK("DFSDgetdata", r == FAIL);
            if (r != FAIL)
                OUT(out, sizeof out);
            char l[32], u[32], f[32], c[32];
            memset(l, 0, 32);
            memset(u, 0, 32);
            memset(f, 0, 32);
            memset(c, 0, 32);
            api("DFSDgetdatastrs");
            r = DFSDgetdatastrs(l, u, f, c);
            CK("DFSDgetdatastrs", r == FAIL);
            if (r != FAIL) {
                OUT(l, 32);
                OUT(u, 32);
            }
        }
    }
    else if (which == 3) { /* DFAN + DFP */
        char txt[40];
        DFANclear();
        api("Hopen");
        int32 fid = Hopen(F1, DFACC_CREATE, 4);
        CK("Hopen", fid == FAIL);
        if (fid == FAIL)
            return;
        api("Hputelement");
        CK("Hputelement", Hputelement(fid, 300, 1, img, 10) != 10);
        api("DFANaddfid");
        CK("DFANaddfid", DFANaddfid(fid, "file label") == FAIL);
        api("DFANaddfds");
        CK("DFANaddfds", DFANaddfds(fid, "file description", 16) == FAIL);
        api("Hclose");
        CK("Hclose", Hclose(fid) == FAIL);
        api("DFANputlabel");
        CK("DFANputlabel", DFANputlabel(F1, 300, 1, "object label") == FAIL);
        api("DFANputdesc");
        CK("DFANputdesc", DFANputdesc(F1, 300, 1, "object description", 18) == FAIL);
        api("DFANputlabel");
        CK("DFANputlabel", DFANputlabel(F1, 300, 1, "relabelled") == FAIL);
        memset(txt, 0, sizeof txt);
        api("DFANgetlabel");
        int r = DFANgetlabel(F1, 300, 1, txt, 39);
        CK("DFANgetlabel", r == FAIL);
        if (r != FAIL)
            OUT(txt, 40);
        api("DFANgetdesclen");
        int32 dl = DFANgetdesclen(F1, 300, 1);
        CK("DFANgetdesclen", dl == FAIL);
        memset(txt, 0, sizeof txt);
        api("DFANgetdesc");
        r = DFANgetdesc(F1, 300, 1, txt, 39);
        CK("DFANgetdesc", r == FAIL);
        if (r != FAIL)
            OUT(txt, 40);
        api("Hopen");
        fid = Hopen(F1, DFACC_READ, 0);
        CK("Hopen", fid == FAIL);
        if (fid != FAIL) {
            memset(txt, 0, sizeof txt);
            api("DFANgetfid");
            int32 n = DFANgetfid(fid, txt, 39, 1);
            CK("DFANgetfid", n == FAIL);
            if (n != FAIL)
                OUT(txt, 40);
            api("Hclose");
            CK("Hclose", Hclose(fid) == FAIL);
        }
    }
    else { /* DFP */
        DFPrestart();
        api("DFPputpal");
        CK("DFPputpal", DFPputpal(F1, pal, 0, "w") == FAIL);
        fill(pal, sizeof pal, 12);
        api("DFPaddpal");
        CK("DFPaddpal", DFPaddpal(F1, pal) == FAIL);
        DFPrestart();
        for (int i = 0; i < 2; i++) {
            memset(pal, 0, sizeof pal);
            api("DFPgetpal");
            int r = DFPgetpal(F1, pal);
            CK("DFPgetpal", r == FAIL);
            if (r != FAIL)
                OUT(pal, 768);
        }
        api("DFPnpals");
        int np = DFPnpals(F1);
        CK("DFPnpals", np == FAIL);
        if (np != FAIL)
            OUT(&np, sizeof np);
    }
}

static void
w_nbit_large(void)
{
    /* an n-bit data set whose packed stream (3000 x 12 bits = 4500 bytes) is longer than the 4096-byte buffer of the bit
       layer, so that part of it is handed to the file in the middle of the write */
    static int16 v[3000], r[3000];
    for (int i = 0; i < 3000; i++)
        v[i] = (int16)((i * 37 + 5) & 0x7ff);
    api("SDstart");
    int32 sd = SDstart(F1, DFACC_CREATE);
    CK("SDstart", sd == FAIL);
    if (sd == FAIL)
        return;
    int32 dims[1] = {3000}, st[1] = {0};
    api("SDcreate");
    int32 sds = SDcreate(sd, "packed", DFNT_INT16, 1, dims);
    CK("SDcreate", sds == FAIL);
    if (sds != FAIL) {
        api("SDsetnbitdataset");
        CK("SDsetnbitdataset", SDsetnbitdataset(sds, 11, 12, FALSE, FALSE) == FAIL);
        api("SDwritedata");
        CK("SDwritedata", SDwritedata(sds, st, NULL, dims, v) == FAIL);
        api("SDendaccess");
        CK("SDendaccess", SDendaccess(sds) == FAIL);
    }
    api("SDend");
    CK("SDend", SDend(sd) == FAIL);
    api("SDstart");
    sd = SDstart(F1, DFACC_READ);
    CK("SDstart", sd == FAIL);
    if (sd == FAIL)
        return;
    api("SDselect");
    sds = SDselect(sd, 0);
    CK("SDselect", sds == FAIL);
    if (sds != FAIL) {
        memset(r, 0, sizeof r);
        api("SDreaddata");
        int rc = SDreaddata(sds, st, NULL, dims, r);
        CK("SDreaddata", rc == FAIL);
        if (rc != FAIL)
            OUT(r, sizeof r);
        api("SDendaccess");
        CK("SDendaccess", SDendaccess(sds) == FAIL);
    }
    api("SDend");
    CK("SDend", SDend(sd) == FAIL);
}

typedef struct {
    const char *name;
    int         kind, arg1, arg2;
} wl_t;
static const wl_t WL[] = {
    {"H-basic(cache on,ndds 16)", 0, 1, 16}, {"H-basic(cache off,ndds 4)", 0, 0, 4}, {"H-basic(cache on,ndds 4)", 0, 1, 4},
    {"H-append+promote(cache on)", 1, 1, 0}, {"H-append+promote(cache off)", 1, 0, 0},
    {"H-linked", 2, 0, 0}, {"H-external", 2, 1, 0}, {"H-rle", 2, 2, 0}, {"H-deflate", 2, 3, 0},
    {"V-new", 3, 0, 0}, {"V-append-linked", 3, 1, 0},
    {"SD-contiguous", 4, 0, 0}, {"SD-unlimited", 4, 1, 0}, {"SD-chunked", 4, 2, 0}, {"SD-chunked+deflate", 4, 3, 0}, {"SD-deflate", 4, 4, 0}, {"SD-external", 4, 5, 0},
    {"GR-image+palette", 5, 0, 0}, {"GR-chunked", 5, 1, 0},
    {"AN", 6, 0, 0},
    {"H-reopen-rdwr(cache on)", 7, 1, 0}, {"H-reopen-rdwr(cache off)", 7, 0, 0},
    {"V-attrs+20-members", 8, 0, 0},
    {"SD-rle", 4, 6, 0}, {"SD-skphuff", 4, 7, 0}, {"SD-nbit", 4, 8, 0}, {"SD-nbit-signext", 4, 9, 0},
    {"GR-rle", 5, 2, 0}, {"GR-deflate", 5, 3, 0},
    {"SD-nbit-large", 10, 0, 0},
    {"DFR8", 9, 0, 0}, {"DF24", 9, 1, 0}, {"DFSD", 9, 2, 0}, {"DFAN", 9, 3, 0}, {"DFP", 9, 4, 0},
};
#define NWL ((int)(sizeof WL / sizeof WL[0]))

static void
run_workload(int w)
{
    any_fail = 0;
    outdig   = MC_H0;
    cur_api  = "";
    fault_api2 = NULL;
    phase_done = phase_fail = 0;
    phase_fired = 0;
    phase_hash  = 0;
    fault_api = NULL;
    first_fail_api[0] = 0;
    vfs_remove_file(F1);
    vfs_remove_file(FX);
    Hcache(CACHE_ALL_FILES, 1);
    switch (WL[w].kind) {
        case 0: w_h_basic(WL[w].arg1, WL[w].arg2); break;
        case 1: w_h_append_promote(WL[w].arg1); break;
        case 2: w_h_special(WL[w].arg1); break;
        case 3: w_v(WL[w].arg1); break;
        case 4: w_sd(WL[w].arg1); break;
        case 5: w_gr(WL[w].arg1); break;
        case 6: w_an(); break;
        case 7: w_h_reopen(WL[w].arg1); break;
        case 8: w_v_attrs(); break;
        case 9: w_legacy(WL[w].arg1); break;
        case 10: w_nbit_large(); break;
    }
    api("(end)");
}

/* ---------------------------------------------------------------- plan */
typedef struct {
    int  w;
    long k;
    int  variant, sticky, kind;
    long k2; /* -1, or the index of a second, independent plain failure (thorough tier) */
} plan_t;
static plan_t *plans;
static long    nplans;
static struct {
    long     ncalls;
    uint64_t outdig, filehash, phasehash;
    int      phase_done;
} ref[64];
static long pair_last_k2[64]; /* largest second index enumerated per workload */
#define PAIR_SLACK 12

static void
run_plan(long idx, void *ctx)
{
    (void)ctx;
    plan_t *p      = &plans[idx];
    int     cfg[5] = {p->w, (int)p->k, p->variant, p->sticky, (int)p->k2};
    mc_set_config(cfg, 5, "workload=%s", WL[p->w].name);
    if (p->k2 >= 0)
        mc_set_case("workload %s: stdio call #%ld (%s) fails (%s) and call #%ld of that run fails too", WL[p->w].name, p->k, vfs_kind_name[p->kind],
                    p->variant ? "short count" : "error", p->k2);
    else
        mc_set_case("workload %s: stdio call #%ld (%s) fails (%s%s)", WL[p->w].name, p->k, vfs_kind_name[p->kind],
                    p->variant ? "short count" : "error", p->sticky ? ", and every later call" : "");
    vfs_fault_set(p->k, p->variant, p->sticky, 0);
    if (p->k2 >= 0)
        vfs_fault_set2(p->k2);
    long uac0 = vfs_use_after_close;
    int  asan0 = mc_asan_seen();
    run_workload(p->w);
    long fired = vfs_fault.fired, fired2 = vfs_fault.fired2, ncalls = vfs_ncalls;
    vfs_fault_clear();
    if (p->k2 >= 0) {
        if (!fired2) {
            /* the run ended before call #k2: nothing new compared with the single-fault run */
            mc_count("pair_second_fault_not_reached", 1);
            if (p->k2 == pair_last_k2[p->w] && ncalls > p->k2)
                mc_count("pair_horizon_too_short", 1); /* never expected: reported as not exhaustive */
            return;
        }
        mc_count("pair_both_faults_fired", 1);
    }
    char sig[200];
    if (vfs_use_after_close != uac0) {
        snprintf(sig, sizeof sig, "use-after-close:%s:%s", vfs_kind_name[p->kind], fault_api ? fault_api : "?");
        mc_violation(sig, "%s (fault fired during %s)", vfs_last_event, fault_api ? fault_api : "?");
    }
    (void)asan0;
    if (!fired) {
        mc_count("plans_fault_not_reached", 1);
        return;
    }
    uint64_t fh = vfs_hash_all();
    if (phase_done && ref[p->w].phase_done && phase_fired > 0 && !phase_fail && phase_hash != ref[p->w].phasehash) {
        snprintf(sig, sizeof sig, "silent-until-first-close:%s:%s@%s", fault_api ? fault_api : "?", vfs_kind_name[p->kind], WL[p->w].name);
        mc_violation(sig, "every API call up to and including the first close of the file reported success although the injected failure had fired (during %s), "
                          "and the file then differs from the fault-free run at the same point",
                     fault_api ? fault_api : "?");
        return;
    }
    if (any_fail) {
        mc_count("runs_failure_reported", 1);
        mc_outcome(mc_hash(mc_hash_i(MC_H0, p->w), first_fail_api, strlen(first_fail_api)));
        return;
    }
    if (outdig == ref[p->w].outdig && fh == ref[p->w].filehash) {
        mc_count("runs_masked_harmless", 1);
        mc_outcome(mc_hash_i(mc_hash_i(MC_H0, p->w), 999));
        return;
    }
    /* with two faults the outcome is named after both calls they fired in */
    if (p->k2 >= 0 && fault_api2)
        snprintf(sig, sizeof sig, "silent:%s+%s:two-faults%s@%s", fault_api ? fault_api : "?", fault_api2, outdig != ref[p->w].outdig ? ":wrong-output" : ":wrong-file",
                 WL[p->w].name);
    else
        snprintf(sig, sizeof sig, "silent:%s:%s%s@%s", fault_api ? fault_api : "?", vfs_kind_name[p->kind], outdig != ref[p->w].outdig ? ":wrong-output" : ":wrong-file",
                 WL[p->w].name);
    mc_violation(sig, "every API call including the close reported success, but %s differ from the fault-free run (fault fired during %s)",
                 outdig != ref[p->w].outdig ? "the data returned to the caller" : "the final file bytes", fault_api ? fault_api : "?");
}

static void
probe_ref(long w, void *ctx)
{
    /* fault-free reference runs happen in the parent (they only touch /vmem and library state which the forked
       children get fresh copies of) */
    (void)w;
    (void)ctx;
}

int
C16_main(const char *tier, const char *replay)
{
    int thorough = strcmp(tier, "thorough") == 0;
    (void)probe_ref;
    if (replay) {
        int   cfg[32], ncfg, nops;
        mc_op ops[4];
        if (mc_load_replay(replay, cfg, &ncfg, ops, &nops, 4) || ncfg < 4)
            return 2;
        /* reference first, in a child-less way: run it, record, then the faulted run */
        run_workload(cfg[0]);
        ref[cfg[0]].outdig     = outdig;
        ref[cfg[0]].filehash   = vfs_hash_all();
        ref[cfg[0]].phasehash  = phase_hash;
        ref[cfg[0]].phase_done = phase_done;
        printf("replay C16: workload %s, call #%d, variant %d, sticky %d (fault-free run: any_fail=%d)\n", WL[cfg[0]].name, cfg[1], cfg[2], cfg[3], any_fail);
        static plan_t one;
        one    = (plan_t){cfg[0], cfg[1], cfg[2], cfg[3], 0, ncfg >= 5 ? cfg[4] : -1};
        plans  = &one;
        nplans = 1;
        run_plan(0, NULL);
        printf("faulted run: any_fail=%d first failing call=%s fault fired during=%s\n", any_fail, first_fail_api, fault_api ? fault_api : "-");
        return 0;
    }
    /* fault-free reference runs: each in a child process that reports through a pipe-less trick: we run them in
       this process but snapshot/restore nothing - the library is left clean because every workload closes what it opened */
    long cap = 0;
    for (int w = 0; w < NWL; w++) {
        vfs_fault_set(-1, 0, 0, 0);
        vfs_kind_trace_start();
        run_workload(w);
        if (any_fail) {
            mc_harness_error("workload %s fails without any fault (first failing call %s)", WL[w].name, first_fail_api);
            return 0;
        }
        ref[w].ncalls     = vfs_ncalls;
        ref[w].outdig     = outdig;
        ref[w].filehash   = vfs_hash_all();
        ref[w].phasehash  = phase_hash;
        ref[w].phase_done = phase_done;
        /* determinism: the same workload again must give the same digests */
        run_workload(w);
        if (outdig != ref[w].outdig || vfs_hash_all() != ref[w].filehash) {
            mc_harness_error("workload %s is not deterministic", WL[w].name);
            return 0;
        }
        vfs_fault_set(-1, 0, 0, 0);
        vfs_kind_trace_start();
        run_workload(w);
        for (long k = 0; k < ref[w].ncalls; k++) {
            int kind = vfs_kind_trace[k];
            int nvar = (kind == VK_FREAD || kind == VK_FWRITE) ? 2 : 1;
            for (int v = 0; v < nvar; v++)
                for (int st = 0; st < 2; st++) {
                    if (nplans + 1 > cap) {
                        cap   = cap ? cap * 2 : 4096;
                        plans = realloc(plans, (size_t)cap * sizeof *plans);
                    }
                    plans[nplans++] = (plan_t){w, k, v, st, kind, -1};
                }
        }
        mc_sample("workload %s: %ld stdio calls in the fault-free run", WL[w].name, ref[w].ncalls);
        mc_count("stdio_calls_total", ref[w].ncalls);
    }
    mc_round_begin("single fault at every call index x variant x {single,sticky}");
    mc_foreach(nplans, run_plan, NULL, 1, 60);
    mc_round_end();
    mc_count("evaluations", nplans);
    if (thorough && !mc_deadline_hit()) {
        /* deviation bound 2: a first failure at k1 (error, or short count), then a second plain failure at every
           later index k2 of THAT run; k2 runs to the fault-free length + slack, and the run at the largest k2 shows
           (pair_horizon_too_short == 0) that no faulted run is longer than what was enumerated */
        long n1 = nplans, npairs = 0;
        for (long i = 0; i < n1; i++) {
            plan_t p = plans[i];
            if (p.sticky)
                continue;
            long last = ref[p.w].ncalls + PAIR_SLACK;
            pair_last_k2[p.w] = last;
            for (long k2 = p.k + 1; k2 <= last; k2++) {
                if (nplans + 1 > cap) {
                    cap   = cap * 2;
                    plans = realloc(plans, (size_t)cap * sizeof *plans);
                }
                p.k2            = k2;
                plans[nplans++] = p;
                npairs++;
            }
        }
        /* move the pair plans to the front so that mc_foreach indexes them directly */
        memmove(plans, plans + n1, (size_t)npairs * sizeof *plans);
        nplans = npairs;
        mc_round_begin("two faults: every (k1, variant) x every later index k2 of the faulted run");
        mc_foreach(nplans, run_plan, NULL, 1, 60);
        mc_round_end();
        mc_count("evaluations", nplans);
        if (mc_get("pair_horizon_too_short"))
            mc_harness_error("a doubly faulted run was longer than the enumerated horizon: raise PAIR_SLACK");
    }
    mc_rule("%d workloads (H basic / append+promotion / linked / external / RLE / deflate, Vdata+Vgroup incl. linked-block append, SD contiguous / "
            "unlimited / chunked / chunked+deflate / deflate / external, GR image+palette / chunked, AN); for every index k of a stdio call in the "
            "fault-free run, every applicable failure (error return; additionally short count for fread/fwrite) as a single fault and as a sticky fault. "
            "%s distinct = distinct (workload, first API call that reported the failure) outcomes.",
            NWL, thorough ? "Thorough: additionally every pair of faults (first as before, second a plain failure at every later call index of the faulted run)." : "");
    return 0;
}
