/* C16 - I/O failures are reported, never silently swallowed, never corrupt memory.
 * For each workload: a fault-free run yields the indexed list of stdio calls; then for EVERY index k, every
 * applicable fault variant and {single, sticky} the workload is re-run in a fresh process with the k-th call failing.
 * Oracle: no crash / ASan report / use of a closed stream / hang; and if every API call reported success then all
 * outputs and the final file bytes equal the fault-free run. */
#include "../engine/mc.h"
#include "../engine/vfs.h"
#include "hdf.h"
#include "mfhdf.h"
#include <stdio.h>
#include <stdlib.h>
#include <string.h>

#define F1 "/vmem/c16.hdf"
#define FX "/vmem/c16.ext"

/* ---------------------------------------------------------------- run record */
static int         any_fail;      /* some API call returned its failure value */
static uint64_t    outdig;        /* digest of every output buffer of successful read calls */
static const char *cur_api = "";
static const char *fault_api;     /* API call during which the injected fault first fired */
static char        first_fail_api[40];

static void
api(const char *name)
{
    if (vfs_fault.fired && !fault_api)
        fault_api = cur_api; /* fired during the previous call */
    cur_api = name;
}
#define CK(name, failcond)                                                                                                           \
    do {                                                                                                                             \
        if (failcond) {                                                                                                              \
            if (!any_fail)                                                                                                           \
                snprintf(first_fail_api, sizeof first_fail_api, "%s", name);                                                         \
            any_fail = 1;                                                                                                            \
        }                                                                                                                            \
    } while (0)
#define OUT(p, n) (outdig = mc_hash(outdig, (p), (size_t)(n)))

static void
fill(uint8 *d, int n, int seed)
{
    for (int i = 0; i < n; i++)
        d[i] = (uint8)(seed * 31 + i * 7 + 3);
}

/* ---------------------------------------------------------------- workloads */
static void
w_h_basic(int cache, int ndds)
{
    uint8 d[64];
    api("Hopen");
    int32 fid = Hopen(F1, DFACC_CREATE, (int16)ndds);
    CK("Hopen", fid == FAIL);
    if (fid == FAIL)
        return;
    if (!cache) {
        api("Hcache");
        CK("Hcache", Hcache(fid, 0) == FAIL);
    }
    for (int i = 0; i < 6; i++) {
        fill(d, 10, i);
        api("Hputelement");
        CK("Hputelement", Hputelement(fid, 300, (uint16)(i + 1), d, 10) != 10);
    }
    api("Hsync");
    CK("Hsync", Hsync(fid) == FAIL);
    for (int i = 0; i < 6; i += 2) {
        memset(d, 0, sizeof d);
        api("Hgetelement");
        int32 r = Hgetelement(fid, 300, (uint16)(i + 1), d);
        CK("Hgetelement", r == FAIL);
        if (r != FAIL)
            OUT(d, 10);
    }
    api("Hdeldd");
    CK("Hdeldd", Hdeldd(fid, 300, 2) == FAIL);
    api("Hclose");
    CK("Hclose", Hclose(fid) == FAIL);
}

static void
w_h_append_promote(int cache)
{
    uint8 d[64];
    api("Hopen");
    int32 fid = Hopen(F1, DFACC_CREATE, 4);
    CK("Hopen", fid == FAIL);
    if (fid == FAIL)
        return;
    if (!cache) {
        api("Hcache");
        CK("Hcache", Hcache(fid, 0) == FAIL);
    }
    fill(d, 8, 1);
    api("Hputelement");
    CK("Hputelement", Hputelement(fid, 300, 1, d, 8) != 8);
    api("Hputelement");
    CK("Hputelement", Hputelement(fid, 300, 2, d, 5) != 5);
    /* element 1 is not last: growing it promotes it to linked blocks */
    api("Hstartaccess");
    int32 aid = Hstartaccess(fid, 300, 1, DFACC_WRITE | DFACC_APPENDABLE);
    CK("Hstartaccess", aid == FAIL);
    if (aid != FAIL) {
        api("HLsetblockinfo");
        HLsetblockinfo(aid, 4, 2);
        api("Hseek");
        CK("Hseek", Hseek(aid, 0, DF_END) == FAIL);
        fill(d, 11, 2);
        api("Hwrite");
        CK("Hwrite", Hwrite(aid, 11, d) != 11);
        api("Hendaccess");
        CK("Hendaccess", Hendaccess(aid) == FAIL);
    }
    /* element 2 is last: in-place append */
    api("Hstartaccess");
    aid = Hstartaccess(fid, 300, 2, DFACC_WRITE | DFACC_APPENDABLE);
    CK("Hstartaccess", aid == FAIL);
    if (aid != FAIL) {
        api("Hseek");
        CK("Hseek", Hseek(aid, 0, DF_END) == FAIL);
        api("Hwrite");
        CK("Hwrite", Hwrite(aid, 6, d) != 6);
        api("Hendaccess");
        CK("Hendaccess", Hendaccess(aid) == FAIL);
    }
    for (int r = 1; r <= 2; r++) {
        memset(d, 0, sizeof d);
        api("Hgetelement");
        int32 n = Hgetelement(fid, 300, (uint16)r, d);
        CK("Hgetelement", n == FAIL);
        if (n != FAIL)
            OUT(d, n);
    }
    api("Hclose");
    CK("Hclose", Hclose(fid) == FAIL);
}

static void
w_h_special(int kind)
{
    uint8 d[200];
    api("Hopen");
    int32 fid = Hopen(F1, DFACC_CREATE, 16);
    CK("Hopen", fid == FAIL);
    if (fid == FAIL)
        return;
    int32 aid = FAIL;
    if (kind == 0) {
        api("HLcreate");
        aid = HLcreate(fid, 300, 1, 5, 2);
        CK("HLcreate", aid == FAIL);
    }
    else if (kind == 1) {
        api("HXcreate");
        aid = HXcreate(fid, 300, 1, FX, 3, 0);
        CK("HXcreate", aid == FAIL);
    }
    else {
        comp_info  ci;
        model_info mi;
        memset(&ci, 0, sizeof ci);
        memset(&mi, 0, sizeof mi);
        ci.deflate.level = 6;
        api("HCcreate");
        aid = HCcreate(fid, 300, 1, COMP_MODEL_STDIO, &mi, kind == 2 ? COMP_CODE_RLE : COMP_CODE_DEFLATE, &ci);
        CK("HCcreate", aid == FAIL);
    }
    if (aid != FAIL) {
        for (int i = 0; i < 3; i++) {
            fill(d, 9, i);
            if (kind >= 2)
                memset(d + 2, 7, 5);
            api("Hwrite");
            CK("Hwrite", Hwrite(aid, 9, d) != 9);
        }
        api("Hendaccess");
        CK("Hendaccess", Hendaccess(aid) == FAIL);
    }
    api("Hclose");
    CK("Hclose", Hclose(fid) == FAIL);
    api("Hopen");
    fid = Hopen(F1, DFACC_READ, 0);
    CK("Hopen", fid == FAIL);
    if (fid == FAIL)
        return;
    api("Hstartread");
    aid = Hstartread(fid, 300, 1);
    CK("Hstartread", aid == FAIL);
    if (aid != FAIL) {
        memset(d, 0, sizeof d);
        api("Hread");
        int32 n = Hread(aid, 10, d);
        CK("Hread", n == FAIL);
        if (n != FAIL)
            OUT(d, n);
        api("Hread");
        n = Hread(aid, 0, d);
        CK("Hread", n == FAIL);
        if (n != FAIL)
            OUT(d, n);
        api("Hendaccess");
        CK("Hendaccess", Hendaccess(aid) == FAIL);
    }
    api("Hclose");
    CK("Hclose", Hclose(fid) == FAIL);
}

static void
w_v(int append)
{
    api("Hopen");
    int32 fid = Hopen(F1, DFACC_CREATE, 4);
    CK("Hopen", fid == FAIL);
    if (fid == FAIL)
        return;
    api("Vstart");
    CK("Vstart", Vstart(fid) == FAIL);
    api("VSattach");
    int32 vs = VSattach(fid, -1, "w");
    CK("VSattach", vs == FAIL);
    int32 vsref = 0;
    if (vs != FAIL) {
        api("VSsetname");
        CK("VSsetname", VSsetname(vs, "tbl") == FAIL);
        api("VSfdefine");
        CK("VSfdefine", VSfdefine(vs, "a", DFNT_INT16, 1) == FAIL);
        CK("VSfdefine", VSfdefine(vs, "b", DFNT_FLOAT32, 2) == FAIL);
        api("VSsetfields");
        CK("VSsetfields", VSsetfields(vs, "a,b") == FAIL);
        uint8 rec[3 * 10];
        fill(rec, sizeof rec, 4);
        api("VSwrite");
        CK("VSwrite", VSwrite(vs, rec, 3, FULL_INTERLACE) != 3);
        int32 v = 77;
        api("VSsetattr");
        CK("VSsetattr", VSsetattr(vs, _HDF_VDATA, "att", DFNT_INT32, 1, &v) == FAIL);
        vsref = VSQueryref(vs);
    }
    api("Vattach");
    int32 vg = Vattach(fid, -1, "w");
    CK("Vattach", vg == FAIL);
    if (vg != FAIL) {
        api("Vsetname");
        CK("Vsetname", Vsetname(vg, "grp") == FAIL);
        if (vs != FAIL) {
            api("Vinsert");
            CK("Vinsert", Vinsert(vg, vs) == FAIL);
        }
        api("Vaddtagref");
        CK("Vaddtagref", Vaddtagref(vg, 300, 9) == FAIL);
    }
    if (append && vs != FAIL) {
        /* something else lands behind the Vdata, then it grows: linked blocks */
        uint8 d[6] = {1, 2, 3, 4, 5, 6};
        api("Hputelement");
        CK("Hputelement", Hputelement(fid, 300, 9, d, 6) != 6);
        uint8 rec[2 * 10];
        fill(rec, sizeof rec, 9);
        api("VSseek");
        CK("VSseek", VSseek(vs, 3) == FAIL);
        api("VSwrite");
        CK("VSwrite", VSwrite(vs, rec, 2, FULL_INTERLACE) != 2);
    }
    if (vs != FAIL) {
        api("VSdetach");
        CK("VSdetach", VSdetach(vs) == FAIL);
    }
    if (vg != FAIL) {
        api("Vdetach");
        CK("Vdetach", Vdetach(vg) == FAIL);
    }
    api("Vend");
    CK("Vend", Vend(fid) == FAIL);
    api("Hclose");
    CK("Hclose", Hclose(fid) == FAIL);
    /* read back */
    api("Hopen");
    fid = Hopen(F1, DFACC_READ, 0);
    CK("Hopen", fid == FAIL);
    if (fid == FAIL)
        return;
    api("Vstart");
    CK("Vstart", Vstart(fid) == FAIL);
    api("VSattach");
    vs = vsref ? VSattach(fid, vsref, "r") : FAIL;
    CK("VSattach", vs == FAIL);
    if (vs != FAIL) {
        uint8 rec[8 * 10];
        memset(rec, 0, sizeof rec);
        api("VSsetfields");
        CK("VSsetfields", VSsetfields(vs, "a,b") == FAIL);
        api("VSread");
        int32 n = VSread(vs, rec, append ? 5 : 3, FULL_INTERLACE);
        CK("VSread", n == FAIL);
        if (n != FAIL)
            OUT(rec, n * 10);
        int32 v = 0;
        api("VSgetattr");
        int r = VSgetattr(vs, _HDF_VDATA, 0, &v);
        CK("VSgetattr", r == FAIL);
        if (r != FAIL)
            OUT(&v, 4);
        api("VSdetach");
        CK("VSdetach", VSdetach(vs) == FAIL);
    }
    api("Vend");
    CK("Vend", Vend(fid) == FAIL);
    api("Hclose");
    CK("Hclose", Hclose(fid) == FAIL);
}

static void
w_sd(int layout)
{
    /* layout: 0 contiguous, 1 unlimited, 2 chunked, 3 chunked+deflate, 4 compressed (deflate), 5 external */
    api("SDstart");
    int32 sd = SDstart(F1, DFACC_CREATE);
    CK("SDstart", sd == FAIL);
    if (sd == FAIL)
        return;
    int32 dims[2] = {layout == 1 ? SD_UNLIMITED : 4, 3};
    api("SDcreate");
    int32 sds = SDcreate(sd, "data", DFNT_INT16, 2, dims);
    CK("SDcreate", sds == FAIL);
    if (sds != FAIL) {
        if (layout == 2 || layout == 3) {
            HDF_CHUNK_DEF cd;
            memset(&cd, 0, sizeof cd);
            cd.comp.chunk_lengths[0]         = 3;
            cd.comp.chunk_lengths[1]         = 2;
            cd.comp.comp_type                = COMP_CODE_DEFLATE;
            cd.comp.cinfo.deflate.level      = 6;
            api("SDsetchunk");
            CK("SDsetchunk", SDsetchunk(sds, cd, layout == 3 ? (HDF_CHUNK | HDF_COMP) : HDF_CHUNK) == FAIL);
        }
        else if (layout == 4) {
            comp_info ci;
            memset(&ci, 0, sizeof ci);
            ci.deflate.level = 6;
            api("SDsetcompress");
            CK("SDsetcompress", SDsetcompress(sds, COMP_CODE_DEFLATE, &ci) == FAIL);
        }
        else if (layout == 5) {
            api("SDsetexternalfile");
            CK("SDsetexternalfile", SDsetexternalfile(sds, FX, 0) == FAIL);
        }
        api("SDsetattr");
        float32 a[2] = {1.5f, -2.0f};
        CK("SDsetattr", SDsetattr(sds, "cal", DFNT_FLOAT32, 2, a) == FAIL);
        api("SDsetdimname");
        int32 dim = SDgetdimid(sds, 1);
        CK("SDsetdimname", dim == FAIL || SDsetdimname(dim, "x") == FAIL);
        int16 scale[3] = {10, 20, 30};
        api("SDsetdimscale");
        CK("SDsetdimscale", dim == FAIL || SDsetdimscale(dim, 3, DFNT_INT16, scale) == FAIL);
        int16 v[12];
        for (int i = 0; i < 12; i++)
            v[i] = (int16)(100 + i);
        int32 st[2] = {0, 0}, cnt[2] = {4, 3};
        api("SDwritedata");
        CK("SDwritedata", SDwritedata(sds, st, NULL, cnt, v) == FAIL);
        api("SDendaccess");
        CK("SDendaccess", SDendaccess(sds) == FAIL);
    }
    api("SDsetattr(file)");
    CK("SDsetattr(file)", SDsetattr(sd, "title", DFNT_CHAR8, 5, "hello") == FAIL);
    api("SDend");
    CK("SDend", SDend(sd) == FAIL);
    /* reopen, extend/overwrite, read */
    api("SDstart");
    sd = SDstart(F1, DFACC_RDWR);
    CK("SDstart", sd == FAIL);
    if (sd == FAIL)
        return;
    api("SDselect");
    sds = SDselect(sd, 0);
    CK("SDselect", sds == FAIL);
    if (sds != FAIL) {
        int16 w[3] = {-1, -2, -3};
        int32 st[2] = {layout == 1 ? 5 : 2, 0}, cnt[2] = {1, 3};
        if (layout != 4) { /* rewriting inside a compressed non-chunked dataset is not a supported operation */
            api("SDwritedata");
            CK("SDwritedata", SDwritedata(sds, st, NULL, cnt, w) == FAIL);
        }
        int16 r[24];
        memset(r, 0, sizeof r);
        int32 st0[2] = {0, 0}, cn0[2] = {layout == 1 ? 6 : 4, 3};
        api("SDreaddata");
        int rc = SDreaddata(sds, st0, NULL, cn0, r);
        CK("SDreaddata", rc == FAIL);
        if (rc != FAIL)
            OUT(r, cn0[0] * 3 * 2);
        float32 a[2] = {0, 0};
        api("SDreadattr");
        rc = SDreadattr(sds, 0, a);
        CK("SDreadattr", rc == FAIL);
        if (rc != FAIL)
            OUT(a, sizeof a);
        api("SDendaccess");
        CK("SDendaccess", SDendaccess(sds) == FAIL);
    }
    api("SDend");
    CK("SDend", SDend(sd) == FAIL);
}

static void
w_gr(int chunked)
{
    api("Hopen");
    int32 fid = Hopen(F1, DFACC_CREATE, 16);
    CK("Hopen", fid == FAIL);
    if (fid == FAIL)
        return;
    api("GRstart");
    int32 gr = GRstart(fid);
    CK("GRstart", gr == FAIL);
    if (gr != FAIL) {
        int32 dims[2] = {4, 3};
        api("GRcreate");
        int32 ri = GRcreate(gr, "img", 3, DFNT_UINT8, MFGR_INTERLACE_PIXEL, dims);
        CK("GRcreate", ri == FAIL);
        if (ri != FAIL) {
            if (chunked) {
                HDF_CHUNK_DEF cd;
                memset(&cd, 0, sizeof cd);
                cd.chunk_lengths[0] = 2;
                cd.chunk_lengths[1] = 2;
                api("GRsetchunk");
                CK("GRsetchunk", GRsetchunk(ri, cd, HDF_CHUNK) == FAIL);
            }
            uint8 pix[36];
            fill(pix, 36, 5);
            int32 st[2] = {0, 0};
            api("GRwriteimage");
            CK("GRwriteimage", GRwriteimage(ri, st, NULL, dims, pix) == FAIL);
            uint8 pal[768];
            fill(pal, 768, 6);
            api("GRgetlutid");
            int32 lut = GRgetlutid(ri, 0);
            CK("GRgetlutid", lut == FAIL);
            if (lut != FAIL) {
                api("GRwritelut");
                CK("GRwritelut", GRwritelut(lut, 3, DFNT_UINT8, MFGR_INTERLACE_PIXEL, 256, pal) == FAIL);
            }
            int32 av = 5;
            api("GRsetattr");
            CK("GRsetattr", GRsetattr(ri, "k", DFNT_INT32, 1, &av) == FAIL);
            api("GRendaccess");
            CK("GRendaccess", GRendaccess(ri) == FAIL);
        }
        api("GRend");
        CK("GRend", GRend(gr) == FAIL);
    }
    api("Hclose");
    CK("Hclose", Hclose(fid) == FAIL);
    api("Hopen");
    fid = Hopen(F1, DFACC_READ, 0);
    CK("Hopen", fid == FAIL);
    if (fid == FAIL)
        return;
    api("GRstart");
    gr = GRstart(fid);
    CK("GRstart", gr == FAIL);
    if (gr != FAIL) {
        api("GRselect");
        int32 ri = GRselect(gr, 0);
        CK("GRselect", ri == FAIL);
        if (ri != FAIL) {
            uint8 pix[36];
            memset(pix, 0, sizeof pix);
            int32 st[2] = {0, 0}, dims[2] = {4, 3};
            api("GRreadimage");
            int rc = GRreadimage(ri, st, NULL, dims, pix);
            CK("GRreadimage", rc == FAIL);
            if (rc != FAIL)
                OUT(pix, 36);
            uint8 pal[768];
            memset(pal, 0, sizeof pal);
            int32 lut = GRgetlutid(ri, 0);
            api("GRreadlut");
            rc = lut == FAIL ? FAIL : GRreadlut(lut, pal);
            CK("GRreadlut", rc == FAIL);
            if (rc != FAIL)
                OUT(pal, 768);
            api("GRendaccess");
            CK("GRendaccess", GRendaccess(ri) == FAIL);
        }
        api("GRend");
        CK("GRend", GRend(gr) == FAIL);
    }
    api("Hclose");
    CK("Hclose", Hclose(fid) == FAIL);
}

static void
w_an(void)
{
    api("Hopen");
    int32 fid = Hopen(F1, DFACC_CREATE, 4);
    CK("Hopen", fid == FAIL);
    if (fid == FAIL)
        return;
    api("ANstart");
    int32 an = ANstart(fid);
    CK("ANstart", an == FAIL);
    if (an != FAIL) {
        api("ANcreatef");
        int32 a = ANcreatef(an, AN_FILE_LABEL);
        CK("ANcreatef", a == FAIL);
        if (a != FAIL) {
            api("ANwriteann");
            CK("ANwriteann", ANwriteann(a, "label one", 9) == FAIL);
            api("ANendaccess");
            CK("ANendaccess", ANendaccess(a) == FAIL);
        }
        api("ANcreate");
        a = ANcreate(an, 300, 1, AN_DATA_DESC);
        CK("ANcreate", a == FAIL);
        if (a != FAIL) {
            api("ANwriteann");
            CK("ANwriteann", ANwriteann(a, "a longer description", 20) == FAIL);
            api("ANwriteann");
            CK("ANwriteann", ANwriteann(a, "short", 5) == FAIL);
            api("ANendaccess");
            CK("ANendaccess", ANendaccess(a) == FAIL);
        }
        int32 list[4];
        api("ANannlist");
        int n = ANannlist(an, AN_DATA_DESC, 300, 1, list);
        CK("ANannlist", n == FAIL);
        if (n > 0) {
            char txt[32];
            memset(txt, 0, sizeof txt);
            api("ANreadann");
            int rc = ANreadann(list[0], txt, 31);
            CK("ANreadann", rc == FAIL);
            if (rc != FAIL)
                OUT(txt, 31);
        }
        api("ANend");
        CK("ANend", ANend(an) == FAIL);
    }
    api("Hclose");
    CK("Hclose", Hclose(fid) == FAIL);
}

typedef struct {
    const char *name;
    int         kind, arg1, arg2;
} wl_t;
static const wl_t WL[] = {
    {"H-basic(cache on,ndds 16)", 0, 1, 16}, {"H-basic(cache off,ndds 4)", 0, 0, 4}, {"H-basic(cache on,ndds 4)", 0, 1, 4},
    {"H-append+promote(cache on)", 1, 1, 0}, {"H-append+promote(cache off)", 1, 0, 0},
    {"H-linked", 2, 0, 0}, {"H-external", 2, 1, 0}, {"H-rle", 2, 2, 0}, {"H-deflate", 2, 3, 0},
    {"V-new", 3, 0, 0}, {"V-append-linked", 3, 1, 0},
    {"SD-contiguous", 4, 0, 0}, {"SD-unlimited", 4, 1, 0}, {"SD-chunked", 4, 2, 0}, {"SD-chunked+deflate", 4, 3, 0}, {"SD-deflate", 4, 4, 0}, {"SD-external", 4, 5, 0},
    {"GR-image+palette", 5, 0, 0}, {"GR-chunked", 5, 1, 0},
    {"AN", 6, 0, 0},
};
#define NWL ((int)(sizeof WL / sizeof WL[0]))

static void
run_workload(int w)
{
    any_fail = 0;
    outdig   = MC_H0;
    cur_api  = "";
    fault_api = NULL;
    first_fail_api[0] = 0;
    vfs_remove_file(F1);
    vfs_remove_file(FX);
    Hcache(CACHE_ALL_FILES, 1);
    switch (WL[w].kind) {
        case 0: w_h_basic(WL[w].arg1, WL[w].arg2); break;
        case 1: w_h_append_promote(WL[w].arg1); break;
        case 2: w_h_special(WL[w].arg1); break;
        case 3: w_v(WL[w].arg1); break;
        case 4: w_sd(WL[w].arg1); break;
        case 5: w_gr(WL[w].arg1); break;
        case 6: w_an(); break;
    }
    api("(end)");
}

/* ---------------------------------------------------------------- plan */
typedef struct {
    int  w;
    long k;
    int  variant, sticky, kind;
} plan_t;
static plan_t *plans;
static long    nplans;
static struct {
    long     ncalls;
    uint64_t outdig, filehash;
} ref[64];

static void
run_plan(long idx, void *ctx)
{
    (void)ctx;
    plan_t *p      = &plans[idx];
    int     cfg[4] = {p->w, (int)p->k, p->variant, p->sticky};
    mc_set_config(cfg, 4, "workload=%s", WL[p->w].name);
    mc_set_case("workload %s: stdio call #%ld (%s) fails (%s%s)", WL[p->w].name, p->k, vfs_kind_name[p->kind],
                p->variant ? "short count" : "error", p->sticky ? ", and every later call" : "");
    vfs_fault_set(p->k, p->variant, p->sticky, 0);
    long uac0 = vfs_use_after_close;
    int  asan0 = mc_asan_seen();
    run_workload(p->w);
    long fired = vfs_fault.fired;
    vfs_fault_clear();
    char sig[200];
    if (vfs_use_after_close != uac0) {
        snprintf(sig, sizeof sig, "use-after-close:%s:%s", vfs_kind_name[p->kind], fault_api ? fault_api : "?");
        mc_violation(sig, "%s (fault fired during %s)", vfs_last_event, fault_api ? fault_api : "?");
    }
    (void)asan0;
    if (!fired) {
        mc_count("plans_fault_not_reached", 1);
        return;
    }
    uint64_t fh = vfs_hash_all();
    if (any_fail) {
        mc_count("runs_failure_reported", 1);
        mc_outcome(mc_hash(mc_hash_i(MC_H0, p->w), first_fail_api, strlen(first_fail_api)));
        return;
    }
    if (outdig == ref[p->w].outdig && fh == ref[p->w].filehash) {
        mc_count("runs_masked_harmless", 1);
        mc_outcome(mc_hash_i(mc_hash_i(MC_H0, p->w), 999));
        return;
    }
    snprintf(sig, sizeof sig, "silent:%s:%s%s@%s", fault_api ? fault_api : "?", vfs_kind_name[p->kind], outdig != ref[p->w].outdig ? ":wrong-output" : ":wrong-file",
             WL[p->w].name);
    mc_violation(sig, "every API call including the close reported success, but %s differ from the fault-free run (fault fired during %s)",
                 outdig != ref[p->w].outdig ? "the data returned to the caller" : "the final file bytes", fault_api ? fault_api : "?");
}

static void
probe_ref(long w, void *ctx)
{
    /* fault-free reference runs happen in the parent (they only touch /vmem and library state which the forked
       children get fresh copies of) */
    (void)w;
    (void)ctx;
}

int
C16_main(const char *tier, const char *replay)
{
    int thorough = strcmp(tier, "thorough") == 0;
    (void)probe_ref;
    if (replay) {
        int   cfg[32], ncfg, nops;
        mc_op ops[4];
        if (mc_load_replay(replay, cfg, &ncfg, ops, &nops, 4) || ncfg < 4)
            return 2;
        /* reference first, in a child-less way: run it, record, then the faulted run */
        run_workload(cfg[0]);
        ref[cfg[0]].outdig   = outdig;
        ref[cfg[0]].filehash = vfs_hash_all();
        printf("replay C16: workload %s, call #%d, variant %d, sticky %d (fault-free run: any_fail=%d)\n", WL[cfg[0]].name, cfg[1], cfg[2], cfg[3], any_fail);
        static plan_t one;
        one    = (plan_t){cfg[0], cfg[1], cfg[2], cfg[3], 0};
        plans  = &one;
        nplans = 1;
        run_plan(0, NULL);
        printf("faulted run: any_fail=%d first failing call=%s fault fired during=%s\n", any_fail, first_fail_api, fault_api ? fault_api : "-");
        return 0;
    }
    /* fault-free reference runs: each in a child process that reports through a pipe-less trick: we run them in
       this process but snapshot/restore nothing - the library is left clean because every workload closes what it opened */
    long cap = 0;
    for (int w = 0; w < NWL; w++) {
        vfs_fault_set(-1, 0, 0, 0);
        vfs_kind_trace_start();
        run_workload(w);
        if (any_fail) {
            mc_harness_error("workload %s fails without any fault (first failing call %s)", WL[w].name, first_fail_api);
            return 0;
        }
        ref[w].ncalls   = vfs_ncalls;
        ref[w].outdig   = outdig;
        ref[w].filehash = vfs_hash_all();
        /* determinism: the same workload again must give the same digests */
        run_workload(w);
        if (outdig != ref[w].outdig || vfs_hash_all() != ref[w].filehash) {
            mc_harness_error("workload %s is not deterministic", WL[w].name);
            return 0;
        }
        vfs_fault_set(-1, 0, 0, 0);
        vfs_kind_trace_start();
        run_workload(w);
        for (long k = 0; k < ref[w].ncalls; k++) {
            int kind = vfs_kind_trace[k];
            int nvar = (kind == VK_FREAD || kind == VK_FWRITE) ? 2 : 1;
            for (int v = 0; v < nvar; v++)
                for (int st = 0; st < 2; st++) {
                    if (nplans + 1 > cap) {
                        cap   = cap ? cap * 2 : 4096;
                        plans = realloc(plans, (size_t)cap * sizeof *plans);
                    }
                    plans[nplans++] = (plan_t){w, k, v, st, kind};
                }
        }
        mc_sample("workload %s: %ld stdio calls in the fault-free run", WL[w].name, ref[w].ncalls);
        mc_count("stdio_calls_total", ref[w].ncalls);
    }
    (void)thorough;
    mc_round_begin("single fault at every call index x variant x {single,sticky}");
    mc_foreach(nplans, run_plan, NULL, 1, 60);
    mc_round_end();
    mc_count("evaluations", nplans);
    mc_rule("%d workloads (H basic / append+promotion / linked / external / RLE / deflate, Vdata+Vgroup incl. linked-block append, SD contiguous / "
            "unlimited / chunked / chunked+deflate / deflate / external, GR image+palette / chunked, AN); for every index k of a stdio call in the "
            "fault-free run, every applicable failure (error return; additionally short count for fread/fwrite) as a single fault and as a sticky fault. "
            "distinct = distinct (workload, first API call that reported the failure) outcomes.",
            NWL);
    return 0;
}
