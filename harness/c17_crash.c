/* C17 - a crash while adding objects never damages what was already in the file.
 * For each (base file, append-only session): record the ordered log of physical writes, then for EVERY prefix
 * of that log materialise the file image and, in a pristine process, open it, validate it with the independent
 * reader and read every pre-existing object back. */
#include "../engine/mc.h"
#include "../engine/vfs.h"
#include "../engine/fmtcheck.h"
#include "hdf.h"
#include "mfhdf.h"
#include <stdio.h>
#include <stdlib.h>
#include <string.h>
#include <sys/wait.h>
#include <unistd.h>

#define PATH "/vmem/c17.hdf"
#define BASECOPY "/vmem/c17.base"
#define IMG "/vmem/c17.img"
#define BTAG 200

enum { S_H, S_HSYNC, S_V, S_SD, S_GR, S_AN, S_HSPEC, S_VATTR, S_SDCHUNK, S_GRPAL, S_HNEWREF, S_HPROMOTE, S_HUSER, S_NSESS };
static const char *sessname[] = {"H-elements", "H-elements+midsync", "Vdata+Vgroup", "new-SDS", "new-GR-image", "annotations",
                                 "H-linked+compressed-elements", "Vdata+Vgroup-with-attributes", "new-chunked+unlimited-SDS", "new-GR-image+palette+attribute",
                                 "H-elements-under-Hnewref-numbers", "H-new-appendable-element-promoted-after-Hsync",
                                 "H-elements-under-user-defined-tags"};

/* ------------------------------------------------------------ flush bookkeeping */
#define MAXSEQ 512
static unsigned char seq_is_flush[MAXSEQ];
static char          seq_name[MAXSEQ][24];
#define API(name, flush)                                                                                                             \
    do {                                                                                                                             \
        vfs_api_seq++;                                                                                                               \
        if (vfs_api_seq < MAXSEQ) {                                                                                                  \
            seq_is_flush[vfs_api_seq] = (flush);                                                                                     \
            snprintf(seq_name[vfs_api_seq], sizeof seq_name[0], "%s", name);                                                         \
        }                                                                                                                            \
    } while (0)

/* ------------------------------------------------------------ base files */
#define NUSERBASE 4
static const uint16 USERBASE[NUSERBASE][2] = {{0x8005, 1}, {0x8005, 2}, {0x9100, 2}, {0xB0F0, 5}};
/* what the user-tag session adds: the same numbers with bit 0x4000 set (different tags, so different objects), and others */
#define NUSERNEW 6
static const uint16 USERNEW[NUSERNEW][2] = {{0xC005, 2}, {0xF0F0, 5}, {0xD100, 2}, {0x8006, 1}, {0xC005, 1}, {0xEABC, 7}};
/* nbase plain elements; mixed!=0 adds a Vdata in a Vgroup, an SDS with attribute, a GR image and annotations */
static int
build_base(int ndds, int nbase, int mixed)
{
    vfs_remove_file(PATH);
    if (mixed == 1) {
        /* SD first (creates the file with the requested DD block size through Hopen is not possible: SDstart uses its own),
           so create with Hopen, close, then add through the other interfaces */
    }
    int32 fid = Hopen(PATH, DFACC_CREATE, (int16)ndds);
    if (fid == FAIL)
        return -1;
    for (int j = 0; j < nbase; j++) {
        /* mixed == 3: the elements are created in descending order of their reference numbers */
        int   i = mixed == 3 ? nbase - 1 - j : j;
        uint8 d[8];
        for (int k = 0; k < 6; k++)
            d[k] = (uint8)(0x40 + i * 8 + k);
        if (Hputelement(fid, BTAG, (uint16)(i + 1), d, 6) != 6)
            return -1;
    }
    if (mixed == 3) {
        /* ... and the highest reference number there is is in use (applications may choose their own), so that new numbers
           have to be searched for */
        uint8 d[4] = {1, 2, 3, 4};
        if (Hputelement(fid, 322, 65535, d, 4) != 4)
            return -1;
    }
    if (mixed == 4) {
        /* elements under user-defined tags (0x8000 and above; bit 0x4000 has no meaning there) */
        for (int k = 0; k < NUSERBASE; k++) {
            uint8 d[4] = {(uint8)(0x90 + k), 2, 3, 4};
            if (Hputelement(fid, USERBASE[k][0], USERBASE[k][1], d, 4) != 4)
                return -1;
        }
    }
    if (mixed == 2) {
        /* aliases (descriptors without data of their own) until a new descriptor block has been started: that block is then
           the last thing in the file */
        for (int j = 0; j <= ndds; j++)
            if (Hdupdd(fid, BTAG, (uint16)(200 + j), BTAG, 1) == FAIL)
                return -1;
    }
    if (mixed == 1) {
        Vstart(fid);
        int32 vs = VSattach(fid, -1, "w");
        VSsetname(vs, "basevd");
        VSfdefine(vs, "a", DFNT_INT16, 1);
        VSfdefine(vs, "b", DFNT_FLOAT32, 2);
        VSsetfields(vs, "a,b");
        uint8 rec[2 * 10];
        for (int i = 0; i < 20; i++)
            rec[i] = (uint8)(i + 1);
        if (VSwrite(vs, rec, 2, FULL_INTERLACE) != 2)
            return -1;
        int32 vg = Vattach(fid, -1, "w");
        Vsetname(vg, "basevg");
        Vsetclass(vg, "baseclass");
        Vinsert(vg, vs);
        Vaddtagref(vg, BTAG, 1);
        VSdetach(vs);
        Vdetach(vg);
        Vend(fid);
        /* annotations */
        int32 an = ANstart(fid);
        int32 a1 = ANcreatef(an, AN_FILE_LABEL);
        ANwriteann(a1, "base file label", 15);
        ANendaccess(a1);
        int32 a2 = ANcreate(an, BTAG, 1, AN_DATA_DESC);
        ANwriteann(a2, "desc of element 1", 17);
        ANendaccess(a2);
        ANend(an);
        /* raster */
        int32 gr = GRstart(fid);
        int32 dims[2] = {3, 2};
        int32 ri = GRcreate(gr, "baseimg", 1, DFNT_UINT8, MFGR_INTERLACE_PIXEL, dims);
        uint8 pix[6] = {9, 8, 7, 6, 5, 4};
        int32 st[2] = {0, 0};
        if (GRwriteimage(ri, st, NULL, dims, pix) == FAIL)
            return -1;
        GRendaccess(ri);
        GRend(gr);
    }
    if (Hclose(fid) == FAIL)
        return -1;
    if (mixed == 1) {
        int32 sd = SDstart(PATH, DFACC_RDWR);
        if (sd == FAIL)
            return -1;
        int32 dims[2] = {2, 3};
        int32 sds = SDcreate(sd, "basesds", DFNT_INT32, 2, dims);
        int32 st[2] = {0, 0};
        int32 v[6] = {11, 12, 13, 14, 15, 16};
        if (SDwritedata(sds, st, NULL, dims, v) == FAIL)
            return -1;
        float32 att = 2.5f;
        SDsetattr(sds, "scale", DFNT_FLOAT32, 1, &att);
        SDendaccess(sds);
        if (SDend(sd) == FAIL)
            return -1;
    }
    return 0;
}

/* digest of every pre-existing object, read through its own interface; 0 on any failure */
static uint64_t
base_digest(const char *path, int nbase, int mixed, char *why, size_t nwhy)
{
    uint64_t h   = MC_H0;
    int32    fid = Hopen(path, DFACC_READ, 0);
    why[0]       = 0;
    if (fid == FAIL) {
        snprintf(why, nwhy, "Hopen failed");
        return 0;
    }
    for (int i = 0; i < nbase; i++) {
        uint8 d[64];
        memset(d, 0, sizeof d);
        int32 len = Hlength(fid, BTAG, (uint16)(i + 1));
        if (len != 6 || Hgetelement(fid, BTAG, (uint16)(i + 1), d) != 6) {
            snprintf(why, nwhy, "element (%d,%d) unreadable (Hlength=%d)", BTAG, i + 1, (int)len);
            Hclose(fid);
            return 0;
        }
        h = mc_hash(h, d, 6);
    }
    if (mixed == 3) {
        uint8 d[8] = {0};
        if (Hlength(fid, 322, 65535) != 4 || Hgetelement(fid, 322, 65535, d) != 4) {
            snprintf(why, nwhy, "element (322,65535) unreadable");
            Hclose(fid);
            return 0;
        }
        h = mc_hash(h, d, 4);
    }
    if (mixed == 4)
        for (int k = 0; k < NUSERBASE; k++) {
            uint8 d[8] = {0};
            if (Hlength(fid, USERBASE[k][0], USERBASE[k][1]) != 4 || Hgetelement(fid, USERBASE[k][0], USERBASE[k][1], d) != 4) {
                snprintf(why, nwhy, "element (%u,%u) unreadable", USERBASE[k][0], USERBASE[k][1]);
                Hclose(fid);
                return 0;
            }
            h = mc_hash(h, d, 4);
        }
    if (mixed == 1) {
        Vstart(fid);
        int32 vsref = VSfind(fid, "basevd");
        int32 vs    = vsref > 0 ? VSattach(fid, vsref, "r") : FAIL;
        uint8 rec[64];
        memset(rec, 0, sizeof rec);
        if (vs == FAIL || VSsetfields(vs, "a,b") == FAIL || VSread(vs, rec, 2, FULL_INTERLACE) != 2) {
            snprintf(why, nwhy, "Vdata 'basevd' unreadable");
            Hclose(fid);
            return 0;
        }
        h = mc_hash(h, rec, 20);
        VSdetach(vs);
        int32 vgref = Vfind(fid, "basevg");
        int32 vg    = vgref > 0 ? Vattach(fid, vgref, "r") : FAIL;
        int32 tags[8], refs[8];
        char  cls[128] = "";
        if (vg == FAIL || Vntagrefs(vg) != 2 || Vgettagrefs(vg, tags, refs, 8) != 2 || Vgetclass(vg, cls) == FAIL) {
            snprintf(why, nwhy, "Vgroup 'basevg' unreadable or wrong member count");
            Hclose(fid);
            return 0;
        }
        h = mc_hash(h, tags, 8);
        h = mc_hash(h, refs, 8);
        h = mc_hash(h, cls, strlen(cls));
        Vdetach(vg);
        Vend(fid);
        int32 an = ANstart(fid);
        int32 nfl, nfd, nol, nod;
        char  txt[64];
        memset(txt, 0, sizeof txt);
        if (an == FAIL || ANfileinfo(an, &nfl, &nfd, &nol, &nod) == FAIL || nfl < 1 || nod < 1) {
            snprintf(why, nwhy, "annotations missing");
            Hclose(fid);
            return 0;
        }
        int32 a1 = ANselect(an, 0, AN_FILE_LABEL);
        if (a1 == FAIL || ANannlen(a1) != 15 || ANreadann(a1, txt, 16) == FAIL) {
            snprintf(why, nwhy, "file label unreadable");
            Hclose(fid);
            return 0;
        }
        h = mc_hash(h, txt, 15);
        ANendaccess(a1);
        int32 alist[4];
        if (ANannlist(an, AN_DATA_DESC, BTAG, 1, alist) < 1 || ANannlen(alist[0]) != 17 || ANreadann(alist[0], txt, 18) == FAIL) {
            snprintf(why, nwhy, "object description unreadable");
            Hclose(fid);
            return 0;
        }
        h = mc_hash(h, txt, 17);
        ANend(an);
        int32 gr = GRstart(fid);
        int32 idx = gr != FAIL ? GRnametoindex(gr, "baseimg") : FAIL;
        int32 ri  = idx != FAIL ? GRselect(gr, idx) : FAIL;
        uint8 pix[16];
        int32 st[2] = {0, 0}, dims[2] = {3, 2};
        memset(pix, 0, sizeof pix);
        if (ri == FAIL || GRreadimage(ri, st, NULL, dims, pix) == FAIL) {
            snprintf(why, nwhy, "image 'baseimg' unreadable");
            Hclose(fid);
            return 0;
        }
        h = mc_hash(h, pix, 6);
        GRendaccess(ri);
        GRend(gr);
    }
    if (Hclose(fid) == FAIL) {
        snprintf(why, nwhy, "Hclose failed after reading");
        return 0;
    }
    if (mixed == 1) {
        int32 sd = SDstart(path, DFACC_READ);
        int32 idx = sd != FAIL ? SDnametoindex(sd, "basesds") : FAIL;
        int32 sds = idx != FAIL ? SDselect(sd, idx) : FAIL;
        int32 st[2] = {0, 0}, dims[2] = {2, 3}, v[6] = {0};
        float32 att = 0;
        int32   ai;
        if (sds == FAIL || SDreaddata(sds, st, NULL, dims, v) == FAIL || (ai = SDfindattr(sds, "scale")) == FAIL || SDreadattr(sds, ai, &att) == FAIL) {
            snprintf(why, nwhy, "SDS 'basesds' or its attribute unreadable");
            if (sd != FAIL)
                SDend(sd);
            return 0;
        }
        h = mc_hash(h, v, sizeof v);
        h = mc_hash(h, &att, sizeof att);
        SDendaccess(sds);
        SDend(sd);
    }
    return h ? h : 1;
}

/* ------------------------------------------------------------ sessions (append-only) */
/* how the H-level sessions open the existing file: all three mean "update what is there" */
static const int   OPENMODE[3]     = {DFACC_RDWR, DFACC_WRITE, DFACC_ALL};
static const char *openmode_name[] = {"DFACC_RDWR", "DFACC_WRITE", "DFACC_ALL"};
static int         g_mode;
static int
run_session(int sess, int nnew)
{
    uint8 d[8] = {0xA1, 0xA2, 0xA3, 0xA4, 0xA5, 0xA6, 0xA7, 0xA8};
    switch (sess) {
        case S_H:
        case S_HSYNC: {
            API("Hopen", 0);
            int32 fid = Hopen(PATH, OPENMODE[g_mode], 0);
            if (fid == FAIL)
                return -1;
            for (int i = 0; i < nnew; i++) {
                API("Hputelement", 0);
                if (Hputelement(fid, BTAG + 1, (uint16)(i + 1), d, 5) != 5)
                    return -1;
                if (sess == S_HSYNC && i == nnew / 2) {
                    API("Hsync", 1);
                    if (Hsync(fid) == FAIL)
                        return -1;
                }
            }
            API("Hclose", 1);
            return Hclose(fid);
        }
        case S_HPROMOTE: {
            /* a new appendable element, more new elements behind it, Hsync, then the first one grows: it is no longer last in
               the file and is turned into linked blocks (its descriptor is deleted and created again) */
            API("Hopen", 0);
            int32 fid = Hopen(PATH, OPENMODE[g_mode], 0);
            if (fid == FAIL)
                return -1;
            API("Hstartaccess", 0);
            int32 aid = Hstartaccess(fid, 323, 1, DFACC_WRITE | DFACC_APPENDABLE);
            if (aid == FAIL)
                return -1;
            API("Hwrite", 0);
            if (Hwrite(aid, 6, d) != 6)
                return -1;
            for (int i = 0; i < nnew; i++) {
                API("Hputelement", 0);
                if (Hputelement(fid, 324, (uint16)(i + 1), d, 5) != 5)
                    return -1;
            }
            API("Hsync", 1);
            if (Hsync(fid) == FAIL)
                return -1;
            API("Hwrite", 0);
            if (Hwrite(aid, 7, d) != 7)
                return -1;
            API("Hendaccess", 0);
            if (Hendaccess(aid) == FAIL)
                return -1;
            API("Hclose", 1);
            return Hclose(fid);
        }
        case S_HUSER: {
            API("Hopen", 0);
            int32 fid = Hopen(PATH, OPENMODE[g_mode], 0);
            if (fid == FAIL)
                return -1;
            for (int i = 0; i < nnew; i++) {
                API("Hputelement", 0);
                /* as long as the old elements, so that nothing but the tag tells the new from the old */
                if (Hputelement(fid, USERNEW[i % NUSERNEW][0], (uint16)(USERNEW[i % NUSERNEW][1] + 10 * (i / NUSERNEW)), d, 4) != 4)
                    return -1;
            }
            API("Hclose", 1);
            return Hclose(fid);
        }
        case S_HNEWREF: {
            /* new elements of the tag the old ones have, under reference numbers the library hands out */
            API("Hopen", 0);
            int32 fid = Hopen(PATH, OPENMODE[g_mode], 0);
            if (fid == FAIL)
                return -1;
            for (int i = 0; i < nnew; i++) {
                API("Hnewref", 0);
                uint16 r = Hnewref(fid);
                if (r == 0)
                    return -1;
                API("Hputelement", 0);
                if (Hputelement(fid, BTAG, r, d, 5) != 5)
                    return -1;
            }
            API("Hclose", 1);
            return Hclose(fid);
        }
        case S_V: {
            API("Hopen", 0);
            int32 fid = Hopen(PATH, OPENMODE[g_mode], 0);
            if (fid == FAIL)
                return -1;
            API("Vstart", 0);
            Vstart(fid);
            int32 vsl[4];
            for (int i = 0; i < nnew && i < 4; i++) {
                API("VSattach", 0);
                int32 vs = VSattach(fid, -1, "w");
                if (vs == FAIL)
                    return -1;
                API("VSdefine", 0);
                VSsetname(vs, i ? "newvd2" : "newvd");
                VSfdefine(vs, "x", DFNT_INT32, 1);
                VSsetfields(vs, "x");
                int32 rec[3] = {1, 2, 3};
                API("VSwrite", 0);
                if (VSwrite(vs, (uint8 *)rec, 3, FULL_INTERLACE) != 3)
                    return -1;
                vsl[i] = vs;
            }
            API("Vattach", 0);
            int32 vg = Vattach(fid, -1, "w");
            if (vg == FAIL)
                return -1;
            Vsetname(vg, "newvg");
            for (int i = 0; i < nnew && i < 4; i++) {
                API("Vinsert", 0);
                Vinsert(vg, vsl[i]);
                API("VSdetach", 0);
                if (VSdetach(vsl[i]) == FAIL)
                    return -1;
            }
            API("Vdetach", 0);
            if (Vdetach(vg) == FAIL)
                return -1;
            API("Vend", 1);
            Vend(fid);
            API("Hclose", 1);
            return Hclose(fid);
        }
        case S_SD: {
            API("SDstart", 0);
            int32 sd = SDstart(PATH, DFACC_RDWR);
            if (sd == FAIL)
                return -1;
            int32 dims[1] = {4};
            API("SDcreate", 0);
            int32 sds = SDcreate(sd, "newsds", DFNT_INT16, 1, dims);
            int32 st[1] = {0};
            int16 v[4]  = {5, 6, 7, 8};
            API("SDwritedata", 0);
            if (SDwritedata(sds, st, NULL, dims, v) == FAIL)
                return -1;
            API("SDsetattr", 0);
            SDsetattr(sds, "units", DFNT_CHAR8, 2, "mm");
            API("SDendaccess", 0);
            SDendaccess(sds);
            API("SDend", 1);
            return SDend(sd);
        }
        case S_GR: {
            API("Hopen", 0);
            int32 fid = Hopen(PATH, OPENMODE[g_mode], 0);
            if (fid == FAIL)
                return -1;
            API("GRstart", 0);
            int32 gr = GRstart(fid);
            int32 dims[2] = {2, 2};
            API("GRcreate", 0);
            int32 ri = GRcreate(gr, "newimg", 3, DFNT_UINT8, MFGR_INTERLACE_PIXEL, dims);
            uint8 pix[12] = {1, 2, 3, 4, 5, 6, 7, 8, 9, 10, 11, 12};
            int32 st[2]   = {0, 0};
            API("GRwriteimage", 0);
            if (GRwriteimage(ri, st, NULL, dims, pix) == FAIL)
                return -1;
            API("GRendaccess", 0);
            GRendaccess(ri);
            API("GRend", 1);
            GRend(gr);
            API("Hclose", 1);
            return Hclose(fid);
        }
        case S_AN: {
            API("Hopen", 0);
            int32 fid = Hopen(PATH, OPENMODE[g_mode], 0);
            if (fid == FAIL)
                return -1;
            API("ANstart", 0);
            int32 an = ANstart(fid);
            for (int i = 0; i < nnew; i++) {
                API("ANcreatef", 0);
                int32 a = ANcreatef(an, AN_FILE_DESC);
                API("ANwriteann", 0);
                if (ANwriteann(a, "new description", 15) == FAIL)
                    return -1;
                API("ANendaccess", 0);
                ANendaccess(a);
            }
            API("ANend", 1);
            ANend(an);
            API("Hclose", 1);
            return Hclose(fid);
        }
        case S_HSPEC: {
            API("Hopen", 0);
            int32 fid = Hopen(PATH, OPENMODE[g_mode], 0);
            if (fid == FAIL)
                return -1;
            uint8 blk[24];
            for (int i = 0; i < 24; i++)
                blk[i] = (uint8)(0xC0 + i);
            for (int i = 0; i < nnew && i < 3; i++) {
                API("HLcreate", 0);
                int32 aid = HLcreate(fid, 320, (uint16)(i + 1), 4, 2); /* 4-byte blocks, 2 per table: several tables */
                if (aid == FAIL)
                    return -1;
                API("Hwrite", 0);
                if (Hwrite(aid, 22, blk) != 22)
                    return -1;
                API("Hendaccess", 0);
                if (Hendaccess(aid) == FAIL)
                    return -1;
                comp_info  ci;
                model_info mi;
                memset(&ci, 0, sizeof ci);
                memset(&mi, 0, sizeof mi);
                ci.deflate.level = 6;
                API("HCcreate", 0);
                aid = HCcreate(fid, 321, (uint16)(i + 1), COMP_MODEL_STDIO, &mi, i == 1 ? COMP_CODE_DEFLATE : COMP_CODE_RLE, &ci);
                if (aid == FAIL)
                    return -1;
                API("Hwrite", 0);
                if (Hwrite(aid, 24, blk) != 24)
                    return -1;
                API("Hendaccess", 0);
                if (Hendaccess(aid) == FAIL)
                    return -1;
            }
            API("Hclose", 1);
            return Hclose(fid);
        }
        case S_VATTR: {
            API("Hopen", 0);
            int32 fid = Hopen(PATH, OPENMODE[g_mode], 0);
            if (fid == FAIL)
                return -1;
            API("Vstart", 0);
            Vstart(fid);
            API("Vattach", 0);
            int32 vg = Vattach(fid, -1, "w");
            if (vg == FAIL)
                return -1;
            Vsetname(vg, "attrvg");
            Vsetclass(vg, "newclass");
            for (int i = 0; i < nnew && i < 3; i++) {
                API("VSattach", 0);
                int32 vs = VSattach(fid, -1, "w");
                if (vs == FAIL)
                    return -1;
                API("VSdefine", 0);
                VSsetname(vs, "attrvd");
                VSfdefine(vs, "p", DFNT_INT16, 2);
                VSfdefine(vs, "q", DFNT_FLOAT32, 1);
                VSsetfields(vs, "p,q");
                uint8 rec[2 * 8] = {1, 2, 3, 4, 5, 6, 7, 8, 9, 10, 11, 12, 13, 14, 15, 16};
                API("VSwrite", 0);
                if (VSwrite(vs, rec, 2, FULL_INTERLACE) != 2)
                    return -1;
                int32 av = 40 + i;
                API("VSsetattr", 0);
                if (VSsetattr(vs, _HDF_VDATA, "va", DFNT_INT32, 1, &av) == FAIL || VSsetattr(vs, 1, "fa", DFNT_CHAR8, 3, "abc") == FAIL)
                    return -1;
                API("Vinsert", 0);
                Vinsert(vg, vs);
                API("VSdetach", 0);
                if (VSdetach(vs) == FAIL)
                    return -1;
            }
            float32 ga = 1.25f;
            API("Vsetattr", 0);
            if (Vsetattr(vg, "ga", DFNT_FLOAT32, 1, &ga) == FAIL)
                return -1;
            API("Vdetach", 0);
            if (Vdetach(vg) == FAIL)
                return -1;
            API("Vend", 1);
            Vend(fid);
            API("Hclose", 1);
            return Hclose(fid);
        }
        case S_SDCHUNK: {
            API("SDstart", 0);
            int32 sd = SDstart(PATH, DFACC_RDWR);
            if (sd == FAIL)
                return -1;
            int32 dims[2] = {4, 3};
            API("SDcreate", 0);
            int32 sds = SDcreate(sd, "newchunked", DFNT_INT16, 2, dims);
            HDF_CHUNK_DEF cd;
            memset(&cd, 0, sizeof cd);
            cd.comp.chunk_lengths[0]    = 2;
            cd.comp.chunk_lengths[1]    = 2;
            cd.comp.comp_type           = COMP_CODE_DEFLATE;
            cd.comp.cinfo.deflate.level = 6;
            API("SDsetchunk", 0);
            if (SDsetchunk(sds, cd, nnew > 1 ? (HDF_CHUNK | HDF_COMP) : HDF_CHUNK) == FAIL)
                return -1;
            int32 st[2] = {0, 0};
            int16 v[12] = {1, 2, 3, 4, 5, 6, 7, 8, 9, 10, 11, 12};
            API("SDwritedata", 0);
            if (SDwritedata(sds, st, NULL, dims, v) == FAIL)
                return -1;
            API("SDendaccess", 0);
            SDendaccess(sds);
            int32 ud[1] = {SD_UNLIMITED};
            API("SDcreate", 0);
            sds = SDcreate(sd, "newrec", DFNT_INT32, 1, ud);
            int32 cnt[1] = {3}, rv[3] = {7, 8, 9};
            API("SDwritedata", 0);
            if (SDwritedata(sds, st, NULL, cnt, rv) == FAIL)
                return -1;
            API("SDendaccess", 0);
            SDendaccess(sds);
            API("SDend", 1);
            return SDend(sd);
        }
        case S_GRPAL: {
            API("Hopen", 0);
            int32 fid = Hopen(PATH, OPENMODE[g_mode], 0);
            if (fid == FAIL)
                return -1;
            API("GRstart", 0);
            int32 gr = GRstart(fid);
            int32 dims[2] = {3, 2};
            API("GRcreate", 0);
            int32 ri = GRcreate(gr, "newpalimg", 1, DFNT_UINT8, MFGR_INTERLACE_PIXEL, dims);
            uint8 pix[6] = {1, 2, 3, 4, 5, 6}, pal[768];
            for (int i = 0; i < 768; i++)
                pal[i] = (uint8)(i * 5);
            int32 st[2] = {0, 0};
            API("GRwriteimage", 0);
            if (GRwriteimage(ri, st, NULL, dims, pix) == FAIL)
                return -1;
            API("GRwritelut", 0);
            int32 lut = GRgetlutid(ri, 0);
            if (GRwritelut(lut, 3, DFNT_UINT8, MFGR_INTERLACE_PIXEL, 256, pal) == FAIL)
                return -1;
            int16 av = 9;
            API("GRsetattr", 0);
            if (GRsetattr(ri, "ia", DFNT_INT16, 1, &av) == FAIL)
                return -1;
            API("GRendaccess", 0);
            GRendaccess(ri);
            API("GRend", 1);
            GRend(gr);
            API("Hclose", 1);
            return Hclose(fid);
        }
    }
    return -1;
}

/* ------------------------------------------------------------ one case */
typedef struct {
    int ndds, nbase, mixed, sess, nnew, mode;
} case_t;
#define MAXCASES 8192
static case_t cases[MAXCASES];
static int    ncases;

static unsigned g_base_tr[512]; /* (tag << 16 | ref) of every descriptor of the base file */
static int      g_nbase_tr;

static void
verify_image(long p, long nlog, int nbase, int mixed, uint64_t want, int in_flush, const char *apiname)
{
    /* runs in its own process */
    vfile *vf = vfs_lookup(IMG);
    long   sz;
    uint8 *bytes = vfs_dup_bytes(vf, &sz);
    fc_file fc;
    memset(&fc, 0, sizeof fc);
    char sig[120];
    if (fc_parse(&fc, bytes, sz) != 0) {
        /* Inside the flush a descriptor of a NEW object may already be on disk while the space it reserves at the end of the
           file (the unwritten rest of a linked block) has not been extended yet: such an object counts as "may be missing",
           which the property allows. Anything else - and anything about a descriptor the base file already had - is damage. */
        int tolerated = 0;
        for (int e = 0; e < fc.nerr && e < 8; e++) {
            unsigned t = 0, r = 0;
            int      isnew = 1;
            if (in_flush && strstr(fc.err[e], "beyond file size") && sscanf(fc.err[e], "descriptor (%u,%u)", &t, &r) == 2) {
                for (int b = 0; b < g_nbase_tr; b++)
                    if (g_base_tr[b] == ((t << 16) | r))
                        isnew = 0;
                if (isnew) {
                    tolerated++;
                    continue;
                }
            }
            snprintf(sig, sizeof sig, "image-malformed:%s", in_flush ? "in-flush" : "pre-flush");
            mc_violation(sig, "after %ld of %ld writes (crash during %s): file is not well-formed: %s", p, nlog, apiname, fc.err[e]);
            break;
        }
        if (tolerated)
            mc_count("inflush_images_with_new_object_space_not_extended", 1);
    }
    fc_free(&fc);
    free(bytes);
    char     why[160];
    uint64_t got = base_digest(IMG, nbase, mixed, why, sizeof why);
    if (got != want) {
        snprintf(sig, sizeof sig, "old-content-lost:%s", in_flush ? "in-flush" : "pre-flush");
        mc_violation(sig, "after %ld of %ld writes (crash during %s): %s", p, nlog, apiname,
                     why[0] ? why : "a pre-existing object reads back with different content");
    }
}

static void
run_case(long idx, void *ctx)
{
    (void)ctx;
    case_t *c      = &cases[idx];
    int     cfg[6] = {c->ndds, c->nbase, c->mixed, c->sess, c->nnew, c->mode};
    mc_set_config(cfg, 6, "ndds=%d base=%d elements%s session=%s x%d open=%s", c->ndds, c->nbase, c->mixed == 1 ? "+Vdata/Vgroup/AN/GR/SDS" : c->mixed == 2 ? "+aliases so that a descriptor block ends the file" : c->mixed == 3 ? " created in descending order +ref 65535 in use" : c->mixed == 4 ? " +elements under user-defined tags" : "", sessname[c->sess],
                  c->nnew, openmode_name[c->mode]);
    mc_set_case("base(ndds=%d,n=%d,mixed=%d) + %s x%d, opened with %s", c->ndds, c->nbase, c->mixed, sessname[c->sess], c->nnew, openmode_name[c->mode]);
    g_mode = c->mode;
    if (build_base(c->ndds, c->nbase, c->mixed)) {
        mc_harness_error("cannot build base file");
        return;
    }
    char     why[160];
    uint64_t want = base_digest(PATH, c->nbase, c->mixed, why, sizeof why);
    if (!want) {
        mc_harness_error("base file unreadable: %s", why);
        return;
    }
    vfs_copy(PATH, BASECOPY);
    long old_eof = vfs_size(PATH);
    /* old DD blocks, for the direct invariant */
    vfile *vb = vfs_lookup(BASECOPY);
    long   bsz;
    uint8 *bb = vfs_dup_bytes(vb, &bsz);
    fc_file fb;
    memset(&fb, 0, sizeof fb);
    if (fc_parse(&fb, bb, bsz) != 0) {
        mc_violation("base-malformed", "base file is not well-formed: %s", fb.err[0]);
        return;
    }
    /* "old end of file" = end of every previously stored object and descriptor block (the closing library leaves one
       padding byte after it that belongs to no object) */
    g_nbase_tr = 0;
    for (int i = 0; i < fb.ndd && g_nbase_tr < 512; i++)
        g_base_tr[g_nbase_tr++] = ((unsigned)fb.dd[i].tag << 16) | fb.dd[i].ref;
    old_eof = 0;
    for (int i = 0; i < fb.ndd; i++)
        if (fb.dd[i].off >= 0 && fb.dd[i].len >= 0 && (long)fb.dd[i].off + fb.dd[i].len > old_eof)
            old_eof = (long)fb.dd[i].off + fb.dd[i].len;
    for (int i = 0; i < fb.nblk; i++)
        if (fb.blk[i].off + 6 + 12L * fb.blk[i].ndds > old_eof)
            old_eof = fb.blk[i].off + 6 + 12L * fb.blk[i].ndds;
    vfs_api_seq = 0;
    memset(seq_is_flush, 0, sizeof seq_is_flush);
    vfs_log_start();
    int rc = run_session(c->sess, c->nnew);
    vfs_log_stop();
    if (rc == FAIL) {
        mc_violation("session-failed", "the append-only session itself failed");
        return;
    }
    int  main_idx = vfs_index(vfs_lookup(PATH));
    long nlog     = 0;
    /* clause 1, direct invariant: no write below the old end of file outside a sync/close call */
    long flush_mark = -1;
    for (long i = 0; i < vfs_nlog; i++) {
        vfs_logent *e = &vfs_log[i];
        if (e->file != main_idx)
            continue;
        nlog++;
        int flush = e->apiseq < MAXSEQ ? seq_is_flush[e->apiseq] : 1;
        if (e->kind != 0) {
            mc_violation("truncate-existing", "the session truncated/recreated the existing file (during %s)", seq_name[e->apiseq % MAXSEQ]);
            continue;
        }
        if (e->off < old_eof && flush_mark < 0)
            flush_mark = i;
        if (e->off < old_eof && !flush) {
            char sig[96];
            snprintf(sig, sizeof sig, "inplace-write-before-flush:%s", seq_name[e->apiseq % MAXSEQ]);
            mc_violation(sig, "write of %ld bytes at offset %ld lies below the old end of file (%ld) during %s, i.e. before any sync/close", e->len, e->off,
                         old_eof, seq_name[e->apiseq % MAXSEQ]);
        }
    }
    mc_count("sessions", 1);
    mc_count("log_writes", nlog);
    /* every prefix */
    int  clause2  = c->sess == S_H || c->sess == S_HSYNC || c->sess == S_V || c->sess == S_HSPEC || c->sess == S_VATTR || c->sess == S_HNEWREF || c->sess == S_HPROMOTE || c->sess == S_HUSER;
    long nprefix  = 0;
    vfs_copy(BASECOPY, IMG);
    vfile *img = vfs_lookup(IMG);
    for (long p = 0; p <= vfs_nlog; p++) {
        if (p > 0) {
            vfs_logent *e = &vfs_log[p - 1];
            if (e->file != main_idx)
                continue;
            if (e->kind == 0)
                vfs_write_at(img, e->off, e->data, e->len);
        }
        int in_flush = 0;
        const char *apiname = "start";
        if (p < vfs_nlog) {
            /* the crash happens before write p is issued, i.e. during the API call that issues it */
            vfs_logent *nx = &vfs_log[p];
            in_flush       = nx->apiseq < MAXSEQ ? seq_is_flush[nx->apiseq] : 1;
            apiname        = seq_name[nx->apiseq % MAXSEQ];
        }
        else {
            in_flush = 1;
            apiname  = "end";
        }
        /* images inside the flush are only required to be intact for H/V sessions (clause 2);
           the first in-flush image (all pre-flush writes applied) is still a clause-1 image */
        int first_flush_image = in_flush && (p == 0 || !(vfs_log[p - 1].apiseq < MAXSEQ ? seq_is_flush[vfs_log[p - 1].apiseq] : 1));
        if (in_flush && !clause2 && !first_flush_image && p != vfs_nlog)
            continue;
        nprefix++;
        mc_outcome(vfs_hash_file(img));
        fflush(NULL);
        pid_t pid = fork();
        if (pid == 0) {
            verify_image(p, vfs_nlog, c->nbase, c->mixed, want, in_flush && !first_flush_image, apiname);
            _exit(0);
        }
        int status = 0;
        waitpid(pid, &status, 0);
        if (WIFSIGNALED(status) || (WIFEXITED(status) && WEXITSTATUS(status) != 0)) {
            char sig[96];
            snprintf(sig, sizeof sig, "reader-crashed:%s", in_flush ? "in-flush" : "pre-flush");
            mc_violation(sig, "after %ld of %ld writes (crash during %s): opening/reading the image crashed the library (status 0x%x)", p, vfs_nlog, apiname,
                         status);
        }
    }
    mc_count("images_checked", nprefix);
    if (flush_mark >= 0)
        mc_count("sessions_with_inplace_flush", 1);
    if (fb.nblk > 1)
        mc_count("bases_multi_ddblock", 1);
    /* did the session need a new DD block? compare block counts */
    {
        vfile *vf = vfs_lookup(PATH);
        long   sz;
        uint8 *by = vfs_dup_bytes(vf, &sz);
        fc_file f2;
        memset(&f2, 0, sizeof f2);
        if (fc_parse(&f2, by, sz) == 0 && f2.nblk > fb.nblk)
            mc_count("sessions_adding_ddblocks", 1);
        fc_free(&f2);
        free(by);
    }
    if (idx % 7 == 0)
        mc_sample("base(ndds=%d,n=%d,mixed=%d) + session %s x%d: %ld writes logged, %ld crash images checked, first in-place write at log index %ld", c->ndds,
                  c->nbase, c->mixed, sessname[c->sess], c->nnew, nlog, nprefix, flush_mark);
    fc_free(&fb);
    free(bb);
}

int
C17_main(const char *tier, const char *replay)
{
    if (replay) {
        int   cfg[32], ncfg, nops;
        mc_op ops[4];
        if (mc_load_replay(replay, cfg, &ncfg, ops, &nops, 4) || ncfg < 5)
            return 2;
        cases[0] = (case_t){cfg[0], cfg[1], cfg[2], cfg[3], cfg[4], ncfg >= 6 ? cfg[5] : 0};
        ncases   = 1;
        printf("replay C17: ndds=%d nbase=%d mixed=%d session=%s x%d\n", cfg[0], cfg[1], cfg[2], sessname[cfg[3]], cfg[4]);
        run_case(0, NULL);
        return 0;
    }
    int thorough = strcmp(tier, "thorough") == 0;
    /* base sizes chosen so that (version DD + nbase) leaves the first block: nearly full, exactly full, spilled */
    const int ndds_l[3] = {4, 5, 16};
    for (int ni = 0; ni < (thorough ? 3 : 2); ni++) {
        int ndds = ndds_l[ni];
        int nb[6] = {1, ndds - 2, ndds - 1, ndds, 2 * ndds - 1, 2 * ndds + 1};
        for (int bi = 0; bi < 6; bi++)
            for (int mixed = 0; mixed <= 4; mixed++)
                for (int sess = 0; sess < S_NSESS; sess++) {
                    int nn[3] = {1, 3, ndds + 2};
                    for (int k = 0; k < 3; k++) {
                        if ((sess == S_SD || sess == S_GR || sess == S_GRPAL) && k > 0)
                            continue;
                        if ((sess == S_V || sess == S_HSPEC || sess == S_VATTR || sess == S_SDCHUNK) && k == 2)
                            continue;
                        if (!thorough && mixed == 1 && (bi == 0 || bi == 4))
                            continue;
                        if (mixed >= 2 && (sess == S_SD || sess == S_GR || sess == S_SDCHUNK || sess == S_GRPAL || bi == 5))
                            continue;
                        if (mixed == 3 && !(sess == S_H || sess == S_HNEWREF || sess == S_V || sess == S_HPROMOTE))
                            continue;
                        if ((mixed == 4) != (sess == S_HUSER))
                            continue;
                        /* SD sessions open through SDstart(DFACC_RDWR) only */
                        int nmodes = (sess == S_SD || sess == S_SDCHUNK) ? 1 : 3;
                        for (int mode = 0; mode < nmodes; mode++) {
                            if (!thorough && mode == 1 && k > 0)
                                continue;
                            if (ncases >= MAXCASES) {
                                mc_harness_error("case table too small");
                                return 0;
                            }
                            cases[ncases++] = (case_t){ndds, nb[bi], mixed, sess, nn[k], mode};
                        }
                    }
                }
    }
    mc_round_begin("all prefixes of every session log");
    mc_foreach(ncases, run_case, NULL, 1, 120);
    mc_round_end();
    mc_count("evaluations", mc_get("images_checked"));
    mc_rule("for each (base file: ndds x number of elements around a full DD block x plain/mixed content) x (append-only session: H elements, "
            "H with mid-session Hsync, Vdata+Vgroup, new SDS, new GR image, annotations, new linked-block and compressed elements, Vdata+Vgroup with "
            "attributes, new chunked / chunked+deflate and unlimited SDS, GR image with palette and attribute) each H-level session opening the file with DFACC_RDWR, DFACC_WRITE and DFACC_ALL, the ordered log of fwrite calls is recorded; EVERY prefix "
            "of the log is materialised (each write atomic) and checked in a pristine process: independent format validation, Hopen, all pre-existing "
            "objects read back through their own interface and compared; plus the direct invariant that no write before a sync/close call lands "
            "below the old end of file. Images inside the flush are checked for H and V sessions only (clause 2: H elements incl. linked/compressed, Vdata/Vgroup incl. attributes). distinct = distinct image contents.");
    return 0;
}
