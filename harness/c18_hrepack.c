/* C18 - hrepack preserves all content while changing only layout.
 * Case enumeration: every generated input file x every option set; the hrepack executable built from the current tree is
 * run on real files; input and output are compared with an API-level content record that does not use hdiff; the layout of
 * every data set in the output is compared with what the options requested; the output is repacked a second time with another
 * option set and compared with the original input again (idempotence in content). */
#include "tools_common.h"

typedef struct {
    const char *desc;
    const char *args[8]; /* extra arguments, NULL-terminated */
    const char *optfile; /* content of an option file passed with -f, or NULL */
} optset_t;
static const optset_t OPTS[] = {
    {"no options", {NULL}, NULL},
    {"-t *:RLE", {"-t", "*:RLE", NULL}, NULL},
    {"-t *:GZIP 1", {"-t", "*:GZIP 1", NULL}, NULL},
    {"-t *:GZIP 9", {"-t", "*:GZIP 9", NULL}, NULL},
    {"-t *:HUFF 1", {"-t", "*:HUFF 1", NULL}, NULL},
    {"-t *:NONE", {"-t", "*:NONE", NULL}, NULL},
    {"-c *:NONE", {"-c", "*:NONE", NULL}, NULL},
    {"-t *:NONE -c *:NONE", {"-t", "*:NONE", "-c", "*:NONE", NULL}, NULL},
    {"-t sds_i16,sds_u8:GZIP 6 -c sds_i16:10x10", {"-t", "sds_i16,sds_u8:GZIP 6", "-c", "sds_i16:10x10", NULL}, NULL},
    {"-t *:GZIP 6 -m 100000", {"-t", "*:GZIP 6", "-m", "100000", NULL}, NULL},
    {"-t *:RLE -m 1", {"-t", "*:RLE", "-m", "1", NULL}, NULL},
    {"-f file(-t sds_f32:GZIP 5; -c sds_f32:2x5x10)", {NULL}, "-t \"sds_f32:GZIP 5\"\n-c \"sds_f32:2x5x10\"\n"},
    {"-c sds_i16:20x30,sds_u8:25x10 -t *:GZIP 6", {"-c", "sds_i16:20x30", "-c", "sds_u8:25x10", "-t", "*:GZIP 6", NULL}, NULL},
    {"-t image_0,image_1:GZIP 6", {"-t", "image_0,image_1:GZIP 6", NULL}, NULL},
    {"-c sds_chunked:NONE -t sds_gzip:NONE", {"-c", "sds_chunked:NONE", "-t", "sds_gzip:NONE", NULL}, NULL},
    {"-t sds_chunk_gzip:RLE -c sds_rle:30x25", {"-t", "sds_chunk_gzip:RLE", "-c", "sds_rle:30x25", NULL}, NULL},
};
#define NOPTS ((int)(sizeof OPTS / sizeof OPTS[0]))
#define NKINDS 6
#define NBIG 2

static char g_case[300];

/* what the option set asks for data set `name` (rank given): comp: -2 nothing asked, else comp code; chunk: -2 nothing, -1 NONE, 1 dims */
static void
requested(const optset_t *o, const char *name, int rank, int *comp, int *chunk, int32 *cdims, long *threshold)
{
    *comp = *chunk = -2;
    *threshold     = 1024;
    char        buf[600] = "";
    const char *items[16];
    int         n = 0;
    for (int i = 0; o->args[i] && o->args[i + 1]; i += 2) {
        if (!strcmp(o->args[i], "-m"))
            *threshold = atol(o->args[i + 1]);
        else
            items[n++] = o->args[i], items[n++] = o->args[i + 1];
    }
    if (o->optfile) {
        snprintf(buf, sizeof buf, "%s", o->optfile);
        for (char *ln = strtok(buf, "\n"); ln && n < 14; ln = strtok(NULL, "\n")) {
            ln[2]      = 0;
            items[n++] = ln;
            char *v    = ln + 3;
            if (*v == '"')
                v++;
            if (*v && v[strlen(v) - 1] == '"')
                v[strlen(v) - 1] = 0;
            items[n++] = v;
        }
    }
    for (int i = 0; i + 1 < n; i += 2) {
        char spec[300];
        snprintf(spec, sizeof spec, "%s", items[i + 1]);
        char *colon = strrchr(spec, ':');
        if (!colon)
            continue;
        *colon       = 0;
        char *val    = colon + 1;
        int   applies = !strcmp(spec, "*");
        char  lst[300];
        snprintf(lst, sizeof lst, "%s", spec);
        for (char *t = strtok(lst, ","); t; t = strtok(NULL, ","))
            if (!strcmp(t, name))
                applies = 1;
        if (!applies)
            continue;
        if (!strcmp(items[i], "-t")) {
            if (!strncmp(val, "RLE", 3))
                *comp = COMP_CODE_RLE;
            else if (!strncmp(val, "GZIP", 4))
                *comp = COMP_CODE_DEFLATE;
            else if (!strncmp(val, "HUFF", 4))
                *comp = COMP_CODE_SKPHUFF;
            else if (!strncmp(val, "NONE", 4))
                *comp = COMP_CODE_NONE;
        }
        else if (!strcmp(items[i], "-c")) {
            if (!strncmp(val, "NONE", 4))
                *chunk = -1;
            else {
                int k = 0;
                for (char *t = strtok(val, "x"); t && k < 8; t = strtok(NULL, "x"))
                    cdims[k++] = atoi(t);
                if (k == rank)
                    *chunk = 1;
            }
        }
    }
}

static int
repack(const char *in, const char *out, const optset_t *o, char **log)
{
    char *args[24];
    int   n = 0;
    args[n++] = "-i";
    args[n++] = (char *)in;
    args[n++] = "-o";
    args[n++] = (char *)out;
    for (int i = 0; o->args[i]; i++)
        args[n++] = (char *)o->args[i];
    if (o->optfile) {
        const char *of = tc_path("options.txt");
        FILE       *f  = fopen(of, "w");
        fputs(o->optfile, f);
        fclose(f);
        args[n++] = "-f";
        args[n++] = (char *)of;
    }
    args[n] = NULL;
    remove(out);
    return tc_run("hrepack", args, log);
}

static void
compare(const char *what, const char *a, const char *b, const optset_t *o, tc_layout *layin, int nin, int check_layout)
{
    tc_rec    ra = {0}, rb = {0};
    tc_layout lay[16];
    int       nl = 0;
    char      msg[900], kind[200], sig[260];
    tc_content(a, &ra, NULL, NULL, 0);
    tc_content(b, &rb, lay, &nl, 16);
    if (tc_diff(&ra, &rb, msg, sizeof msg)) {
        tc_diffkind(msg, kind, sizeof kind);
        snprintf(sig, sizeof sig, "content-changed:%s:%s", what, kind);
        mc_violation(sig, "%s: %s: %s", g_case, what, msg);
    }
    else
        mc_count("content_comparisons_equal", 1);
    mc_outcome(mc_hash_i(mc_hash_i(MC_H0, ra.n), rb.n));
    if (check_layout)
        for (int i = 0; i < nl; i++) {
            tc_layout *L = &lay[i], *I = NULL;
            for (int k = 0; k < nin; k++)
                if (!strcmp(layin[k].name, L->name))
                    I = &layin[k];
            if (!I || L->empty)
                continue;
            int   comp, chunk;
            int32 cd[8];
            long  thr;
            requested(o, L->name, L->rank, &comp, &chunk, cd, &thr);
            /* only what was asked for is checked; documented exception: with -t, objects below the size threshold (-m,
               default 1024 bytes) are not compressed */
            int small = L->bytes < thr;
            if (comp != -2) {
                int want = (small && comp != COMP_CODE_NONE) ? -1 : comp; /* -1: must not have been compressed by this request */
                if (want >= 0 && L->comp != want)
                    mc_violation("layout:compression-not-as-requested", "%s: data set %s (%ld bytes, input compression %d, input chunked %d): -t requested %d, output has %d", g_case, L->name,
                                 L->bytes, I->comp, I->chunked, want, L->comp);
                /* (-m only promises not to compress small objects; whether a small object that was compressed stays so is not stated) */
                if (want == -1 && L->comp == comp && I->comp != comp)
                    mc_violation("layout:compressed-below-threshold", "%s: data set %s has %ld bytes, below the threshold %ld, yet it was compressed (from %d to %d, input chunked %d)", g_case,
                                 L->name, L->bytes, thr, I->comp, L->comp, I->chunked);
            }
            if (chunk != -2) {
                int want_chunked = chunk == 1;
                if (L->chunked != want_chunked)
                    mc_violation("layout:chunking-not-as-requested", "%s: data set %s: -c requested chunked=%d, output chunked=%d", g_case, L->name, want_chunked, L->chunked);
                else if (chunk == 1)
                    for (int d = 0; d < L->rank; d++)
                        if (L->chunk[d] != cd[d]) {
                            mc_violation("layout:chunk-shape-not-as-requested", "%s: data set %s: chunk length %d of dimension %d, requested %d", g_case, L->name, (int)L->chunk[d], d, (int)cd[d]);
                            break;
                        }
            }
            mc_count("layout_checks", 1);
        }
    tc_free(&ra);
    tc_free(&rb);
}

/* large data sets that go through hrepack's strip-mined copy (1 MiB buffer) with partial strips */
static int
gen_big(const char *path, int which)
{
    remove(path);
    int32 S = SDstart(path, DFACC_CREATE);
    int32 dm3[3] = {2, 1100, 1000}, dm2[2] = {4, 300000}, st[3] = {0, 0, 0};
    long  ne = which == 0 ? 2L * 1100 * 1000 : 4L * 300000;
    int32 s  = which == 0 ? SDcreate(S, "big_u8", DFNT_UINT8, 3, dm3) : SDcreate(S, "big_i32", DFNT_INT32, 2, dm2);
    void *v  = malloc((size_t)ne * 4);
    if (which == 0)
        for (long i = 0; i < ne; i++)
            ((uint8 *)v)[i] = (uint8)((i * 31 + i / 1000) & 0xff);
    else
        for (long i = 0; i < ne; i++)
            ((int32 *)v)[i] = (int32)(i * 7 - 1000);
    int32 rc = SDwritedata(s, st, NULL, which == 0 ? dm3 : dm2, v);
    free(v);
    SDendaccess(s);
    return (SDend(S) == FAIL || rc == FAIL) ? -1 : 0;
}
static const optset_t BIGOPTS[] = {
    {"no options", {NULL}, NULL},
    {"-t *:NONE", {"-t", "*:NONE", NULL}, NULL},
    {"-c big_u8:1x100x1000 / big_i32:1x50000", {"-c", "big_u8:1x100x1000", "-c", "big_i32:1x50000", NULL}, NULL},
    {"-t *:GZIP 1", {"-t", "*:GZIP 1", NULL}, NULL},
};

static void
run_case(long idx, void *ctx)
{
    (void)ctx;
    /* idx encodes (input kind, first option set, second option set); the quick tier pairs every first set with one second set,
       the thorough tier runs all pairs */
    long nsmall = (long)NKINDS * NOPTS * NOPTS;
    int  big    = idx >= nsmall;
    int  kind, oi, oj;
    const optset_t *o, *o2;
    if (!big) {
        kind = (int)(idx / (NOPTS * NOPTS)), oi = (int)(idx / NOPTS % NOPTS), oj = (int)(idx % NOPTS);
        o = &OPTS[oi], o2 = &OPTS[oj];
    }
    else {
        long j = idx - nsmall;
        kind = 100 + (int)(j / 16), oi = (int)(j / 4 % 4), oj = (int)(j % 4);
        o = &BIGOPTS[oi], o2 = &BIGOPTS[oj];
    }
    int cfg[3] = {kind, oi, oj};
    mc_set_config(cfg, 3, "input=%d options=%d second=%d", kind, oi, oj);
    snprintf(g_case, sizeof g_case, "input kind %d, hrepack %s", kind, o->desc);
    mc_set_case("%s", g_case);
    tc_workdir("C18", idx);
    const char *in = tc_path("in.hdf"), *out = tc_path("out.hdf"), *out2 = tc_path("out2.hdf");
    tc_mut      none = {0, 0, 0};
    if ((big ? gen_big(in, kind - 100) : tc_generate(in, kind, none)) != 0) {
        mc_harness_error("cannot generate input kind %d", kind);
        return;
    }
    tc_rec    rin = {0};
    tc_layout layin[16];
    int       nin = 0;
    tc_content(in, &rin, layin, &nin, 16);
    /* an option set that names objects is only meaningful for inputs that hold them (hrepack treats an unknown name as an error) */
    for (int pass = 0; pass < 2; pass++) {
        const optset_t *oo = pass ? o2 : o;
        char            all[900] = "";
        for (int i = 0; oo->args[i]; i++)
            snprintf(all + strlen(all), sizeof all - strlen(all), " %s", oo->args[i]);
        if (oo->optfile)
            snprintf(all + strlen(all), sizeof all - strlen(all), " %s", oo->optfile);
        static const char *NAMES[] = {"sds_i8", "sds_i16", "sds_f32", "sds_f64", "sds_u8", "sds_i32", "sds_chunked", "sds_gzip", "sds_chunk_gzip", "sds_rle", "image_0", "image_1", "big_u8", "big_i32"};
        for (unsigned k = 0; k < sizeof NAMES / sizeof NAMES[0]; k++) {
            char needle[64], l1[80], l2[80];
            snprintf(needle, sizeof needle, "%s", NAMES[k]);
            const char *hit = strstr(all, needle);
            /* whole-name match only */
            while (hit && (hit[strlen(needle)] == '_' || (hit > all && hit[-1] == '_')))
                hit = strstr(hit + 1, needle);
            if (!hit)
                continue;
            snprintf(l1, sizeof l1, "SDS %s ", NAMES[k]);
            snprintf(l2, sizeof l2, "GR %s ", NAMES[k]);
            int present = 0;
            for (int q = 0; q < rin.n; q++)
                if (!strncmp(rin.line[q], l1, strlen(l1)) || !strncmp(rin.line[q], l2, strlen(l2)))
                    present = 1;
            if (!present) {
                if (pass == 0) {
                    tc_free(&rin);
                    tc_cleanup();
                    mc_count("cases_not_applicable", 1);
                    return;
                }
                o2 = &OPTS[0]; /* second pass falls back to the plain copy */
            }
        }
    }
    tc_free(&rin);
    char *log = NULL;
    int   rc  = repack(in, out, o, &log);
    if (!tc_tool_crashed("hrepack", rc, log, g_case)) {
        if (rc != 0)
            mc_violation("hrepack-failed", "%s: exit status %d: %.500s", g_case, rc, log ? log : "");
        else {
            compare("input-vs-output", in, out, o, layin, nin, 1);
            /* second pass with another option set: content must still equal the original input */
            free(log);
            log = NULL;
            rc  = repack(out, out2, o2, &log);
            if (!tc_tool_crashed("hrepack", rc, log, g_case)) {
                if (rc != 0)
                    mc_violation("hrepack-failed:second-pass", "%s then %s: exit status %d: %.500s", g_case, o2->desc, rc, log ? log : "");
                else {
                    char save[300];
                    snprintf(save, sizeof save, "%s", g_case);
                    snprintf(g_case, sizeof g_case, "%s, then hrepack %s", save, o2->desc);
                    compare("input-vs-second-output", in, out2, o2, NULL, 0, 0);
                }
            }
        }
    }
    free(log);
    tc_cleanup();
    if (idx % 9 == 0)
        mc_sample("%s", g_case);
    mc_count("cases_run", 1);
}

static void
run_listed(long i, void *ctx)
{
    run_case(((long *)ctx)[i], NULL);
}

int
C18_main(const char *tier, const char *replay)
{
    int thorough = strcmp(tier, "thorough") == 0;
    if (replay) {
        int   cfg[32], ncfg, nops;
        mc_op ops[MC_MAXDEPTH];
        if (mc_load_replay(replay, cfg, &ncfg, ops, &nops, MC_MAXDEPTH) || ncfg < 2)
            return 2;
        int  oj  = ncfg >= 3 ? cfg[2] : (cfg[0] >= 100 ? (cfg[1] + 1) % 4 : (cfg[1] + 5) % NOPTS);
        long idx = cfg[0] >= 100 ? (long)NKINDS * NOPTS * NOPTS + (cfg[0] - 100) * 16 + cfg[1] * 4 + oj : ((long)cfg[0] * NOPTS + cfg[1]) * NOPTS + oj;
        run_case(idx, NULL);
        printf("replay C18: %s (files kept in %s)\n", g_case, tc_work);
        return 0;
    }
    /* the list of cases of this tier */
    static long list[4096];
    long        n = 0;
    for (int k = 0; k < NKINDS; k++)
        for (int i = 0; i < NOPTS; i++)
            for (int j = 0; j < NOPTS; j++)
                if (thorough || j == (i + 5) % NOPTS)
                    list[n++] = ((long)k * NOPTS + i) * NOPTS + j;
    for (int k = 0; k < (thorough ? NBIG : 1); k++)
        for (int i = 0; i < 4; i++)
            for (int j = 0; j < 4; j++)
                if (thorough || j == (i + 1) % 4)
                    list[n++] = (long)NKINDS * NOPTS * NOPTS + k * 16 + i * 4 + j;
    mc_rule("every generated input kind (%d kinds + %d large data sets that need strip-mined copying) x every option set (%d, incl. option file, thresholds, object lists, "
            "un-chunking/un-compressing); each output repacked again with %s",
            NKINDS, thorough ? NBIG : 1, NOPTS, thorough ? "EVERY option set (all ordered pairs)" : "one other option set");
    mc_round_begin(thorough ? "all inputs x all ordered pairs of option sets" : "all inputs x all option sets (+ one second pass each)");
    mc_foreach(n, run_listed, list, 1, 600);
    mc_round_end();
    return 0;
}
