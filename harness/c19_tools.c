/* C19 - inspection tools report what is actually in the file.
 * Case enumeration over generated files, driving the hdiff / hdp / hdfimport executables built from the current tree:
 *  (a) hdiff(F,F) and hdiff(F, independently generated equal copy) report no difference and exit 0;
 *  (b) for every single-point mutation F' of F (one element of one SDS / Vdata / image, one element of one attribute, an added
 *      or removed object) hdiff(F,F') and hdiff(F',F) exit 1 when the mutation lies in a class hdiff compares;
 *  (c) the values printed by hdp dumpsds/dumpvd/dumpgr -d are parsed and compared with what the API returns;
 *  (d) hdfimport of text and binary inputs of every supported type and rank 2-3 yields data sets of that shape, type and values. */
#include "tools_common.h"

static char g_case[300];
static int  g_thorough;

/* ================================================================== (a) + (b) hdiff */
typedef struct {
    int    kind; /* file kind */
    tc_mut m;
    int    must; /* 1: hdiff must flag it */
    char   desc[160];
    tc_mut ma; /* applied to the FIRST file (none for the single-point cases): the two files then hold different sets of objects */
} mutcase_t;
static mutcase_t MC[900];
static int       NMC;

static void
addm(int kind, int mk, int obj, int pos, int must, const char *fmt, ...)
{
    va_list ap;
    if (NMC >= 900)
        return;
    MC[NMC].kind   = kind;
    MC[NMC].m.kind = mk, MC[NMC].m.obj = obj, MC[NMC].m.pos = pos;
    MC[NMC].must = must;
    va_start(ap, fmt);
    vsnprintf(MC[NMC].desc, sizeof MC[NMC].desc, fmt, ap);
    va_end(ap);
    NMC++;
}
static void
build_mutations(void)
{
    static const char *P[] = {"first", "middle", "last"};
    /* the reflexive / equal-copy case of every kind comes first */
    for (int kind = 0; kind < 6; kind++)
        addm(kind, 0, 0, 0, 0, "no mutation");
    for (int kind = 0; kind < 6; kind++) {
        int nsds = tc_nsds(kind);
        for (int k = 0; k < nsds; k++) {
            int idx = tc_sds_index(kind, k);
            for (int p = 0; p < 3; p++) {
                if (TC_SDS[idx].layout != 6)
                    addm(kind, 1, k, p, 1, "%s element of SDS %s", P[p], TC_SDS[idx].name);
                addm(kind, 2, k, p, 1, "%s attribute of SDS %s", p == 0 ? "string" : p == 1 ? "float64[4]" : "int32[3]", TC_SDS[idx].name);
            }
            if (TC_SDS[idx].layout != 1)
                for (int p = 0; p < 3; p += 2)
                    addm(kind, 10, k, p, 0, "%s value of the dimension scale of SDS %s", P[p], TC_SDS[idx].name);
            addm(kind, 9, k, 0, 1, "SDS %s removed", TC_SDS[idx].name);
        }
        if (nsds) {
            addm(kind, 3, 0, 0, 1, "global string attribute");
            for (int p = 0; p < 3; p++)
                addm(kind, 3, 1, p, 1, "element %d of the global float32[4] attribute", p == 0 ? 0 : p == 1 ? 2 : 3);
            addm(kind, 3, 2, 0, 1, "global int16 attribute (high byte)");
            addm(kind, 8, 0, 0, 1, "an added SDS");
        }
        if (kind == 2 || kind == 5)
            for (int k = 0; k < 3; k++) {
                for (int p = 0; p < 3; p++)
                    addm(kind, 5, k, p, 1, "%s pixel component of image_%d", P[p], k);
                addm(kind, 7, k, 0, 0, "attribute of image_%d", k);
                addm(kind, 9, 10 + k, 0, 1, "image_%d removed", k);
            }
        /* the two files hold different sets of objects (one more or one fewer in the first file) AND one element of an object
           they share differs */
        for (int r = -1; r < nsds && r < 3; r++)
            for (int k = 0; k < nsds; k++) {
                int idx = tc_sds_index(kind, k);
                if (k == r || TC_SDS[idx].layout == 6)
                    continue;
                addm(kind, 1, k, 1, 1, "%s only in the %s file, middle element of SDS %s differs", r < 0 ? "an added SDS" : TC_SDS[tc_sds_index(kind, r)].name, r < 0 ? "first" : "second", TC_SDS[idx].name);
                MC[NMC - 1].ma = r < 0 ? (tc_mut){8, 0, 0} : (tc_mut){9, r, 0};
            }
        /* the two files hold the same data sets, created in a different order, and one element of one of them differs */
        if (nsds >= 2) {
            addm(kind, 0, 0, 0, 0, "same content, data sets created in another order in the first file");
            MC[NMC - 1].ma = (tc_mut){12, 0, 0};
        }
        if (nsds >= 2)
            for (int k = 0; k < nsds; k++) {
                int idx = tc_sds_index(kind, k);
                if (TC_SDS[idx].layout == 6)
                    continue;
                addm(kind, 1, k, 1, 1, "data sets created in another order in the first file, middle element of SDS %s differs", TC_SDS[idx].name);
                MC[NMC - 1].ma = (tc_mut){12, 0, 0};
            }
        if (kind == 2 || kind == 5)
            for (int r = 0; r < 2; r++)
                for (int k = r + 1; k < 3; k++) {
                    addm(kind, 5, k, 1, 1, "image_%d only in the second file, middle pixel component of image_%d differs", r, k);
                    MC[NMC - 1].ma = (tc_mut){9, 10 + r, 0};
                }
        if (kind == 3 || kind == 5) {
            for (int k = 0; k < 2; k++) {
                for (int p = 0; p < 3; p++)
                    addm(kind, 4, k, p, 1, "%s of Vdata table_%d", p == 0 ? "int32 field of the first record" : p == 1 ? "float32 field of the middle record" : "char field of the last record", k);
                addm(kind, 6, k, 0, 0, "attribute of Vdata table_%d", k);
            }
            addm(kind, 11, 0, 0, 0, "attribute of Vgroup top_group");
        }
    }
}

static void
case_hdiff(long idx, void *ctx)
{
    (void)ctx;
    mutcase_t *c = &MC[idx];
    int cfg[7] = {0, c->kind, c->m.kind, c->m.obj, c->m.pos, c->ma.kind, c->ma.obj};
    mc_set_config(cfg, 7, "family=hdiff");
    snprintf(g_case, sizeof g_case, "file kind %d, %s", c->kind, c->desc);
    mc_set_case("%s", g_case);
    tc_workdir("C19", idx);
    if (tc_generate(tc_path("a.hdf"), c->kind, c->ma) || tc_generate(tc_path("b.hdf"), c->kind, c->m)) {
        mc_harness_error("cannot generate files for %s", g_case);
        return;
    }
    tc_rec ra = {0}, rb = {0};
    char   msg[900];
    tc_content(tc_path("a.hdf"), &ra, NULL, NULL, 0);
    tc_content(tc_path("b.hdf"), &rb, NULL, NULL, 0);
    int differs = tc_diff(&ra, &rb, msg, sizeof msg);
    tc_free(&ra);
    tc_free(&rb);
    if ((c->m.kind != 0) != (differs != 0)) {
        mc_harness_error("%s: the generator's mutation %s the API-level content (%s)", g_case, differs ? "changed" : "did not change", differs ? msg : "");
        tc_cleanup();
        return;
    }
    char *out = NULL;
    if (c->m.kind == 0) {
        char *a1[] = {"a.hdf", "a.hdf", NULL}, *a2[] = {"a.hdf", "b.hdf", NULL};
        int   rc = tc_run("hdiff", a1, &out);
        if (!tc_tool_crashed("hdiff", rc, out, g_case) && rc != 0)
            mc_violation("hdiff:not-reflexive", "%s: hdiff F F exits %d: %.400s", g_case, rc, out);
        free(out);
        out = NULL;
        rc  = tc_run("hdiff", a2, &out);
        if (!tc_tool_crashed("hdiff", rc, out, g_case) && rc != 0)
            mc_violation("hdiff:equal-files-reported-different", "%s: two files generated identically: hdiff exits %d: %.400s", g_case, rc, out);
        mc_outcome(mc_hash_i(MC_H0, rc));
    }
    else {
        char *a1[] = {"a.hdf", "b.hdf", NULL}, *a2[] = {"b.hdf", "a.hdf", NULL};
        int   r1 = tc_run("hdiff", a1, &out);
        int   c1 = tc_tool_crashed("hdiff", r1, out, g_case);
        char *out2 = NULL;
        int   r2 = tc_run("hdiff", a2, &out2);
        int   c2 = tc_tool_crashed("hdiff", r2, out2, g_case);
        if (!c1 && !c2) {
            static const char *CLS[] = {"", "sds-data", "sds-attribute", "global-attribute", "vdata-value", "image-pixel", "vdata-attribute", "image-attribute", "added-object", "removed-object", "dimension-scale", "vgroup-attribute"};
            char               sig[120];
            if ((r1 == 0) != (r2 == 0)) {
                snprintf(sig, sizeof sig, "hdiff:asymmetric:%s", CLS[c->m.kind]);
                mc_violation(sig, "%s: hdiff F F' exits %d but hdiff F' F exits %d", g_case, r1, r2);
            }
            else if (c->must && r1 == 0) {
                snprintf(sig, sizeof sig, "hdiff:difference-not-reported:%s%s", CLS[c->m.kind], c->ma.kind == 12 ? "@object-order-differs" : c->ma.kind ? "@object-sets-differ" : "");
                mc_violation(sig, "%s: the files differ (%s) but hdiff exits 0 in both orders", g_case, msg);
            }
            else if (r1 != 0 && r1 != 1) {
                snprintf(sig, sizeof sig, "hdiff:exit-status:%d", r1);
                mc_violation(sig, "%s: hdiff exits %d: %.300s", g_case, r1, out);
            }
            mc_count(r1 ? "mutations_flagged" : "mutations_not_flagged(optional classes)", 1);
            mc_outcome(mc_hash_i(mc_hash_i(MC_H0, c->m.kind), r1));
            /* thorough: the restricted comparison modes must still see a difference in their own class */
            if (g_thorough && c->must && c->m.kind >= 1 && c->m.kind <= 4 && !c->ma.kind) {
                static const char *MODE[] = {"", "-d", "-s", "-g", "-D"};
                char *a3[] = {(char *)MODE[c->m.kind], "a.hdf", "b.hdf", NULL}, *o3 = NULL;
                int   r3 = tc_run("hdiff", a3, &o3);
                if (!tc_tool_crashed("hdiff", r3, o3, g_case) && r3 == 0) {
                    snprintf(sig, sizeof sig, "hdiff:difference-not-reported:%s:mode%s", CLS[c->m.kind], MODE[c->m.kind]);
                    mc_violation(sig, "%s: hdiff %s exits 0 although the files differ in exactly that class", g_case, MODE[c->m.kind]);
                }
                free(o3);
                /* and the other restricted modes must not report it */
                for (int k = 1; k <= 4; k++) {
                    if (k == c->m.kind || (k == 2 && c->m.kind == 1) || (k == 1 && c->m.kind == 2))
                        continue;
                    char *a4[] = {(char *)MODE[k], "a.hdf", "b.hdf", NULL}, *o4 = NULL;
                    int   r4 = tc_run("hdiff", a4, &o4);
                    if (!tc_tool_crashed("hdiff", r4, o4, g_case) && r4 != 0) {
                        snprintf(sig, sizeof sig, "hdiff:difference-reported-in-unrelated-mode:%s:mode%s", CLS[c->m.kind], MODE[k]);
                        mc_violation(sig, "%s: hdiff %s exits %d although the only difference is in another class", g_case, MODE[k], r4);
                    }
                    free(o4);
                }
                mc_count("restricted_mode_runs", 4);
            }
        }
        free(out2);
    }
    free(out);
    if (idx % 17 == 0)
        mc_sample("hdiff: %s", g_case);
    tc_cleanup();
}

/* data sets hdiff compares strip by strip (>= 1 MiB) and data sets stored little-endian: one changed element */
static void
case_hdiff_special(long idx, void *ctx)
{
    (void)ctx;
    static const struct {
        int32 nt, d0, d1;
        long  pos; /* -1: last element */
    } SP[] = {{DFNT_UINT8, 1100, 1000, 5}, {DFNT_UINT8, 1100, 1000, -1}, {DFNT_UINT8, 1100, 1000, 550000}, {DFNT_INT16 | DFNT_LITEND, 10, 10, 3}, {DFNT_FLOAT32 | DFNT_LITEND, 6, 7, -1},
              {DFNT_INT32 | DFNT_LITEND, 4, 5, 0}};
    int cfg[2] = {3, (int)idx};
    mc_set_config(cfg, 2, "family=hdiff-special");
    long ne = (long)SP[idx].d0 * SP[idx].d1, pos = SP[idx].pos < 0 ? ne - 1 : SP[idx].pos;
    snprintf(g_case, sizeof g_case, "SDS of type %d (%s) %dx%d, files differ in element %ld only", (int)SP[idx].nt, (SP[idx].nt & DFNT_LITEND) ? "little-endian storage" : ">= 1 MiB, compared strip by strip",
             (int)SP[idx].d0, (int)SP[idx].d1, pos);
    mc_set_case("%s", g_case);
    tc_workdir("C19", 3000 + idx);
    int32 base = SP[idx].nt & ~DFNT_LITEND;
    void *v = malloc((size_t)ne * 8);
    for (int which = 0; which < 2; which++) {
        tc_values(base, ne, v, 3);
        if (which)
            tc_bump(base, v, pos);
        int32 S = SDstart(tc_path(which ? "b.hdf" : "a.hdf"), DFACC_CREATE), d[2] = {SP[idx].d0, SP[idx].d1}, st[2] = {0, 0};
        int32 s = SDcreate(S, "data", SP[idx].nt, 2, d);
        if (s == FAIL || SDwritedata(s, st, NULL, d, v) == FAIL || SDendaccess(s) == FAIL || SDend(S) == FAIL) {
            mc_harness_error("cannot write the special data set");
            free(v);
            return;
        }
    }
    free(v);
    char *a1[] = {"a.hdf", "b.hdf", NULL}, *a2[] = {"b.hdf", "a.hdf", NULL}, *a3[] = {"a.hdf", "a.hdf", NULL}, *o1 = NULL, *o2 = NULL, *o3 = NULL;
    int   r1 = tc_run("hdiff", a1, &o1), r2 = tc_run("hdiff", a2, &o2), r3 = tc_run("hdiff", a3, &o3);
    if (!tc_tool_crashed("hdiff", r1, o1, g_case) && !tc_tool_crashed("hdiff", r2, o2, g_case) && !tc_tool_crashed("hdiff", r3, o3, g_case)) {
        const char *cls = (SP[idx].nt & DFNT_LITEND) ? "little-endian-sds" : "large-sds";
        char        sig[120];
        if (r3 != 0)
            mc_violation("hdiff:not-reflexive", "%s: hdiff F F exits %d: %.300s", g_case, r3, o3);
        if (r1 == 0 || r2 == 0) {
            snprintf(sig, sizeof sig, "hdiff:difference-not-reported:%s", cls);
            mc_violation(sig, "%s: hdiff exits %d / %d (arguments swapped): %.300s", g_case, r1, r2, o1);
        }
        mc_outcome(mc_hash_i(mc_hash_i(MC_H0, 900 + idx), r1 * 10 + r2));
    }
    free(o1);
    free(o2);
    free(o3);
    tc_cleanup();
    mc_count("hdiff_special_cases", 1);
}

/* 24-bit images written by the single-file interface with pixel, line and plane interlace (plus an 8-bit image): hdiff is
   reflexive on them, silent on an equal copy and flags a changed pixel component */
static void
case_hdiff_df24(long idx, void *ctx)
{
    (void)ctx;
    int il = (int)(idx % 3), w = idx / 3 % 2 ? 7 : 5, h = 4;
    int cfg[2] = {6, (int)idx};
    mc_set_config(cfg, 2, "family=hdiff-df24");
    snprintf(g_case, sizeof g_case, "%dx%d 24-bit image written by DF24 with interlace %d and an 8-bit image", w, h, il);
    mc_set_case("%s", g_case);
    tc_workdir("C19", 5000 + idx);
    static const char *NAME[3] = {"a.hdf", "b.hdf", "c.hdf"};
    for (int k = 0; k < 3; k++) {
        uint8 px[7 * 4 * 3], r8[7 * 4];
        for (int i = 0; i < w * h * 3; i++)
            px[i] = (uint8)(i * 7 + 11);
        for (int i = 0; i < w * h; i++)
            r8[i] = (uint8)(i * 3 + 1);
        if (k == 2)
            px[w * h * 3 / 2] ^= 0x20;
        DF24restart();
        if (DF24setil(il) == FAIL || DF24addimage(tc_path(NAME[k]), px, w, h) == FAIL || DFR8addimage(tc_path(NAME[k]), r8, w, h, 0) == FAIL) {
            mc_harness_error("cannot write the DF24 file");
            return;
        }
    }
    char *a1[] = {"a.hdf", "a.hdf", NULL}, *a2[] = {"a.hdf", "b.hdf", NULL}, *a3[] = {"a.hdf", "c.hdf", NULL}, *a4[] = {"c.hdf", "a.hdf", NULL}, *o[4] = {NULL, NULL, NULL, NULL};
    int   r1 = tc_run("hdiff", a1, &o[0]), r2 = tc_run("hdiff", a2, &o[1]), r3 = tc_run("hdiff", a3, &o[2]), r4 = tc_run("hdiff", a4, &o[3]);
    if (!tc_tool_crashed("hdiff", r1, o[0], g_case) && !tc_tool_crashed("hdiff", r2, o[1], g_case) && !tc_tool_crashed("hdiff", r3, o[2], g_case) && !tc_tool_crashed("hdiff", r4, o[3], g_case)) {
        if (r1 != 0)
            mc_violation("hdiff:not-reflexive", "%s: hdiff F F exits %d: %.300s", g_case, r1, o[0]);
        if (r2 != 0)
            mc_violation("hdiff:equal-files-reported-different", "%s: two files written identically: hdiff exits %d: %.300s", g_case, r2, o[1]);
        if (r3 != 1 || r4 != 1)
            mc_violation("hdiff:difference-not-reported:image-pixel@df24", "%s: one pixel component differs: hdiff exits %d / %d (arguments swapped)", g_case, r3, r4);
        mc_outcome(mc_hash_i(mc_hash_i(MC_H0, 950 + idx), r1 * 100 + r2 * 10 + r3));
    }
    for (int i = 0; i < 4; i++)
        free(o[i]);
    tc_cleanup();
    mc_count("hdiff_df24_cases", 1);
}

/* ================================================================== (c) hdp */
/* numbers printed by hdp vs values from the API */
static int
parse_numbers(const char *txt, double *out, int max)
{
    int n = 0;
    const char *p = txt;
    while (*p && n < max) {
        char  *e;
        double v = strtod(p, &e);
        if (e == p) {
            p++;
            continue;
        }
        out[n++] = v;
        p        = e;
    }
    return n;
}
static double
as_double(int32 nt, const void *p, long i)
{
    switch (nt & ~DFNT_LITEND) {
        case DFNT_INT8: return ((const int8 *)p)[i];
        case DFNT_UINT8:
        case DFNT_UCHAR8: return ((const uint8 *)p)[i];
        case DFNT_INT16: return ((const int16 *)p)[i];
        case DFNT_UINT16: return ((const uint16 *)p)[i];
        case DFNT_INT32: return ((const int32 *)p)[i];
        case DFNT_UINT32: return ((const uint32 *)p)[i];
        case DFNT_FLOAT32: return ((const float32 *)p)[i];
        case DFNT_FLOAT64: return ((const float64 *)p)[i];
    }
    return 0;
}
static void
compare_dump(const char *tool, const char *obj, const char *out, int32 nt, const void *vals, long n)
{
    double *got = malloc(sizeof(double) * (size_t)(n + 64));
    int     ng  = parse_numbers(out, got, (int)n + 32);
    char    sig[120];
    if (ng != n) {
        snprintf(sig, sizeof sig, "hdp:%s:value-count", tool);
        mc_violation(sig, "%s: hdp %s -d of %s prints %d numbers, the object holds %ld", g_case, tool, obj, ng, n);
    }
    else
        for (long i = 0; i < n; i++) {
            double w = as_double(nt, vals, i);
            if (got[i] != w) {
                snprintf(sig, sizeof sig, "hdp:%s:value", tool);
                mc_violation(sig, "%s: hdp %s -d of %s prints %.10g as value %ld, the API returns %.10g", g_case, tool, obj, got[i], i, w);
                break;
            }
        }
    free(got);
    mc_count("dumps_compared", 1);
}

static void
case_hdp(long idx, void *ctx)
{
    (void)ctx;
    int kind = (int)idx;
    int cfg[2] = {1, kind};
    mc_set_config(cfg, 2, "family=hdp");
    snprintf(g_case, sizeof g_case, "file kind %d", kind);
    mc_set_case("%s", g_case);
    tc_workdir("C19", 1000 + idx);
    tc_mut none = {0, 0, 0};
    if (tc_generate(tc_path("f.hdf"), kind, none)) {
        mc_harness_error("cannot generate file kind %d", kind);
        return;
    }
    const char *path = tc_path("f.hdf");
    /* SDS */
    int32 S = SDstart(path, DFACC_READ);
    if (S != FAIL) {
        int32 nds = 0, na = 0;
        SDfileinfo(S, &nds, &na);
        for (int k = 0; k < nds; k++) {
            int32 s = SDselect(S, k);
            char  nm[H4_MAX_NC_NAME + 1];
            int32 rk, dm[H4_MAX_VAR_DIMS], nt, nat, st[H4_MAX_VAR_DIMS] = {0};
            int   empty = 0;
            if (s == FAIL || SDgetinfo(s, nm, &rk, dm, &nt, &nat) == FAIL || SDiscoordvar(s)) {
                if (s != FAIL)
                    SDendaccess(s);
                continue;
            }
            SDcheckempty(s, &empty);
            long ne = 1;
            for (int i = 0; i < rk; i++)
                ne *= dm[i];
            if (!empty && ne > 0) {
                void *v = calloc(1, (size_t)(ne * 8) + 8);
                SDreaddata(s, st, NULL, dm, v);
                char *a[] = {"dumpsds", "-d", "-n", nm, "f.hdf", NULL}, *out = NULL;
                int   rc = tc_run("hdp", a, &out);
                if (!tc_tool_crashed("hdp", rc, out, g_case)) {
                    if (rc != 0)
                        mc_violation("hdp:dumpsds:exit-status", "%s: hdp dumpsds -d -n %s exits %d: %.300s", g_case, nm, rc, out);
                    else
                        compare_dump("dumpsds", nm, out, nt, v, ne);
                }
                free(out);
                free(v);
            }
            SDendaccess(s);
        }
        SDend(S);
    }
    int32 f = Hopen(path, DFACC_READ, 0);
    if (f != FAIL) {
        /* images */
        int32 G = GRstart(f), nimg = 0, nga = 0;
        if (G != FAIL)
            GRfileinfo(G, &nimg, &nga);
        for (int k = 0; k < nimg; k++) {
            int32 ri = GRselect(G, k);
            char  nm[H4_MAX_GR_NAME + 1];
            int32 nc, nt, il, dm[2], nat, st[2] = {0, 0};
            if (ri == FAIL || GRgetiminfo(ri, nm, &nc, &nt, &il, dm, &nat) == FAIL)
                continue;
            long   ne = (long)dm[0] * dm[1] * nc;
            uint8 *v  = calloc(1, (size_t)(ne * 8) + 8);
            GRreqimageil(ri, MFGR_INTERLACE_PIXEL);
            GRreadimage(ri, st, NULL, dm, v);
            GRendaccess(ri);
            char *a[] = {"dumpgr", "-d", "-n", nm, "f.hdf", NULL}, *out = NULL;
            int   rc = tc_run("hdp", a, &out);
            if (!tc_tool_crashed("hdp", rc, out, g_case)) {
                if (rc != 0)
                    mc_violation("hdp:dumpgr:exit-status", "%s: hdp dumpgr -d -n %s exits %d: %.300s", g_case, nm, rc, out);
                else
                    compare_dump("dumpgr", nm, out, nt, v, ne);
            }
            free(out);
            free(v);
        }
        if (G != FAIL)
            GRend(G);
        /* Vdatas: numeric fields as numbers, character fields as characters */
        Vstart(f);
        int32 ref = -1;
        while ((ref = VSgetid(f, ref)) != FAIL) {
            int32 vs = VSattach(f, ref, "r");
            char  nm[VSNAMELENMAX + 1] = "", cl[VSNAMELENMAX + 1] = "";
            if (vs == FAIL)
                continue;
            VSgetname(vs, nm);
            VSgetclass(vs, cl);
            if (VSisinternal(cl)) {
                VSdetach(vs);
                continue;
            }
            int32 n = 0, il, sz;
            static char fl[VSFIELDMAX * (FIELDNAMELENMAX + 1)];
            VSinquire(vs, &n, &il, fl, &sz, nm);
            VSsetfields(vs, fl);
            uint8 *v = calloc(1, (size_t)(n * sz) + 8);
            VSread(vs, v, n, FULL_INTERLACE);
            int nf = VFnfields(vs);
            /* expected token stream */
            char  *a[] = {"dumpvd", "-d", "-n", nm, "f.hdf", NULL}, *out = NULL;
            int    rc = tc_run("hdp", a, &out);
            if (!tc_tool_crashed("hdp", rc, out, g_case)) {
                if (rc != 0)
                    mc_violation("hdp:dumpvd:exit-status", "%s: hdp dumpvd -d -n %s exits %d: %.300s", g_case, nm, rc, out);
                else {
                    char *tok = strtok(out, " \t\r\n");
                    int   bad = 0;
                    for (int r = 0; r < n && !bad; r++) {
                        const uint8 *rec = v + (long)r * sz;
                        for (int fi = 0; fi < nf && !bad; fi++) {
                            int32 ft = VFfieldtype(vs, fi), fo = VFfieldorder(vs, fi);
                            for (int e = 0; e < fo && !bad; e++) {
                                if (!tok) {
                                    mc_violation("hdp:dumpvd:value-count", "%s: hdp dumpvd -d of %s ends at record %d field %d", g_case, nm, r, fi);
                                    bad = 1;
                                    break;
                                }
                                if ((ft & ~DFNT_LITEND) == DFNT_CHAR8) {
                                    if (tok[0] != (char)rec[e] || tok[1])
                                        bad = 2;
                                }
                                else if (strtod(tok, NULL) != as_double(ft, rec, e))
                                    bad = 2;
                                if (bad == 2)
                                    mc_violation("hdp:dumpvd:value", "%s: hdp dumpvd -d of %s prints '%s' for record %d field %s[%d]", g_case, nm, tok, r, VFfieldname(vs, fi), e);
                                tok = strtok(NULL, " \t\r\n");
                            }
                            rec += VFfieldisize(vs, fi);
                        }
                    }
                    if (!bad && tok)
                        mc_violation("hdp:dumpvd:value-count", "%s: hdp dumpvd -d of %s prints more values than the %d records hold ('%s' ...)", g_case, nm, (int)n, tok);
                    mc_count("dumps_compared", 1);
                }
            }
            free(out);
            free(v);
            VSdetach(vs);
        }
        Vend(f);
        Hclose(f);
    }
    tc_cleanup();
}

/* hdp dumpvd on a Vdata that is larger than hdp's 1 MiB read buffer and whose record count is no multiple of what
   fits into that buffer: as many values as the API returns, and the same ones */
static void
case_hdp_big(long idx, void *ctx)
{
    (void)ctx;
    static const long NREC[] = {300000, 262144 + 1, 90000};
    static const int  ORD[]  = {1, 1, 3};
    long nrec = NREC[idx % 3];
    int  ord  = ORD[idx % 3];
    int  cfg[2] = {5, (int)idx};
    mc_set_config(cfg, 2, "family=hdp-large-vdata");
    snprintf(g_case, sizeof g_case, "Vdata of %ld records of %d int32 (more than hdp reads at once)", nrec, ord);
    mc_set_case("%s", g_case);
    tc_workdir("C19", 4000 + idx);
    int32 *v = malloc((size_t)nrec * ord * 4);
    for (long i = 0; i < nrec * ord; i++)
        v[i] = (int32)(i * 7 - 1000);
    int32 f = Hopen(tc_path("f.hdf"), DFACC_CREATE, 0);
    Vstart(f);
    int32 vs = VSattach(f, -1, "w");
    VSsetname(vs, "big");
    VSfdefine(vs, "val", DFNT_INT32, ord);
    if (VSsetfields(vs, "val") == FAIL || VSwrite(vs, (uint8 *)v, (int32)nrec, FULL_INTERLACE) != nrec || VSdetach(vs) == FAIL || Vend(f) == FAIL || Hclose(f) == FAIL) {
        mc_harness_error("cannot write the large Vdata");
        free(v);
        return;
    }
    char *a[] = {"dumpvd", "-d", "-n", "big", "f.hdf", NULL}, *out = NULL;
    int   rc  = tc_run("hdp", a, &out);
    if (!tc_tool_crashed("hdp", rc, out, g_case)) {
        if (rc != 0)
            mc_violation("hdp:dumpvd:exit-status", "%s: hdp dumpvd -d -n big exits %d: %.300s", g_case, rc, out);
        else {
            char *save = NULL, *tok = strtok_r(out, " \t\r\n", &save);
            long  k = 0, total = nrec * ord;
            for (; tok && k < total; k++, tok = strtok_r(NULL, " \t\r\n", &save))
                if (strtod(tok, NULL) != (double)v[k]) {
                    mc_violation("hdp:dumpvd:value", "%s: value #%ld printed by hdp dumpvd -d is '%s', the Vdata holds %d", g_case, k, tok, (int)v[k]);
                    break;
                }
            if (k == total && tok)
                mc_violation("hdp:dumpvd:value-count", "%s: hdp dumpvd -d prints more values than the %ld the Vdata holds ('%s' ...)", g_case, total, tok);
            else if (k < total && !tok)
                mc_violation("hdp:dumpvd:value-count", "%s: hdp dumpvd -d stops after %ld of %ld values", g_case, k, total);
            mc_count("dumps_compared", 1);
        }
    }
    free(out);
    free(v);
    tc_cleanup();
}

/* ================================================================== (d) hdfimport */
static const struct {
    const char *fmt;     /* input format designator */
    const char *topt;    /* -t argument for TEXT input, "-n" for FP64 binary kept as float64, or NULL */
    int32       outtype; /* expected data set type */
} IMP[] = {
    {"TEXT", NULL, DFNT_FLOAT32},    {"TEXT", "FP32", DFNT_FLOAT32}, {"TEXT", "FP64", DFNT_FLOAT64}, {"TEXT", "INT32", DFNT_INT32}, {"TEXT", "INT16", DFNT_INT16},
    {"TEXT", "INT8", DFNT_INT8},     {"FP32", NULL, DFNT_FLOAT32},   {"FP64", "-n", DFNT_FLOAT64},   {"FP64", NULL, DFNT_FLOAT32},  {"IN32", NULL, DFNT_INT32},
    {"IN16", NULL, DFNT_INT16},      {"IN08", NULL, DFNT_INT8},
};
#define NIMP 12
static const int IDIMS[][3] = {{1, 3, 4}, {1, 2, 5}, {1, 6, 2}, {2, 3, 4}, {3, 2, 2}, {2, 2, 7}}; /* the tool requires every dimension >= 2 */
#define NIDIMS 6

/* one input of format fi and shape di, values depending on salt */
typedef struct {
    int    fi, di, np, nr, nc;
    long   n;
    double val[64], sp[8], sr[8], sc[8];
} imp_t;

static void
imp_write(imp_t *I, const char *fname, int fi, int di, int salt)
{
    I->fi = fi, I->di = di;
    int np = I->np = IDIMS[di][0], nr = I->nr = IDIMS[di][1], nc = I->nc = IDIMS[di][2];
    long    n = I->n = (long)np * nr * nc;
    double *val = I->val, *sp = I->sp, *sr = I->sr, *sc = I->sc, mx = -1e30, mn = 1e30;
    int32   ot    = IMP[fi].outtype;
    int     isint = ot == DFNT_INT32 || ot == DFNT_INT16 || ot == DFNT_INT8;
    for (long i = 0; i < n; i++) {
        val[i] = isint ? (double)((i * 7 + salt * 11) % 50 - 20) : (double)((i * 7 + salt * 11) % 50 - 20) * 0.25;
        if (val[i] > mx)
            mx = val[i];
        if (val[i] < mn)
            mn = val[i];
    }
    for (int i = 0; i < 8; i++)
        sp[i] = 1 + i + salt, sr[i] = isint ? 10 + 2 * i + salt : 10 + 0.5 * i + salt, sc[i] = isint ? 100 + 3 * i + salt : 100 + 0.25 * i + salt;
    FILE *f = fopen(tc_path(fname), "wb");
    if (!strcmp(IMP[fi].fmt, "TEXT")) {
        fprintf(f, "TEXT\n%d %d %d\n%g %g\n", np, nr, nc, mx, mn);
        if (np > 1) {
            for (int i = 0; i < np; i++)
                fprintf(f, "%g ", sp[i]);
            fprintf(f, "\n");
        }
        for (int i = 0; i < nr; i++)
            fprintf(f, "%g ", sr[i]);
        fprintf(f, "\n");
        for (int i = 0; i < nc; i++)
            fprintf(f, "%g ", sc[i]);
        fprintf(f, "\n");
        for (long i = 0; i < n; i++)
            fprintf(f, "%g%s", val[i], (i + 1) % nc ? " " : "\n");
    }
    else {
        fwrite(IMP[fi].fmt, 1, 4, f);
        int32 hd[3] = {np, nr, nc};
        fwrite(hd, 4, 3, f);
#define PUT(v)                                                                                                                       \
    do {                                                                                                                             \
        double  d_ = (v);                                                                                                            \
        float   f_ = (float)d_;                                                                                                      \
        int32   i4 = (int32)d_;                                                                                                      \
        int16   i2 = (int16)d_;                                                                                                      \
        int8    i1 = (int8)d_;                                                                                                       \
        if (!strcmp(IMP[fi].fmt, "FP32"))                                                                                            \
            fwrite(&f_, 4, 1, f);                                                                                                    \
        else if (!strcmp(IMP[fi].fmt, "FP64"))                                                                                       \
            fwrite(&d_, 8, 1, f);                                                                                                    \
        else if (!strcmp(IMP[fi].fmt, "IN32"))                                                                                       \
            fwrite(&i4, 4, 1, f);                                                                                                    \
        else if (!strcmp(IMP[fi].fmt, "IN16"))                                                                                       \
            fwrite(&i2, 2, 1, f);                                                                                                    \
        else                                                                                                                         \
            fwrite(&i1, 1, 1, f);                                                                                                    \
    } while (0)
        PUT(mx);
        PUT(mn);
        if (np > 1)
            for (int i = 0; i < np; i++)
                PUT(sp[i]);
        for (int i = 0; i < nr; i++)
            PUT(sr[i]);
        for (int i = 0; i < nc; i++)
            PUT(sc[i]);
        for (long i = 0; i < n; i++)
            PUT(val[i]);
    }
    fclose(f);
}

/* the input file name followed by the options that belong to it */
static int
imp_args(char **args, int na, const char *fname, int fi)
{
    args[na++] = (char *)fname;
    if (IMP[fi].topt && !strcmp(IMP[fi].topt, "-n"))
        args[na++] = "-n";
    else if (IMP[fi].topt) {
        args[na++] = "-t";
        args[na++] = (char *)IMP[fi].topt;
    }
    return na;
}

/* data set number k of the output against input I */
static void
imp_check(int32 S, int k, const imp_t *I)
{
    int   np = I->np, nr = I->nr, nc = I->nc;
    int32 ot = IMP[I->fi].outtype;
    int32 s  = S == FAIL ? FAIL : SDselect(S, k);
    char  nm[H4_MAX_NC_NAME + 1];
    int32 rk = 0, dm[H4_MAX_VAR_DIMS] = {0}, nt = 0, nat = 0, st[3] = {0, 0, 0};
    /* (coordinate variables of earlier data sets are data sets of their own in SD's numbering: step over them) */
    if (s == FAIL || SDgetinfo(s, nm, &rk, dm, &nt, &nat) == FAIL)
        mc_violation("hdfimport:no-dataset", "%s: the output file holds no readable data set #%d", g_case, k);
    else {
        int wr = np > 1 ? 3 : 2;
        int okshape = rk == wr && (wr == 3 ? (dm[0] == np && dm[1] == nr && dm[2] == nc) : (dm[0] == nr && dm[1] == nc));
        if (!okshape || nt != ot)
            mc_violation("hdfimport:shape-or-type", "%s: output data set #%d has rank %d dims %d,%d,%d type %d; expected rank %d dims %s%d,%d type %d", g_case, k, (int)rk,
                         (int)dm[0], (int)dm[1], (int)dm[2], (int)nt, wr, wr == 3 ? "2+," : "", nr, nc, (int)ot);
        else {
            uint8 buf[64 * 8 + 8];
            if (SDreaddata(s, st, NULL, dm, buf) == FAIL)
                mc_violation("hdfimport:unreadable", "%s: output data set #%d cannot be read", g_case, k);
            else
                for (long i = 0; i < I->n; i++)
                    if (as_double(nt, buf, i) != I->val[i]) {
                        mc_violation("hdfimport:value", "%s: element %ld of output data set #%d is %.10g, the input says %.10g", g_case, i, k, as_double(nt, buf, i), I->val[i]);
                        break;
                    }
            /* axis scales */
            for (int d = 0; d < rk; d++) {
                int32         did = SDgetdimid(s, d), sz, snt = 0, sna;
                char          dn[H4_MAX_NC_NAME + 1];
                uint8         sb[8 * 8 + 8];
                const double *want = wr == 3 ? (d == 0 ? I->sp : d == 1 ? I->sr : I->sc) : (d == 0 ? I->sr : I->sc);
                SDdiminfo(did, dn, &sz, &snt, &sna);
                if (snt && SDgetdimscale(did, sb) != FAIL)
                    for (int i = 0; i < dm[d]; i++)
                        if (as_double(snt, sb, i) != want[i]) {
                            mc_violation("hdfimport:scale", "%s: scale value %d of dimension %d of data set #%d is %.10g, the input says %.10g", g_case, i, d, k,
                                         as_double(snt, sb, i), want[i]);
                            break;
                        }
            }
        }
    }
    if (s != FAIL)
        SDendaccess(s);
}

/* index of the k-th data set that is not a coordinate variable */
static int
nth_dataset(int32 S, int k)
{
    int32 nds = 0, nat = 0;
    if (S == FAIL || SDfileinfo(S, &nds, &nat) == FAIL)
        return k;
    for (int i = 0, seen = 0; i < nds; i++) {
        int32 s = SDselect(S, i);
        int   c = s != FAIL && SDiscoordvar(s);
        if (s != FAIL)
            SDendaccess(s);
        if (!c && seen++ == k)
            return i;
    }
    return (int)nds; /* none: SDselect will fail and be reported */
}

static void
case_import(long idx, void *ctx)
{
    (void)ctx;
    int fi = (int)(idx % NIMP), di = (int)(idx / NIMP);
    int cfg[3] = {2, fi, di};
    mc_set_config(cfg, 3, "family=hdfimport");
    int np = IDIMS[di][0], nr = IDIMS[di][1], nc = IDIMS[di][2];
    snprintf(g_case, sizeof g_case, "hdfimport %s input%s%s, %d x %d x %d", IMP[fi].fmt, IMP[fi].topt ? " " : "", IMP[fi].topt ? IMP[fi].topt : "", np, nr, nc);
    mc_set_case("%s", g_case);
    tc_workdir("C19", 2000 + idx);
    imp_t I;
    imp_write(&I, "in.dat", fi, di, 0);
    char *args[12];
    int   na   = imp_args(args, 0, "in.dat", fi);
    args[na++] = "-o";
    args[na++] = "out.hdf";
    args[na]   = NULL;
    char *out = NULL;
    int   rc  = tc_run("hdfimport", args, &out);
    if (!tc_tool_crashed("hdfimport", rc, out, g_case)) {
        if (rc != 0)
            mc_violation("hdfimport:exit-status", "%s: exits %d: %.400s", g_case, rc, out);
        else {
            int32 S = SDstart(tc_path("out.hdf"), DFACC_READ);
            imp_check(S, nth_dataset(S, 0), &I);
            if (S != FAIL)
                SDend(S);
            if (idx % 13 == 0)
                mc_sample("%s", g_case);
            mc_count("imports_compared", 1);
        }
    }
    free(out);
    tc_cleanup();
}

/* two inputs in one invocation: every ordered pair of input formats; each input keeps its own options and must come
   out as its own data set (the tool carries per-input state from one input to the next) */
static void
case_import_pair(long idx, void *ctx)
{
    (void)ctx;
    int f1 = (int)(idx % NIMP), f2 = (int)(idx / NIMP % NIMP);
    int cfg[3] = {4, f1, f2};
    mc_set_config(cfg, 3, "family=hdfimport-two-inputs");
    snprintf(g_case, sizeof g_case, "hdfimport of two inputs in one call: %s%s%s (2x3x4) then %s%s%s (3x4)", IMP[f1].fmt, IMP[f1].topt ? " " : "", IMP[f1].topt ? IMP[f1].topt : "",
             IMP[f2].fmt, IMP[f2].topt ? " " : "", IMP[f2].topt ? IMP[f2].topt : "");
    mc_set_case("%s", g_case);
    tc_workdir("C19", 5000 + idx);
    imp_t A, B;
    imp_write(&A, "in1.dat", f1, 3, 1);
    imp_write(&B, "in2.dat", f2, 0, 2);
    char *args[16];
    int   na   = imp_args(args, 0, "in1.dat", f1);
    na         = imp_args(args, na, "in2.dat", f2);
    args[na++] = "-o";
    args[na++] = "out.hdf";
    args[na]   = NULL;
    char *out = NULL;
    int   rc  = tc_run("hdfimport", args, &out);
    if (!tc_tool_crashed("hdfimport", rc, out, g_case)) {
        if (rc != 0)
            mc_violation("hdfimport:exit-status", "%s: exits %d: %.400s", g_case, rc, out);
        else {
            int32 S = SDstart(tc_path("out.hdf"), DFACC_READ);
            imp_check(S, nth_dataset(S, 0), &A);
            imp_check(S, nth_dataset(S, 1), &B);
            if (S != FAIL)
                SDend(S);
            if (idx % 29 == 0)
                mc_sample("%s", g_case);
            mc_count("import_pairs_compared", 1);
        }
    }
    free(out);
    tc_cleanup();
}

int
C19_main(const char *tier, const char *replay)
{
    g_thorough = strcmp(tier, "thorough") == 0;
    build_mutations();
    if (replay) {
        int   cfg[32], ncfg, nops;
        mc_op ops[MC_MAXDEPTH];
        if (mc_load_replay(replay, cfg, &ncfg, ops, &nops, MC_MAXDEPTH) || ncfg < 2)
            return 2;
        if (cfg[0] == 0) {
            for (int i = 0; i < NMC; i++)
                if (MC[i].kind == cfg[1] && MC[i].m.kind == cfg[2] && MC[i].m.obj == cfg[3] && MC[i].m.pos == cfg[4] && MC[i].ma.kind == (ncfg >= 7 ? cfg[5] : 0) &&
                    MC[i].ma.obj == (ncfg >= 7 ? cfg[6] : 0)) {
                    case_hdiff(i, NULL);
                    break;
                }
        }
        else if (cfg[0] == 1)
            case_hdp(cfg[1], NULL);
        else if (cfg[0] == 3)
            case_hdiff_special(cfg[1], NULL);
        else if (cfg[0] == 4)
            case_import_pair(cfg[1] + (long)NIMP * cfg[2], NULL);
        else if (cfg[0] == 5)
            case_hdp_big(cfg[1], NULL);
        else if (cfg[0] == 6)
            case_hdiff_df24(cfg[1], NULL);
        else
            case_import(cfg[1] + (long)NIMP * cfg[2], NULL);
        printf("replay C19: %s (files kept in %s)\n", g_case, tc_work);
        return 0;
    }
    mc_rule("hdiff: 6 generated file kinds x (reflexive + equal copy + every single-point mutation of the generator: first/middle/last element of every SDS, Vdata field and image, "
            "every attribute element class, dimension scales, added and removed objects) in both argument orders = %d cases; hdp: every SDS, image and Vdata of 6 file kinds; "
            "hdfimport: %d input formats x %d shapes, and every ordered pair of input formats given in one invocation",
            NMC, NIMP, NIDIMS);
    mc_round_begin("hdiff");
    mc_foreach(NMC, case_hdiff, NULL, 1, 300);
    mc_round_end();
    mc_round_begin("hdiff: large and little-endian data sets");
    mc_foreach(6, case_hdiff_special, NULL, 1, 300);
    mc_round_end();
    mc_round_begin("hdiff: 24-bit images written by DF24 in every interlace");
    mc_foreach(6, case_hdiff_df24, NULL, 1, 300);
    mc_round_end();
    mc_round_begin("hdp");
    mc_foreach(6, case_hdp, NULL, 1, 300);
    mc_round_end();
    mc_round_begin("hdp: Vdatas larger than its read buffer");
    mc_foreach(3, case_hdp_big, NULL, 1, 600);
    mc_round_end();
    mc_round_begin("hdfimport");
    mc_foreach((long)NIMP * NIDIMS, case_import, NULL, 1, 300);
    mc_round_end();
    mc_round_begin("hdfimport: two inputs in one invocation");
    mc_foreach((long)NIMP * NIMP, case_import_pair, NULL, 1, 300);
    mc_round_end();
    return 0;
}
