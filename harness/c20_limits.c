/* C20 - format limits are enforced cleanly: no wrap-around, no over-long objects.
 * Case enumeration: every limit family x every parameter value chosen around the limit (below, at, one past, far past,
 * values that wrap to small/negative numbers in 16/32-bit arithmetic).  Oracle per case:
 *   - a request the format cannot represent returns the failure value (three-valued table: MUST_OK / MUST_FAIL / MAY);
 *   - inquiries after the request report what was accepted, never a wrapped value;
 *   - after closing, an independent reader finds a well-formed file (sparse 2 GiB files are mapped flat);
 *   - a follow-up workload of valid calls on the same file still works and reads back exactly;
 *   - AddressSanitizer stays silent. */
#include "../engine/mc.h"
#include "../engine/vfs.h"
#include "../engine/fmtcheck.h"
#include "hdf.h"
#include "mfhdf.h"
#include <stdio.h>
#include <sys/resource.h>
#include <stdlib.h>
#include <string.h>
#include <sys/mman.h>
#include <sys/syscall.h>
#include <unistd.h>

#define PATH "/vmem/c20.hdf"
#define I31 2147483647L

enum { MAY = 0, MUST_OK = 1, MUST_FAIL = 2 };
static char g_case[200];

static void
expect(int exp, int failed, const char *what)
{
    char sig[160];
    if (exp == MUST_FAIL && !failed) {
        snprintf(sig, sizeof sig, "limit-not-enforced:%s", what);
        mc_violation(sig, "%s: a request beyond what the format can represent reported success", g_case);
    }
    else if (exp == MUST_OK && failed) {
        snprintf(sig, sizeof sig, "legal-request-refused:%s", what);
        mc_violation(sig, "%s: a request within the documented limits was refused", g_case);
    }
    mc_count(failed ? "requests_refused" : "requests_accepted", 1);
}
static void
wrapped(const char *what, long got, long want)
{
    char sig[160];
    snprintf(sig, sizeof sig, "wrapped-or-wrong-value:%s", what);
    mc_violation(sig, "%s: %s reports %ld, expected %ld", g_case, what, got, want);
}

/* independent structural validation; sparse-friendly */
static void
check_file(const char *path, const char *after)
{
    vfile *vf = vfs_lookup(path);
    if (!vf)
        return;
    long     sz;
    uint8_t *m = vfs_map_flat(vf, &sz);
    if (!m) {
        mc_harness_error("cannot map %s", path);
        return;
    }
    fc_file fc;
    memset(&fc, 0, sizeof fc);
    if (fc_parse(&fc, m, sz) != 0) {
        char sig[160];
        snprintf(sig, sizeof sig, "file-not-well-formed:%s", after);
        mc_violation(sig, "%s: after closing, the independent reader rejects the file: %s", g_case, fc.err[0]);
    }
    else {
        for (int i = 0; i < fc.ndd; i++)
            if (fc.dd[i].off < 0 || fc.dd[i].len < 0) {
                /* fc_parse accepts the (-1,-1) "defined, no data" pair only */
                if (!(fc.dd[i].off == -1 && fc.dd[i].len == -1)) {
                    char sig[160];
                    snprintf(sig, sizeof sig, "negative-descriptor:%s", after);
                    mc_violation(sig, "%s: descriptor (%u,%u) has offset %d length %d", g_case, fc.dd[i].tag, fc.dd[i].ref, fc.dd[i].off, fc.dd[i].len);
                    break;
                }
            }
    }
    fc_free(&fc);
    vfs_unmap_flat(vf, m);
}

/* the library must still be usable on this file: write + read a small element through a fresh open */
static void
followup(const char *path, const char *after, int refs_exhausted)
{
    char  sig[160];
    int32 f = Hopen(path, DFACC_RDWR, 0);
    if (f == FAIL) {
        snprintf(sig, sizeof sig, "unusable-afterwards:Hopen:%s", after);
        mc_violation(sig, "%s: the file cannot be opened any more", g_case);
        return;
    }
    uint8 w[5] = {9, 8, 7, 6, 5}, r[5] = {0};
    if (!refs_exhausted) {
        uint16 ref = Hnewref(f);
        int32  rc  = ref ? Hputelement(f, 1001, ref, w, 5) : FAIL;
        /* a file whose end is at the 2 GiB limit may refuse new data; it must then refuse cleanly */
        if (rc != FAIL) {
            if (Hgetelement(f, 1001, ref, r) != 5 || memcmp(w, r, 5)) {
                snprintf(sig, sizeof sig, "unusable-afterwards:readback:%s", after);
                mc_violation(sig, "%s: a small element written afterwards does not read back", g_case);
            }
            int32 off = Hoffset(f, 1001, ref);
            if (off < 0) {
                snprintf(sig, sizeof sig, "wrapped-or-wrong-value:offset-after:%s", after);
                mc_violation(sig, "%s: element written afterwards is reported at offset %d", g_case, (int)off);
            }
        }
        mc_count(rc == FAIL ? "followup_refused" : "followup_written", 1);
    }
    if (Hclose(f) == FAIL) {
        snprintf(sig, sizeof sig, "unusable-afterwards:Hclose:%s", after);
        mc_violation(sig, "%s: closing after the follow-up failed", g_case);
    }
    check_file(path, after);
}

static void *
big_zero_buffer(size_t n)
{
    void *p = (void *)syscall(SYS_mmap, NULL, n + 4096, PROT_READ | PROT_WRITE, MAP_PRIVATE | MAP_ANONYMOUS | MAP_NORESERVE, -1, 0);
    return p == MAP_FAILED ? NULL : p;
}

/* ================================================================== A. file offsets around 2^31-1 */
/* A1: reserve a first element so that the file ends `gap` bytes below the limit, then request a second of length L2 */
static const long A_GAPS[] = {0, 1, 2, 100, 65536};
static const long A_OVER[] = {-2, -1, 0, 1, 2, 4096, 65536, I31 / 2}; /* end of 2nd element relative to the limit */
static void
case_reserve(long p)
{
    long gap = A_GAPS[p / 8], over = A_OVER[p % 8];
    vfs_remove_file(PATH);
    int32 f = Hopen(PATH, DFACC_CREATE, 16);
    if (f == FAIL)
        return;
    uint8 b[8] = {1, 2, 3, 4, 5, 6, 7, 8};
    Hputelement(f, 1000, 1, b, 8);
    /* where would the next element start? the library appends at the end of the file */
    int32 a = Hstartwrite(f, 1000, 2, 4);
    Hwrite(a, 4, b);
    Hendaccess(a);
    long eof = Hoffset(f, 1000, 2) + 4;
    long L1  = I31 - gap - eof; /* file ends at limit-gap after this */
    snprintf(g_case, sizeof g_case, "reserve L1=%ld (file end = 2^31-1-%ld) then request L2 ending at 2^31-1%+ld", L1, gap, over);
    mc_set_case("%s", g_case);
    a = Hstartwrite(f, 1000, 3, (int32)L1);
    expect(MUST_OK, a == FAIL, "Hstartwrite:first-reservation-below-2^31");
    if (a == FAIL) {
        Hclose(f);
        return;
    }
    /* touch the last byte so the file really is that long */
    if (Hseek(a, (int32)L1 - 1, DF_START) == FAIL || Hwrite(a, 1, b) != 1)
        expect(MUST_OK, 1, "Hwrite:last-byte-of-reservation");
    Hendaccess(a);
    long L2 = gap + over;
    if (L2 <= 0 || L2 > I31) {
        Hclose(f);
        return;
    }
    a        = Hstartwrite(f, 1000, 4, (int32)L2);
    int want = over > 0 ? MUST_FAIL : MAY;
    expect(want, a == FAIL, "Hstartwrite:element-end-beyond-2^31-1");
    if (a != FAIL) {
        int32 off = -5, len = -5;
        Hinquire(a, NULL, NULL, NULL, &len, &off, NULL, NULL, NULL);
        if (off < 0 || len != L2 || (long)off + len - 1 > I31)
            wrapped("Hinquire:offset+length-of-accepted-element", (long)off + len, eof + L1 + L2);
        Hendaccess(a);
    }
    /* appending to the last element across the limit */
    a = Hstartaccess(f, 1000, 3, DFACC_RDWR);
    if (a != FAIL && Happendable(a) != FAIL && Hseek(a, (int32)L1, DF_START) != FAIL) {
        int32 n = Hwrite(a, (int32)(gap + 3 > 8 ? 8 : gap + 3), b);
        if (gap + 3 <= 8 && a != FAIL) {
            /* growing the element past 2^31-1 cannot be represented */
            int32 len = 0;
            Hinquire(a, NULL, NULL, NULL, &len, NULL, NULL, NULL, NULL);
            int16 sp = 0;
            Hinquire(a, NULL, NULL, NULL, NULL, NULL, NULL, NULL, &sp);
            if (n != FAIL && !sp && (long)Hoffset(f, 1000, 3) + len > I31)
                expect(MUST_FAIL, 0, "Hwrite:append-contiguous-beyond-2^31-1");
        }
    }
    if (a != FAIL)
        Hendaccess(a);
    /* the last element of the file, appendable: seek beyond its end (allowed), then write across the limit */
    {
        uint16 lastref = Hlength(f, 1000, 4) > 0 ? 4 : 3; /* a refused reservation may leave a descriptor without data */
        a              = Hstartaccess(f, 1000, lastref, DFACC_RDWR);
        int32 len = 0, off = 0;
        int16 sp = 0;
        if (a != FAIL && Happendable(a) != FAIL && Hinquire(a, NULL, NULL, NULL, &len, &off, NULL, NULL, &sp) != FAIL && !sp) {
            long room = I31 - ((long)off + len); /* bytes between the element's end and the limit */
            if (room >= 4 && room < I31 / 2) {
                int32 sk = Hseek(a, (int32)(len + room - 4), DF_START);
                if (mc_replaying)
                    printf("  probe: last ref %u off %d len %d room %ld seek rc %d\n", lastref, (int)off, (int)len, room, (int)sk);
                if (sk != FAIL) {
                    int32 n = Hwrite(a, 8, b);
                    if (mc_replaying)
                        printf("  probe: Hwrite returned %d\n", (int)n);
                    Hinquire(a, NULL, NULL, NULL, NULL, NULL, NULL, NULL, &sp);
                    if (!sp)
                        expect(MUST_FAIL, n == FAIL, "Hwrite:seek-past-end-then-write-beyond-2^31-1");
                }
            }
        }
        if (a != FAIL)
            Hendaccess(a);
    }
    int rc = Hclose(f);
    expect(MAY, rc == FAIL, "Hclose");
    followup(PATH, "reserve", 0);
}

/* A2: Hsetlength / HLcreate / Hputelement lengths */
static const long LENS[] = {I31 - 4096, I31 - 1000, I31 - 1, I31};
static void
case_setlength(long p)
{
    vfs_remove_file(PATH);
    int32 f = Hopen(PATH, DFACC_CREATE, 16);
    uint8 b[8] = {1, 2, 3, 4, 5, 6, 7, 8};
    Hputelement(f, 1000, 1, b, 8);
    long L = LENS[p % 4];
    int  linked = (int)(p / 4);
    snprintf(g_case, sizeof g_case, "%s of %ld bytes in a file that already holds data", linked ? "linked-block element with block length" : "Hsetlength on a new element", L);
    mc_set_case("%s", g_case);
    if (!linked) {
        int32 a = Hstartaccess(f, 1000, 2, DFACC_RDWR);
        int32 rc = Hsetlength(a, (int32)L);
        long  start = vfs_size(PATH);
        expect(start + L - 1 > I31 ? MUST_FAIL : MAY, rc == FAIL, "Hsetlength:element-end-beyond-2^31-1");
        Hendaccess(a);
    }
    else {
        /* the first block is allocated by the first write: a block that would end beyond 2^31-1 cannot exist */
        int32 a = HLcreate(f, 1000, 2, (int32)L, 2);
        long  start = vfs_size(PATH);
        expect(MAY, a == FAIL, "HLcreate");
        if (a != FAIL) {
            int32 rc = Hwrite(a, 8, b);
            expect(start + L > I31 ? MUST_FAIL : MAY, rc == FAIL, "Hwrite:first-linked-block-beyond-2^31-1");
            Hendaccess(a);
        }
    }
    expect(MAY, Hclose(f) == FAIL, "Hclose");
    followup(PATH, linked ? "HLcreate-huge" : "Hsetlength-huge", 0);
}

/* A3: linked blocks: the second block would lie beyond the limit */
static void
case_linked_second_block(long p)
{
    long blk = (p == 0) ? (I31 / 2 - 1000) : (p == 1 ? I31 / 2 + 1 : 1 << 30);
    vfs_remove_file(PATH);
    int32 f = Hopen(PATH, DFACC_CREATE, 16);
    uint8 b[8] = {1, 2, 3, 4, 5, 6, 7, 8};
    snprintf(g_case, sizeof g_case, "linked-block element, block length %ld: write into block 0, then into block 1", blk);
    mc_set_case("%s", g_case);
    int32 a = HLcreate(f, 1000, 2, (int32)blk, 4);
    if (a == FAIL) {
        Hclose(f);
        followup(PATH, "linked-second-block", 0);
        return;
    }
    expect(MUST_OK, Hwrite(a, 8, b) != 8, "Hwrite:first-linked-block");
    int32 rc = Hseek(a, (int32)blk, DF_START);
    int32 n  = rc == FAIL ? FAIL : Hwrite(a, 8, b);
    long  end2 = 2 * blk + 400; /* lower bound of where block 1 would have to end */
    expect(end2 > I31 ? MUST_FAIL : MAY, n == FAIL, "Hwrite:linked-block-beyond-2^31-1");
    if (n != FAIL) {
        uint8 r[8] = {0};
        if (Hseek(a, (int32)blk, DF_START) == FAIL || Hread(a, 8, r) != 8 || memcmp(r, b, 8))
            wrapped("linked-block-1-readback", r[0], b[0]);
    }
    Hendaccess(a);
    expect(MAY, Hclose(f) == FAIL, "Hclose");
    followup(PATH, "linked-second-block", 0);
}

/* ================================================================== B. reference exhaustion in every interface */
static void
case_refs_exhausted(long p)
{
    static const char *who[] = {"Hnewref", "Vattach(-1,w)", "VSattach(-1,w)", "GRcreate", "ANcreate", "SDcreate", "VHstoredata", "Htagnewref"};
    vfs_remove_file(PATH);
    int32 f = Hopen(PATH, DFACC_CREATE, 512);
    uint8 b[4] = {1, 2, 3, 4};
    Hputelement(f, 1000, 1, b, 4);
    snprintf(g_case, sizeof g_case, "all 65535 reference numbers in use, then %s", who[p]);
    mc_set_case("%s", g_case);
    /* use every reference number for every tag this case will ask for */
    static const uint16 tags[] = {1000, DFTAG_VG, DFTAG_VH, DFTAG_VS, DFTAG_RIG, DFTAG_RI, DFTAG_FID, DFTAG_FD, DFTAG_DIL, DFTAG_DIA, DFTAG_NDG, DFTAG_SD, DFTAG_SDD, DFTAG_NT};
    int                 ntags  = (p == 0 || p == 7) ? 1 : (int)(sizeof tags / sizeof tags[0]);
    (void)ntags;
    for (long r = 2; r <= 65535; r++)
        if (Hdupdd(f, 1000, (uint16)r, 1000, 1) == FAIL) {
            mc_harness_error("Hdupdd %ld failed while filling references", r);
            Hclose(f);
            return;
        }
    uint16 nr = Hnewref(f);
    if (nr != 0)
        expect(MUST_FAIL, 0, "Hnewref:all-refs-used");
    int32 rc = FAIL;
    switch (p) {
        case 0:
            rc = nr ? 0 : FAIL;
            break;
        case 1:
            Vstart(f);
            rc = Vattach(f, -1, "w");
            if (rc != FAIL) {
                Vsetname(rc, "g");
                Vdetach(rc);
            }
            Vend(f);
            break;
        case 2:
            Vstart(f);
            rc = VSattach(f, -1, "w");
            if (rc != FAIL) {
                VSsetname(rc, "v");
                VSdetach(rc);
            }
            Vend(f);
            break;
        case 3: {
            int32 G = GRstart(f), d[2] = {2, 2}, st[2] = {0, 0};
            rc = GRcreate(G, "i", 1, DFNT_UINT8, 0, d);
            if (rc != FAIL) {
                int32 w = GRwriteimage(rc, st, NULL, d, b);
                GRendaccess(rc);
                rc = w;
            }
            int32 e = GRend(G);
            if (rc != FAIL)
                rc = e;
            break;
        }
        case 4: {
            int32 A = ANstart(f);
            rc = ANcreate(A, 1000, 1, AN_DATA_LABEL);
            if (rc != FAIL) {
                int32 w = ANwriteann(rc, "x", 1);
                ANendaccess(rc);
                rc = w;
            }
            ANend(A);
            break;
        }
        case 5: {
            Hclose(f);
            f = FAIL;
            int32 S = SDstart(PATH, DFACC_RDWR), d[1] = {2}, st[1] = {0};
            int32 s = SDcreate(S, "d", DFNT_UINT8, 1, d);
            rc      = s;
            if (s != FAIL) {
                rc = SDwritedata(s, st, NULL, d, b);
                SDendaccess(s);
            }
            int32 e = SDend(S);
            if (rc != FAIL)
                rc = e;
            break;
        }
        case 6:
            Vstart(f);
            rc = VHstoredata(f, "x", b, 2, DFNT_UINT8, "n", "c");
            Vend(f);
            break;
        case 7:
            rc = Htagnewref(f, 1000) ? 0 : FAIL;
            break;
    }
    /* every reference number is taken by tag 1000 only: other tags still have free numbers, but a NEW reference number
       (unique across tags, which is what these interfaces ask for) does not exist */
    expect(p == 0 || p == 7 ? MUST_FAIL : MAY, rc == FAIL, who[p]);
    if (f != FAIL)
        expect(MAY, Hclose(f) == FAIL, "Hclose");
    followup(PATH, "refs-exhausted", 1);
    /* no object may have been stored under a reference number that was already in use for its tag: fc_parse checks duplicates */
}

/* the reference counter has reached 65535 but free numbers remain: every number handed out afterwards, by Hnewref and by the
   interfaces that call it, must be unused at that moment (no wrap of the counter to a small value that is "next") */
static uint8 g_used[65536];
static void
snapshot_refs(int32 f) /* the reference numbers in use right now, for any tag */
{
    uint16 t = 0, r = 0;
    int32  o, l;
    memset(g_used, 0, sizeof g_used);
    while (Hfind(f, DFTAG_WILDCARD, DFREF_WILDCARD, &t, &r, &o, &l, DF_FORWARD) != FAIL)
        g_used[r] = 1;
}
static int
ref_in_use(int32 f, uint16 ref)
{
    (void)f;
    return g_used[ref];
}
static void
case_newref_limit(long p)
{
    static const uint16 USED[3][8] = {{1, 2, 5, 65535, 0}, {65535, 0}, {1, 2, 3, 4, 6, 7, 65535, 0}};
    vfs_remove_file(PATH);
    int32 f = Hopen(PATH, DFACC_CREATE, 16);
    uint8 b[4] = {1, 2, 3, 4};
    char  used[80] = "";
    for (int i = 0; USED[p][i]; i++) {
        Hputelement(f, 1000, USED[p][i], b, 4);
        snprintf(used + strlen(used), sizeof used - strlen(used), "%s%u", i ? "," : "", USED[p][i]);
    }
    snprintf(g_case, sizeof g_case, "reference numbers {%s} in use (counter at 65535), then 3 x Hnewref + VSattach(-1) + Vattach(-1) + GRcreate", used);
    mc_set_case("%s", g_case);
    for (int k = 0; k < 3; k++) {
        snapshot_refs(f);
        uint16 r = Hnewref(f);
        if (r == 0) {
            expect(MUST_OK, 1, "Hnewref:free-numbers-remain");
            break;
        }
        if (ref_in_use(f, r)) {
            mc_violation("wrapped-or-wrong-value:Hnewref-returns-number-in-use", "%s: Hnewref call %d returned %u which is in use", g_case, k + 1, r);
            break;
        }
        Hputelement(f, 1001, r, b, 4);
    }
    Vstart(f);
    for (int k = 0; k < 3; k++) {
        snapshot_refs(f);
        int32  id = k == 0 ? VSattach(f, -1, "w") : k == 1 ? Vattach(f, -1, "w") : FAIL;
        int32  G = FAIL;
        uint16 r = 0;
        if (k == 2) {
            int32 d[2] = {2, 2};
            G  = GRstart(f);
            id = GRcreate(G, "img", 1, DFNT_UINT8, 0, d);
            r  = id == FAIL ? 0 : GRidtoref(id);
        }
        else
            r = id == FAIL ? 0 : (uint16)(k == 0 ? VSQueryref(id) : VQueryref(id));
        static const char *W[] = {"VSattach(-1)", "Vattach(-1)", "GRcreate"};
        if (id == FAIL) {
            char what[64];
            snprintf(what, sizeof what, "%s:free-numbers-remain", W[k]);
            expect(MUST_OK, 1, what);
        }
        else if (ref_in_use(f, r))
            mc_violation("wrapped-or-wrong-value:new-object-gets-number-in-use", "%s: the object created by %s got reference number %u which is in use", g_case, W[k], r);
        if (id != FAIL) {
            if (k == 0) {
                VSsetname(id, "v");
                VSfdefine(id, "x", DFNT_UINT8, 1);
                VSsetfields(id, "x");
                VSwrite(id, b, 1, FULL_INTERLACE);
                VSdetach(id);
            }
            else if (k == 1) {
                Vsetname(id, "g");
                Vdetach(id);
            }
            else {
                int32 st[2] = {0, 0}, d[2] = {2, 2};
                GRwriteimage(id, st, NULL, d, b);
                GRendaccess(id);
            }
        }
        if (G != FAIL)
            GRend(G);
    }
    Vend(f);
    expect(MUST_OK, Hclose(f) == FAIL, "Hclose");
    /* the original objects are still there */
    f = Hopen(PATH, DFACC_READ, 0);
    for (int i = 0; USED[p][i]; i++) {
        uint8 r4[4] = {0};
        if (Hgetelement(f, 1000, USED[p][i], r4) != 4 || memcmp(r4, b, 4))
            mc_violation("wrapped-or-wrong-value:object-overwritten-after-counter-limit", "%s: element (1000,%u) no longer reads back", g_case, USED[p][i]);
    }
    Hclose(f);
    followup(PATH, "newref-limit", 0);
}

/* ================================================================== C. Vgroup member count is 16-bit */
static void
case_vgroup_members(long p)
{
    long n = p == 0 ? 65534 : p == 1 ? 65535 : p == 2 ? 65536 : 65537 + 10;
    vfs_remove_file(PATH);
    int32 f = Hopen(PATH, DFACC_CREATE, 16);
    uint8 b[4] = {1, 2, 3, 4};
    Hputelement(f, 1000, 1, b, 4);
    Vstart(f);
    int32 g = Vattach(f, -1, "w");
    Vsetname(g, "big");
    int32 gref = VQueryref(g);
    snprintf(g_case, sizeof g_case, "Vaddtagref called %ld times on one vgroup", n);
    mc_set_case("%s", g_case);
    long accepted = 0;
    for (long i = 0; i < n; i++) {
        int32 rc = Vaddtagref(g, 1000, 1);
        if (rc == FAIL) {
            if (i < 65535)
                expect(MUST_OK, 1, "Vaddtagref:below-65535-members");
            break;
        }
        accepted++;
        if (i >= 65535) {
            expect(MUST_FAIL, 0, "Vaddtagref:more-than-65535-members");
            break;
        }
        if (rc != i + 1) {
            wrapped("Vaddtagref:return-count", rc, i + 1);
            break;
        }
    }
    if (accepted > 65535)
        accepted = 65535;
    int32 cnt = Vntagrefs(g);
    if (cnt != accepted)
        wrapped("Vntagrefs", cnt, accepted);
    expect(MAY, Vdetach(g) == FAIL, "Vdetach");
    Vend(f);
    Hclose(f);
    f = Hopen(PATH, DFACC_READ, 0);
    Vstart(f);
    g = Vattach(f, gref, "r");
    if (g == FAIL) {
        if (accepted <= 65535)
            mc_violation("vgroup-lost-after-limit", "%s: the vgroup cannot be attached after reopen", g_case);
    }
    else {
        cnt = Vntagrefs(g);
        if (cnt != accepted)
            wrapped("Vntagrefs-after-reopen", cnt, accepted);
        Vdetach(g);
    }
    Vend(f);
    Hclose(f);
    followup(PATH, "vgroup-members", 0);
}

/* ================================================================== D. Vdata field sizes, orders, counts, names */
static void
case_vdata_fields(long p)
{
    vfs_remove_file(PATH);
    int32 f = Hopen(PATH, DFACC_CREATE, 16);
    Vstart(f);
    int32 vs = VSattach(f, -1, "w");
    int32 rc;
    long  recsize = 0; /* expected accepted record size */
    static const struct {
        int32 t;
        long  ord;
        int   exp;
    } one[] = {{DFNT_UINT8, 65535, MUST_OK}, {DFNT_UINT8, 65536, MUST_FAIL}, {DFNT_UINT8, 65537, MUST_FAIL}, {DFNT_UINT8, 131072, MUST_FAIL}, {DFNT_INT16, 32767, MUST_OK}, {DFNT_INT16, 32768, MUST_FAIL}, {DFNT_FLOAT64, 8191, MUST_OK}, {DFNT_FLOAT64, 8192, MUST_FAIL}, {DFNT_INT32, 16384, MUST_FAIL}, {DFNT_INT32, 1073741824, MUST_FAIL}, {DFNT_UINT8, 0, MAY}, {DFNT_UINT8, -1, MUST_FAIL}};
    static const long sums[][3] = {{40000, 25535, MUST_OK}, {40000, 25536, MUST_FAIL}, {40000, 40000, MUST_FAIL}, {65535, 1, MUST_FAIL}, {65535, 65535, MUST_FAIL}, {32768, 32768, MUST_FAIL}, {65534, 1, MUST_OK}};
    char fields[4096] = "";
    if (p < 12) {
        snprintf(g_case, sizeof g_case, "VSfdefine one field of type %d order %ld", (int)one[p].t, one[p].ord);
        mc_set_case("%s", g_case);
        rc = VSfdefine(vs, "a", one[p].t, (int32)one[p].ord);
        expect(one[p].exp, rc == FAIL, "VSfdefine:order-or-field-size-above-65535");
        if (rc != FAIL) {
            rc = VSsetfields(vs, "a");
            expect(one[p].exp, rc == FAIL, "VSsetfields:single-field");
            if (rc != FAIL)
                recsize = one[p].ord * DFKNTsize(one[p].t | DFNT_NATIVE), strcpy(fields, "a");
        }
    }
    else if (p < 19) {
        const long *s = sums[p - 12];
        snprintf(g_case, sizeof g_case, "two uint8 fields of order %ld and %ld: record size %ld", s[0], s[1], s[0] + s[1]);
        mc_set_case("%s", g_case);
        VSfdefine(vs, "a", DFNT_UINT8, (int32)s[0]);
        VSfdefine(vs, "b", DFNT_UINT8, (int32)s[1]);
        rc = VSsetfields(vs, "a,b");
        expect((int)s[2], rc == FAIL, "VSsetfields:record-size-above-65535");
        if (rc != FAIL)
            recsize = s[0] + s[1], strcpy(fields, "a,b");
    }
    else {
        int nf = p == 19 ? 255 : p == 20 ? 256 : p == 21 ? 257 : 300;
        snprintf(g_case, sizeof g_case, "%d fields in one vdata (maximum 256)", nf);
        mc_set_case("%s", g_case);
        int defined = 0;
        for (int i = 0; i < nf; i++) {
            char nm[16];
            snprintf(nm, sizeof nm, "f%d", i);
            rc = VSfdefine(vs, nm, DFNT_UINT8, 1);
            if (rc == FAIL) {
                if (i < 256)
                    expect(MUST_OK, 1, "VSfdefine:within-256-fields");
                break;
            }
            defined++;
            if (i)
                strcat(fields, ",");
            strcat(fields, nm);
        }
        rc = VSsetfields(vs, fields);
        expect(nf > 256 && defined == nf ? MUST_FAIL : (nf <= 256 ? MUST_OK : MAY), rc == FAIL, "VSsetfields:more-than-256-fields");
        if (rc != FAIL)
            recsize = defined;
        else
            fields[0] = 0;
    }
    if (fields[0]) {
        int32 sz = VSsizeof(vs, fields);
        if (sz != recsize)
            wrapped("VSsizeof", sz, recsize);
        /* write two records and read them back */
        uint8 *buf = calloc(2, (size_t)recsize + 8);
        for (long i = 0; i < 2 * recsize; i++)
            buf[i] = (uint8)(i * 31 + 7);
        rc = VSwrite(vs, buf, 2, FULL_INTERLACE);
        expect(MUST_OK, rc != 2, "VSwrite:two-records-of-accepted-size");
        int32 ref = VSQueryref(vs);
        VSsetname(vs, "t");
        expect(MUST_OK, VSdetach(vs) == FAIL, "VSdetach");
        vs = VSattach(f, ref, "r");
        uint8 *rb = calloc(2, (size_t)recsize + 8);
        int32  n = 0, il = 0, vsz = 0;
        char   nm[VSNAMELENMAX + 1];
        static char fl[VSFIELDMAX * (FIELDNAMELENMAX + 1)];
        if (vs == FAIL || VSinquire(vs, &n, &il, fl, &vsz, nm) == FAIL || VSsetfields(vs, fields) == FAIL || VSread(vs, rb, 2, FULL_INTERLACE) != 2)
            mc_violation("accepted-vdata-unreadable", "%s: the vdata that was accepted cannot be read back", g_case);
        else {
            if (vsz != recsize)
                wrapped("VSinquire:vsize", vsz, recsize);
            if (n != 2)
                wrapped("VSinquire:nrecords", n, 2);
            if (memcmp(rb, buf, (size_t)(2 * recsize)))
                mc_violation("accepted-vdata-wrong-data", "%s: records read back differ from what was written", g_case);
        }
        free(buf);
        free(rb);
    }
    if (vs != FAIL)
        VSdetach(vs);
    Vend(f);
    expect(MAY, Hclose(f) == FAIL, "Hclose");
    followup(PATH, "vdata-fields", 0);
}

/* names around and far beyond their limits, in every interface that takes a name */
static const int NAMELENS[] = {63, 64, 65, 127, 128, 129, 255, 256, 257, 1000, 65535, 65536, 70000};
static void
case_names(long p)
{
    int   which = (int)(p / 13), L = NAMELENS[p % 13];
    char *name  = malloc((size_t)L + 1);
    for (int i = 0; i < L; i++)
        name[i] = (char)('a' + (i * 7 + i / 26) % 26);
    name[L] = 0;
    static const char *who[] = {"VSsetname", "VSsetclass", "Vsetname", "Vsetclass", "VSfdefine field name", "VSsetattr name", "Vsetattr name", "GRcreate name", "GRsetattr name", "SDcreate name", "SDsetdimname", "SDsetattr name"};
    snprintf(g_case, sizeof g_case, "%s with a %d-character name", who[which], L);
    mc_set_case("%s", g_case);
    vfs_remove_file(PATH);
    int32 f = Hopen(PATH, DFACC_CREATE, 16);
    int32 rc = FAIL, av = 7;
    char *back = calloc(1, 80000);
    uint8 b[4] = {1, 2, 3, 4};
    long  stored = -1; /* length of the name that reads back after reopen; -1 unknown */
    if (which <= 6) {
        Vstart(f);
        int32 vs = VSattach(f, -1, "w"), vg = Vattach(f, -1, "w");
        int32 vsref = VSQueryref(vs), vgref = VQueryref(vg);
        VSfdefine(vs, "x", DFNT_UINT8, 1);
        if (which != 4) {
            VSsetfields(vs, "x");
            VSwrite(vs, b, 1, FULL_INTERLACE);
        }
        switch (which) {
            case 0: rc = VSsetname(vs, name); break;
            case 1: rc = VSsetclass(vs, name); break;
            case 2: rc = Vsetname(vg, name); break;
            case 3: rc = Vsetclass(vg, name); break;
            case 4:
                rc = VSfdefine(vs, name, DFNT_UINT8, 1);
                if (rc != FAIL) {
                    /* a comma-separated list is parsed into FIELDNAMELENMAX-sized tokens */
                    rc = VSsetfields(vs, name);
                    if (rc != FAIL)
                        rc = VSwrite(vs, b, 1, FULL_INTERLACE) == 1 ? 0 : FAIL;
                }
                break;
            case 5: rc = VSsetattr(vs, _HDF_VDATA, name, DFNT_INT32, 1, &av); break;
            case 6: rc = Vsetattr(vg, name, DFNT_INT32, 1, &av); break;
        }
        int acc = rc != FAIL;
        /* in-session read-back must be NUL-terminated within the documented buffer sizes */
        if (which == 0) VSgetname(vs, back);
        if (which == 1) VSgetclass(vs, back);
        if (which == 2 && acc) {
            uint16 nl = 0;
            Vgetnamelen(vg, &nl);
            if (L <= 65535 && nl != L) wrapped("Vgetnamelen", nl, L);
            if (nl < 70000) Vgetname(vg, back);
        }
        if (which == 3 && acc) {
            uint16 nl = 0;
            Vgetclassnamelen(vg, &nl);
            if (L <= 65535 && nl != L) wrapped("Vgetclassnamelen", nl, L);
            if (nl < 70000) Vgetclass(vg, back);
        }
        if ((which == 0 || which == 1) && acc && (long)strlen(back) > VSNAMELENMAX)
            wrapped("VSgetname/VSgetclass length", (long)strlen(back), VSNAMELENMAX);
        if ((which == 2 || which == 3) && acc && L > 65535)
            expect(MUST_FAIL, 0, "Vsetname/Vsetclass:name-longer-than-65535");
        VSdetach(vs);
        Vdetach(vg);
        Vend(f);
        Hclose(f);
        /* after reopen: whatever was accepted must come back as a prefix of the request, never garbage */
        f = Hopen(PATH, DFACC_READ, 0);
        Vstart(f);
        vs = VSattach(f, vsref, "r");
        vg = Vattach(f, vgref, "r");
        memset(back, 0, 80000);
        if (acc && vs != FAIL && vg != FAIL) {
            if (which == 0) VSgetname(vs, back);
            if (which == 1) VSgetclass(vs, back);
            if (which == 2) Vgetname(vg, back);
            if (which == 3) Vgetclass(vg, back);
            if (which == 4) {
                static char fl[VSFIELDMAX * (FIELDNAMELENMAX + 1)];
                if (VSgetfields(vs, fl) == FAIL)
                    mc_violation("accepted-name-unreadable:field", "%s: VSgetfields fails after reopen", g_case);
                else
                    strncpy(back, fl, 79999);
            }
            if (which == 5) {
                int32 nt, cnt, sz;
                if (VSattrinfo(vs, _HDF_VDATA, 0, back, &nt, &cnt, &sz) == FAIL)
                    mc_violation("accepted-name-unreadable:vsattr", "%s: VSattrinfo fails after reopen", g_case);
            }
            if (which == 6) {
                int32 nt, cnt, sz;
                if (Vattrinfo(vg, 0, back, &nt, &cnt, &sz) == FAIL)
                    mc_violation("accepted-name-unreadable:vattr", "%s: Vattrinfo fails after reopen", g_case);
            }
            stored = (long)strlen(back);
            if (stored > L || strncmp(back, name, (size_t)stored) != 0 || (stored == 0 && L > 0 && which != 4))
                mc_violation("accepted-name-garbled", "%s: the accepted name reads back as %ld characters that are not a prefix of the request", g_case, stored);
        }
        else if (acc)
            mc_violation("object-lost-after-long-name", "%s: the object cannot be attached after reopen", g_case);
        if (vs != FAIL) VSdetach(vs);
        if (vg != FAIL) Vdetach(vg);
        Vend(f);
        Hclose(f);
    }
    else if (which <= 8) {
        int32 G = GRstart(f), d[2] = {2, 2}, st[2] = {0, 0};
        int32 r = GRcreate(G, which == 7 ? name : "img", 1, DFNT_UINT8, 0, d);
        rc      = r;
        if (r != FAIL) {
            GRwriteimage(r, st, NULL, d, b);
            if (which == 8)
                rc = GRsetattr(r, name, DFNT_INT32, 1, &av);
            GRendaccess(r);
        }
        int acc = rc != FAIL;
        expect(MAY, GRend(G) == FAIL, "GRend");
        Hclose(f);
        f = Hopen(PATH, DFACC_READ, 0);
        G = GRstart(f);
        r = GRselect(G, 0);
        if (acc && r != FAIL) {
            int32 nc, nt, il, dd[2], na, cnt;
            int32 e = which == 7 ? GRgetiminfo(r, back, &nc, &nt, &il, dd, &na) : GRattrinfo(r, 0, back, &nt, &cnt);
            /* the documented buffer for these names is H4_MAX_GR_NAME: longer stored names are the caller's problem only if
               the call has no length query; `back` is large enough here */
            if (e == FAIL)
                mc_violation("accepted-name-unreadable:gr", "%s: name cannot be read after reopen", g_case);
            else {
                stored = (long)strlen(back);
                if (stored > L || strncmp(back, name, (size_t)stored) != 0 || stored == 0)
                    mc_violation("accepted-name-garbled", "%s: the accepted name reads back as %ld characters that are not a prefix of the request", g_case, stored);
            }
        }
        else if (acc)
            mc_violation("object-lost-after-long-name", "%s: the image cannot be selected after reopen", g_case);
        if (r != FAIL) GRendaccess(r);
        GRend(G);
        Hclose(f);
    }
    else {
        Hclose(f);
        int32 S = SDstart(PATH, DFACC_RDWR), d[1] = {2}, st[1] = {0};
        int32 s = SDcreate(S, which == 9 ? name : "ds", DFNT_UINT8, 1, d);
        rc      = s;
        if (s != FAIL) {
            SDwritedata(s, st, NULL, d, b);
            if (which == 10) rc = SDsetdimname(SDgetdimid(s, 0), name);
            if (which == 11) rc = SDsetattr(s, name, DFNT_INT32, 1, &av);
            SDendaccess(s);
        }
        int acc = rc != FAIL;
        expect(MAY, SDend(S) == FAIL, "SDend");
        S = SDstart(PATH, DFACC_READ);
        s = S == FAIL ? FAIL : SDselect(S, 0);
        if (acc && s != FAIL) {
            int32 rk, dd[4], nt, na, cnt;
            int32 e = FAIL;
            if (which == 9) e = SDgetinfo(s, back, &rk, dd, &nt, &na);
            if (which == 10) e = SDdiminfo(SDgetdimid(s, 0), back, &cnt, &nt, &na);
            if (which == 11) e = SDattrinfo(s, 0, back, &nt, &cnt);
            if (e == FAIL)
                mc_violation("accepted-name-unreadable:sd", "%s: name cannot be read after reopen", g_case);
            else {
                stored = (long)strlen(back);
                if (stored > L || strncmp(back, name, (size_t)stored) != 0 || stored == 0)
                    mc_violation("accepted-name-garbled", "%s: the accepted name reads back as %ld characters that are not a prefix of the request", g_case, stored);
            }
        }
        else if (acc)
            mc_violation("object-lost-after-long-name", "%s: the dataset cannot be selected after reopen", g_case);
        if (s != FAIL) SDendaccess(s);
        if (S != FAIL) SDend(S);
    }
    if (stored >= 0)
        mc_outcome(mc_hash_i(mc_hash_i(MC_H0, which), stored == L));
    free(name);
    free(back);
    followup(PATH, "names", 0);
}

/* ================================================================== E. SD rank and total size */
static void
case_sd_rank(long p)
{
    int rank = p == 0 ? 31 : p == 1 ? 32 : p == 2 ? 33 : p == 3 ? 64 : 1000;
    snprintf(g_case, sizeof g_case, "SDcreate with rank %d (maximum 32)", rank);
    mc_set_case("%s", g_case);
    vfs_remove_file(PATH);
    int32  S = SDstart(PATH, DFACC_CREATE);
    int32 *d = calloc((size_t)rank + 1, sizeof *d), *st = calloc((size_t)rank + 1, sizeof *st);
    for (int i = 0; i < rank; i++)
        d[i] = 1;
    int32 s = SDcreate(S, "r", DFNT_UINT8, rank, d);
    expect(rank > H4_MAX_VAR_DIMS ? MUST_FAIL : MUST_OK, s == FAIL, "SDcreate:rank-above-32");
    uint8 v = 77, r = 0;
    if (s != FAIL && rank <= H4_MAX_VAR_DIMS) {
        expect(MUST_OK, SDwritedata(s, st, NULL, d, &v) == FAIL, "SDwritedata:accepted-rank");
        SDendaccess(s);
    }
    expect(MAY, SDend(S) == FAIL, "SDend");
    S = SDstart(PATH, DFACC_READ);
    if (S != FAIL && rank <= H4_MAX_VAR_DIMS) {
        s = SDselect(S, 0);
        int32 rk = 0, dd[H4_MAX_VAR_DIMS], nt, na;
        char  nm[H4_MAX_NC_NAME + 1];
        if (s == FAIL || SDgetinfo(s, nm, &rk, dd, &nt, &na) == FAIL || SDreaddata(s, st, NULL, d, &r) == FAIL)
            mc_violation("accepted-sds-unreadable", "%s: dataset cannot be read after reopen", g_case);
        else if (rk != rank || r != v)
            wrapped("SDgetinfo:rank", rk, rank);
    }
    if (S != FAIL)
        SDend(S);
    free(d);
    free(st);
    followup(PATH, "sd-rank", 0);
}

/* number of variables of an SD file (documented maximum 5000): every route that creates one more - SDcreate, or a dimension
   scale / dimension strings / dimension attribute, which make a coordinate variable - fails when the file is full */
static void
case_sd_nvars(long p)
{
    static const char *ROUTE[4] = {"SDcreate", "SDsetdimscale", "SDsetdimstrs", "SDsetattr on a dimension"};
    int route = (int)(p % 4), start = p >= 4 ? H4_MAX_NC_VARS - 1 : H4_MAX_NC_VARS;
    snprintf(g_case, sizeof g_case, "an SD file with %d data sets (maximum %d variables), then %s%s", start, H4_MAX_NC_VARS, ROUTE[route], start < H4_MAX_NC_VARS ? " twice" : "");
    mc_set_case("%s", g_case);
    vfs_remove_file(PATH);
    int32 S = SDstart(PATH, DFACC_CREATE), d = 2, z = 0, first = FAIL;
    uint8 v[2] = {1, 2};
    for (int i = 0; i < start; i++) {
        char nm[16];
        snprintf(nm, sizeof nm, "v%04d", i);
        int32 s = SDcreate(S, nm, DFNT_UINT8, 1, &d);
        if (s == FAIL) {
            expect(MUST_OK, 1, "SDcreate:within-5000-variables");
            SDend(S);
            return;
        }
        if (i == 0)
            first = s;
        else if (i == 1) {
            SDwritedata(s, &z, NULL, &d, v);
            SDendaccess(s);
        }
        else
            SDendaccess(s);
    }
    int nvars = start;
    for (int k = 0; k < (start < H4_MAX_NC_VARS ? 2 : 1); k++) {
        /* a fresh dimension each time (data set k has its own) */
        int32 s2 = k == 0 ? first : SDselect(S, 1), dim = SDgetdimid(s2, 0), rc;
        int16 sc[2] = {5, 6};
        char  what[64];
        switch (route) {
            case 0: {
                int32 n = SDcreate(S, k ? "extra2" : "extra", DFNT_UINT8, 1, &d);
                rc      = n;
                if (n != FAIL)
                    SDendaccess(n);
                break;
            }
            case 1: rc = SDsetdimscale(dim, 2, DFNT_INT16, sc); break;
            case 2: rc = SDsetdimstrs(dim, "label", "unit", "fmt"); break;
            default: rc = SDsetattr(dim, "da", DFNT_INT16, 2, sc); break;
        }
        snprintf(what, sizeof what, "%s:variable-%d-of-%d", ROUTE[route], nvars + 1, H4_MAX_NC_VARS);
        expect(nvars >= H4_MAX_NC_VARS ? MUST_FAIL : MUST_OK, rc == FAIL, what);
        if (rc != FAIL)
            nvars++;
        if (k == 1 && s2 != FAIL)
            SDendaccess(s2);
    }
    int32 nds = -1, nat = -1;
    SDfileinfo(S, &nds, &nat);
    if (nds > H4_MAX_NC_VARS)
        wrapped("SDfileinfo:variables-above-maximum", nds, H4_MAX_NC_VARS);
    SDendaccess(first);
    expect(MUST_OK, SDend(S) == FAIL, "SDend");
    S = SDstart(PATH, DFACC_READ);
    if (S == FAIL)
        mc_violation("unusable-afterwards:SDstart:sd-nvars", "%s: the file cannot be opened any more", g_case);
    else {
        int32 n2 = -1;
        SDfileinfo(S, &n2, &nat);
        if (n2 > H4_MAX_NC_VARS || n2 < start)
            wrapped("SDfileinfo-after-reopen:variables", n2, nvars);
        int32 s = SDselect(S, 1);
        uint8 r[2] = {0, 0};
        if (s == FAIL || SDreaddata(s, &z, NULL, &d, r) == FAIL || r[0] != 1 || r[1] != 2)
            mc_violation("accepted-sds-unreadable", "%s: data set 1 cannot be read after reopen", g_case);
        SDend(S);
    }
    mc_count("sd_nvars_cases", 1);
}

/* total byte size of a dataset beyond 2^31-1: the far corner cannot be addressed */
static void
case_sd_size(long p)
{
    static const struct {
        int32 t;
        int32 d0, d1;
    } S_[] = {{DFNT_UINT8, 46340, 46340}, {DFNT_UINT8, 46341, 46341}, {DFNT_UINT8, 65536, 65536}, {DFNT_UINT8, 65536, 65537}, {DFNT_INT32, 32768, 32768}, {DFNT_FLOAT64, 16384, 16384}, {DFNT_INT16, 32768, 32767}, {DFNT_UINT8, 2147483647, 2}, {DFNT_INT32, 2147483647, 1}};
    int32 t = S_[p].t, d[2] = {S_[p].d0, S_[p].d1};
    long long bytes = (long long)d[0] * d[1] * DFKNTsize(t | DFNT_NATIVE);
    snprintf(g_case, sizeof g_case, "SDS of type %d dims %dx%d = %lld bytes; write first and last element", (int)t, (int)d[0], (int)d[1], bytes);
    mc_set_case("%s", g_case);
    vfs_remove_file(PATH);
    int32 S = SDstart(PATH, DFACC_CREATE);
    SDsetfillmode(S, SD_NOFILL);
    int32 s = SDcreate(S, "big", t, 2, d);
    expect(MAY, s == FAIL, "SDcreate");
    double v1 = 0, v2 = 0, r1 = 0, r2 = 0;
    memset(&v1, 0x11, sizeof v1);
    memset(&v2, 0x22, sizeof v2);
    int   esz = DFKNTsize(t | DFNT_NATIVE);
    int32 st0[2] = {0, 0}, one[2] = {1, 1}, stL[2] = {d[0] - 1, d[1] - 1};
    int32 w1 = FAIL, w2 = FAIL;
    if (s != FAIL) {
        w1 = SDwritedata(s, st0, NULL, one, &v1);
        w2 = SDwritedata(s, stL, NULL, one, &v2);
        expect(bytes > I31 ? MUST_FAIL : MUST_OK, w2 == FAIL, "SDwritedata:last-element-beyond-2^31-1-bytes");
        if (bytes <= I31)
            expect(MUST_OK, w1 == FAIL, "SDwritedata:first-element");
        /* what was accepted must read back; in particular a wrapped offset would alias the first element */
        if (w1 != FAIL && SDreaddata(s, st0, NULL, one, &r1) != FAIL && memcmp(&r1, &v1, (size_t)esz))
            mc_violation("wrapped-or-wrong-value:sds-first-element-overwritten", "%s: the first element no longer reads back after writing the last", g_case);
        if (w2 != FAIL && (SDreaddata(s, stL, NULL, one, &r2) == FAIL || memcmp(&r2, &v2, (size_t)esz)))
            mc_violation("wrapped-or-wrong-value:sds-last-element", "%s: the accepted last element does not read back", g_case);
        SDendaccess(s);
    }
    expect(MAY, SDend(S) == FAIL, "SDend");
    S = SDstart(PATH, DFACC_READ);
    if (S != FAIL) {
        s = SDselect(S, 0);
        if (s != FAIL) {
            int32 rk, dd[2] = {0, 0}, nt, na;
            char  nm[H4_MAX_NC_NAME + 1];
            if (SDgetinfo(s, nm, &rk, dd, &nt, &na) != FAIL && (dd[0] != d[0] || dd[1] != d[1]))
                wrapped("SDgetinfo:dims-after-reopen", dd[0], d[0]);
            if (w1 != FAIL && (SDreaddata(s, st0, NULL, one, &r1) == FAIL || memcmp(&r1, &v1, (size_t)esz)))
                mc_violation("wrapped-or-wrong-value:sds-first-element-after-reopen", "%s: first element differs after reopen", g_case);
            SDendaccess(s);
        }
        SDend(S);
    }
    followup(PATH, "sd-size", 0);
}

/* ================================================================== F. GR component count and image size */
static void
case_gr_ncomp(long p)
{
    static const int32 NC[] = {255, 256, 32767, 32768, 65535, 65536, 65537};
    int32 nc = NC[p];
    snprintf(g_case, sizeof g_case, "GRcreate 1x1 image with %d components (stored in a 16-bit field)", (int)nc);
    mc_set_case("%s", g_case);
    vfs_remove_file(PATH);
    int32 f = Hopen(PATH, DFACC_CREATE, 16);
    int32 G = GRstart(f), d[2] = {1, 1}, st[2] = {0, 0};
    int32 r = GRcreate(G, "c", nc, DFNT_UINT8, MFGR_INTERLACE_PIXEL, d);
    uint8 *buf = calloc(1, 70000), *rb = calloc(1, 70000);
    for (int i = 0; i < nc; i++)
        buf[i] = (uint8)(i * 13 + 1);
    int32 w = FAIL;
    if (r != FAIL) {
        w = GRwriteimage(r, st, NULL, d, buf);
        GRendaccess(r);
    }
    /* the format stores the component count in 16 bits */
    expect(nc > 65535 ? MUST_FAIL : MAY, r == FAIL || w == FAIL, "GRcreate+GRwriteimage:ncomp-above-65535");
    expect(MAY, GRend(G) == FAIL, "GRend");
    Hclose(f);
    if (r != FAIL && w != FAIL) {
        f = Hopen(PATH, DFACC_READ, 0);
        G = GRstart(f);
        r = GRselect(G, 0);
        int32 n2 = 0, nt, il, dd[2], na;
        char  nm[H4_MAX_GR_NAME + 1];
        if (r == FAIL || GRgetiminfo(r, nm, &n2, &nt, &il, dd, &na) == FAIL)
            mc_violation("accepted-image-unreadable", "%s: image cannot be selected after reopen", g_case);
        else if (n2 != nc)
            wrapped("GRgetiminfo:ncomp-after-reopen", n2, nc);
        else if (GRreadimage(r, st, NULL, d, rb) == FAIL || memcmp(rb, buf, (size_t)nc))
            mc_violation("accepted-image-wrong-data", "%s: pixel reads back differently after reopen", g_case);
        if (r != FAIL) GRendaccess(r);
        GRend(G);
        Hclose(f);
    }
    free(buf);
    free(rb);
    followup(PATH, "gr-ncomp", 0);
}
static void
case_gr_size(long p)
{
    static const int32 D[][3] = {{46340, 46340, 1}, {46341, 46341, 1}, {65536, 65536, 1}, {32768, 32768, 3}, {65536, 32768, 1}, {16384, 16384, 8}};
    int32 d[2] = {D[p][0], D[p][1]}, nc = D[p][2];
    long long bytes = (long long)d[0] * d[1] * nc;
    snprintf(g_case, sizeof g_case, "GR image %dx%d with %d uint8 components = %lld bytes; write first and last pixel", (int)d[0], (int)d[1], (int)nc, bytes);
    mc_set_case("%s", g_case);
    vfs_remove_file(PATH);
    int32 f = Hopen(PATH, DFACC_CREATE, 16);
    int32 G = GRstart(f);
    int32 r = GRcreate(G, "big", nc, DFNT_UINT8, MFGR_INTERLACE_PIXEL, d);
    uint8 v1[8], v2[8], r1[8], r2[8];
    memset(v1, 0x11, 8);
    memset(v2, 0x22, 8);
    int32 st0[2] = {0, 0}, one[2] = {1, 1}, stL[2] = {d[0] - 1, d[1] - 1};
    if (r != FAIL) {
        /* no fill: writing single pixels of a new image otherwise fills the whole image first */
        int32 w1 = GRwriteimage(r, st0, NULL, one, v1);
        int32 w2 = w1 == FAIL ? FAIL : GRwriteimage(r, stL, NULL, one, v2);
        expect(bytes > I31 ? MUST_FAIL : MAY, w1 == FAIL || w2 == FAIL, "GRwriteimage:pixel-beyond-2^31-1-bytes");
        if (w1 != FAIL && w2 != FAIL) {
            if (GRreadimage(r, st0, NULL, one, r1) == FAIL || memcmp(r1, v1, (size_t)nc))
                mc_violation("wrapped-or-wrong-value:gr-first-pixel-overwritten", "%s: first pixel no longer reads back", g_case);
            if (GRreadimage(r, stL, NULL, one, r2) == FAIL || memcmp(r2, v2, (size_t)nc))
                mc_violation("wrapped-or-wrong-value:gr-last-pixel", "%s: accepted last pixel does not read back", g_case);
        }
        GRendaccess(r);
    }
    expect(MAY, GRend(G) == FAIL, "GRend");
    expect(MAY, Hclose(f) == FAIL, "Hclose");
    followup(PATH, "gr-size", 0);
}

/* ================================================================== the highest reference number is a legal one */
/* a Vdata / Vgroup stored under reference number 65534 or 65535 (the counter reaches it when an application has used the
   number just below) is listed by VSlone / Vlone like any other, also by the count-only call, and stops being listed once a
   Vgroup holds it */
static void
case_lone_highref(long p)
{
    uint16 below = p & 1 ? 65534 : 65533; /* number used by the application; the next new object gets below+1 */
    int    isvg  = (int)(p >> 1) & 1;
    snprintf(g_case, sizeof g_case, "a lone %s under reference number %u, listed by %s", isvg ? "Vgroup" : "Vdata", below + 1, isvg ? "Vlone" : "VSlone");
    mc_set_case("%s", g_case);
    vfs_remove_file(PATH);
    int32 f = Hopen(PATH, DFACC_CREATE, 16);
    uint8 b[4] = {1, 2, 3, 4};
    Hputelement(f, 1000, below, b, 4);
    Vstart(f);
    int32 ref;
    if (isvg) {
        int32 g = Vattach(f, -1, "w");
        Vsetname(g, "high");
        ref = VQueryref(g);
        Vdetach(g);
    }
    else {
        int32 v = VSattach(f, -1, "w");
        int16 x = 5;
        VSfdefine(v, "a", DFNT_INT16, 1);
        VSsetfields(v, "a");
        VSwrite(v, (uint8 *)&x, 1, FULL_INTERLACE);
        ref = VSQueryref(v);
        VSdetach(v);
    }
    if (ref != below + 1) {
        /* the library chose another free number: nothing to show here */
        mc_count("lone_highref_other_number", 1);
        Vend(f);
        Hclose(f);
        return;
    }
    for (int phase = 0; phase < 3; phase++) {
        if (phase == 1) { /* after close / reopen */
            Vend(f);
            if (Hclose(f) == FAIL || (f = Hopen(PATH, DFACC_RDWR, 0)) == FAIL) {
                expect(MUST_OK, 1, "reopen");
                return;
            }
            Vstart(f);
        }
        if (phase == 2) { /* a Vgroup (with a low number) takes it in: no longer lone */
            int32 g = Vattach(f, -1, "w");
            Vsetname(g, "holder");
            Vaddtagref(g, isvg ? DFTAG_VG : DFTAG_VH, ref);
            Vdetach(g);
        }
        int32 ids[4] = {-1, -1, -1, -1};
        int32 n0 = isvg ? Vlone(f, NULL, 0) : VSlone(f, NULL, 0), n = isvg ? Vlone(f, ids, 4) : VSlone(f, ids, 4);
        int   listed = 0;
        for (int i = 0; i < 4 && i < n; i++)
            if (ids[i] == ref)
                listed = 1;
        int want = phase < 2; /* phase 2: only "holder" is lone (for Vgroups), nothing (for Vdatas) */
        int wantn = phase < 2 ? 1 : isvg ? 1 : 0;
        if (n0 != n || n != wantn || listed != want) {
            char sig[100];
            snprintf(sig, sizeof sig, "wrapped-or-wrong-value:%s:reference-number-%d", isvg ? "Vlone" : "VSlone", (int)ref);
            mc_violation(sig, "%s: %s: count-only call %d, call with array %d (expected %d), the object is %slisted (expected: %slisted)", g_case,
                         phase == 0 ? "same session" : phase == 1 ? "after reopen" : "after a Vgroup took it in", (int)n0, (int)n, wantn, listed ? "" : "not ", want ? "" : "not ");
            break;
        }
    }
    Vend(f);
    Hclose(f);
    check_file(PATH, "lone-highref");
    mc_count("lone_highref_cases", 1);
}

/* ================================================================== G. open files */
static void
case_open_files(long p)
{
    int n = p == 0 ? 31 : p == 1 ? 32 : p == 2 ? 33 : 40;
    int sd = p >= 4;
    if (sd)
        n = p == 4 ? 32 : p == 5 ? 33 : 40;
    if (p >= 7) {
        /* the SD layer sizes its file table by the process's limit on open files (minus 3 for stdin/stdout/stderr): with that
           limit lowered, two more files than the table can ever hold are opened - each is either refused or works */
        static const int LIM[3] = {40, 67, 100};
        struct rlimit    rl;
        if (getrlimit(RLIMIT_NOFILE, &rl) != 0 || (rl.rlim_cur = (rlim_t)LIM[p - 7], setrlimit(RLIMIT_NOFILE, &rl)) != 0) {
            mc_harness_error("cannot lower RLIMIT_NOFILE");
            return;
        }
        n = LIM[p - 7] - 3 + 2;
        snprintf(g_case, sizeof g_case, "one file opened %d times at once through SDstart(DFACC_READ) with the process limit on open files lowered to %d", n, LIM[p - 7]);
    }
    else
        snprintf(g_case, sizeof g_case, "%d distinct files open at once through %s (MAX_FILE is 32)", n, sd ? "SDstart" : "Hopen");
    mc_set_case("%s", g_case);
    int32 ids[128];
    int   nopen = 0, refused = 0;
    char  path[64];
    uint8 b[4] = {1, 2, 3, 4};
    int samefile = p >= 7; /* one file with one data set, opened read-only n times (ids of their own, one stream) */
    if (samefile) {
        int32 d[1] = {4}, st[1] = {0};
        vfs_remove_file("/vmem/c20_0.hdf");
        int32 S = SDstart("/vmem/c20_0.hdf", DFACC_CREATE), ds = SDcreate(S, "d", DFNT_UINT8, 1, d);
        if (S == FAIL || ds == FAIL || SDwritedata(ds, st, NULL, d, b) == FAIL || SDendaccess(ds) == FAIL || SDend(S) == FAIL) {
            mc_harness_error("cannot create the file to be opened many times");
            return;
        }
    }
    for (int i = 0; i < n; i++) {
        snprintf(path, sizeof path, "/vmem/c20_%d.hdf", samefile ? 0 : i);
        if (!samefile)
            vfs_remove_file(path);
        int32 id = samefile ? SDstart(path, DFACC_READ) : sd ? SDstart(path, DFACC_CREATE) : Hopen(path, DFACC_CREATE, 16);
        if (id == FAIL) {
            refused++;
            if (i < (sd ? 32 : 32))
                expect(MUST_OK, 1, sd ? "SDstart:within-32-open-files" : "Hopen:within-32-open-files");
            continue;
        }
        /* neither layer has a fixed table of MAX_FILE slots any more (H: dynamic atoms; SD: raised on demand up to the
           system limit): more than 32 may be accepted, and then has to work */
        ids[nopen++] = id;
        if (samefile)
            continue;
        if (!sd)
            Hputelement(id, 1000, (uint16)(i + 1), b, 4);
        else {
            int32 d[1] = {4}, st[1] = {0};
            int32 s = SDcreate(id, "d", DFNT_UINT8, 1, d);
            b[0]    = (uint8)i;
            SDwritedata(s, st, NULL, d, b);
            SDendaccess(s);
        }
    }
    /* every id that was handed out designates a working file */
    for (int i = 0; i < nopen && sd; i++) {
        int32 nds = -1, nat = -1;
        if (SDfileinfo(ids[i], &nds, &nat) == FAIL || nds != 1) {
            mc_violation("accepted-open-unusable:SDstart", "%s: the %d-th id handed out by SDstart does not work (SDfileinfo fails or reports %d data sets)", g_case, i, (int)nds);
            break;
        }
    }
    /* after a refusal: closing one makes room again */
    if (refused && nopen) {
        int32 rc = sd ? SDend(ids[--nopen]) : Hclose(ids[--nopen]);
        expect(MUST_OK, rc == FAIL, "close-after-refused-open");
        vfs_remove_file("/vmem/c20_again.hdf");
        int32 id = samefile ? SDstart("/vmem/c20_0.hdf", DFACC_READ) : sd ? SDstart("/vmem/c20_again.hdf", DFACC_CREATE) : Hopen("/vmem/c20_again.hdf", DFACC_CREATE, 16);
        expect(MUST_OK, id == FAIL, "open-after-making-room");
        if (id != FAIL)
            ids[nopen++] = id;
    }
    for (int i = 0; i < nopen; i++) {
        int32 rc = sd ? SDend(ids[i]) : Hclose(ids[i]);
        expect(MUST_OK, rc == FAIL, "close");
    }
    for (int i = 0; i < n; i++) {
        snprintf(path, sizeof path, "/vmem/c20_%d.hdf", i);
        if (vfs_lookup(path) && vfs_size(path) > 0)
            check_file(path, "open-files");
    }
    mc_count("files_opened", nopen);
}

/* ================================================================== H. element-level argument extremes */
static void
case_h_args(long p)
{
    vfs_remove_file(PATH);
    int32 f = Hopen(PATH, DFACC_CREATE, 16);
    uint8 b[8] = {1, 2, 3, 4, 5, 6, 7, 8}, r[8];
    Hputelement(f, 1000, 1, b, 8);
    int32 rc, a;
    switch (p) {
        case 0:
            snprintf(g_case, sizeof g_case, "Hputelement with length -1");
            rc = Hputelement(f, 1000, 2, b, -1);
            expect(MUST_FAIL, rc == FAIL, "Hputelement:negative-length");
            break;
        case 1:
            snprintf(g_case, sizeof g_case, "Hstartwrite with length -5");
            a = Hstartwrite(f, 1000, 2, -5);
            expect(MUST_FAIL, a == FAIL, "Hstartwrite:negative-length");
            if (a != FAIL) Hendaccess(a);
            break;
        case 2:
            snprintf(g_case, sizeof g_case, "Hseek to 2^31-1 in an 8-byte element then read");
            a  = Hstartread(f, 1000, 1);
            rc = Hseek(a, (int32)I31, DF_START);
            expect(MUST_FAIL, rc == FAIL, "Hseek:beyond-end-on-read-access");
            rc = Hread(a, 4, r);
            Hendaccess(a);
            break;
        case 3:
            snprintf(g_case, sizeof g_case, "Hseek relative +2^31-1 from position 4 (sum overflows int32)");
            a = Hstartread(f, 1000, 1);
            Hseek(a, 4, DF_START);
            rc = Hseek(a, (int32)I31, DF_CURRENT);
            expect(MUST_FAIL, rc == FAIL, "Hseek:current+offset-overflows");
            rc = Hread(a, 4, r);
            if (rc != FAIL && (rc != 4 || memcmp(r, b + 4, 4)))
                wrapped("Hread-after-refused-seek", r[0], b[4]);
            Hendaccess(a);
            break;
        case 4:
            snprintf(g_case, sizeof g_case, "Hread with length 2^31-1 from position 4 of an 8-byte element");
            a = Hstartread(f, 1000, 1);
            Hseek(a, 4, DF_START);
            {
                uint8 *big = big_zero_buffer((size_t)I31);
                rc = Hread(a, (int32)I31, big ? big : r);
                if (rc != FAIL && rc != 4)
                    wrapped("Hread:count", rc, 4);
                if (big) syscall(SYS_munmap, big, (size_t)I31 + 4096);
            }
            Hendaccess(a);
            break;
        case 5:
            snprintf(g_case, sizeof g_case, "HLcreate with block length 0 / negative");
            a = HLcreate(f, 1000, 2, 0, 2);
            expect(MAY, a == FAIL, "HLcreate:zero-block-length");
            if (a != FAIL) {
                /* whatever block length the library substitutes, the element must work */
                rc = Hwrite(a, 8, b);
                Hendaccess(a);
                if (rc == 8 && (Hgetelement(f, 1000, 2, r) != 8 || memcmp(r, b, 8)))
                    mc_violation("wrapped-or-wrong-value:zero-block-length-element", "%s: element does not read back", g_case);
            }
            a = HLcreate(f, 1000, 3, -8, 2);
            expect(MUST_FAIL, a == FAIL, "HLcreate:negative-block-length");
            if (a != FAIL) Hendaccess(a);
            break;
        case 6:
            snprintf(g_case, sizeof g_case, "HLcreate with 70000 blocks per table (16-bit count)");
            a = HLcreate(f, 1000, 2, 4, 70000);
            if (a != FAIL) {
                rc = Hwrite(a, 8, b);
                Hendaccess(a);
                if (rc == 8 && (Hgetelement(f, 1000, 2, r) != 8 || memcmp(r, b, 8)))
                    mc_violation("wrapped-or-wrong-value:linked-table-count", "%s: element does not read back", g_case);
            }
            break;
        case 7:
            snprintf(g_case, sizeof g_case, "Hopen(CREATE) with 70000 DDs per block requested via int16 truncation guard");
            Hclose(f);
            vfs_remove_file(PATH);
            f = Hopen(PATH, DFACC_CREATE, (int16)32767);
            expect(MAY, f == FAIL, "Hopen:ndds-32767");
            if (f != FAIL) Hputelement(f, 1000, 1, b, 8);
            break;
    }
    mc_set_case("%s", g_case);
    if (f != FAIL)
        expect(MAY, Hclose(f) == FAIL, "Hclose");
    followup(PATH, "h-args", 0);
}

/* ================================================================== registry */
typedef struct {
    const char *name;
    void (*fn)(long);
    long n, n_quick;
} family_t;
static const family_t FAM[] = {
    {"reserve-around-2^31", case_reserve, 40, 40},
    {"setlength/HLcreate-huge", case_setlength, 8, 8},
    {"linked-second-block", case_linked_second_block, 3, 3},
    {"refs-exhausted", case_refs_exhausted, 8, 8},
    {"newref-at-counter-limit", case_newref_limit, 3, 3},
    {"vgroup-members", case_vgroup_members, 4, 4},
    {"vdata-fields", case_vdata_fields, 23, 23},
    {"names", case_names, 12 * 13, 12 * 13},
    {"sd-rank", case_sd_rank, 5, 5},
    {"sd-size", case_sd_size, 9, 9},
    {"gr-ncomp", case_gr_ncomp, 7, 7},
    {"gr-size", case_gr_size, 6, 6},
    {"open-files", case_open_files, 10, 10},
    {"h-args", case_h_args, 8, 8},
    {"lone-objects-highest-refs", case_lone_highref, 4, 4},
    {"sd-nvars", case_sd_nvars, 8, 8},
};
#define NFAM ((int)(sizeof FAM / sizeof FAM[0]))
static long
total_cases(void)
{
    long t = 0;
    for (int i = 0; i < NFAM; i++)
        t += FAM[i].n;
    return t;
}
static void
run_case(long idx, void *ctx)
{
    (void)ctx;
    for (int i = 0; i < NFAM; i++) {
        if (idx < FAM[i].n) {
            int cfg[2] = {i, (int)idx};
            mc_set_config(cfg, 2, "family=%s case=%ld", FAM[i].name, idx);
            mc_set_context(FAM[i].name);
            g_case[0] = 0;
            FAM[i].fn(idx);
            if (idx % 5 == 0 && g_case[0])
                mc_sample("[%s] %s", FAM[i].name, g_case);
            mc_count(FAM[i].name, 1);
            return;
        }
        idx -= FAM[i].n;
    }
}

int
C20_main(const char *tier, const char *replay)
{
    (void)tier;
    if (replay) {
        int   cfg[32], ncfg, nops;
        mc_op ops[MC_MAXDEPTH];
        if (mc_load_replay(replay, cfg, &ncfg, ops, &nops, MC_MAXDEPTH) || ncfg < 2)
            return 2;
        mc_set_config(cfg, 2, "family=%s case=%d", FAM[cfg[0]].name, cfg[1]);
        mc_set_context(FAM[cfg[0]].name);
        FAM[cfg[0]].fn(cfg[1]);
        printf("replay C20: %s\n", g_case);
        return 0;
    }
    mc_rule("every limit family x every parameter chosen around the limit (below, at, one past, far past, values that wrap in 16/32-bit arithmetic): %ld cases in %d families", total_cases(), NFAM);
    mc_round_begin("all limit cases");
    mc_foreach(total_cases(), run_case, NULL, 1, 600);
    mc_round_end();
    return 0;
}
