/* tools_common.h - shared by the tool harnesses (C18 hrepack, C19 hdiff/hdp/hdfimport):
 * a generator of input files over real stdio, an API-level content record that is independent of hdiff, and a runner for the
 * tool executables that were built from the current tree (AddressSanitizer-instrumented). */
#ifndef TOOLS_COMMON_H
#define TOOLS_COMMON_H
#include "../engine/mc.h"
#include "hdf.h"
#include "mfhdf.h"
#include <errno.h>
#include <stdarg.h>
#include <stdio.h>
#include <stdlib.h>
#include <string.h>
#include <sys/stat.h>
#include <sys/wait.h>
#include <unistd.h>

static char tc_work[300]; /* per-case scratch directory */

static void
tc_workdir(const char *prop, long idx)
{
    const char *root = getenv("VERIF_ROOT") ? getenv("VERIF_ROOT") : "/verif";
    char        base[256];
    snprintf(base, sizeof base, "%s/build/work", root);
    mkdir(base, 0777);
    snprintf(base, sizeof base, "%s/build/work/%s", root, prop);
    mkdir(base, 0777);
    snprintf(tc_work, sizeof tc_work, "%s/c%ld.%d", base, idx, (int)getpid());
    char cmd[400];
    snprintf(cmd, sizeof cmd, "rm -rf '%s'", tc_work);
    if (system(cmd)) {}
    mkdir(tc_work, 0777);
}
static void
tc_cleanup(void)
{
    char cmd[400];
    if (mc_replaying)
        return; /* keep the files of a replayed case for inspection */
    snprintf(cmd, sizeof cmd, "rm -rf '%s'", tc_work);
    if (system(cmd)) {}
}
static const char *
tc_path(const char *name)
{
    static char buf[8][400];
    static int  k;
    k = (k + 1) % 8;
    snprintf(buf[k], sizeof buf[k], "%s/%s", tc_work, name);
    return buf[k];
}

/* run a tool; argv NULL-terminated; stdout+stderr captured into *out (malloc'd). Returns exit status (or -signal). */
static int
tc_run(const char *tool, char *const args[], char **out)
{
    const char *bin = getenv("VERIF_TOOLS_BIN") ? getenv("VERIF_TOOLS_BIN") : "/verif/build/lib/bin";
    char        exe[400], outp[400];
    snprintf(exe, sizeof exe, "%s/%s", bin, tool);
    snprintf(outp, sizeof outp, "%s/tool.out", tc_work);
    fflush(NULL);
    pid_t pid = fork();
    if (pid == 0) {
        FILE *f = freopen(outp, "w", stdout);
        (void)f;
        dup2(1, 2);
        setenv("ASAN_OPTIONS", "detect_leaks=0:halt_on_error=1:abort_on_error=0:exitcode=97", 1);
        if (chdir(tc_work)) {}
        char *argv[40];
        int   n = 0;
        argv[n++] = exe;
        for (int i = 0; args[i] && n < 39; i++)
            argv[n++] = args[i];
        argv[n] = NULL;
        execv(exe, argv);
        _exit(126);
    }
    int st = 0;
    waitpid(pid, &st, 0);
    if (out) {
        FILE *f = fopen(outp, "r");
        long  n = 0;
        *out    = NULL;
        if (f) {
            fseek(f, 0, SEEK_END);
            n = ftell(f);
            fseek(f, 0, SEEK_SET);
            *out = malloc((size_t)n + 1);
            if (fread(*out, 1, (size_t)n, f) != (size_t)n) {}
            (*out)[n] = 0;
            fclose(f);
        }
        else
            *out = strdup("");
    }
    mc_count("tool_runs", 1);
    return WIFEXITED(st) ? WEXITSTATUS(st) : -WTERMSIG(st);
}
/* sanitizer report or crash inside the tool = violation */
static int
tc_tool_crashed(const char *tool, int rc, const char *out, const char *casedesc)
{
    const char *a = out ? strstr(out, "ERROR: AddressSanitizer") : NULL;
    if (a || rc < 0 || rc == 97 || rc == 126) {
        char sig[160], kind[64] = "crash";
        if (a) {
            const char *k = a + strlen("ERROR: AddressSanitizer: ");
            size_t      n = strcspn(k, " \n");
            snprintf(kind, sizeof kind, "%.*s", (int)(n < 60 ? n : 60), k);
            /* first frame inside the repository */
            const char *fr = strstr(a, " in ");
            char        fn[64] = "?";
            while (fr) {
                const char *e = fr + 4;
                size_t      m = strcspn(e, " \n");
                const char *src = strstr(e, "/");
                if (src && src < e + m + 40 && (strstr(e, "/hdf/") || strstr(e, "/mfhdf/")) && strncmp(e, "__", 2)) {
                    snprintf(fn, sizeof fn, "%.*s", (int)(m < 60 ? m : 60), e);
                    break;
                }
                fr = strstr(e, " in ");
            }
            snprintf(sig, sizeof sig, "tool-asan:%s:%s:%s", tool, kind, fn);
        }
        else
            snprintf(sig, sizeof sig, "tool-crash:%s:rc=%d", tool, rc);
        mc_violation(sig, "%s: %s terminated abnormally (status %d): %.600s", casedesc, tool, rc, a ? a : (out ? out : ""));
        return 1;
    }
    return 0;
}

/* ====================================================================== content record */
typedef struct {
    char **line;
    int    n, cap;
} tc_rec;
static void
tc_add(tc_rec *r, const char *fmt, ...)
{
    char    buf[2000];
    va_list ap;
    va_start(ap, fmt);
    vsnprintf(buf, sizeof buf, fmt, ap);
    va_end(ap);
    if (r->n == r->cap) {
        r->cap  = r->cap ? r->cap * 2 : 256;
        r->line = realloc(r->line, sizeof(char *) * (size_t)r->cap);
    }
    r->line[r->n++] = strdup(buf);
}
static void
tc_free(tc_rec *r)
{
    for (int i = 0; i < r->n; i++)
        free(r->line[i]);
    free(r->line);
    memset(r, 0, sizeof *r);
}
static int
tc_cmpstr(const void *a, const void *b)
{
    return strcmp(*(char *const *)a, *(char *const *)b);
}
static void
tc_hex(const void *p, long n, char *out, size_t cap)
{
    size_t o = 0;
    for (long i = 0; i < n && o + 3 < cap; i++)
        o += (size_t)snprintf(out + o, cap - o, "%02x", ((const uint8 *)p)[i]);
    out[o] = 0;
}
static int
tc_ntsize(int32 nt)
{
    return DFKNTsize((nt | DFNT_NATIVE) & ~DFNT_LITEND);
}

static const char *
tc_member_desc(int32 f, int32 S, int32 tag, int32 ref, char *buf, size_t cap)
{
    buf[0] = 0;
    if (tag == DFTAG_VH) {
        int32 vs = VSattach(f, ref, "r");
        char  nm[VSNAMELENMAX + 1] = "", cl[VSNAMELENMAX + 1] = "";
        if (vs != FAIL) {
            VSgetname(vs, nm);
            VSgetclass(vs, cl);
            VSdetach(vs);
            if (!VSisinternal(cl))
                snprintf(buf, cap, "vs:%s", nm);
        }
    }
    else if (tag == DFTAG_VG) {
        int32 vg = Vattach(f, ref, "r");
        char  nm[300] = "", cl[300] = "";
        if (vg != FAIL) {
            Vgetname(vg, nm);
            Vgetclass(vg, cl);
            Vdetach(vg);
            if (!strcmp(cl, "Var0.0"))
                snprintf(buf, cap, "sds:%s", nm);
            else if (!strcmp(cl, "RI0.0"))
                snprintf(buf, cap, "gr:%s", nm);
            else if (!Visinternal(cl))
                snprintf(buf, cap, "vg:%s", nm);
        }
    }
    else if (tag == DFTAG_NDG || tag == DFTAG_SDG) {
        int32 idx = S != FAIL ? SDreftoindex(S, ref) : FAIL;
        if (idx != FAIL) {
            int32 s = SDselect(S, idx);
            char  nm[H4_MAX_NC_NAME + 1] = "";
            int32 rk, dm[H4_MAX_VAR_DIMS], nt, na;
            if (s != FAIL && SDgetinfo(s, nm, &rk, dm, &nt, &na) != FAIL)
                snprintf(buf, cap, "sds:%s", nm);
            if (s != FAIL)
                SDendaccess(s);
        }
    }
    else if (tag == DFTAG_RIG || tag == DFTAG_RI) {
        /* which of the two tags the annotation names is part of the content; the image is identified by its name */
        int32 G = GRstart(f), nimg = 0, nat = 0;
        snprintf(buf, cap, tag == DFTAG_RI ? "ri" : "rig");
        if (G != FAIL && GRfileinfo(G, &nimg, &nat) != FAIL)
            for (int k = 0; k < nimg; k++) {
                int32 ri = GRselect(G, k);
                if (ri == FAIL)
                    continue;
                if (GRidtoref(ri) == (uint16)ref) {
                    char  nm[H4_MAX_GR_NAME + 1] = "";
                    int32 nc, nt, il, dm[2], na;
                    if (GRgetiminfo(ri, nm, &nc, &nt, &il, dm, &na) != FAIL)
                        snprintf(buf, cap, "%s:%s", tag == DFTAG_RI ? "ri" : "rig", nm);
                }
                GRendaccess(ri);
            }
        if (G != FAIL)
            GRend(G);
    }
    return buf;
}

/* layout facts are kept apart from the content (they may change) */
typedef struct {
    char  name[128];
    int   comp, chunked, empty, unlimited;
    int32 chunk[H4_MAX_VAR_DIMS], rank, dims[H4_MAX_VAR_DIMS];
    long  bytes;
} tc_layout;

static int
tc_content(const char *path, tc_rec *r, tc_layout *lay, int *nlay, int maxlay)
{
    char hexb[1400];
    if (nlay)
        *nlay = 0;
    int32 S = SDstart(path, DFACC_READ);
    int32 f = Hopen(path, DFACC_READ, 0);
    if (f == FAIL) {
        tc_add(r, "UNREADABLE");
        if (S != FAIL)
            SDend(S);
        return -1;
    }
    Vstart(f);
    /* ---- SD */
    if (S != FAIL) {
        int32 nds = 0, ngat = 0;
        SDfileinfo(S, &nds, &ngat);
        for (int a = 0; a < ngat; a++) {
            char  an[H4_MAX_NC_NAME + 1];
            int32 nt, cnt;
            if (SDattrinfo(S, a, an, &nt, &cnt) == FAIL)
                continue;
            uint8 *v = calloc(1, (size_t)(cnt * tc_ntsize(nt)) + 8);
            SDreadattr(S, a, v);
            tc_hex(v, cnt * tc_ntsize(nt) > 600 ? 600 : cnt * tc_ntsize(nt), hexb, sizeof hexb);
            tc_add(r, "SD-GATTR %s nt=%d n=%d val=%s", an, (int)(nt & ~DFNT_LITEND), (int)cnt, hexb);
            free(v);
        }
        for (int k = 0; k < nds; k++) {
            int32 s = SDselect(S, k);
            char  nm[H4_MAX_NC_NAME + 1];
            int32 rk, dm[H4_MAX_VAR_DIMS], nt, na;
            if (s == FAIL || SDgetinfo(s, nm, &rk, dm, &nt, &na) == FAIL) {
                tc_add(r, "SDS #%d UNSELECTABLE", k);
                continue;
            }
            if (SDiscoordvar(s)) {
                SDendaccess(s);
                continue;
            }
            char ds[200] = "";
            long ne = 1;
            for (int i = 0; i < rk; i++) {
                snprintf(ds + strlen(ds), sizeof ds - strlen(ds), "%s%d", i ? "x" : "", (int)dm[i]);
                ne *= dm[i];
            }
            int unl = SDisrecord(s);
            tc_add(r, "SDS %s rank=%d dims=%s nt=%d nattr=%d", nm, (int)rk, ds, (int)(nt & ~DFNT_LITEND), (int)na);
            int empty = 0;
            SDcheckempty(s, &empty);
            if (ne > 0 && !empty) {
                int    esz = tc_ntsize(nt);
                uint8 *v   = calloc(1, (size_t)(ne * esz) + 8);
                int32  st[H4_MAX_VAR_DIMS] = {0};
                if (SDreaddata(s, st, NULL, dm, v) == FAIL)
                    tc_add(r, "SDS %s DATA UNREADABLE", nm);
                else {
                    tc_hex(v, ne * esz > 16 ? 16 : ne * esz, hexb, sizeof hexb);
                    tc_add(r, "SDS %s data n=%ld hash=%016llx first=%s", nm, ne, (unsigned long long)mc_hash(MC_H0, v, (size_t)(ne * esz)), hexb);
                }
                free(v);
            }
            else
                tc_add(r, "SDS %s data none (empty=%d)", nm, empty);
            for (int a = 0; a < na; a++) {
                char  an[H4_MAX_NC_NAME + 1];
                int32 ant, cnt;
                if (SDattrinfo(s, a, an, &ant, &cnt) == FAIL)
                    continue;
                uint8 *v = calloc(1, (size_t)(cnt * tc_ntsize(ant)) + 8);
                SDreadattr(s, a, v);
                tc_hex(v, cnt * tc_ntsize(ant) > 600 ? 600 : cnt * tc_ntsize(ant), hexb, sizeof hexb);
                tc_add(r, "SDS %s attr %s nt=%d n=%d val=%s", nm, an, (int)(ant & ~DFNT_LITEND), (int)cnt, hexb);
                free(v);
            }
            for (int i = 0; i < rk; i++) {
                int32 did = SDgetdimid(s, i), sz = 0, snt = 0, sna = 0;
                char  dn[H4_MAX_NC_NAME + 1] = "";
                SDdiminfo(did, dn, &sz, &snt, &sna);
                hexb[0] = 0;
                if (snt) {
                    long   cnt = sz ? sz : dm[i];
                    uint8 *v   = calloc(1, (size_t)(cnt * tc_ntsize(snt)) + 8);
                    if (SDgetdimscale(did, v) != FAIL)
                        tc_hex(v, cnt * tc_ntsize(snt) > 600 ? 600 : cnt * tc_ntsize(snt), hexb, sizeof hexb);
                    free(v);
                }
                /* names the library makes up for unnamed dimensions are not content */
                tc_add(r, "SDS %s dim%d name=%s scale_nt=%d scale=%s nattr=%d", nm, i, strncmp(dn, "fakeDim", 7) ? dn : "(default)", (int)(snt & ~DFNT_LITEND), hexb, (int)sna);
                for (int a = 0; a < sna; a++) {
                    char  an[H4_MAX_NC_NAME + 1];
                    int32 ant, cnt;
                    if (SDattrinfo(did, a, an, &ant, &cnt) == FAIL)
                        continue;
                    uint8 *v = calloc(1, (size_t)(cnt * tc_ntsize(ant)) + 8);
                    SDreadattr(did, a, v);
                    tc_hex(v, cnt * tc_ntsize(ant) > 300 ? 300 : cnt * tc_ntsize(ant), hexb, sizeof hexb);
                    tc_add(r, "SDS %s dim%d attr %s nt=%d n=%d val=%s", nm, i, an, (int)(ant & ~DFNT_LITEND), (int)cnt, hexb);
                    free(v);
                }
            }
            if (lay && nlay && *nlay < maxlay) {
                tc_layout *L = &lay[(*nlay)++];
                memset(L, 0, sizeof *L);
                snprintf(L->name, sizeof L->name, "%s", nm);
                comp_coder_t ct = COMP_CODE_NONE;
                comp_info    ci;
                memset(&ci, 0, sizeof ci);
                SDgetcompinfo(s, &ct, &ci);
                HDF_CHUNK_DEF cd;
                int32         fl = 0;
                memset(&cd, 0, sizeof cd);
                SDgetchunkinfo(s, &cd, &fl);
                L->comp      = (int)ct;
                L->chunked   = fl != HDF_NONE;
                L->empty     = empty;
                L->unlimited = unl;
                L->rank      = rk;
                L->bytes     = ne * tc_ntsize(nt);
                for (int i = 0; i < rk; i++)
                    L->chunk[i] = cd.chunk_lengths[i], L->dims[i] = dm[i];
            }
            SDendaccess(s);
        }
    }
    /* ---- GR */
    {
        int32 G = GRstart(f), nimg = 0, nga = 0;
        if (G != FAIL) {
            GRfileinfo(G, &nimg, &nga);
            for (int a = 0; a < nga; a++) {
                char  an[H4_MAX_GR_NAME + 1];
                int32 nt, cnt;
                if (GRattrinfo(G, a, an, &nt, &cnt) == FAIL)
                    continue;
                uint8 *v = calloc(1, (size_t)(cnt * tc_ntsize(nt)) + 8);
                GRgetattr(G, a, v);
                tc_hex(v, cnt * tc_ntsize(nt) > 300 ? 300 : cnt * tc_ntsize(nt), hexb, sizeof hexb);
                tc_add(r, "GR-GATTR %s nt=%d n=%d val=%s", an, (int)(nt & ~DFNT_LITEND), (int)cnt, hexb);
                free(v);
            }
            for (int k = 0; k < nimg; k++) {
                int32 ri = GRselect(G, k);
                char  nm[H4_MAX_GR_NAME + 1];
                int32 nc, nt, il, dm[2], na, st[2] = {0, 0};
                if (ri == FAIL || GRgetiminfo(ri, nm, &nc, &nt, &il, dm, &na) == FAIL) {
                    tc_add(r, "GR #%d UNSELECTABLE", k);
                    continue;
                }
                tc_add(r, "GR %s ncomp=%d nt=%d dims=%dx%d nattr=%d", nm, (int)nc, (int)(nt & ~DFNT_LITEND), (int)dm[0], (int)dm[1], (int)na);
                long   nb = (long)dm[0] * dm[1] * nc * tc_ntsize(nt);
                uint8 *v  = calloc(1, (size_t)nb + 8);
                GRreqimageil(ri, MFGR_INTERLACE_PIXEL);
                if (GRreadimage(ri, st, NULL, dm, v) == FAIL)
                    tc_add(r, "GR %s DATA UNREADABLE", nm);
                else {
                    tc_hex(v, nb > 16 ? 16 : nb, hexb, sizeof hexb);
                    tc_add(r, "GR %s data hash=%016llx first=%s", nm, (unsigned long long)mc_hash(MC_H0, v, (size_t)nb), hexb);
                }
                free(v);
                int32 lut = GRgetlutid(ri, 0), pnc = 0, pnt = 0, pil = 0, pne = 0;
                if (lut != FAIL && GRgetlutinfo(lut, &pnc, &pnt, &pil, &pne) != FAIL && pne > 0) {
                    uint8 *p = calloc(1, (size_t)(pnc * pne * tc_ntsize(pnt)) + 8);
                    GRreqlutil(lut, MFGR_INTERLACE_PIXEL);
                    if (GRreadlut(lut, p) != FAIL)
                        tc_add(r, "GR %s palette ncomp=%d n=%d hash=%016llx", nm, (int)pnc, (int)pne, (unsigned long long)mc_hash(MC_H0, p, (size_t)(pnc * pne * tc_ntsize(pnt))));
                    free(p);
                }
                else
                    tc_add(r, "GR %s palette none", nm);
                for (int a = 0; a < na; a++) {
                    char  an[H4_MAX_GR_NAME + 1];
                    int32 ant, cnt;
                    if (GRattrinfo(ri, a, an, &ant, &cnt) == FAIL)
                        continue;
                    uint8 *w = calloc(1, (size_t)(cnt * tc_ntsize(ant)) + 8);
                    GRgetattr(ri, a, w);
                    tc_hex(w, cnt * tc_ntsize(ant) > 300 ? 300 : cnt * tc_ntsize(ant), hexb, sizeof hexb);
                    tc_add(r, "GR %s attr %s nt=%d n=%d val=%s", nm, an, (int)(ant & ~DFNT_LITEND), (int)cnt, hexb);
                    free(w);
                }
                GRendaccess(ri);
            }
            GRend(G);
        }
    }
    /* ---- Vdatas */
    {
        int32 ref = -1;
        while ((ref = VSgetid(f, ref)) != FAIL) {
            int32 vs = VSattach(f, ref, "r");
            if (vs == FAIL)
                continue;
            char nm[VSNAMELENMAX + 1] = "", cl[VSNAMELENMAX + 1] = "";
            VSgetname(vs, nm);
            VSgetclass(vs, cl);
            if (VSisinternal(cl)) {
                VSdetach(vs);
                continue;
            }
            int32 n = 0, il = 0, sz = 0;
            static char fl[VSFIELDMAX * (FIELDNAMELENMAX + 1)];
            VSinquire(vs, &n, &il, fl, &sz, nm);
            int  nf = VFnfields(vs);
            char fd[1200] = "";
            for (int i = 0; i < nf; i++)
                snprintf(fd + strlen(fd), sizeof fd - strlen(fd), "%s%s:%d:%d", i ? "," : "", VFfieldname(vs, i), (int)(VFfieldtype(vs, i) & ~DFNT_LITEND), (int)VFfieldorder(vs, i));
            tc_add(r, "VS %s class=%s nrec=%d fields=%s nattr=%d", nm, cl, (int)n, fd, (int)VSnattrs(vs));
            if (n > 0 && nf > 0) {
                uint8 *v = calloc(1, (size_t)(n * sz) + 8);
                VSsetfields(vs, fl);
                if (VSread(vs, v, n, FULL_INTERLACE) != n)
                    tc_add(r, "VS %s DATA UNREADABLE", nm);
                else
                    tc_add(r, "VS %s data hash=%016llx", nm, (unsigned long long)mc_hash(MC_H0, v, (size_t)(n * sz)));
                free(v);
            }
            for (int fi = -1; fi < nf; fi++) {
                int na = VSfnattrs(vs, fi < 0 ? _HDF_VDATA : fi);
                for (int a = 0; a < na; a++) {
                    char  an[VSNAMELENMAX + 1];
                    int32 ant, cnt, asz;
                    if (VSattrinfo(vs, fi < 0 ? _HDF_VDATA : fi, a, an, &ant, &cnt, &asz) == FAIL)
                        continue;
                    uint8 *w = calloc(1, (size_t)asz + 8);
                    VSgetattr(vs, fi < 0 ? _HDF_VDATA : fi, a, w);
                    tc_hex(w, asz > 300 ? 300 : asz, hexb, sizeof hexb);
                    tc_add(r, "VS %s field%d attr %s nt=%d n=%d val=%s", nm, fi, an, (int)(ant & ~DFNT_LITEND), (int)cnt, hexb);
                    free(w);
                }
            }
            VSdetach(vs);
        }
    }
    /* ---- Vgroups (user ones): name, class, members by kind and name, attributes */
    {
        int32 ref = -1;
        while ((ref = Vgetid(f, ref)) != FAIL) {
            int32 vg = Vattach(f, ref, "r");
            if (vg == FAIL)
                continue;
            char nm[300] = "", cl[300] = "";
            Vgetname(vg, nm);
            Vgetclass(vg, cl);
            if (Visinternal(cl)) {
                Vdetach(vg);
                continue;
            }
            int   n = Vntagrefs(vg);
            char *mem[512];
            int   nm_ = 0;
            for (int i = 0; i < n && nm_ < 512; i++) {
                int32 tg, rf;
                char  d[300];
                Vgettagref(vg, i, &tg, &rf);
                tc_member_desc(f, S, tg, rf, d, sizeof d);
                if (d[0])
                    mem[nm_++] = strdup(d);
            }
            qsort(mem, (size_t)nm_, sizeof(char *), tc_cmpstr);
            char ml[1600] = "";
            for (int i = 0; i < nm_; i++) {
                snprintf(ml + strlen(ml), sizeof ml - strlen(ml), "%s%s", i ? "," : "", mem[i]);
                free(mem[i]);
            }
            tc_add(r, "VG %s class=%s members=[%s] nattr=%d", nm, cl, ml, (int)Vnattrs(vg));
            for (int a = 0; a < Vnattrs(vg); a++) {
                char  an[300];
                int32 ant, cnt, asz;
                if (Vattrinfo(vg, a, an, &ant, &cnt, &asz) == FAIL)
                    continue;
                uint8 *w = calloc(1, (size_t)asz + 8);
                Vgetattr(vg, a, w);
                tc_hex(w, asz > 300 ? 300 : asz, hexb, sizeof hexb);
                tc_add(r, "VG %s attr %s nt=%d n=%d val=%s", nm, an, (int)(ant & ~DFNT_LITEND), (int)cnt, hexb);
                free(w);
            }
            Vdetach(vg);
        }
    }
    /* ---- annotations */
    {
        int32 A = ANstart(f), n[4] = {0, 0, 0, 0};
        if (A != FAIL) {
            ANfileinfo(A, &n[2], &n[3], &n[0], &n[1]);
            static const ann_type T[]  = {AN_DATA_LABEL, AN_DATA_DESC, AN_FILE_LABEL, AN_FILE_DESC};
            static const char    *TN[] = {"data-label", "data-desc", "file-label", "file-desc"};
            for (int t = 0; t < 4; t++)
                for (int k = 0; k < n[t]; k++) {
                    int32 a = ANselect(A, k, T[t]);
                    if (a == FAIL)
                        continue;
                    int32 len = ANannlen(a);
                    char *txt = calloc(1, (size_t)(len > 0 ? len : 0) + 8);
                    ANreadann(a, txt, len + 1);
                    char tgt[300] = "";
                    if (t < 2) {
                        /* the annotated object: find it by reference among the data annotations' targets */
                        uint16 atag, aref;
                        ANid2tagref(a, &atag, &aref);
                        int32 aid = Hstartread(f, atag, aref);
                        uint8 tr[4] = {0, 0, 0, 0};
                        if (aid != FAIL) {
                            Hread(aid, 4, tr);
                            Hendaccess(aid);
                        }
                        tc_member_desc(f, S, (tr[0] << 8) | tr[1], (tr[2] << 8) | tr[3], tgt, sizeof tgt);
                        if (!tgt[0])
                            snprintf(tgt, sizeof tgt, "tag%d", (tr[0] << 8) | tr[1]);
                    }
                    tc_add(r, "AN %s on=%s len=%d text=%.200s", TN[t], tgt, (int)len, txt);
                    free(txt);
                    ANendaccess(a);
                }
            ANend(A);
        }
    }
    Vend(f);
    Hclose(f);
    if (S != FAIL)
        SDend(S);
    qsort(r->line, (size_t)r->n, sizeof(char *), tc_cmpstr);
    return 0;
}

/* first difference between two sorted records; returns 0 if equal */
static int
tc_diff(const tc_rec *a, const tc_rec *b, char *msg, size_t cap)
{
    int i = 0, j = 0;
    while (i < a->n || j < b->n) {
        int c = i >= a->n ? 1 : j >= b->n ? -1 : strcmp(a->line[i], b->line[j]);
        if (c == 0) {
            i++, j++;
            continue;
        }
        if (c < 0)
            snprintf(msg, cap, "only in the first: \"%.300s\"%s%.300s%s", a->line[i], j < b->n ? "; the second has \"" : "", j < b->n ? b->line[j] : "", j < b->n ? "\"" : "");
        else
            snprintf(msg, cap, "only in the second: \"%.300s\"", b->line[j]);
        return 1;
    }
    return 0;
}
/* kind of the first differing line, for signatures: "SDS data", "VS attr", ... */
static void
tc_diffkind(const char *msg, char *out, size_t cap)
{
    const char *q = strchr(msg, '"');
    out[0]        = 0;
    if (!q)
        return;
    q++;
    char w1[32] = "", w2[128] = "", w3[32] = "";
    sscanf(q, "%31s %127s %31s", w1, w2, w3);
    for (char *p = w3; *p; p++)
        if (*p == '=' || *p == '"') {
            *p = 0;
            break;
        }
    snprintf(out, cap, "%s-%s", w1, w3);
}

/* ====================================================================== generator */
/* single-point mutation descriptor: object kind + index + which element; -1 = none */
typedef struct {
    int kind; /* 0 none, 1 SDS data, 2 SDS attr, 3 global attr, 4 vdata value, 5 GR pixel, 6 vdata attr, 7 GR attr, 8 add an object, 9 remove an object,
                 10 dimension scale value, 11 vgroup attr, 12 data sets created in another order (content unchanged) */
    int obj, pos;
} tc_mut;

#define TC_NSDS 6
static const struct {
    const char *name;
    int32       nt, rank, dims[3];
    int         layout; /* 0 plain, 1 unlimited, 2 chunked, 3 deflate, 4 chunked+deflate, 5 rle, 6 empty (never written) */
} TC_SDS[TC_NSDS + 5] = {
    {"sds_i8", DFNT_INT8, 1, {40, 0, 0}, 0},   {"sds_i16", DFNT_INT16, 2, {20, 30, 0}, 0}, {"sds_f32", DFNT_FLOAT32, 3, {4, 10, 30}, 0},
    {"sds_f64", DFNT_FLOAT64, 2, {16, 20, 0}, 1}, {"sds_u8", DFNT_UINT8, 2, {50, 40, 0}, 0}, {"sds_i32", DFNT_INT32, 2, {25, 20, 0}, 6},
    /* layout variants used by file kind 1 */
    {"sds_chunked", DFNT_INT16, 2, {20, 30, 0}, 2}, {"sds_gzip", DFNT_INT32, 2, {30, 20, 0}, 3}, {"sds_chunk_gzip", DFNT_FLOAT32, 2, {24, 24, 0}, 4}, {"sds_rle", DFNT_UINT8, 2, {60, 50, 0}, 5},
    /* an unsigned 16-bit data set with values above 32767 (file kinds 0 and 5) */
    {"sds_u16", DFNT_UINT16, 2, {12, 15, 0}, 0},
};
/* the data sets of a file kind: position -> index into TC_SDS */
static int
tc_nsds(int kind)
{
    return kind == 0 ? TC_NSDS + 1 : kind == 1 ? 4 : kind == 5 ? 4 : (kind == 3 || kind == 4) ? 3 : 0;
}
static int
tc_sds_index(int kind, int k)
{
    if (kind == 1)
        return TC_NSDS + k;
    if (kind == 0)
        return k < TC_NSDS ? k : TC_NSDS + 4;
    if (kind == 5)
        return k < 3 ? k : TC_NSDS + 4;
    return k;
}

static void
tc_values(int32 nt, long n, void *out, int salt)
{
    for (long i = 0; i < n; i++) {
        long v = (i * 7 + salt * 13 + (i / 11) * 3) % 97 - 30;
        switch (nt) {
            case DFNT_INT8: ((int8 *)out)[i] = (int8)v; break;
            case DFNT_UINT8: ((uint8 *)out)[i] = (uint8)(v + 30); break;
            case DFNT_INT16: ((int16 *)out)[i] = (int16)(v * 300); break;
            case DFNT_UINT16: ((uint16 *)out)[i] = (uint16)((v + 30) * 500); break;
            case DFNT_INT32: ((int32 *)out)[i] = (int32)(v * 70001); break;
            case DFNT_UINT32: ((uint32 *)out)[i] = (uint32)((v + 30) * 9000001u); break;
            case DFNT_FLOAT32: ((float32 *)out)[i] = (float32)v * 0.25f + 0.5f; break;
            case DFNT_FLOAT64: ((float64 *)out)[i] = (float64)v * 0.125 + 0.25; break;
        }
    }
}
/* change one element so that it certainly differs */
static void
tc_bump(int32 nt, void *p, long i)
{
    switch (nt & ~DFNT_LITEND) {
        case DFNT_INT8:
        case DFNT_UINT8:
        case DFNT_CHAR8:
        case DFNT_UCHAR8: ((uint8 *)p)[i] ^= 0x11; break;
        case DFNT_INT16:
        case DFNT_UINT16: ((uint16 *)p)[i] ^= 0x0100; break;
        case DFNT_INT32:
        case DFNT_UINT32: ((uint32 *)p)[i] ^= 0x00010000u; break;
        /* a difference below 1: a comparison that truncates to an integer would not see it */
        case DFNT_FLOAT32: {
            float32 o = ((float32 *)p)[i];
            ((float32 *)p)[i] = o + 0.25f;
            if (((float32 *)p)[i] == o)
                ((float32 *)p)[i] = o * 2 + 1;
            break;
        }
        case DFNT_FLOAT64: {
            float64 o = ((float64 *)p)[i];
            ((float64 *)p)[i] = o + 0.25;
            if (((float64 *)p)[i] == o)
                ((float64 *)p)[i] = o * 2 + 1;
            break;
        }
    }
}
static long
tc_pos(int which, long n)
{
    return which == 0 ? 0 : which == 1 ? n / 2 : n - 1;
}

/* kinds of generated files:
 * 0 SDS of several types/ranks incl. unlimited and empty, attributes, dimension names/scales, global attributes
 * 1 already chunked / compressed SDS
 * 2 GR images (1 and 3 components, palette, attributes, one RLE-compressed)
 * 3 Vdatas + nested Vgroups (holding SDS, Vdatas, Vgroups) + attributes
 * 4 annotations (file label/description, data label/description on an SDS and on a Vgroup)
 * 5 everything, small */
static int
tc_generate(const char *path, int kind, tc_mut m)
{
    int want_sd = kind == 0 || kind == 1 || kind == 3 || kind == 4 || kind == 5;
    int want_gr = kind == 2 || kind == 5, want_v = kind == 3 || kind == 5, want_an = kind == 4 || kind == 5;
    remove(path);
    int32 sdsref[TC_NSDS + 5];
    memset(sdsref, 0, sizeof sdsref);
    int first = tc_sds_index(kind, 0), npos = tc_nsds(kind);
    if (want_sd) {
        int32 S = SDstart(path, DFACC_CREATE);
        if (S == FAIL)
            return -1;
        for (int it = 0; it < npos; it++) {
            /* mutation 12: the same data sets, created in another order (the last one first) */
            int pos = m.kind == 12 ? (it + npos - 1) % npos : it;
            int k   = tc_sds_index(kind, pos);
            if (m.kind == 9 && m.obj == pos)
                continue; /* removed object */
            int32 dm[3] = {TC_SDS[k].dims[0], TC_SDS[k].dims[1], TC_SDS[k].dims[2]}, st[3] = {0, 0, 0};
            int32 nt = TC_SDS[k].nt, rk = TC_SDS[k].rank;
            long  ne = 1;
            for (int i = 0; i < rk; i++)
                ne *= dm[i];
            int32 cdim[3] = {dm[0], dm[1], dm[2]};
            if (TC_SDS[k].layout == 1)
                cdim[0] = SD_UNLIMITED;
            int32 s = SDcreate(S, TC_SDS[k].name, nt, rk, cdim);
            if (s == FAIL)
                return -1;
            HDF_CHUNK_DEF cd;
            comp_info     ci;
            memset(&cd, 0, sizeof cd);
            memset(&ci, 0, sizeof ci);
            ci.deflate.level = 4;
            switch (TC_SDS[k].layout) {
                case 2:
                    cd.chunk_lengths[0] = 5, cd.chunk_lengths[1] = 10;
                    SDsetchunk(s, cd, HDF_CHUNK);
                    break;
                case 3: SDsetcompress(s, COMP_CODE_DEFLATE, &ci); break;
                case 4:
                    cd.comp.chunk_lengths[0] = 6, cd.comp.chunk_lengths[1] = 8;
                    cd.comp.comp_type           = COMP_CODE_DEFLATE;
                    cd.comp.cinfo.deflate.level = 3;
                    SDsetchunk(s, cd, HDF_CHUNK | HDF_COMP);
                    break;
                case 5: SDsetcompress(s, COMP_CODE_RLE, &ci); break;
            }
            uint8 *v = calloc(1, (size_t)(ne * 8) + 8);
            tc_values(nt, ne, v, k + 1);
            if (m.kind == 1 && m.obj == pos)
                tc_bump(nt, v, tc_pos(m.pos, ne));
            if (TC_SDS[k].layout != 6 && SDwritedata(s, st, NULL, dm, v) == FAIL)
                return -1;
            free(v);
            /* attributes: a string, a multi-element number of the data set's type, a float64 */
            float64 cal[4] = {1.5, -2.25, 1000.125, 3e-3};
            int32   cnt[3] = {7, 70000, -9};
            char    txt[32];
            snprintf(txt, sizeof txt, "units of %s", TC_SDS[k].name);
            if (m.kind == 2 && m.obj == pos) {
                if (m.pos == 0)
                    txt[3] ^= 0x01;
                if (m.pos == 1)
                    tc_bump(DFNT_FLOAT64, cal, 2);
                if (m.pos == 2)
                    tc_bump(DFNT_INT32, cnt, 1);
            }
            SDsetattr(s, "units", DFNT_CHAR8, (int32)strlen(txt), txt);
            SDsetattr(s, "calib", DFNT_FLOAT64, 4, cal);
            SDsetattr(s, "counts", DFNT_INT32, 3, cnt);
            if (k % 2 == 0) {
                uint8 fv[8];
                tc_values(nt, 1, fv, 77);
                SDsetfillvalue(s, fv);
            }
            /* dimensions: names on all, a scale on the last one */
            for (int i = 0; i < rk; i++) {
                char dn[32];
                snprintf(dn, sizeof dn, "%s_d%d", TC_SDS[k].name, i);
                SDsetdimname(SDgetdimid(s, i), dn);
            }
            if (TC_SDS[k].layout != 1) {
                int16 sc[64];
                tc_values(DFNT_INT16, dm[rk - 1], sc, 40 + k);
                if (m.kind == 10 && m.obj == pos)
                    tc_bump(DFNT_INT16, sc, tc_pos(m.pos, dm[rk - 1]));
                SDsetdimscale(SDgetdimid(s, rk - 1), dm[rk - 1], DFNT_INT16, sc);
                SDsetdimstrs(SDgetdimid(s, rk - 1), "axis", "m", "%d");
            }
            if (rk >= 2) {
                /* a dimension that carries strings and an attribute of its own but no scale */
                int32 da = 7 + k;
                SDsetdimstrs(SDgetdimid(s, 0), "rows", "count", NULL);
                SDsetattr(SDgetdimid(s, 0), "dim_note", DFNT_INT32, 1, &da);
            }
            sdsref[k] = SDidtoref(s);
            SDendaccess(s);
        }
        if (m.kind == 8 && m.obj == 0) { /* an added object */
            int32 dm[1] = {3}, st[1] = {0};
            int16 v[3]  = {1, 2, 3};
            int32 s = SDcreate(S, "sds_extra", DFNT_INT16, 1, dm);
            SDwritedata(s, st, NULL, dm, v);
            SDendaccess(s);
        }
        char    title[40] = "generated by the verification harness";
        float32 gv[4]     = {1.0f, 2.5f, -3.75f, 1e6f};
        int16   gi[1]     = {1234};
        if (m.kind == 3) {
            if (m.obj == 0)
                title[5] ^= 0x02;
            if (m.obj == 1)
                tc_bump(DFNT_FLOAT32, gv, m.pos == 0 ? 0 : m.pos == 1 ? 2 : 3);
            if (m.obj == 2)
                gi[0] += 256;
        }
        SDsetattr(S, "title", DFNT_CHAR8, (int32)strlen(title), title);
        SDsetattr(S, "gcalib", DFNT_FLOAT32, 4, gv);
        SDsetattr(S, "gversion", DFNT_INT16, 1, gi);
        if (SDend(S) == FAIL)
            return -1;
    }
    int32 f = Hopen(path, want_sd ? DFACC_RDWR : DFACC_CREATE, 0);
    if (f == FAIL)
        return -1;
    int32 imgref[2] = {0, 0};
    if (want_gr) {
        int32 G = GRstart(f);
        for (int k = 0; k < 3; k++) {
            if (m.kind == 9 && m.obj == 10 + k)
                continue;
            int32 dm[2] = {12 + 3 * k, 9 + k}, st[2] = {0, 0}, nc = k == 1 ? 3 : 1;
            char  nm[16];
            snprintf(nm, sizeof nm, "image_%d", k);
            int32 ri = GRcreate(G, nm, nc, DFNT_UINT8, MFGR_INTERLACE_PIXEL, dm);
            comp_info ci;
            memset(&ci, 0, sizeof ci);
            if (k == 2)
                GRsetcompress(ri, COMP_CODE_RLE, &ci);
            long   nb = (long)dm[0] * dm[1] * nc;
            uint8 *v  = calloc(1, (size_t)nb + 8);
            tc_values(DFNT_UINT8, nb, v, 20 + k);
            if (m.kind == 5 && m.obj == k)
                tc_bump(DFNT_UINT8, v, tc_pos(m.pos, nb));
            GRwriteimage(ri, st, NULL, dm, v);
            free(v);
            if (k == 0) {
                uint8 pal[768];
                for (int i = 0; i < 768; i++)
                    pal[i] = (uint8)((i * 5) & 0xff);
                GRwritelut(GRgetlutid(ri, 0), 3, DFNT_UINT8, MFGR_INTERLACE_PIXEL, 256, pal);
            }
            float32 ga[2] = {0.5f, 8.25f};
            if (m.kind == 7 && m.obj == k)
                tc_bump(DFNT_FLOAT32, ga, m.pos ? 1 : 0);
            GRsetattr(ri, "gain", DFNT_FLOAT32, 2, ga);
            GRendaccess(ri);
        }
        int32 gglob = 42;
        GRsetattr(G, "gr_global", DFNT_INT32, 1, &gglob);
        GRend(G);
        G = GRstart(f);
        for (int k = 0; k < 2; k++) {
            char nm[16];
            snprintf(nm, sizeof nm, "image_%d", k);
            int32 ix = GRnametoindex(G, nm), ri = ix != FAIL ? GRselect(G, ix) : FAIL;
            if (ri != FAIL) {
                imgref[k] = GRidtoref(ri);
                GRendaccess(ri);
            }
        }
        GRend(G);
    }
    Vstart(f);
    int32 vgref_top = 0;
    if (want_v) {
        int32 vsrefs[2];
        for (int k = 0; k < 2; k++) {
            int32 vs = VSattach(f, -1, "w");
            char  nm[16];
            snprintf(nm, sizeof nm, "table_%d", k);
            VSsetname(vs, nm);
            VSsetclass(vs, "measurements");
            VSfdefine(vs, "id", DFNT_INT32, 1);
            VSfdefine(vs, "xyz", DFNT_FLOAT32, 3);
            VSfdefine(vs, "tag", DFNT_CHAR8, 4);
            VSfdefine(vs, "cnt", DFNT_UINT16, 1);
            VSsetfields(vs, "id,xyz,tag,cnt");
            if (k == 1)
                VSsetinterlace(vs, NO_INTERLACE); /* stored field by field; the buffer below is still record by record */
            int   nrec = 5 + 20 * k, rsz = 4 + 12 + 4 + 2;
            uint8 *buf = calloc(1, (size_t)(nrec * rsz) + 8);
            for (int i = 0; i < nrec; i++) {
                int32   id     = 1000 + i * 3 + k;
                float32 xyz[3] = {(float32)i * 0.5f, (float32)(i + k) * 1.25f, -(float32)i};
                char    tg[4]  = {(char)('a' + i % 26), 'b', 'c', (char)('0' + k)};
                if (m.kind == 4 && m.obj == k && i == tc_pos(m.pos, nrec)) {
                    if (m.pos == 1)
                        xyz[1] += 1.0f;
                    else if (m.pos == 0)
                        id ^= 0x100;
                    else
                        tg[2] ^= 0x01;
                }
                memcpy(buf + i * rsz, &id, 4);
                memcpy(buf + i * rsz + 4, xyz, 12);
                memcpy(buf + i * rsz + 16, tg, 4);
                uint16 cnt = (uint16)(30000 + i * 1500 + k); /* crosses 32767 */
                memcpy(buf + i * rsz + 20, &cnt, 2);
            }
            VSwrite(vs, buf, nrec, FULL_INTERLACE);
            free(buf);
            int32 va[2] = {5, 6};
            if (m.kind == 6 && m.obj == k)
                tc_bump(DFNT_INT32, va, m.pos ? 1 : 0);
            VSsetattr(vs, _HDF_VDATA, "vd_attr", DFNT_INT32, 2, va);
            VSsetattr(vs, 1, "field_attr", DFNT_CHAR8, 3, "xyz");
            vsrefs[k] = VSQueryref(vs);
            VSdetach(vs);
        }
        int32 top = Vattach(f, -1, "w"), mid = Vattach(f, -1, "w"), leaf = Vattach(f, -1, "w");
        Vsetname(top, "top_group");
        Vsetclass(top, "user");
        Vsetname(mid, "mid_group");
        Vsetclass(mid, "user");
        Vsetname(leaf, "leaf_group");
        Vsetclass(leaf, "user");
        Vinsert(top, mid);
        Vinsert(mid, leaf);
        Vaddtagref(top, DFTAG_VH, vsrefs[0]);
        Vaddtagref(leaf, DFTAG_VH, vsrefs[1]);
        if (sdsref[first] > 0)
            Vaddtagref(mid, DFTAG_NDG, sdsref[first]);
        float32 ta[3] = {1.f, 2.f, 3.f};
        if (m.kind == 11)
            tc_bump(DFNT_FLOAT32, ta, m.pos == 0 ? 0 : 2);
        Vsetattr(top, "group_attr", DFNT_FLOAT32, 3, ta);
        Vsetattr(leaf, "leaf_note", DFNT_CHAR8, 4, "leaf");
        vgref_top = VQueryref(top);
        Vdetach(leaf);
        Vdetach(mid);
        Vdetach(top);
    }
    if (want_an) {
        int32 A = ANstart(f);
        int32 a = ANcreatef(A, AN_FILE_LABEL);
        ANwriteann(a, "file label text", 15);
        ANendaccess(a);
        a = ANcreatef(A, AN_FILE_DESC);
        ANwriteann(a, "a longer description of this file\nwith two lines", 48);
        ANendaccess(a);
        /* the numbers of file labels and file descriptions differ (in both directions over the kinds) */
        if (kind == 4) {
            a = ANcreatef(A, AN_FILE_DESC);
            ANwriteann(a, "second file description", 23);
            ANendaccess(a);
            a = ANcreatef(A, AN_FILE_DESC);
            ANwriteann(a, "third one", 9);
            ANendaccess(a);
        }
        else {
            a = ANcreatef(A, AN_FILE_LABEL);
            ANwriteann(a, "another file label", 18);
            ANendaccess(a);
        }
        if (sdsref[first] > 0) {
            a = ANcreate(A, DFTAG_NDG, (uint16)sdsref[first], AN_DATA_LABEL);
            ANwriteann(a, "label of the first data set", 27);
            ANendaccess(a);
            a = ANcreate(A, DFTAG_NDG, (uint16)sdsref[first], AN_DATA_DESC);
            ANwriteann(a, "description of the first data set", 33);
            ANendaccess(a);
        }
        /* raster images are annotated under either of two tags (raster image, raster image group) */
        if (imgref[0] > 0) {
            a = ANcreate(A, DFTAG_RI, (uint16)imgref[0], AN_DATA_LABEL);
            ANwriteann(a, "label of image 0 (image tag)", 28);
            ANendaccess(a);
            a = ANcreate(A, DFTAG_RI, (uint16)imgref[0], AN_DATA_DESC);
            ANwriteann(a, "description of image 0 (image tag)", 34);
            ANendaccess(a);
        }
        if (imgref[1] > 0) {
            a = ANcreate(A, DFTAG_RIG, (uint16)imgref[1], AN_DATA_LABEL);
            ANwriteann(a, "label of image 1 (group tag)", 28);
            ANendaccess(a);
        }
        if (vgref_top) {
            a = ANcreate(A, DFTAG_VG, (uint16)vgref_top, AN_DATA_LABEL);
            ANwriteann(a, "label of the top group", 22);
            ANendaccess(a);
        }
        ANend(A);
    }
    Vend(f);
    return Hclose(f) == FAIL ? -1 : 0;
}
#endif
