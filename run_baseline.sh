#!/bin/sh
# Runs the repository's own test suite (guard OFF: the default build never defines HDF4_VERIF).
set -e
cmake --build /repo/_build -j16 >/dev/null
ctest --test-dir /repo/_build -j8 --timeout 900
