#!/bin/bash
# confirm_seed.sh <worktree> <name>: verify a sub-agent's seeded change in its scratch worktree, then store it
# under /verif/seeded/<name>/ . Checks: patch applies to /repo HEAD content, suite passes with the change,
# demo exits 1 with the change and 0 against the unchanged /repo build.
set -u
WT=$1; NAME=$2; OUT=/verif/seeded/$NAME
[ -f $WT/seed_out/patch.diff ] || { echo "no patch"; exit 2; }
cd $WT
cmake --build _build -j8 >/dev/null 2>&1 || { echo "BUILD FAILED"; exit 2; }
T=$(ctest --test-dir _build -j8 --timeout 900 2>&1 | grep -E "tests passed|tests failed")
echo "suite with change: $T"
LIBS_W="$WT/_build/bin/libmfhdf.a $WT/_build/bin/libhdf.a"
LIBS_R="/repo/_build/bin/libmfhdf.a /repo/_build/bin/libhdf.a"
mkdir -p /tmp/seed/demo_$NAME && cd /tmp/seed/demo_$NAME
gcc -w -I$WT/hdf/src -I$WT/mfhdf/src -I$WT/_build $WT/seed_out/demo.c $LIBS_W -ljpeg -lz -lm -ldl -o demo_with || { echo "demo compile failed"; exit 2; }
gcc -w -I/repo/hdf/src -I/repo/mfhdf/src -I/repo/_build $WT/seed_out/demo.c $LIBS_R -ljpeg -lz -lm -ldl -o demo_without || { echo "demo compile failed"; exit 2; }
# demos for tool properties take the tool path from argv[1] or $HDIFF/$HREPACK/$HDP/$HDFIMPORT
TOOLARG_W=""; TOOLARG_O=""
for t in hdiff hrepack hdp hdfimport; do
  if grep -q "$t" $WT/seed_out/demo.c && grep -q "argv\[1\]" $WT/seed_out/demo.c && grep -q "bin/$t" $WT/seed_out/demo.c; then TOOLARG_W="$WT/_build/bin/$t"; TOOLARG_O="/repo/_build/bin/$t"; fi
done
(HDIFF=$WT/_build/bin/hdiff HREPACK=$WT/_build/bin/hrepack HDP=$WT/_build/bin/hdp HDFIMPORT=$WT/_build/bin/hdfimport ./demo_with $TOOLARG_W >/dev/null 2>&1); W=$?
(HDIFF=/repo/_build/bin/hdiff HREPACK=/repo/_build/bin/hrepack HDP=/repo/_build/bin/hdp HDFIMPORT=/repo/_build/bin/hdfimport ./demo_without $TOOLARG_O >/dev/null 2>&1); O=$?
echo "demo with change: exit $W ; without: exit $O"
cd /; rm -rf /tmp/seed/demo_$NAME
case "$T" in *"100% tests passed"*) ;; *) echo "REJECT: suite fails"; exit 1;; esac
[ $W -ne 0 ] && [ $O -eq 0 ] || { echo "REJECT: demo does not discriminate"; exit 1; }
mkdir -p $OUT
cp $WT/seed_out/patch.diff $WT/seed_out/demo.c $OUT/
python3 - "$WT/seed_out/meta.json" "$OUT/meta.json" "$T" "$W" "$O" <<'PY'
import json,sys
try: m=json.load(open(sys.argv[1]))
except Exception: m={}
m["confirmed"]={"suite_with_change":sys.argv[3].strip(),"demo_exit_with_change":int(sys.argv[4]),"demo_exit_without_change":int(sys.argv[5]),
 "how":"tools/confirm_seed.sh: rebuilt the scratch worktree, ran ctest -j8 there, compiled demo.c against the changed build and against /repo/_build (unchanged)"}
json.dump(m,open(sys.argv[2],"w"),indent=1)
PY
echo "STORED $OUT"
