#!/usr/bin/env python3
"""manifest_add.py <id> <category> <technique> <text-file>: register a check in MANIFEST.json (text-file: line 1 = level_note, rest = level text)."""
import json, sys
pid, cat, tech, tf = sys.argv[1:5]
lines = open(tf).read().strip().split("\n")
note, text = lines[0], " ".join(l.strip() for l in lines[1:] if l.strip())
m = json.load(open("/verif/MANIFEST.json"))
m["checks"] = [c for c in m["checks"] if c["property_id"] != pid]
m["checks"].append({
    "property_id": pid,
    "quick_cmd": "python3 verif.py %s quick" % pid,
    "thorough_cmd": "python3 verif.py %s thorough" % pid,
    "evidence_file": "/verif/evidence/%s.json" % pid,
    "replay_cmd_template": "python3 verif.py replay %s {path}" % pid,
    "engine": "h4mc",
    "level_claimed": {"category": cat, "text": text, "design_ref": "DESIGN.md §5 %s" % pid},
    "level_note": note,
    "technique": tech,
})
m["checks"].sort(key=lambda c: c["property_id"])
m["not_applicable"] = [n for n in m["not_applicable"] if n["property_id"] != pid]
json.dump(m, open("/verif/MANIFEST.json", "w"), indent=1)
print("registered", pid, "not_applicable now:", [n["property_id"] for n in m["not_applicable"]])
