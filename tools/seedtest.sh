#!/bin/bash
# seedtest.sh <name> <Cxx> [tier]: apply seeded/<name>/patch.diff to /repo, run the check, undo.
NAME=$1; PROP=$2; TIER=${3:-quick}
git -C /repo apply /verif/seeded/$NAME/patch.diff || exit 2
cd /verif && python3 verif.py $PROP $TIER > /tmp/seedtest_$NAME.$PROP.log 2>&1; RC=$?
git -C /repo checkout -- .
grep -E "^VIOLATION|OK:|FAILED:|KNOWN" /tmp/seedtest_$NAME.$PROP.log | head -5
echo "seed=$NAME check=$PROP/$TIER rc=$RC"
