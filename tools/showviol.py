#!/usr/bin/env python3
import json,collections,sys
prop=sys.argv[1]; tier=sys.argv[2] if len(sys.argv)>2 else 'quick'
n=int(sys.argv[3]) if len(sys.argv)>3 else 2
c=collections.OrderedDict()
for l in open('/verif/build/run/%s.%s/violations.jsonl'%(prop,tier)):
    v=json.loads(l); c.setdefault(v['sig'],[]).append(v)
st=json.load(open('/verif/build/run/%s.%s/stats.json'%(prop,tier)))
sc=st.get('sigcounts') or {}
for k,t in c.items():
    print('##',k, sc.get(k,''))
    for v in t[:n]:
        d=v['detail']
        if 'asan' in k: d=d[:900].replace(' | ','\n        ')
        print('    cfg',v['config'],'|',v.get('ops_desc') or '', '|', v.get('case','')[:160]); print('       ',d[:900])
