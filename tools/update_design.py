#!/usr/bin/env python3
"""Regenerate the tables of DESIGN.md section 9.4 (fix commits) and 9.5 (known findings) from /repo's history and known_findings.json."""
import json, re, subprocess
p = '/verif/DESIGN.md'
s = open(p).read()
log = subprocess.run("git -C /repo log --reverse --format='%h %s'", shell=True, capture_output=True, text=True).stdout.splitlines()
fixes = [l for l in log if l.split(' ', 1)[1].startswith('fix:')]
ft = "| commit | what was wrong |\n|---|---|\n" + "".join("| `%s` | %s |\n" % (l.split(' ', 1)[0], l.split(' ', 1)[1][5:].replace('|', '\\|')) for l in fixes)
k = json.load(open('/verif/known_findings.json'))
kn = [f for f in k['findings'] if f['status'] == 'known']
kt = "| id | property | what fails |\n|---|---|---|\n" + "".join("| %s | %s | %s |\n" % (f['id'], f['property'], f['description'].replace('|', '\\|')) for f in kn)
def put(s, tag, body):
    b, e = "<!-- %s-BEGIN -->" % tag, "<!-- %s-END -->" % tag
    if b in s:
        return s[:s.index(b) + len(b)] + "\n" + body + s[s.index(e):]
    raise SystemExit("marker %s missing" % tag)
s = put(s, "FIXES", ft)
s = put(s, "KNOWN", kt)
s = re.sub(r"### 9\.4 Genuine defects repaired in `/repo` \(\d+ `fix:` commits\)", "### 9.4 Genuine defects repaired in `/repo` (%d `fix:` commits)" % len(fixes), s)
s = re.sub(r"the \d+ genuine defects repaired in `/repo` by `fix:` commits, the \d+ defects recorded as known\nfindings", "the %d genuine defects repaired in `/repo` by `fix:` commits, the %d defects recorded as known\nfindings" % (len(fixes), len(kn)), s)
open(p, 'w').write(s)
print(len(fixes), "fixes,", len(kn), "known findings")
